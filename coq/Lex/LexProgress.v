(** * Lex/LexProgress.v — C07, facts that hold for EVERY byte string (valid UTF-8 or not):
    the scanner model never runs out of fuel, every scan step consumes at least one byte, token
    extents are increasing, non-empty, inside the input, and literals are the bytes of the extent;
    errors are only ever appended. *)
From Coq Require Import List NArith ZArith Bool Lia ZifyBool ZifyNat ZifyN.
From ApiFu Require Import Base.Sexp Lex.ListAux Lex.Utf8 Lex.LexModel.
Import ListNotations.
Open Scope Z_scope.

Ltac Zify.zify_post_hook ::= Z.div_mod_to_equations.

(** ** DecodeRune *)
Ltac break_decode :=
  repeat match goal with
         | |- context [if ?b then _ else _] => destruct b eqn:?
         | |- context [match ?l with [] => _ | _ :: _ => _ end] => destruct l
         end.

Lemma decode_rune_size_le p : (snd (decode_rune p) <= length p)%nat.
Proof. unfold decode_rune. break_decode; cbn [snd length]; lia. Qed.

Lemma decode_rune_size_pos p : p <> [] -> (1 <= snd (decode_rune p))%nat.
Proof. intro H. unfold decode_rune. destruct p as [|p0 t]; [congruence|]. break_decode; cbn [snd]; lia. Qed.

Lemma decode_rune_nonneg p : 0 <= fst (decode_rune p).
Proof.
  unfold decode_rune, RuneError, zb. destruct p as [|p0 t]; cbn [fst]; [lia|].
  break_decode; cbn [fst]; lia.
Qed.

Lemma read_next_rune_size_le p : (snd (read_next_rune p) <= length p)%nat.
Proof. destruct p; [simpl; lia|]. apply decode_rune_size_le. Qed.

Lemma read_next_rune_size_pos p : p <> [] -> (1 <= snd (read_next_rune p))%nat.
Proof. destruct p; [congruence|]. intros _. apply decode_rune_size_pos. congruence. Qed.

Lemma read_next_rune_eof p : fst (read_next_rune p) = -1 <-> p = [].
Proof.
  destruct p as [|b t]; [simpl; tauto|].
  split; [|congruence]. intro H. pose proof (decode_rune_nonneg (b :: t)) as Hn.
  unfold read_next_rune in H. lia.
Qed.

Lemma next_rune_not_done st : next_rune st <> -1 -> is_done st = false.
Proof.
  unfold next_rune, is_done. intro H. destruct (s_rest st) eqn:E; [|reflexivity].
  exfalso. apply H. reflexivity.
Qed.

Lemma is_done_false st : is_done st = false <-> s_rest st <> [].
Proof. unfold is_done. destruct (s_rest st); split; congruence. Qed.

(** ** The step relation: [st'] is reached from [st] by [consume_rune] (only where the input is
    not exhausted) and [errorf]; [nsteps d k] counts the consumed runes.  As long as no error has
    been reported ([d = false]) only validly encoded runes are consumed; [errorf] switches to
    [d = true], where anything may be consumed. *)
Inductive nsteps : bool -> nat -> state -> state -> Prop :=
| nsteps_refl d st : nsteps d 0 st st
| nsteps_consume d k st st' : is_done st = false -> next_invalid st = false ->
    nsteps d k (consume_rune st) st' -> nsteps d (S k) st st'
| nsteps_consume_any k st st' : is_done st = false ->
    nsteps true k (consume_rune st) st' -> nsteps true (S k) st st'
| nsteps_errorf d k st st' : nsteps true k (errorf st) st' -> nsteps d k st st'.

(** at least [m] runes consumed *)
Definition steps (m : nat) (st st' : state) : Prop := exists k, (m <= k)%nat /\ nsteps false k st st'.

Lemma nsteps_dirty d k st st' : nsteps d k st st' -> nsteps true k st st'.
Proof.
  induction 1 as [d st|d k st st' Hd Hv H IH|k st st' Hd H IH|d k st st' H IH].
  - constructor.
  - apply nsteps_consume_any; auto.
  - apply nsteps_consume_any; auto.
  - apply nsteps_errorf; auto.
Qed.

Lemma nsteps_trans d a b st st1 st2 : nsteps d a st st1 -> nsteps false b st1 st2 -> nsteps d (a + b) st st2.
Proof.
  intros H1 H2. induction H1 as [d st|d k st st' Hd Hv H IH|k st st' Hd H IH|d k st st' H IH]; cbn [Nat.add].
  - destruct d; [apply nsteps_dirty in H2|]; exact H2.
  - apply nsteps_consume; auto.
  - apply nsteps_consume_any; auto.
  - apply nsteps_errorf; auto.
Qed.

Lemma steps_refl st : steps 0 st st.
Proof. exists 0%nat. split; [lia|constructor]. Qed.

Lemma steps_trans a b st st1 st2 : steps a st st1 -> steps b st1 st2 -> steps (a + b) st st2.
Proof.
  intros (k1 & Hm1 & H1) (k2 & Hm2 & H2). exists (k1 + k2)%nat. split; [lia|].
  eapply nsteps_trans; eassumption.
Qed.

Lemma steps_weaken a b st st' : steps a st st' -> (b <= a)%nat -> steps b st st'.
Proof. intros (k & Hm & H) Hle. exists k. split; [lia|exact H]. Qed.

(** consuming a validly encoded rune *)
Lemma steps_consume st : is_done st = false -> next_invalid st = false -> steps 1 st (consume_rune st).
Proof. intros Hd Hv. exists 1%nat. split; [lia|]. apply nsteps_consume; [exact Hd|exact Hv|constructor]. Qed.

Lemma steps_errorf st : steps 0 st (errorf st).
Proof. exists 0%nat. split; [lia|]. apply nsteps_errorf. constructor. Qed.

(** reporting an error and consuming whatever is there *)
Lemma steps_error_consume st : is_done st = false -> steps 1 st (consume_rune (errorf st)).
Proof.
  intro Hd. exists 1%nat. split; [lia|]. apply nsteps_errorf. apply nsteps_consume_any; [exact Hd|constructor].
Qed.

Lemma next_rune_valid st : next_rune st <> RuneError -> next_invalid st = false.
Proof. intro H. unfold next_invalid. destruct (next_rune st =? RuneError) eqn:E; [lia|reflexivity]. Qed.

(** every consumed rune leaves less input *)
Lemma consume_length st : is_done st = false ->
  (length (s_rest (consume_rune st)) + 1 <= length (s_rest st))%nat.
Proof.
  intro Hd. apply is_done_false in Hd. unfold consume_rune. cbn [s_rest]. rewrite skipn_length. unfold next_size.
  pose proof (read_next_rune_size_le (s_rest st)). pose proof (read_next_rune_size_pos _ Hd). lia.
Qed.

(** anything preserved by the two primitive moves is preserved by [steps] *)
Lemma steps_preserve (P : state -> Prop) :
  (forall st, P st -> is_done st = false -> P (consume_rune st)) ->
  (forall st, P st -> P (errorf st)) ->
  forall m st st', steps m st st' -> P st -> P st'.
Proof.
  intros Hc He m st st' (k & _ & H). revert H. generalize false as d. intros d H.
  induction H as [d st|d k st st' Hd Hv H IH|k st st' Hd H IH|d k st st' H IH]; intro HP.
  - exact HP.
  - apply IH. apply Hc; assumption.
  - apply IH. apply Hc; assumption.
  - apply IH. apply He; assumption.
Qed.

(** the bytes consumed: a suffix of the remaining input, offsets agree, errors are appended *)
Lemma nsteps_extent d k st st' : nsteps d k st st' ->
  exists j : nat, (k <= j)%nat /\ (j <= length (s_rest st))%nat /\
    s_rest st' = skipn j (s_rest st) /\ s_off st' = s_off st + Z.of_nat j /\
    exists l, s_errs st' = s_errs st ++ l.
Proof.
  assert (CONS : forall k st st', is_done st = false ->
            (exists j : nat, (k <= j)%nat /\ (j <= length (s_rest (consume_rune st)))%nat /\
               s_rest st' = skipn j (s_rest (consume_rune st)) /\ s_off st' = s_off (consume_rune st) + Z.of_nat j /\
               exists l, s_errs st' = s_errs (consume_rune st) ++ l) ->
            exists j : nat, (S k <= j)%nat /\ (j <= length (s_rest st))%nat /\
               s_rest st' = skipn j (s_rest st) /\ s_off st' = s_off st + Z.of_nat j /\
               exists l, s_errs st' = s_errs st ++ l).
  { clear. intros k st st' Hd (j & Hk & Hl & Hr & Ho & l & He).
    apply is_done_false in Hd.
    pose proof (read_next_rune_size_le (s_rest st)) as Hle.
    pose proof (read_next_rune_size_pos _ Hd) as Hpos.
    unfold consume_rune in Hl, Hr, Ho, He. cbn [s_rest s_off s_errs] in Hl, Hr, Ho, He.
    unfold next_size in *. rewrite skipn_length in Hl.
    exists (snd (read_next_rune (s_rest st)) + j)%nat. repeat split; try lia.
    + rewrite Hr, skipn_skipn. reflexivity.
    + exists l. exact He. }
  induction 1 as [d st|d k st st' Hd Hv H IH|k st st' Hd H IH|d k st st' H IH].
  - exists 0%nat. repeat split; try lia. exists []. now rewrite app_nil_r.
  - apply CONS; assumption.
  - apply CONS; assumption.
  - destruct IH as (j & Hk & Hl & Hr & Ho & l & He).
    unfold errorf in Hl, Hr, Ho, He. cbn [s_rest s_off s_errs] in Hl, Hr, Ho, He.
    exists j. repeat split; try lia; try assumption.
    eexists. rewrite He, <- app_assoc. reflexivity.
Qed.

Lemma steps_extent m st st' : steps m st st' ->
  exists j : nat, (m <= j)%nat /\ (j <= length (s_rest st))%nat /\
    s_rest st' = skipn j (s_rest st) /\ s_off st' = s_off st + Z.of_nat j /\
    exists l, s_errs st' = s_errs st ++ l.
Proof.
  intros (k & Hm & H). destruct (nsteps_extent _ _ _ _ H) as (j & Hk & R). exists j. split; [lia|exact R].
Qed.

Lemma steps_off m st st' : steps m st st' -> s_off st + Z.of_nat m <= s_off st'.
Proof. intro H. destruct (steps_extent _ _ _ H) as (k & Hm & _ & _ & Ho & _). lia. Qed.

Lemma steps_length m st st' : steps m st st' -> (length (s_rest st') + m <= length (s_rest st))%nat.
Proof. intro H. destruct (steps_extent _ _ _ H) as (k & Hm & Hl & Hr & _). rewrite Hr, skipn_length. lia. Qed.

Lemma steps_errs m st st' : steps m st st' -> exists l, s_errs st' = s_errs st ++ l.
Proof. intro H. destruct (steps_extent _ _ _ H) as (k & _ & _ & _ & _ & He). exact He. Qed.

(** composition helpers: [steps a st st1] then [steps b st1 st2] gives any bound [<= a + b] *)
Lemma steps_then a b c st st1 st2 :
  steps a st st1 -> steps b st1 st2 -> (c <= a + b)%nat -> steps c st st2.
Proof. intros H1 H2 Hc. eapply steps_weaken; [eapply steps_trans; eassumption|exact Hc]. Qed.

(** prove [is_done st = false] from boolean facts about [next_rune st] in the context *)
Ltac not_done := first [apply next_rune_not_done; lia | apply next_rune_valid; unfold RuneError; lia].

Lemma steps_consume_if (b : bool) st :
  (b = true -> is_done st = false) -> (b = true -> next_invalid st = false) ->
  steps 0 st (if b then consume_rune st else st).
Proof.
  intros H Hv. destruct b; [|apply steps_refl].
  eapply steps_weaken; [apply steps_consume; auto|lia].
Qed.

Lemma steps_errorf_if (b : bool) st : steps 0 st (if b then errorf st else st).
Proof. destruct b; [apply steps_errorf|apply steps_refl]. Qed.

(** ** [consume_while] (for predicates that hold of no U+FFFD: the runes consumed are valid) *)
Definition valid_pred (p : rune -> bool) : Prop := forall r, p r = true -> r <> RuneError.

Lemma is_digit_valid : valid_pred is_digit.
Proof. intros r H. unfold is_digit in H. unfold RuneError. lia. Qed.
Lemma is_name_continue_valid : valid_pred is_name_continue.
Proof. intros r H. unfold is_name_continue in H. unfold RuneError. lia. Qed.

Lemma consume_while_ok p : valid_pred p -> forall fuel st, (length (s_rest st) <= fuel)%nat ->
  exists st', consume_while fuel p st = Some st' /\ steps 0 st st'.
Proof.
  intro Hp. induction fuel as [|f IH]; intros st Hf.
  - assert (Hd : is_done st = true) by (unfold is_done; destruct (s_rest st); [reflexivity|simpl in Hf; lia]).
    exists st. split; [|apply steps_refl]. cbn [consume_while]. rewrite Hd. reflexivity.
  - cbn [consume_while]. destruct (negb (is_done st) && p (next_rune st)) eqn:E.
    + assert (Hd : is_done st = false) by (destruct (is_done st); [discriminate|reflexivity]).
      assert (Hv : next_invalid st = false).
      { apply next_rune_valid, Hp. rewrite Hd in E. exact E. }
      pose proof (steps_consume st Hd Hv) as Hs. pose proof (steps_length _ _ _ Hs) as Hl.
      destruct (IH (consume_rune st)) as (st' & H1 & H2); [lia|].
      exists st'. split; [exact H1|]. eapply steps_then; [exact Hs|exact H2|lia].
    + exists st. split; [reflexivity|apply steps_refl].
Qed.

Lemma consume_while_self p st : valid_pred p ->
  exists st', consume_while (fuel_of st) p st = Some st' /\ steps 0 st st'.
Proof. intro Hp. apply consume_while_ok; [exact Hp|]. unfold fuel_of. lia. Qed.

Lemma consume_while_steps p : valid_pred p ->
  forall fuel st st', consume_while fuel p st = Some st' -> steps 0 st st'.
Proof.
  intro Hp. induction fuel as [|f IH]; intros st st' H; cbn [consume_while] in H;
    destruct (negb (is_done st) && p (next_rune st)) eqn:E; try discriminate.
  - inversion H; subst. apply steps_refl.
  - assert (Hd : is_done st = false) by (destruct (is_done st); [discriminate|reflexivity]).
    assert (Hv : next_invalid st = false).
    { apply next_rune_valid, Hp. rewrite Hd in E. exact E. }
    eapply steps_then; [apply steps_consume; [exact Hd|exact Hv]|eapply IH; exact H|lia].
  - inversion H; subst. apply steps_refl.
Qed.

(** when the loop condition holds at the start, at least one rune is consumed *)
Lemma consume_while_first p fuel st st' : valid_pred p -> consume_while fuel p st = Some st' ->
  is_done st = false -> p (next_rune st) = true -> steps 1 st st'.
Proof.
  intros Hvp H Hd Hp. destruct fuel as [|f]; cbn [consume_while] in H; rewrite Hd, Hp in H; cbn [negb andb] in H.
  - discriminate.
  - eapply steps_then; [apply steps_consume; [exact Hd|apply next_rune_valid, Hvp, Hp]|eapply consume_while_steps; [exact Hvp|exact H]|lia].
Qed.

(** what holds where the loop stops *)
Lemma consume_while_stop p : forall fuel st st', consume_while fuel p st = Some st' ->
  is_done st' = true \/ p (next_rune st') = false.
Proof.
  induction fuel as [|f IH]; intros st st' H; cbn [consume_while] in H;
    destruct (negb (is_done st) && p (next_rune st)) eqn:E; try discriminate.
  - inversion H; subst. destruct (is_done st'); [left; reflexivity|right; simpl in E; exact E].
  - eapply IH; eassumption.
  - inversion H; subst. destruct (is_done st'); [left; reflexivity|right; simpl in E; exact E].
Qed.

(** ** the consume* functions: always defined; the flag says whether something was consumed *)
Definition flag_steps (b : bool) : nat := if b then 1%nat else 0%nat.

Lemma consume_name_ok st : exists b st', consume_name st = Some (b, st') /\
  steps (flag_steps b) st st' /\ (b = false -> st' = st).
Proof.
  unfold consume_name. destruct (is_name_start (next_rune st)) eqn:E.
  - destruct (consume_while_self is_name_continue (consume_rune st) is_name_continue_valid) as (st2 & H1 & H2).
    rewrite H1. exists true, st2. split; [reflexivity|]. split; [|discriminate].
    unfold is_name_start in E.
    eapply steps_then; [apply steps_consume; not_done|exact H2|simpl; lia].
  - exists false, st. split; [reflexivity|]. split; [apply steps_refl|reflexivity].
Qed.

Lemma consume_integer_part_ok st : exists b st', consume_integer_part st = Some (b, st') /\
  steps (flag_steps b) st st' /\ (b = false -> st' = st).
Proof.
  unfold consume_integer_part.
  destruct ((next_rune st =? 45) && is_digit (peek st)) eqn:E.
  - (* a minus sign followed by a digit *)
    assert (Hd : is_done st = false) by not_done.
    assert (Hs : steps 1 st (consume_rune st)) by (apply steps_consume; not_done).
    set (st1 := consume_rune st) in *.
    destruct (next_rune st1 =? 48) eqn:E0.
    + exists true, (consume_rune st1). split; [reflexivity|]. split; [|discriminate].
      eapply steps_then; [exact Hs|apply steps_consume; not_done|simpl; lia].
    + destruct (negb (is_digit (next_rune st1))) eqn:E1.
      * (* cannot say st1 = st here; this branch is unreachable but harmless: report true steps *)
        exists false, st1. split; [reflexivity|].
        (* peek st is a digit, so next_rune st1 is: contradiction *)
        exfalso.
        assert (Hp : peek st = next_rune st1 \/ s_rest st1 = []).
        { unfold peek, next_rune, st1, consume_rune. cbn [s_rest]. unfold read_next_rune.
          destruct (skipn (next_size st) (s_rest st)); [right; reflexivity|left; reflexivity]. }
        destruct Hp as [Hp|Hp].
        -- rewrite Hp in E. destruct (is_digit (next_rune st1)); [discriminate E1|rewrite andb_false_r in E; discriminate E].
        -- unfold peek in E. unfold st1, consume_rune in Hp. cbn [s_rest] in Hp. rewrite Hp in E.
           unfold is_digit, decode_rune, RuneError in E. cbn [fst] in E. lia.
      * destruct (consume_while_self is_digit st1 is_digit_valid) as (st2 & H1 & H2). rewrite H1.
        exists true, st2. split; [reflexivity|]. split; [|discriminate].
        eapply steps_then; [exact Hs|exact H2|simpl; lia].
  - destruct (next_rune st =? 48) eqn:E0.
    + exists true, (consume_rune st). split; [reflexivity|]. split; [|discriminate].
      apply steps_consume; not_done.
    + destruct (negb (is_digit (next_rune st))) eqn:E1.
      * exists false, st. split; [reflexivity|]. split; [apply steps_refl|reflexivity].
      * destruct (consume_while_self is_digit st is_digit_valid) as (st2 & H1 & H2). rewrite H1.
        exists true, st2. split; [reflexivity|]. split; [|discriminate].
        assert (Hdig : is_digit (next_rune st) = true) by (destruct (is_digit (next_rune st)); [reflexivity|discriminate]).
        eapply consume_while_first; [exact is_digit_valid|exact H1| |exact Hdig].
        unfold is_digit in Hdig. not_done.
Qed.

Lemma consume_fractional_part_ok st : exists b st', consume_fractional_part st = Some (b, st') /\
  steps (flag_steps b) st st' /\ (b = false -> st' = st).
Proof.
  unfold consume_fractional_part.
  destruct (negb (next_rune st =? 46) || negb (is_digit (peek st))) eqn:E.
  - exists false, st. split; [reflexivity|]. split; [apply steps_refl|reflexivity].
  - destruct (consume_while_self is_digit (consume_rune st) is_digit_valid) as (st2 & H1 & H2). rewrite H1.
    exists true, st2. split; [reflexivity|]. split; [|discriminate].
    eapply steps_then; [apply steps_consume; not_done|exact H2|simpl; lia].
Qed.

Lemma consume_exponent_part_ok st : exists b st', consume_exponent_part st = Some (b, st') /\
  steps (flag_steps b) st st' /\ (b = false -> st' = st).
Proof.
  unfold consume_exponent_part.
  destruct (negb (next_rune st =? 101) && negb (next_rune st =? 69)) eqn:E.
  - exists false, st. split; [reflexivity|]. split; [apply steps_refl|reflexivity].
  - set (st1 := consume_rune st).
    set (st2 := if (next_rune st1 =? 43) || (next_rune st1 =? 45) then consume_rune st1 else st1).
    set (st3 := if negb (is_digit (next_rune st2)) then errorf st2 else st2).
    destruct (consume_while_self is_digit st3 is_digit_valid) as (st4 & H1 & H2). rewrite H1.
    exists true, st4. split; [reflexivity|]. split; [|discriminate].
    assert (S1 : steps 1 st st1) by (apply steps_consume; not_done).
    assert (S2 : steps 0 st1 st2) by (apply steps_consume_if; intro; not_done).
    assert (S3 : steps 0 st2 st3) by apply steps_errorf_if.
    assert (S12 : steps 1 st st2) by (eapply steps_then; [exact S1|exact S2|lia]).
    assert (S13 : steps 1 st st3) by (eapply steps_then; [exact S12|exact S3|lia]).
    eapply steps_then; [exact S13|exact H2|simpl; lia].
Qed.

(** [peek] is the rune after the next one, except at the end of input (RuneError instead of -1) *)
Lemma peek_spec st :
  (s_rest (consume_rune st) = [] /\ peek st = RuneError) \/
  (s_rest (consume_rune st) <> [] /\ peek st = next_rune (consume_rune st)).
Proof.
  unfold peek, next_rune, consume_rune. cbn [s_rest]. unfold read_next_rune.
  destruct (skipn (next_size st) (s_rest st)) as [|b t]; [left|right]; split; try reflexivity; congruence.
Qed.

Lemma peek_next st c : peek st = c -> c <> RuneError -> next_rune (consume_rune st) = c.
Proof. intros H Hc. destruct (peek_spec st) as [[_ Hp]|[_ Hp]]; congruence. Qed.

(** ** strings *)
Lemma hex_rune_known r : (hex_rune_value r <? 0) = false -> r <> -1 /\ r <> RuneError.
Proof.
  unfold hex_rune_value, RuneError.
  destruct ((48 <=? r) && (r <=? 57)) eqn:E1; [lia|].
  destruct ((97 <=? r) && (r <=? 102)) eqn:E2; [lia|].
  destruct ((65 <=? r) && (r <=? 70)) eqn:E3; lia.
Qed.

Lemma hex4_steps : forall n st code, steps 0 st (fst (hex4 n st code)).
Proof.
  induction n as [|n IH]; intros st code; cbn [hex4].
  - apply steps_refl.
  - destruct (hex_rune_value (next_rune st) <? 0) eqn:E; cbn [fst].
    + apply steps_errorf.
    + apply hex_rune_known in E as [E1 E2].
      eapply steps_then; [apply steps_consume| apply IH |lia].
      * apply next_rune_not_done. exact E1.
      * apply next_rune_valid. exact E2.
Qed.

Lemma escaped_step_steps st value : is_done st = false -> steps 1 st (fst (escaped_step st value)).
Proof.
  intro Hd. unfold escaped_step.
  repeat match goal with
         | |- context [if ?b then _ else _] => destruct b eqn:?
         end; cbn [fst]; try (apply steps_consume; [exact Hd|not_done]).
  - destruct (hex4 4 (consume_rune st) 0) as [st1 code] eqn:Eh. cbn [fst].
    eapply steps_then; [apply steps_consume; [exact Hd|not_done]| |lia].
    pose proof (hex4_steps 4 (consume_rune st) 0) as H. rewrite Eh in H. exact H.
  - apply steps_error_consume. exact Hd.
Qed.

Lemma string_loop_ok is_block : forall fuel st value esc, (length (s_rest st) <= fuel)%nat ->
  exists st' value' t, string_loop fuel is_block st value esc = Some (st', value', t) /\ steps 0 st st'.
Proof.
  induction fuel as [|f IH]; intros st value esc Hf.
  - assert (Hd : is_done st = true) by (unfold is_done; destruct (s_rest st); [reflexivity|simpl in Hf; lia]).
    cbn [string_loop]. rewrite Hd. exists st, value, false. split; [reflexivity|apply steps_refl].
  - cbn [string_loop]. destruct (is_done st) eqn:Hd.
    { exists st, value, false. split; [reflexivity|apply steps_refl]. }
    pose proof (steps_consume st Hd) as S1.
    (* every recursive call is on a state reached by at least one consumed rune *)
    assert (REC : forall st1 v e, steps 1 st st1 ->
              exists st' value' t, string_loop f is_block st1 v e = Some (st', value', t) /\ steps 0 st st').
    { intros st1 v e Hs. pose proof (steps_length _ _ _ Hs) as Hl.
      destruct (IH st1 v e) as (st' & v' & t & H1 & H2); [lia|].
      exists st', v', t. split; [exact H1|]. eapply steps_then; [exact Hs|exact H2|lia]. }
    destruct esc.
    { destruct (escaped_step st value) as [st1 value1] eqn:Ee.
      apply REC. pose proof (escaped_step_steps st value Hd) as H. rewrite Ee in H. exact H. }
    destruct ((next_rune st =? 10) || (next_rune st =? 13)) eqn:Enl.
    { destruct (negb is_block).
      - exists st, value, false. split; [reflexivity|apply steps_refl].
      - destruct ((next_rune st =? 13) && (next_rune (consume_rune st) =? 10)) eqn:Ecrlf.
        + apply REC. eapply steps_then; [apply S1; not_done|apply steps_consume; not_done|lia].
        + apply REC. apply S1; not_done. }
    destruct (next_rune st =? 92) eqn:Ebs.
    { destruct (negb is_block); [apply REC; apply S1; not_done|].
      destruct (negb (next_rune (consume_rune st) =? 34)) eqn:Eq; [apply REC; apply S1; not_done|].
      assert (S2 : steps 2 st (consume_rune (consume_rune st))).
      { eapply steps_then; [apply S1; not_done|apply steps_consume; not_done|lia]. }
      destruct ((next_rune (consume_rune (consume_rune st)) =? 34) && (peek (consume_rune (consume_rune st)) =? 34)) eqn:Eqq.
      - apply REC.
        assert (N3 : next_rune (consume_rune (consume_rune (consume_rune st))) = 34).
        { apply peek_next; [lia|unfold RuneError; lia]. }
        assert (S3 : steps 3 st (consume_rune (consume_rune (consume_rune st)))).
        { eapply steps_then; [exact S2|apply steps_consume; not_done|lia]. }
        eapply steps_then; [exact S3|apply steps_consume; not_done|lia].
      - apply REC. eapply steps_weaken; [exact S2|lia]. }
    destruct (next_rune st =? 34) eqn:Eq.
    { destruct is_block.
      - destruct ((next_rune (consume_rune st) =? 34) && (peek (consume_rune st) =? 34)) eqn:Eqq.
        + assert (N2 : next_rune (consume_rune (consume_rune st)) = 34).
          { apply peek_next; [lia|unfold RuneError; lia]. }
          exists (consume_rune (consume_rune (consume_rune st))), value, true. split; [reflexivity|].
          assert (S2 : steps 2 st (consume_rune (consume_rune st))).
          { eapply steps_then; [apply S1; not_done|apply steps_consume; not_done|lia]. }
          eapply steps_then; [exact S2|apply steps_consume; not_done|lia].
        + apply REC. apply S1; not_done.
      - exists (consume_rune st), value, true. split; [reflexivity|]. eapply steps_weaken; [apply S1; not_done|lia]. }
    assert (SE : steps 1 st (consume_rune (errorf st))).
    { apply steps_error_consume. exact Hd. }
    destruct (next_invalid st) eqn:Ev; [apply REC; exact SE|].
    destruct (negb (is_source_character (next_rune st))); [apply REC; exact SE|].
    apply REC. apply S1. reflexivity.
Qed.


Lemma removelast_length {A} (l : list A) : length (removelast l) = (length l - 1)%nat.
Proof.
  induction l as [|x l IH]; [reflexivity|]. destruct l as [|y l]; [reflexivity|].
  change (removelast (x :: y :: l)) with (x :: removelast (y :: l)). cbn [length] in *. lia.
Qed.

Lemma strip_blank_total : forall fuel lines, (length lines <= fuel)%nat -> exists r, strip_blank fuel lines = Some r.
Proof.
  induction fuel as [|f IH]; intros lines Hf.
  - destruct lines; [eexists; reflexivity|simpl in Hf; lia].
  - destruct lines as [|l0 rest]; [eexists; reflexivity|]. cbn [strip_blank].
    destruct (is_blank l0).
    + apply IH. simpl in Hf. lia.
    + destruct ((1 <? length (l0 :: rest))%nat && is_blank (last (l0 :: rest) [])) eqn:E.
      * apply IH. rewrite removelast_length. lia.
      * eexists; reflexivity.
Qed.

Lemma block_string_value_total raw : exists v, block_string_value raw = Some v.
Proof.
  unfold block_string_value. destruct (split_lf (replace_cr (replace_crlf raw))) as [l0 ls].
  set (ls' := if fold_left common_indent_step ls (-1) >? 0 then _ else _).
  destruct (strip_blank_total (S (length ls')) (l0 :: ls')) as [r Hr]; [simpl; lia|].
  rewrite Hr. eexists; reflexivity.
Qed.

Lemma consume_string_value_ok st : next_rune st = 34 ->
  exists st' v, consume_string_value st = Some (st', v) /\ steps 1 st st'.
Proof.
  intro Hq. unfold consume_string_value.
  assert (S1 : steps 1 st (consume_rune st)) by (apply steps_consume; not_done).
  set (st1 := consume_rune st) in *.
  set (is_block := (next_rune st1 =? 34) && (peek st1 =? 34)).
  set (st2 := if is_block then consume_rune (consume_rune st1) else st1).
  assert (S2 : steps 0 st1 st2).
  { unfold st2. destruct is_block eqn:Eb; [|apply steps_refl]. unfold is_block in Eb.
    assert (N2 : next_rune (consume_rune st1) = 34) by (apply peek_next; [lia|unfold RuneError; lia]).
    eapply steps_then; [apply steps_consume; not_done|apply steps_consume; not_done|lia]. }
  destruct (string_loop_ok is_block (S (fuel_of st2)) st2 [] false) as (st3 & value & t & H1 & H2).
  { unfold fuel_of. lia. }
  rewrite H1.
  set (st4 := if t then st3 else errorf st3).
  assert (S4 : steps 1 st st4).
  { eapply steps_then; [exact S1| |instantiate (1 := 0%nat); lia].
    eapply steps_then; [exact S2| |instantiate (1 := 0%nat); lia].
    eapply steps_then; [exact H2| |instantiate (1 := 0%nat); lia].
    unfold st4. destruct t; [apply steps_refl|apply steps_errorf]. }
  destruct is_block.
  - destruct (block_string_value_total value) as [v Hv]. rewrite Hv. exists st4, v. split; [reflexivity|exact S4].
  - exists st4, value. split; [reflexivity|exact S4].
Qed.

(** ** comments *)
Lemma consume_comment_ok : forall fuel st, (length (s_rest st) <= fuel)%nat ->
  exists st', consume_comment fuel st = Some st' /\ steps 0 st st'.
Proof.
  induction fuel as [|f IH]; intros st Hf.
  - assert (Hd : is_done st = true) by (unfold is_done; destruct (s_rest st); [reflexivity|simpl in Hf; lia]).
    exists st. split; [|apply steps_refl]. cbn [consume_comment]. rewrite Hd. reflexivity.
  - cbn [consume_comment].
    destruct (negb (is_done st) && negb (next_rune st =? 13) && negb (next_rune st =? 10)) eqn:E.
    + assert (Hd : is_done st = false) by (destruct (is_done st); [discriminate|reflexivity]).
      set (st1 := if next_invalid st then errorf st else if negb (is_source_character (next_rune st)) then errorf st else st).
      assert (S1 : steps 1 st (consume_rune st1)).
      { unfold st1. destruct (next_invalid st) eqn:Ev; [|destruct (negb (is_source_character (next_rune st)))].
        - apply steps_error_consume; exact Hd.
        - apply steps_error_consume; exact Hd.
        - apply steps_consume; [exact Hd|exact Ev]. }
      pose proof (steps_length _ _ _ S1) as L1.
      destruct (IH (consume_rune st1)) as (st' & H1 & H2); [lia|].
      exists st'. split; [exact H1|]. eapply steps_then; [exact S1|exact H2|lia].
    + exists st. split; [reflexivity|apply steps_refl].
Qed.

(** a comment starts with '#', so the loop runs at least once *)
Lemma consume_comment_first st : next_rune st = 35 ->
  exists st', consume_comment (fuel_of st) st = Some st' /\ steps 1 st st'.
Proof.
  intro Hh. assert (Hd : is_done st = false) by not_done.
  unfold fuel_of. destruct (s_rest st) as [|b t] eqn:Er.
  { apply is_done_false in Hd. congruence. }
  cbn [length consume_comment]. rewrite Hd, Hh. cbn [negb andb Z.eqb].
  set (st1 := if next_invalid st then errorf st else if negb (is_source_character 35) then errorf st else st).
  assert (S1 : steps 1 st (consume_rune st1)).
  { unfold st1. destruct (next_invalid st) eqn:Ev; [|destruct (negb (is_source_character 35))].
    - apply steps_error_consume; exact Hd.
    - apply steps_error_consume; exact Hd.
    - apply steps_consume; [exact Hd|exact Ev]. }
  pose proof (steps_length _ _ _ S1) as L1. rewrite Er in L1. cbn [length] in L1.
  destruct (consume_comment_ok (length t) (consume_rune st1)) as (st' & H1 & H2); [lia|].
  exists st'. split; [exact H1|]. eapply steps_then; [exact S1|exact H2|lia].
Qed.

(** ** [scan_switch]: defined, consumes at least one byte, and an INVALID round reports an error *)
Lemma steps_errs_length m st st' : steps m st st' -> (length (s_errs st) <= length (s_errs st'))%nat.
Proof. intros H. destruct (steps_errs _ _ _ H) as [l Hl]. rewrite Hl, app_length. lia. Qed.

Lemma errorf_errs_length st : length (s_errs (errorf st)) = S (length (s_errs st)).
Proof. unfold errorf. cbn [s_errs]. rewrite app_length. simpl. lia. Qed.

Lemma consume_rune_errs st : s_errs (consume_rune st) = s_errs st.
Proof. reflexivity. Qed.

Definition scan_switch_post (st : state) (k : tok) (st' : state) : Prop :=
  steps 1 st st' /\ (k = INVALID -> (length (s_errs st) < length (s_errs st'))%nat).

Lemma scan_switch_ok st : is_done st = false ->
  exists k sv st', scan_switch st = Some (k, sv, st') /\ scan_switch_post st k st'.
Proof.
  intro Hd. unfold scan_switch, scan_switch_post.
  pose proof (steps_consume st Hd) as S1.
  assert (SE : steps 1 st (consume_rune (errorf st))).
  { apply steps_error_consume; exact Hd. }
  assert (LE : (length (s_errs st) < length (s_errs (consume_rune (errorf st))))%nat).
  { rewrite consume_rune_errs, errorf_errs_length. lia. }
  destruct ((next_rune st =? 9) || (next_rune st =? 32)) eqn:E1.
  { do 3 eexists. split; [reflexivity|]. split; [apply S1; not_done|discriminate]. }
  destruct (is_punctuator_rune (next_rune st)) eqn:E2.
  { unfold is_punctuator_rune in E2. do 3 eexists. split; [reflexivity|]. split; [apply S1; not_done|discriminate]. }
  destruct (next_rune st =? 44) eqn:E3.
  { do 3 eexists. split; [reflexivity|]. split; [apply S1; not_done|discriminate]. }
  destruct ((next_rune st =? 13) || (next_rune st =? 10)) eqn:E4.
  { destruct ((next_rune st =? 13) && (next_rune (consume_rune st) =? 10)) eqn:E5.
    - do 3 eexists. split; [reflexivity|]. split; [|discriminate].
      eapply steps_then; [apply S1; not_done|apply steps_consume; not_done|lia].
    - do 3 eexists. split; [reflexivity|]. split; [apply S1; not_done|discriminate]. }
  destruct (next_rune st =? 35) eqn:E5.
  { destruct (consume_comment_first st) as (st' & H1 & H2); [lia|]. rewrite H1.
    do 3 eexists. split; [reflexivity|]. split; [exact H2|discriminate]. }
  destruct (next_rune st =? 46) eqn:E6.
  { destruct (negb (next_rune (consume_rune st) =? 46)) eqn:E7.
    - do 3 eexists. split; [reflexivity|]. split.
      + eapply steps_then; [apply S1; not_done|apply steps_errorf|lia].
      + intros _. rewrite errorf_errs_length, consume_rune_errs. lia.
    - assert (S2 : steps 2 st (consume_rune (consume_rune st))).
      { eapply steps_then; [apply S1; not_done|apply steps_consume; not_done|lia]. }
      destruct (negb (next_rune (consume_rune (consume_rune st)) =? 46)) eqn:E8.
      + do 3 eexists. split; [reflexivity|]. split.
        * eapply steps_then; [exact S2|apply steps_errorf|lia].
        * intros _. rewrite errorf_errs_length, !consume_rune_errs. lia.
      + do 3 eexists. split; [reflexivity|]. split; [|discriminate].
        eapply steps_then; [exact S2|apply steps_consume; not_done|lia]. }
  destruct (next_rune st =? 34) eqn:E7.
  { destruct (consume_string_value_ok st) as (st' & v & H1 & H2); [lia|]. rewrite H1.
    do 3 eexists. split; [reflexivity|]. split; [exact H2|discriminate]. }
  destruct (next_rune st =? RuneError) eqn:E8.
  { do 3 eexists. split; [reflexivity|]. split; [exact SE|intros _; exact LE]. }
  destruct (next_rune st =? 65279) eqn:E9.
  { destruct (s_off st =? 0).
    - do 3 eexists. split; [reflexivity|]. split; [apply S1; not_done|discriminate].
    - do 3 eexists. split; [reflexivity|]. split; [exact SE|intros _; exact LE]. }
  destruct (consume_integer_part_ok st) as (b1 & st1 & H1 & T1 & F1). rewrite H1.
  destruct b1.
  - destruct (consume_fractional_part_ok st1) as (b2 & st2 & H2 & T2 & F2). rewrite H2.
    destruct (consume_exponent_part_ok st2) as (b3 & st3 & H3 & T3 & F3). rewrite H3.
    assert (S3 : steps 1 st st3).
    { eapply steps_then; [exact T1| |instantiate (1 := 0%nat); simpl; lia].
      eapply steps_then; [exact T2|exact T3|lia]. }
    destruct b2; [|destruct b3]; do 3 eexists; (split; [reflexivity|]); (split; [exact S3|discriminate]).
  - rewrite (F1 eq_refl).
    destruct (consume_name_ok st) as (b2 & st2 & H2 & T2 & F2). rewrite H2.
    destruct b2.
    + do 3 eexists. split; [reflexivity|]. split; [exact T2|discriminate].
    + rewrite (F2 eq_refl). do 3 eexists. split; [reflexivity|]. split; [exact SE|intros _; exact LE].
Qed.

(** ** [scan] *)
Lemma tok_eqb_eq a b : tok_eqb a b = true <-> a = b.
Proof. unfold tok_eqb. destruct a, b; cbn; split; intro H; try reflexivity; try discriminate. Qed.

(** the token [scan] builds from a round of the switch *)
Definition mk_token (st : state) (k : tok) (sv : bytes) (st' : state) : token :=
  let len := s_off st' - s_off st in
  let lit := firstn (Z.to_nat len) (s_rest st) in
  {| t_kind := k; t_off := s_off st; t_len := len; t_line := s_line st; t_col := s_col st; t_lit := lit;
     t_value := if tok_eqb k STRING_VALUE then sv else lit |}.

(** the token returned by a round that started in [st0] and ended in [st'] *)
Record tok_at (st0 st' : state) (t : token) : Prop := {
  ta_switch : exists k sv, scan_switch st0 = Some (k, sv, st') /\ t = mk_token st0 k sv st';
  ta_steps : steps 1 st0 st';
  ta_off : t_off t = s_off st0;
  ta_len : t_len t = s_off st' - s_off st0;
  ta_line : t_line t = s_line st0;
  ta_col : t_col t = s_col st0;
  ta_lit : t_lit t = firstn (Z.to_nat (t_len t)) (s_rest st0);
  ta_kind : t_kind t <> INVALID
}.

(** rounds that returned nothing (INVALID, or ignored tokens in mode 0); in ScanIgnored mode
    every such round reported an error *)
Definition skipped (m : bool) (st st0 : state) : Prop :=
  steps 0 st st0 /\
  (m = true -> s_off st0 = s_off st \/ (length (s_errs st) < length (s_errs st0))%nat).

Lemma skipped_refl m st : skipped m st st.
Proof. split; [apply steps_refl|intros _; left; reflexivity]. Qed.

Lemma scan_ok m : forall fuel st, (length (s_rest st) < fuel)%nat ->
  (exists st', scan fuel m st = ScanFalse st' /\ skipped m st st' /\ is_done st' = true) \/
  (exists t st0 st', scan fuel m st = ScanTrue t st' /\ skipped m st st0 /\ tok_at st0 st' t).
Proof.
  induction fuel as [|f IH]; intros st Hf; [lia|].
  cbn [scan]. destruct (is_done st) eqn:Hd.
  { left. exists st. split; [reflexivity|]. split; [apply skipped_refl|exact Hd]. }
  destruct (scan_switch_ok st Hd) as (k & sv & st1 & H1 & S1 & E1). rewrite H1.
  pose proof (steps_length _ _ _ S1) as L1.
  destruct (tok_eqb k INVALID || is_ignored k && negb m) eqn:Ek.
  - assert (SK : skipped m st st1).
    { split; [eapply steps_weaken; [exact S1|lia]|]. intros ->. right.
      rewrite andb_false_r, orb_false_r in Ek. apply tok_eqb_eq in Ek. auto. }
    assert (TR : forall x, skipped m st1 x -> skipped m st x).
    { intros x [Sx Ex]. split; [eapply steps_then; [apply SK|exact Sx|lia]|].
      intros Hm. right. destruct SK as [_ SK2]. pose proof (steps_errs_length _ _ _ Sx).
      destruct (SK2 Hm) as [Ho|Hl]; [|lia].
      pose proof (steps_off _ _ _ S1). lia. }
    destruct (IH st1) as [(st' & H2 & K2 & D2)|(t & st0 & st' & H2 & K2 & T2)]; [lia| |].
    + left. exists st'. split; [exact H2|]. split; [apply TR; exact K2|exact D2].
    + right. exists t, st0, st'. split; [exact H2|]. split; [apply TR; exact K2|exact T2].
  - right. eexists _, st, st1. split; [reflexivity|]. split; [apply skipped_refl|].
    apply orb_false_iff in Ek. destruct Ek as [Ek _].
    constructor; cbn [t_off t_len t_line t_col t_lit t_kind]; try reflexivity; [|exact S1|].
    + exists k, sv. split; [exact H1|reflexivity].
    + intro Hk. subst k. discriminate.
Qed.

(** ** [scan_all] over a fixed input *)
Definition at_bs (bs : bytes) (st : state) : Prop :=
  0 <= s_off st <= Z.of_nat (length bs) /\ s_rest st = skipn (Z.to_nat (s_off st)) bs.

Lemma at_bs_init bs : at_bs bs (init bs).
Proof. unfold at_bs, init. cbn [s_off s_rest]. split; [lia|reflexivity]. Qed.

Lemma at_bs_steps bs m st st' : at_bs bs st -> steps m st st' -> at_bs bs st'.
Proof.
  intros [Hr He] H. destruct (steps_extent _ _ _ H) as (k & _ & Hk & Hs & Ho & _). rewrite He, skipn_length in Hk.
  split; [lia|]. rewrite Hs, He, skipn_skipn, Ho. f_equal. lia.
Qed.

(** token extents: increasing, at least one byte each, inside the input; the literal is the
    bytes of the extent *)
Fixpoint extents_ok (bs : bytes) (from : Z) (ts : list token) : Prop :=
  match ts with
  | [] => from <= Z.of_nat (length bs)
  | t :: ts' =>
      from <= t_off t /\ 1 <= t_len t /\ t_off t + t_len t <= Z.of_nat (length bs) /\
      t_lit t = firstn (Z.to_nat (t_len t)) (skipn (Z.to_nat (t_off t)) bs) /\
      t_kind t <> INVALID /\
      extents_ok bs (t_off t + t_len t) ts'
  end.

(** extents that leave no gap and end at the end of the input *)
Fixpoint contiguous (bs : bytes) (from : Z) (ts : list token) : Prop :=
  match ts with
  | [] => from = Z.of_nat (length bs)
  | t :: ts' => t_off t = from /\ contiguous bs (t_off t + t_len t) ts'
  end.

Lemma scan_all_ok m bs : forall fuel st, at_bs bs st -> (length (s_rest st) < fuel)%nat ->
  exists ts es, scan_all fuel m st = Done ts es /\ extents_ok bs (s_off st) ts /\
    (length (s_errs st) <= length es)%nat /\
    (m = true -> length es = length (s_errs st) -> contiguous bs (s_off st) ts).
Proof.
  induction fuel as [|f IH]; intros st Hat Hf; [lia|].
  cbn [scan_all].
  destruct (scan_ok m (S (fuel_of st)) st) as [(st' & H1 & [K1 K2] & D1)|(t & st0 & st' & H1 & [K1 K2] & T1)];
    [unfold fuel_of; lia| |]; rewrite H1.
  - exists [], (s_errs st'). split; [reflexivity|].
    pose proof (at_bs_steps _ _ _ _ Hat K1) as [Hb Hr].
    pose proof (steps_off _ _ _ K1) as Ho. pose proof (steps_errs_length _ _ _ K1) as Hl.
    cbn [extents_ok contiguous]. split; [lia|]. split; [exact Hl|].
    intros Hm He. destruct (K2 Hm) as [Hoff|Hlt]; [|lia].
    unfold is_done in D1. rewrite Hr in D1.
    assert (L : length (skipn (Z.to_nat (s_off st')) bs) = 0%nat) by (destruct (skipn _ bs); [reflexivity|discriminate]).
    rewrite skipn_length in L. lia.
  - destruct T1 as [_ TS TO TL TLi TC TLit TK].
    pose proof (at_bs_steps _ _ _ _ Hat K1) as Hat0.
    pose proof (at_bs_steps _ _ _ _ Hat0 TS) as Hat'.
    pose proof (steps_length _ _ _ K1) as L0. pose proof (steps_length _ _ _ TS) as L1.
    destruct (IH st' Hat') as (ts & es & H2 & X2 & E2 & C2); [lia|]. rewrite H2.
    exists (t :: ts), es. split; [reflexivity|].
    pose proof (steps_off _ _ _ K1) as O0. pose proof (steps_off _ _ _ TS) as O1.
    pose proof (steps_errs_length _ _ _ K1) as EL0. pose proof (steps_errs_length _ _ _ TS) as EL1.
    destruct Hat0 as [Hb0 Hr0]. destruct Hat' as [Hb' Hr'].
    assert (Hend : t_off t + t_len t = s_off st') by lia.
    split; [|split; [lia|]].
    + cbn [extents_ok]. rewrite Hend. repeat split; try lia; try assumption.
      rewrite TLit, Hr0, TO. reflexivity.
    + intros Hm He. cbn [contiguous]. rewrite Hend.
      destruct (K2 Hm) as [Hoff|Hlt]; [|lia].
      split; [lia|]. apply C2; [exact Hm|lia].
Qed.

(** ** Main theorems of this file *)

(** the scanner terminates on every input (the model never runs out of fuel); every token covers
    at least one byte; extents are increasing and inside the input; literals are the extents *)
Theorem lex_progress : forall (m : bool) (bs : bytes),
  exists ts es, lex m bs = Done ts es /\ extents_ok bs 0 ts.
Proof.
  intros m bs. unfold lex.
  destruct (scan_all_ok m bs (S (length bs)) (init bs) (at_bs_init bs)) as (ts & es & H & X & _).
  { cbn [init s_rest]. lia. }
  exists ts, es. split; [exact H|exact X].
Qed.

Corollary lex_total : forall m bs, lex m bs <> OutOfFuel.
Proof. intros m bs. destruct (lex_progress m bs) as (ts & es & H & _). congruence. Qed.

Lemma contiguous_concat bs : forall ts from, 0 <= from -> extents_ok bs from ts -> contiguous bs from ts ->
  concat (map t_lit ts) = skipn (Z.to_nat from) bs.
Proof.
  induction ts as [|t ts IH]; intros from H0 X C.
  - cbn in *. subst from. rewrite Nat2Z.id. symmetry. apply skipn_all.
  - cbn [extents_ok contiguous map concat] in *.
    destruct X as (X1 & X2 & X3 & X4 & _ & X5). destruct C as [C1 C2].
    assert (H1 : 0 <= t_off t + t_len t) by lia.
    rewrite (IH _ H1 X5 C2), X4, C1.
    replace (Z.to_nat (from + t_len t)) with (Z.to_nat from + Z.to_nat (t_len t))%nat by lia.
    rewrite <- skipn_skipn. apply firstn_skipn.
Qed.

(** in ScanIgnored mode an error-free run partitions the input: the literals, concatenated, are
    the source text *)
Theorem lex_partition : forall bs ts, lex true bs = Done ts [] -> concat (map t_lit ts) = bs.
Proof.
  intros bs ts H. unfold lex in H.
  destruct (scan_all_ok true bs (S (length bs)) (init bs) (at_bs_init bs)) as (ts' & es & H' & X & _ & C).
  { cbn [init s_rest]. lia. }
  rewrite H in H'. inversion H'; subst ts' es.
  apply (contiguous_concat bs ts 0 ltac:(lia) X). apply C; reflexivity.
Qed.

(** every token is cut at a state reachable by [steps]: whatever [steps] preserves holds where a
    token starts *)
Lemma scan_all_forall m (P : state -> Prop) (Q : token -> Prop) :
  (forall k st st', steps k st st' -> P st -> P st') ->
  (forall st0 st' t, P st0 -> tok_at st0 st' t -> Q t) ->
  forall fuel st ts es, P st -> scan_all fuel m st = Done ts es -> Forall Q ts.
Proof.
  intros HP HQ. induction fuel as [|f IH]; intros st ts es Hst H; [discriminate|].
  cbn [scan_all] in H.
  destruct (scan_ok m (S (fuel_of st)) st) as [(st' & H1 & [K1 K2] & D1)|(t & st0 & st' & H1 & [K1 K2] & T1)];
    [unfold fuel_of; lia| |]; rewrite H1 in H.
  - inversion H; subst. constructor.
  - destruct (scan_all f m st') as [|ts' es'] eqn:E; [discriminate|]. inversion H; subst.
    assert (P0 : P st0) by (eapply HP; eassumption).
    constructor.
    + eapply HQ; eassumption.
    + eapply IH; [|exact E]. eapply HP; [apply (ta_steps _ _ _ T1)|exact P0].
Qed.

(** nothing consumed and nothing reported: nothing happened *)
Lemma nsteps_same d k st st' : nsteps d k st st' -> s_off st' = s_off st ->
  length (s_errs st') = length (s_errs st) -> st' = st.
Proof.
  induction 1 as [d st|d k st st' Hd Hv H IH|k st st' Hd H IH|d k st st' H IH]; intros Ho He; [reflexivity| | |].
  - exfalso. destruct (nsteps_extent _ _ _ _ H) as (j & _ & _ & _ & Hoff & _).
    pose proof (consume_length st Hd) as Hl. unfold consume_rune in Hoff. cbn [s_off] in Hoff.
    apply is_done_false in Hd. pose proof (read_next_rune_size_pos _ Hd). unfold next_size in Hoff. lia.
  - exfalso. destruct (nsteps_extent _ _ _ _ H) as (j & _ & _ & _ & Hoff & _).
    unfold consume_rune in Hoff. cbn [s_off] in Hoff.
    apply is_done_false in Hd. pose proof (read_next_rune_size_pos _ Hd). unfold next_size in Hoff. lia.
  - exfalso. destruct (nsteps_extent _ _ _ _ H) as (j & _ & _ & _ & _ & l & Hl).
    rewrite Hl, app_length, errorf_errs_length in He. lia.
Qed.

Lemma steps_same m st st' : steps m st st' -> s_off st' = s_off st ->
  length (s_errs st') = length (s_errs st) -> st' = st.
Proof. intros (k & _ & H). eapply nsteps_same; eassumption. Qed.

(** errors are never retracted *)
Lemma scan_all_errs_mono m : forall fuel st ts es, scan_all fuel m st = Done ts es ->
  (length (s_errs st) <= length es)%nat.
Proof.
  induction fuel as [|f IH]; intros st ts es H; [discriminate|]. cbn [scan_all] in H.
  destruct (scan_ok m (S (fuel_of st)) st) as [(st' & H1 & [K1 K2] & D1)|(t & st0 & st' & H1 & [K1 K2] & T1)];
    [unfold fuel_of; lia| |]; rewrite H1 in H.
  - inversion H; subst. eapply steps_errs_length; eassumption.
  - destruct (scan_all f m st') as [|ts' es'] eqn:E; [discriminate|]. inversion H; subst.
    apply IH in E. pose proof (steps_errs_length _ _ _ K1). pose proof (steps_errs_length _ _ _ (ta_steps _ _ _ T1)). lia.
Qed.
