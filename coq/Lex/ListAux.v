(** * Lex/ListAux.v — list facts missing from the 8.16 standard library *)
From Coq Require Import List Lia.
Import ListNotations.

Lemma skipn_skipn {A} : forall (a b : nat) (l : list A), skipn a (skipn b l) = skipn (b + a) l.
Proof.
  intros a b. revert a. induction b as [|b IH]; intros a l; [reflexivity|].
  destruct l as [|x l]; [now rewrite !skipn_nil|]. cbn [skipn Nat.add]. apply IH.
Qed.

Lemma firstn_skipn_add {A} : forall (a b : nat) (l : list A),
  firstn a l ++ firstn b (skipn a l) = firstn (a + b) l.
Proof.
  induction a as [|a IH]; intros b l; [reflexivity|].
  destruct l as [|x l]; [now rewrite !firstn_nil|]. cbn [firstn skipn Nat.add app]. f_equal. apply IH.
Qed.

Lemma skipn_hd_tl {A} : forall (n : nat) (l : list A) (x : A) (t : list A),
  skipn n l = x :: t -> skipn (S n) l = t.
Proof.
  induction n as [|n IH]; intros l x t H.
  - simpl in H. subst. reflexivity.
  - destruct l as [|y l]; [discriminate|]. cbn [skipn] in *. eapply IH; eassumption.
Qed.

Lemma firstn_S_skipn {A} : forall (n : nat) (l : list A) (x : A) (t : list A),
  skipn n l = x :: t -> firstn (S n) l = firstn n l ++ [x].
Proof.
  induction n as [|n IH]; intros l x t H.
  - simpl in H. subst. reflexivity.
  - destruct l as [|y l]; [discriminate|]. cbn [skipn] in H. cbn [firstn app]. f_equal. eapply IH; eassumption.
Qed.

Lemma skipn_lt_length {A} : forall (n : nat) (l : list A) (x : A) (t : list A),
  skipn n l = x :: t -> n < length l.
Proof.
  intros n l x t H. assert (L : length (skipn n l) = length l - n) by apply skipn_length.
  rewrite H in L. simpl in L. lia.
Qed.
