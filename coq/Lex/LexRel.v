(** * Lex/LexRel.v — C07: how a token of the reference lexer reads as a token of the scanner
    (definitions only; used by the theorems and by the check). *)
From Coq Require Import List NArith ZArith Bool.
From ApiFu Require Import Base.Sexp Lex.Utf8 Lex.LexModel Lex.LexSpec.
Import ListNotations.

Definition tok_of_kind (k : kind) : tok :=
  match k with
  | KPunctuator => PUNCTUATOR | KName => NAME | KInt => INT_VALUE | KFloat => FLOAT_VALUE
  | KString => STRING_VALUE | KBOM => UNICODE_BOM | KWhiteSpace => WHITE_SPACE
  | KLineTerminator => LINE_TERMINATOR | KComment => COMMENT | KComma => COMMA
  end.

(** the implementation-level token the reference token stands for: same kind, the extent in
    UTF-8 bytes, the same position, literal and value UTF-8 encoded *)
Definition token_of_stoken (t : stoken) : token :=
  {| t_kind := tok_of_kind (st_kind t); t_off := st_off t; t_len := st_len t;
     t_line := st_line t; t_col := st_col t;
     t_lit := utf8_encode_all (st_text t); t_value := utf8_encode_all (st_value t) |}.

(** what the public API shows of a token: int(Token()), Literal(), Position(), StringValue() *)
Definition observable (t : token) : Z * bytes * Z * Z * bytes :=
  (tok_code (t_kind t), t_lit t, t_line t, t_col t, t_value t).

(** the property's observational equivalence on scan results: the same observable token list, the
    same error/no-error verdict, the same position of the first error.  This is what the
    correspondence check compares (messages, the number of errors and later positions are not
    part of it). *)
Definition obs_equiv (a b : lex_result) : Prop :=
  match a, b with
  | Done ts es, Done ts' es' =>
      map observable ts = map observable ts' /\ (es = [] <-> es' = []) /\ hd_error es = hd_error es'
  | _, _ => False
  end.
