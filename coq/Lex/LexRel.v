(** * Lex/LexRel.v — C07: how a token of the reference lexer reads as a token of the scanner
    (definitions only; used by the theorems and by the check). *)
From Coq Require Import List NArith ZArith Bool.
From ApiFu Require Import Base.Sexp Lex.Utf8 Lex.LexModel Lex.LexSpec.
Import ListNotations.

Definition tok_of_kind (k : kind) : tok :=
  match k with
  | KPunctuator => PUNCTUATOR | KName => NAME | KInt => INT_VALUE | KFloat => FLOAT_VALUE
  | KString => STRING_VALUE | KBOM => UNICODE_BOM | KWhiteSpace => WHITE_SPACE
  | KLineTerminator => LINE_TERMINATOR | KComment => COMMENT | KComma => COMMA
  end.

(** the implementation-level token the reference token stands for: same kind, the extent in
    UTF-8 bytes, the same position, literal and value UTF-8 encoded *)
Definition token_of_stoken (t : stoken) : token :=
  {| t_kind := tok_of_kind (st_kind t); t_off := st_off t; t_len := st_len t;
     t_line := st_line t; t_col := st_col t;
     t_lit := utf8_encode_all (st_text t); t_value := utf8_encode_all (st_value t) |}.
