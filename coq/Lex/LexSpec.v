(** * Lex/LexSpec.v — the lexical grammar of the GraphQL specification (June 2018, section 2.1 and
    Appendix B "Lexical Tokens"), written from the specification text.  No proofs in this file.

    The reference lexer works on CODE POINTS ([cp := N]); [utf8_decode] (RFC 3629: shortest form,
    no surrogates, at most U+10FFFF) turns a byte string into code points or rejects it.

    Reading of the grammar:
    - "the source text is scanned from left to right, repeatedly taking the longest possible
      sequence of code points as the next token": per token class a matcher gives the longest
      prefix in that class ([match_*]); [longest_token] takes the longest over all classes.
    - a text the grammar cannot tokenise is a lexical error: [spec_lex] stops there ([EndError]).
    - two places where the June 2018 text needs a decision, both stated where they are made:
      (1) [""] immediately followed by a third quote is not an empty string but the start of a
          block string (the October 2021 edition says so with a lookahead restriction; every
          implementation including the reference one behaves this way);
      (2) a [\uXXXX] escape in the surrogate range D800..DFFF has no "character" to denote; the
          value is U+FFFD here (what Go's string conversion yields; the decoded-value claim is
          empty for these escapes, see [escaped_unicode]).
    - positions: lines and columns count from 1; LF, CR not followed by LF, and CR LF each end
      one line ([ends_line]); columns count code points. *)
From Coq Require Import List NArith ZArith Bool.
From ApiFu Require Import Base.Sexp.
Import ListNotations.
Open Scope N_scope.

Definition cp := N.

(** ** UTF-8 (RFC 3629) *)

Definition scalar_value (c : cp) : bool := (c <? 55296) || ((57343 <? c) && (c <=? 1114111)).

Definition utf8_encode (c : cp) : bytes :=
  if c <? 128 then [c]
  else if c <? 2048 then [192 + c / 64; 128 + c mod 64]
  else if c <? 65536 then [224 + c / 4096; 128 + (c / 64) mod 64; 128 + c mod 64]
  else [240 + c / 262144; 128 + (c / 4096) mod 64; 128 + (c / 64) mod 64; 128 + c mod 64].

Definition utf8_encode_all (l : list cp) : bytes := flat_map utf8_encode l.

Definition utf8_width (c : cp) : Z :=
  if c <? 128 then 1%Z else if c <? 2048 then 2%Z else if c <? 65536 then 3%Z else 4%Z.

(** payload of a continuation byte 10xxxxxx *)
Definition continuation (b : N) : option N :=
  if (128 <=? b) && (b <=? 191) then Some (b - 128) else None.

Definition cons_opt {A} (x : A) (o : option (list A)) : option (list A) :=
  match o with Some l => Some (x :: l) | None => None end.

(** strict decoder: lead byte gives the length; the value must need that length (no overlong
    forms), must not be a surrogate and must not exceed U+10FFFF *)
Fixpoint utf8_decode (bs : bytes) : option (list cp) :=
  match bs with
  | [] => Some []
  | b0 :: t1 =>
      if b0 <? 128 then cons_opt b0 (utf8_decode t1)
      else if (192 <=? b0) && (b0 <? 224) then
        match t1 with
        | b1 :: t2 =>
            match continuation b1 with
            | Some x1 =>
                let c := (b0 - 192) * 64 + x1 in
                if 128 <=? c then cons_opt c (utf8_decode t2) else None
            | None => None
            end
        | _ => None
        end
      else if (224 <=? b0) && (b0 <? 240) then
        match t1 with
        | b1 :: b2 :: t3 =>
            match continuation b1, continuation b2 with
            | Some x1, Some x2 =>
                let c := (b0 - 224) * 4096 + x1 * 64 + x2 in
                if (2048 <=? c) && scalar_value c then cons_opt c (utf8_decode t3) else None
            | _, _ => None
            end
        | _ => None
        end
      else if (240 <=? b0) && (b0 <? 248) then
        match t1 with
        | b1 :: b2 :: b3 :: t4 =>
            match continuation b1, continuation b2, continuation b3 with
            | Some x1, Some x2, Some x3 =>
                let c := (b0 - 240) * 262144 + x1 * 4096 + x2 * 64 + x3 in
                if (65536 <=? c) && (c <=? 1114111) then cons_opt c (utf8_decode t4) else None
            | _, _, _ => None
            end
        | _ => None
        end
      else None
  end.

(** ** 2.1.1 – 2.1.5  Source text, ignored tokens *)

(** SourceCharacter :: /[\u0009\u000A\u000D\u0020-\uFFFF]/ *)
Definition source_character (c : cp) : bool :=
  (c =? 9) || (c =? 10) || (c =? 13) || ((32 <=? c) && (c <=? 65535)).

(** WhiteSpace :: Horizontal Tab (U+0009) | Space (U+0020) *)
Definition white_space (c : cp) : bool := (c =? 9) || (c =? 32).

(** the characters LineTerminator is made of: New Line (U+000A), Carriage Return (U+000D) *)
Definition line_terminator_char (c : cp) : bool := (c =? 10) || (c =? 13).

(** longest prefix of [l] whose characters satisfy [p] *)
Fixpoint span (p : cp -> bool) (l : list cp) : nat :=
  match l with
  | c :: l' => if p c then S (span p l') else O
  | [] => O
  end.

Definition head_is (l : list cp) (c : cp) : bool :=
  match l with d :: _ => d =? c | [] => false end.

(** UnicodeBOM :: Byte Order Mark (U+FEFF) *)
Definition match_bom (l : list cp) : option nat := if head_is l 65279 then Some 1%nat else None.

(** WhiteSpace *)
Definition match_white_space (l : list cp) : option nat :=
  match l with c :: _ => if white_space c then Some 1%nat else None | [] => None end.

(** LineTerminator :: LF | CR [lookahead != LF] | CR LF   (longest: CR LF is one terminator) *)
Definition match_line_terminator (l : list cp) : option nat :=
  match l with
  | c :: l' =>
      if c =? 10 then Some 1%nat
      else if c =? 13 then (if head_is l' 10 then Some 2%nat else Some 1%nat)
      else None
  | [] => None
  end.

(** Comment :: # CommentChar*      CommentChar :: SourceCharacter but not LineTerminator *)
Definition comment_char (c : cp) : bool := source_character c && negb (line_terminator_char c).
Definition match_comment (l : list cp) : option nat :=
  match l with
  | c :: l' => if c =? 35 then Some (S (span comment_char l')) else None
  | [] => None
  end.

(** Comma :: , *)
Definition match_comma (l : list cp) : option nat := if head_is l 44 then Some 1%nat else None.

(** ** 2.1.6 – 2.1.9, 2.9.1 – 2.9.2  Lexical tokens *)

(** Punctuator :: one of  ! $ ( ) ... : = @ [ ] { | } *)
Definition single_punctuator (c : cp) : bool :=
  (c =? 33) || (c =? 36) || (c =? 40) || (c =? 41) || (c =? 58) || (c =? 61) || (c =? 64) ||
  (c =? 91) || (c =? 93) || (c =? 123) || (c =? 124) || (c =? 125).
Definition match_punctuator (l : list cp) : option nat :=
  match l with
  | c :: l1 =>
      if single_punctuator c then Some 1%nat
      else if c =? 46 then
        match l1 with
        | d :: e :: _ => if (d =? 46) && (e =? 46) then Some 3%nat else None
        | _ => None
        end
      else None
  | [] => None
  end.

(** Name :: /[_A-Za-z][_0-9A-Za-z]*/ *)
Definition letter (c : cp) : bool := ((65 <=? c) && (c <=? 90)) || ((97 <=? c) && (c <=? 122)).
Definition digit (c : cp) : bool := (48 <=? c) && (c <=? 57).
Definition name_start (c : cp) : bool := (c =? 95) || letter c.
Definition name_continue (c : cp) : bool := (c =? 95) || digit c || letter c.
Definition match_name (l : list cp) : option nat :=
  match l with
  | c :: l' => if name_start c then Some (S (span name_continue l')) else None
  | [] => None
  end.

(** IntegerPart :: NegativeSign? 0 | NegativeSign? NonZeroDigit Digit* *)
Definition match_integer_part (l : list cp) : option nat :=
  let sign := if head_is l 45 then 1%nat else 0%nat in
  match skipn sign l with
  | c :: l' =>
      if c =? 48 then Some (sign + 1)%nat
      else if digit c then Some (sign + 1 + span digit l')%nat
      else None
  | [] => None
  end.

(** FractionalPart :: . Digit+ *)
Definition match_fractional_part (l : list cp) : option nat :=
  match l with
  | c :: l' =>
      if (c =? 46) && (0 <? span digit l')%nat then Some (1 + span digit l')%nat else None
  | [] => None
  end.

(** ExponentPart :: ExponentIndicator Sign? Digit+      ExponentIndicator :: e E    Sign :: + - *)
Definition exponent_indicator (c : cp) : bool := (c =? 101) || (c =? 69).
Definition match_exponent_part (l : list cp) : option nat :=
  match l with
  | c :: l' =>
      if exponent_indicator c then
        let sign := if head_is l' 43 || head_is l' 45 then 1%nat else 0%nat in
        let digits := span digit (skipn sign l') in
        if (0 <? digits)%nat then Some (1 + sign + digits)%nat else None
      else None
  | [] => None
  end.

(** IntValue :: IntegerPart *)
Definition match_int (l : list cp) : option nat := match_integer_part l.

(** FloatValue :: IntegerPart FractionalPart | IntegerPart ExponentPart
                | IntegerPart FractionalPart ExponentPart        (the longest alternative) *)
Definition match_float (l : list cp) : option nat :=
  match match_integer_part l with
  | None => None
  | Some i =>
      match match_fractional_part (skipn i l) with
      | Some f =>
          match match_exponent_part (skipn (i + f) l) with
          | Some e => Some (i + f + e)%nat
          | None => Some (i + f)%nat
          end
      | None =>
          match match_exponent_part (skipn i l) with
          | Some e => Some (i + e)%nat
          | None => None
          end
      end
  end.

(** ** 2.9.4  String values *)

Inductive reason :=
| RUnterminated        (* end of input or a line terminator inside a quoted string; end of input in a block string *)
| RBadEscape           (* backslash followed by something that is no EscapedCharacter / EscapedUnicode *)
| RNonSourceInString   (* a character outside SourceCharacter inside a string *)
| RNonSource           (* a character outside SourceCharacter elsewhere *)
| RStray.              (* a source character no token can start with, or an incomplete "..." *)

Inductive string_result :=
| SMatch (n : nat) (value : list cp)     (* n code points matched; the characters denoted *)
| SFail (why : reason).

Definition prepend (k : nat) (v : list cp) (r : string_result) : string_result :=
  match r with
  | SMatch n value => SMatch (k + n) (v ++ value)
  | SFail why => SFail why
  end.

(** EscapedCharacter :: one of QUOTE \ / b f n r t     and the character each denotes
    (QUOTE stands for the double quote character U+0022 in the comments of this file) *)
Definition escaped_character (c : cp) : option cp :=
  if c =? 34 then Some 34 else if c =? 92 then Some 92 else if c =? 47 then Some 47
  else if c =? 98 then Some 8 else if c =? 102 then Some 12 else if c =? 110 then Some 10
  else if c =? 114 then Some 13 else if c =? 116 then Some 9 else None.

Definition hex_digit (c : cp) : option N :=
  if (48 <=? c) && (c <=? 57) then Some (c - 48)
  else if (65 <=? c) && (c <=? 70) then Some (c - 55)
  else if (97 <=? c) && (c <=? 102) then Some (c - 87)
  else None.

(** EscapedUnicode :: /[0-9A-Fa-f]{4}/ - "the character whose code unit value in the Unicode
    Basic Multilingual Plane is the 16-bit hexadecimal value".  Decision (2) of the header: for
    D800..DFFF there is no such character; U+FFFD stands in. *)
Definition escaped_unicode (h1 h2 h3 h4 : cp) : option cp :=
  match hex_digit h1, hex_digit h2, hex_digit h3, hex_digit h4 with
  | Some a, Some b, Some c, Some d =>
      let v := ((a * 16 + b) * 16 + c) * 16 + d in
      Some (if scalar_value v then v else 65533)
  | _, _, _, _ => None
  end.

(** StringValue :: QUOTE StringCharacter* QUOTE     - the part after the opening quote.
    StringCharacter :: SourceCharacter but not QUOTE or \ or LineTerminator
                     | \u EscapedUnicode | \ EscapedCharacter *)
Fixpoint quoted_rest (l : list cp) : string_result :=
  match l with
  | [] => SFail RUnterminated
  | c :: l1 =>
      if c =? 34 then SMatch 1 []
      else if c =? 92 then
        match l1 with
        | [] => SFail RUnterminated
        | e :: l2 =>
            if e =? 117 then
              match l2 with
              | h1 :: h2 :: h3 :: h4 :: l6 =>
                  match escaped_unicode h1 h2 h3 h4 with
                  | Some v => prepend 6 [v] (quoted_rest l6)
                  | None => SFail RBadEscape
                  end
              | _ => SFail RBadEscape
              end
            else
              match escaped_character e with
              | Some v => prepend 2 [v] (quoted_rest l2)
              | None => SFail RBadEscape
              end
        end
      else if line_terminator_char c then SFail RUnterminated
      else if source_character c then prepend 1 [c] (quoted_rest l1)
      else SFail RNonSourceInString
  end.

Definition three_quotes (l : list cp) : bool :=
  match l with
  | a :: b :: c :: _ => (a =? 34) && (b =? 34) && (c =? 34)
  | _ => false
  end.

(** StringValue :: QQQ BlockStringCharacter* QQQ    - the part after the opening quotes (QQQ
    stands for three double quote characters); the
    value collected here is the raw value.
    BlockStringCharacter :: SourceCharacter but not QQQ or \QQQ  |  \QQQ  (denoting QQQ) *)
Fixpoint block_rest (l : list cp) : string_result :=
  match l with
  | [] => SFail RUnterminated
  | c :: l1 =>
      let plain := if source_character c then prepend 1 [c] (block_rest l1)
                   else SFail RNonSourceInString in
      if three_quotes l then SMatch 3 []
      else if c =? 92 then
        match l1 with
        | q1 :: q2 :: q3 :: l4 =>
            if (q1 =? 34) && (q2 =? 34) && (q3 =? 34) then prepend 4 [34; 34; 34] (block_rest l4)
            else plain
        | _ => plain
        end
      else plain
  end.

(** *** BlockStringValue(rawValue), step by step as in the specification *)

Definition cons_first (c : cp) (lines : list (list cp)) : list (list cp) :=
  match lines with
  | l :: rest => (c :: l) :: rest
  | [] => [[c]]
  end.

(** 1. Let lines be the result of splitting rawValue by LineTerminator. *)
Fixpoint split_lines (raw : list cp) : list (list cp) :=
  match raw with
  | [] => [[]]
  | c :: r1 =>
      if c =? 10 then [] :: split_lines r1
      else if c =? 13 then
        match r1 with
        | d :: r2 => if d =? 10 then [] :: split_lines r2 else [] :: split_lines r1
        | [] => [] :: split_lines r1
        end
      else cons_first c (split_lines r1)
  end.

(** 3.c  the number of leading consecutive WhiteSpace characters in line *)
Definition leading_white_space (line : list cp) : nat := span white_space line.

(** 2., 3.  commonIndent ([None] = null) over every line but the first *)
Definition common_indent_of (ci : option nat) (line : list cp) : option nat :=
  let len := length line in
  let indent := leading_white_space line in
  if (indent <? len)%nat then
    match ci with
    | None => Some indent
    | Some m => if (indent <? m)%nat then Some indent else ci
    end
  else ci.
Definition common_indent (lines : list (list cp)) : option nat :=
  fold_left common_indent_of (tl lines) None.

(** 4.  If commonIndent is not null: remove commonIndent characters from the beginning of every
    line but the first *)
Definition remove_common_indent (ci : option nat) (lines : list (list cp)) : list (list cp) :=
  match ci, lines with
  | Some n, first :: rest => first :: map (skipn n) rest
  | _, _ => lines
  end.

Definition only_white_space (line : list cp) : bool := forallb white_space line.

(** 5.  While the first item line in lines contains only WhiteSpace: remove the first item *)
Fixpoint drop_leading_blank (lines : list (list cp)) : list (list cp) :=
  match lines with
  | l :: rest => if only_white_space l then drop_leading_blank rest else lines
  | [] => []
  end.

(** 6.  While the last item line in lines contains only WhiteSpace: remove the last item *)
Definition drop_trailing_blank (lines : list (list cp)) : list (list cp) :=
  rev (drop_leading_blank (rev lines)).

(** 7.–9.  formatted: the first line, then for every other line a line feed and the line *)
Definition join_lines (lines : list (list cp)) : list cp :=
  match lines with
  | [] => []
  | first :: rest => fold_left (fun formatted line => formatted ++ [10] ++ line) rest first
  end.

Definition BlockStringValue (raw : list cp) : list cp :=
  let lines := split_lines raw in
  let lines := remove_common_indent (common_indent lines) lines in
  join_lines (drop_trailing_blank (drop_leading_blank lines)).

(** StringValue: matched length and semantic value.  Decision (1) of the header: three quotes
    open a block string. *)
Definition match_string (l : list cp) : option string_result :=
  match l with
  | c :: l1 =>
      if c =? 34 then
        if three_quotes l then
          Some (match block_rest (skipn 3 l) with
                | SMatch n raw => SMatch (3 + n) (BlockStringValue raw)
                | SFail why => SFail why
                end)
        else Some (prepend 1 [] (quoted_rest l1))
      else None
  | [] => None
  end.

(** ** Tokens *)

Inductive kind :=
| KPunctuator | KName | KInt | KFloat | KString                   (* Token *)
| KBOM | KWhiteSpace | KLineTerminator | KComment | KComma.       (* Ignored *)

Definition kind_ignored (k : kind) : bool :=
  match k with
  | KBOM | KWhiteSpace | KLineTerminator | KComment | KComma => true
  | _ => false
  end.

(** the longer of two candidates; the earlier one wins a tie (no two classes ever tie) *)
Definition better (a b : option (kind * nat)) : option (kind * nat) :=
  match a, b with
  | Some (_, n), Some (_, m) => if (n <? m)%nat then b else a
  | None, _ => b
  | _, None => a
  end.

Definition cand (k : kind) (m : option nat) : option (kind * nat) :=
  match m with Some n => Some (k, n) | None => None end.

Definition string_length (l : list cp) : option nat :=
  match match_string l with
  | Some (SMatch n _) => Some n
  | _ => None
  end.

(** the longest token or ignored token at the head of [l] *)
Definition longest_token (l : list cp) : option (kind * nat) :=
  fold_left better
    [ cand KName (match_name l); cand KInt (match_int l); cand KFloat (match_float l);
      cand KString (string_length l); cand KBOM (match_bom l); cand KWhiteSpace (match_white_space l);
      cand KLineTerminator (match_line_terminator l); cand KComment (match_comment l);
      cand KComma (match_comma l) ]
    (cand KPunctuator (match_punctuator l)).

(** why nothing matches at the head of [l] (only used to classify failures) *)
Definition why_no_token (l : list cp) : reason :=
  match match_string l with
  | Some (SFail why) => why
  | _ => match l with
         | c :: _ => if source_character c then RStray else RNonSource
         | [] => RStray
         end
  end.

(** ** Positions *)

(** does the character [c], followed by [next], end a line?
    LF does; CR does unless it is the first half of CR LF (then the LF does). *)
Definition ends_line (c : cp) (next : option cp) : bool :=
  (c =? 10) || ((c =? 13) && negb (match next with Some d => d =? 10 | None => false end)).

(** (line, column) after the first [n] code points of [l], starting from [p] *)
Fixpoint advance_pos (p : Z * Z) (n : nat) (l : list cp) : Z * Z :=
  match n, l with
  | S n', c :: l' =>
      advance_pos (if ends_line c (hd_error l') then (fst p + 1, 1)%Z else (fst p, snd p + 1)%Z) n' l'
  | _, _ => p
  end.

Definition utf8_length (l : list cp) : Z := fold_right (fun c acc => (utf8_width c + acc)%Z) 0%Z l.

(** ** The reference lexer *)

Record stoken := mkSToken {
  st_kind : kind;
  st_start : nat;          (* index of the first code point *)
  st_count : nat;          (* number of code points *)
  st_off : Z;              (* the same extent in UTF-8 bytes *)
  st_len : Z;
  st_line : Z;
  st_col : Z;
  st_text : list cp;       (* the code points of the token *)
  st_value : list cp       (* StringValue: the characters denoted; otherwise the text *)
}.

Inductive spec_end :=
| EndOk                                             (* the whole text was tokenised *)
| EndError (why : reason) (index : nat) (line col : Z)   (* no token at this place *)
| EndFuel.

(** tokens (ignored ones included) up to the end of the text or the first lexical error *)
Fixpoint spec_scan (fuel : nat) (idx : nat) (off : Z) (p : Z * Z) (l : list cp) : list stoken * spec_end :=
  match l with
  | [] => ([], EndOk)
  | _ :: _ =>
      match fuel with
      | O => ([], EndFuel)
      | S f =>
          match longest_token l with
          | None | Some (_, O) => ([], EndError (why_no_token l) idx (fst p) (snd p))
          | Some (k, n) =>
              let text := firstn n l in
              let value := match k, match_string l with
                           | KString, Some (SMatch _ v) => v
                           | _, _ => text
                           end in
              let len := utf8_length text in
              let t := {| st_kind := k; st_start := idx; st_count := n; st_off := off; st_len := len;
                          st_line := fst p; st_col := snd p; st_text := text; st_value := value |} in
              let (ts, e) := spec_scan f (idx + n)%nat (off + len)%Z (advance_pos p n l) (skipn n l) in
              (t :: ts, e)
          end
      end
  end.

Definition spec_lex (l : list cp) : list stoken * spec_end :=
  spec_scan (S (length l)) 0%nat 0%Z (1, 1)%Z l.

(** Token vs Ignored: what the parser sees *)
Definition significant (ts : list stoken) : list stoken :=
  filter (fun t => negb (kind_ignored (st_kind t))) ts.

(** ** The two known deviations of the implementation (both reject a text the grammar accepts) *)

(** known: dangling-exponent — a number without exponent part immediately followed by e or E:
    the grammar's longest match ends the number there (and a Name starts); the scanner commits to
    an exponent and reports an error (pinned by TestScanner_Floats/BadExponent). *)
Definition dangling_exponent (l : list cp) (t : stoken) : bool :=
  match st_kind t with
  | KInt | KFloat =>
      negb (existsb exponent_indicator (st_text t)) &&
      match nth_error l (st_start t + st_count t) with
      | Some c => exponent_indicator c
      | None => false
      end
  | _ => false
  end.
Definition excl_dangling_exponent (l : list cp) (ts : list stoken) : bool := existsb (dangling_exponent l) ts.

(** known: inner-bom — the grammar lists UnicodeBOM under Ignored without restricting it to the
    start of the text; the scanner accepts it only at offset 0 (pinned by
    TestScanner_BOM/IllegalPosition). *)
Definition inner_bom (t : stoken) : bool :=
  match st_kind t with
  | KBOM => negb (Nat.eqb (st_start t) 0)
  | _ => false
  end.
Definition excl_inner_bom (ts : list stoken) : bool := existsb inner_bom ts.
