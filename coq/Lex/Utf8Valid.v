(** * Lex/Utf8Valid.v — the converse of [decode_rune_encode] (Lex/Utf8Proofs.v): whatever Go's
    [utf8.DecodeRune] accepts is the RFC 3629 encoding of a Unicode scalar value.
    Proofs only; no definitions are changed. *)
From Coq Require Import List NArith ZArith Bool Lia ZifyBool ZifyNat ZifyN.
From ApiFu Require Import Base.Sexp Lex.Utf8 Lex.LexSpec Lex.Utf8Proofs.
Import ListNotations.

(** ** arithmetic of the payload bits, in [N] *)

Lemma utf8_bits2 : forall p0 b1 : N,
  (194 <= p0 < 224)%N -> (128 <= b1 <= 191)%N ->
  forall c : N, c = ((p0 mod 32) * 64 + b1 mod 64)%N ->
  (128 <= c < 2048)%N /\ (192 + c / 64 = p0)%N /\ (128 + c mod 64 = b1)%N.
Proof.
  intros p0 b1 H0 H1 c Hc.
  assert (E0 : (p0 mod 32 = p0 - 192)%N) by (timeout 600 lia).
  assert (E1 : (b1 mod 64 = b1 - 128)%N) by (timeout 600 lia).
  rewrite E0, E1 in Hc. clear E0 E1.
  repeat split; timeout 600 lia.
Qed.

Lemma utf8_bits3 : forall p0 b1 b2 : N,
  (224 <= p0 < 240)%N -> (128 <= b1 <= 191)%N -> (128 <= b2 <= 191)%N ->
  (p0 = 224 -> 160 <= b1)%N -> (p0 = 237 -> b1 <= 159)%N ->
  forall c : N, c = ((p0 mod 16) * 4096 + (b1 mod 64) * 64 + b2 mod 64)%N ->
  (2048 <= c < 65536)%N /\ (c < 55296 \/ 57343 < c)%N /\
  (224 + c / 4096 = p0)%N /\ (128 + (c / 64) mod 64 = b1)%N /\ (128 + c mod 64 = b2)%N.
Proof.
  intros p0 b1 b2 H0 H1 H2 Hlo Hhi c Hc.
  assert (E0 : (p0 mod 16 = p0 - 224)%N) by (timeout 600 lia).
  assert (E1 : (b1 mod 64 = b1 - 128)%N) by (timeout 600 lia).
  assert (E2 : (b2 mod 64 = b2 - 128)%N) by (timeout 600 lia).
  rewrite E0, E1, E2 in Hc. clear E0 E1 E2.
  assert (D1 : (c / 64 = (p0 - 224) * 64 + (b1 - 128))%N) by (timeout 600 lia).
  repeat split; timeout 600 lia.
Qed.

Lemma utf8_bits4 : forall p0 b1 b2 b3 : N,
  (240 <= p0 < 245)%N -> (128 <= b1 <= 191)%N -> (128 <= b2 <= 191)%N -> (128 <= b3 <= 191)%N ->
  (p0 = 240 -> 144 <= b1)%N -> (p0 = 244 -> b1 <= 143)%N ->
  forall c : N,
  c = ((p0 mod 8) * 262144 + (b1 mod 64) * 4096 + (b2 mod 64) * 64 + b3 mod 64)%N ->
  (65536 <= c <= 1114111)%N /\
  (240 + c / 262144 = p0)%N /\ (128 + (c / 4096) mod 64 = b1)%N /\
  (128 + (c / 64) mod 64 = b2)%N /\ (128 + c mod 64 = b3)%N.
Proof.
  intros p0 b1 b2 b3 H0 H1 H2 H3 Hlo Hhi c Hc.
  assert (E0 : (p0 mod 8 = p0 - 240)%N) by (timeout 600 lia).
  assert (E1 : (b1 mod 64 = b1 - 128)%N) by (timeout 600 lia).
  assert (E2 : (b2 mod 64 = b2 - 128)%N) by (timeout 600 lia).
  assert (E3 : (b3 mod 64 = b3 - 128)%N) by (timeout 600 lia).
  rewrite E0, E1, E2, E3 in Hc. clear E0 E1 E2 E3.
  assert (D1 : (c / 64 = (p0 - 240) * 4096 + (b1 - 128) * 64 + (b2 - 128))%N) by (timeout 600 lia).
  assert (D2 : (c / 4096 = (p0 - 240) * 64 + (b1 - 128))%N) by (timeout 600 lia).
  repeat split; timeout 600 lia.
Qed.

(** ** the encoder on a value with known bytes *)

Lemma utf8_encode_2 : forall c p0 b1 : N,
  (128 <= c < 2048)%N -> (192 + c / 64 = p0)%N -> (128 + c mod 64 = b1)%N ->
  utf8_encode c = [p0; b1].
Proof.
  intros c p0 b1 Hc E0 E1. unfold utf8_encode.
  destruct (N.ltb_spec c 128) as [G1|G1]; [lia|].
  destruct (N.ltb_spec c 2048) as [G2|G2]; [|lia].
  rewrite E0, E1. reflexivity.
Qed.

Lemma utf8_encode_3 : forall c p0 b1 b2 : N,
  (2048 <= c < 65536)%N ->
  (224 + c / 4096 = p0)%N -> (128 + (c / 64) mod 64 = b1)%N -> (128 + c mod 64 = b2)%N ->
  utf8_encode c = [p0; b1; b2].
Proof.
  intros c p0 b1 b2 Hc E0 E1 E2. unfold utf8_encode.
  destruct (N.ltb_spec c 128) as [G1|G1]; [lia|].
  destruct (N.ltb_spec c 2048) as [G2|G2]; [lia|].
  destruct (N.ltb_spec c 65536) as [G3|G3]; [|lia].
  rewrite E0, E1, E2. reflexivity.
Qed.

Lemma utf8_encode_4 : forall c p0 b1 b2 b3 : N,
  (65536 <= c)%N ->
  (240 + c / 262144 = p0)%N -> (128 + (c / 4096) mod 64 = b1)%N ->
  (128 + (c / 64) mod 64 = b2)%N -> (128 + c mod 64 = b3)%N ->
  utf8_encode c = [p0; b1; b2; b3].
Proof.
  intros c p0 b1 b2 b3 Hc E0 E1 E2 E3. unfold utf8_encode.
  destruct (N.ltb_spec c 128) as [G1|G1]; [lia|].
  destruct (N.ltb_spec c 2048) as [G2|G2]; [lia|].
  destruct (N.ltb_spec c 65536) as [G3|G3]; [lia|].
  rewrite E0, E1, E2, E3. reflexivity.
Qed.

Lemma in_range_spec : forall (b : N) (lo hi : Z),
  in_range b lo hi = true <-> (lo <= Z.of_N b <= hi)%Z.
Proof. intros b lo hi. unfold in_range, zb. lia. Qed.

(** ** Go's decoder accepts only RFC 3629 encodings of scalar values *)

(** The converse of [decode_rune_encode]: whenever Go's DecodeRune does NOT report
    "(RuneError, 1)" on a non-empty byte string, the bytes it consumed are the RFC 3629 encoding
    of a Unicode scalar value, namely of the rune it returned.  No bound on the "bytes" is
    needed: a lead byte >= 245 is rejected, and accepted continuation bytes are range-checked. *)
Lemma decode_rune_valid : forall (p : bytes) (r : Z) (size : nat),
  p <> [] ->
  decode_rune p = (r, size) ->
  ((r =? RuneError)%Z && Nat.eqb size 1) = false ->
  exists c : cp, scalar_value c = true /\ r = Z.of_N c /\ size = length (utf8_encode c) /\
                 p = utf8_encode c ++ skipn size p.
Proof.
  intros p r size Hne Hd Hok.
  destruct p as [|p0 t]; [congruence|]. clear Hne.
  assert (Hfail : (RuneError, 1%nat) = (r, size) -> False).
  { intros H. injection H as Hr Hs. subst r size.
    rewrite Z.eqb_refl in Hok. cbn [Nat.eqb andb] in Hok. discriminate Hok. }
  unfold decode_rune in Hd. cbv zeta in Hd.
  destruct (Z.ltb_spec (zb p0) 128) as [L1|L1].
  { (* one byte *)
    injection Hd as Hr Hs. subst r size. unfold zb in *.
    exists p0.
    assert (Henc : utf8_encode p0 = [p0]) by (apply utf8_encode_ascii; lia).
    rewrite Henc. cbn [length skipn app].
    repeat split. apply scalar_value_spec. lia. }
  destruct (Z.ltb_spec (zb p0) 194) as [L2|L2]; [exfalso; exact (Hfail Hd)|].
  destruct (Z.ltb_spec (zb p0) 224) as [L3|L3].
  { (* two bytes *)
    destruct t as [|b1 t2]; [exfalso; exact (Hfail Hd)|].
    destruct (in_range b1 128 191) eqn:R1; [|exfalso; exact (Hfail Hd)].
    apply in_range_spec in R1.
    injection Hd as Hr Hs. subst size. unfold zb in *.
    remember ((p0 mod 32) * 64 + b1 mod 64)%N as c eqn:Ec.
    assert (Hrc : r = Z.of_N c) by (subst r c; timeout 600 lia).
    destruct (utf8_bits2 p0 b1 ltac:(lia) ltac:(lia) c Ec) as (Hc & E0 & E1).
    exists c.
    rewrite (utf8_encode_2 c p0 b1 Hc E0 E1). cbn [length skipn app].
    repeat split; [apply scalar_value_spec; lia|exact Hrc]. }
  destruct (Z.ltb_spec (zb p0) 240) as [L4|L4].
  { (* three bytes *)
    destruct t as [|b1 [|b2 t3]]; [exfalso; exact (Hfail Hd)|exfalso; exact (Hfail Hd)|].
    destruct (in_range b1 (if (zb p0 =? 224)%Z then 160%Z else 128%Z)
                          (if (zb p0 =? 237)%Z then 159%Z else 191%Z)) eqn:R1;
      [|exfalso; exact (Hfail Hd)].
    destruct (in_range b2 128 191) eqn:R2; [|exfalso; exact (Hfail Hd)].
    apply in_range_spec in R1. apply in_range_spec in R2.
    injection Hd as Hr Hs. subst size. unfold zb in *.
    destruct (Z.eqb_spec (Z.of_N p0) 224) as [A1|A1];
      destruct (Z.eqb_spec (Z.of_N p0) 237) as [A2|A2]; try (exfalso; lia).
    all: remember ((p0 mod 16) * 4096 + (b1 mod 64) * 64 + b2 mod 64)%N as c eqn:Ec.
    all: assert (Hrc : r = Z.of_N c) by (subst r c; timeout 600 lia).
    all: destruct (utf8_bits3 p0 b1 b2 ltac:(lia) ltac:(lia) ltac:(lia) ltac:(lia) ltac:(lia) c Ec)
           as (Hc & Hsur & E0 & E1 & E2).
    all: exists c.
    all: rewrite (utf8_encode_3 c p0 b1 b2 Hc E0 E1 E2); cbn [length skipn app].
    all: repeat split; [apply scalar_value_spec; lia|exact Hrc]. }
  destruct (Z.ltb_spec (zb p0) 245) as [L5|L5]; [|exfalso; exact (Hfail Hd)].
  { (* four bytes *)
    destruct t as [|b1 [|b2 [|b3 t4]]];
      [exfalso; exact (Hfail Hd)|exfalso; exact (Hfail Hd)|exfalso; exact (Hfail Hd)|].
    destruct (in_range b1 (if (zb p0 =? 240)%Z then 144%Z else 128%Z)
                          (if (zb p0 =? 244)%Z then 143%Z else 191%Z)) eqn:R1;
      [|exfalso; exact (Hfail Hd)].
    destruct (in_range b2 128 191) eqn:R2; [|exfalso; exact (Hfail Hd)].
    destruct (in_range b3 128 191) eqn:R3; [|exfalso; exact (Hfail Hd)].
    apply in_range_spec in R1. apply in_range_spec in R2. apply in_range_spec in R3.
    injection Hd as Hr Hs. subst size. unfold zb in *.
    destruct (Z.eqb_spec (Z.of_N p0) 240) as [A1|A1];
      destruct (Z.eqb_spec (Z.of_N p0) 244) as [A2|A2]; try (exfalso; lia).
    all: remember ((p0 mod 8) * 262144 + (b1 mod 64) * 4096 + (b2 mod 64) * 64 + b3 mod 64)%N
           as c eqn:Ec.
    all: assert (Hrc : r = Z.of_N c) by (subst r c; timeout 600 lia).
    all: destruct (utf8_bits4 p0 b1 b2 b3 ltac:(lia) ltac:(lia) ltac:(lia) ltac:(lia)
                     ltac:(lia) ltac:(lia) c Ec) as (Hc & E0 & E1 & E2 & E3).
    all: exists c.
    all: rewrite (utf8_encode_4 c p0 b1 b2 b3 ltac:(lia) E0 E1 E2 E3); cbn [length skipn app].
    all: repeat split; [apply scalar_value_spec; lia|exact Hrc]. }
Qed.

(** the same statement with the (redundant) premise that the bytes are below 256 *)
Corollary decode_rune_valid_bytes : forall (p : bytes) (r : Z) (size : nat),
  p <> [] -> Forall (fun b => (b < 256)%N) p ->
  decode_rune p = (r, size) ->
  ((r =? RuneError)%Z && Nat.eqb size 1) = false ->
  exists c : cp, scalar_value c = true /\ r = Z.of_N c /\ size = length (utf8_encode c) /\
                 p = utf8_encode c ++ skipn size p.
Proof. intros p r size Hne _ Hd Hok. exact (decode_rune_valid p r size Hne Hd Hok). Qed.

(** every failure of the decoder is (RuneError, 1); the empty string gives (RuneError, 0) *)
Lemma decode_rune_size_cases : forall p : bytes,
  snd (decode_rune p) = 0%nat /\ p = [] \/ (1 <= snd (decode_rune p) <= 4)%nat /\ p <> [].
Proof.
  intros p. destruct p as [|p0 t].
  - left. split; reflexivity.
  - right. split; [|discriminate].
    unfold decode_rune. cbv zeta.
    destruct (zb p0 <? 128)%Z; [cbn [snd]; lia|].
    destruct (zb p0 <? 194)%Z; [cbn [snd]; lia|].
    destruct (zb p0 <? 224)%Z.
    { destruct t as [|b1 t2]; [cbn [snd]; lia|].
      destruct (in_range b1 128 191); cbn [snd]; lia. }
    destruct (zb p0 <? 240)%Z.
    { destruct t as [|b1 [|b2 t3]]; [cbn [snd]; lia|cbn [snd]; lia|].
      destruct (in_range b1 _ _); [|cbn [snd]; lia].
      destruct (in_range b2 128 191); cbn [snd]; lia. }
    destruct (zb p0 <? 245)%Z; [|cbn [snd]; lia].
    destruct t as [|b1 [|b2 [|b3 t4]]]; [cbn [snd]; lia|cbn [snd]; lia|cbn [snd]; lia|].
    destruct (in_range b1 _ _); [|cbn [snd]; lia].
    destruct (in_range b2 128 191); [|cbn [snd]; lia].
    destruct (in_range b3 128 191); cbn [snd]; lia.
Qed.

(** the decoder fails (width 1, U+FFFD) or returns a scalar value of the width it reports *)
Lemma decode_rune_failure_or_valid : forall (p : bytes),
  p <> [] ->
  decode_rune p = (RuneError, 1%nat) \/
  exists c : cp, scalar_value c = true /\
                 decode_rune p = (Z.of_N c, length (utf8_encode c)) /\
                 p = utf8_encode c ++ skipn (length (utf8_encode c)) p.
Proof.
  intros p Hne. destruct (decode_rune p) as [r size] eqn:Hd.
  destruct ((r =? RuneError)%Z && Nat.eqb size 1) eqn:Hok.
  - left. apply andb_true_iff in Hok. destruct Hok as [Hr Hs].
    apply Z.eqb_eq in Hr. apply Nat.eqb_eq in Hs. subst r size. reflexivity.
  - right. destruct (decode_rune_valid p r size Hne Hd Hok) as (c & Hsc & Hr & Hs & Hp).
    exists c. subst r size. repeat split; [exact Hsc|exact Hp].
Qed.

Print Assumptions decode_rune_valid.
Print Assumptions decode_rune_size_cases.
