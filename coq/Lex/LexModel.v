(** * Lex/LexModel.v — transcription of graphql/scanner (C07), from BYTES.  No proofs in this file.

    Go                                       here
    ---------------------------------------  ------------------------------------------
    Scanner{src,offset,line,column,errors}   [state] ([s_rest] = src[offset:])
    s.nextRune, s.nextRuneSize               [next_rune st], [next_size st]  (see below)
    readNextRune / nextRuneIsInvalid / peek  [read_next_rune] / [next_invalid] / [peek]
    consumeRune                              [consume_rune]
    errorf                                   [errorf]  (message dropped: position only)
    consumeName                              [consume_name]
    consumeIntegerPart / FractionalPart /    [consume_integer_part] / [consume_fractional_part] /
      ExponentPart                             [consume_exponent_part]
    hexRuneValue, isSourceCharacter, isDigit [hex_rune_value], [is_source_character], [is_digit]
    blockStringValue                         [block_string_value]
    consumeStringValue                       [consume_string_value] ([string_loop], [hex4])
    Scan (the switch)                        [scan_switch]
    Scan (the for loop, mode filter)         [scan]
    for s.Scan() { Token() Literal() ... }   [scan_all], [lex]

    The Go scanner caches the decoded rune at [offset] in two fields.  Every assignment to
    [offset] (New, consumeRune) is followed by readNextRune, so the cache always equals
    [read_next_rune] of the remaining bytes; the model recomputes it instead of storing it.

    Loops: every Go [for] is a [Fixpoint] on an explicit fuel, started at the number of remaining
    bytes (+1 where noted); running out of fuel is the explicit result [None] / [OutOfFuel], which
    [LexProofs.lex_total] excludes for every input.

    The model is of the REPAIRED tree (the five [fix:] commits of checks/C07.findings.txt); the
    pre-repair variants of the two functions whose defects can be stated without the rest of the
    scanner are kept at the end ([block_string_value_before_fix], [read_next_rune_before_fix]). *)
From Coq Require Import List NArith ZArith Bool.
From ApiFu Require Import Base.Sexp Lex.Utf8.
Import ListNotations.
Open Scope Z_scope.

(** ** graphql/token *)
Inductive tok :=
| INVALID | PUNCTUATOR | NAME | INT_VALUE | FLOAT_VALUE | STRING_VALUE
| UNICODE_BOM | WHITE_SPACE | LINE_TERMINATOR | COMMENT | COMMA.

Definition tok_code (t : tok) : Z :=
  match t with
  | INVALID => 0 | PUNCTUATOR => 1 | NAME => 2 | INT_VALUE => 3 | FLOAT_VALUE => 4 | STRING_VALUE => 5
  | UNICODE_BOM => 6 | WHITE_SPACE => 7 | LINE_TERMINATOR => 8 | COMMENT => 9 | COMMA => 10
  end.

Definition tok_eqb (a b : tok) : bool := tok_code a =? tok_code b.

(** [Token.IsIgnored] *)
Definition is_ignored (t : tok) : bool :=
  match t with
  | UNICODE_BOM | WHITE_SPACE | LINE_TERMINATOR | COMMENT | COMMA => true
  | _ => false
  end.

(** ** Scanner state *)
Record state := mkState {
  s_rest : bytes;            (* src[offset:] *)
  s_off : Z;                 (* offset *)
  s_line : Z;
  s_col : Z;
  s_errs : list (Z * Z)      (* (Line, Column) of each Error, in order of report *)
}.

(** [New] *)
Definition init (src : bytes) : state :=
  {| s_rest := src; s_off := 0; s_line := 1; s_col := 1; s_errs := [] |}.

Definition is_done (st : state) : bool := match s_rest st with [] => true | _ => false end.

(** [readNextRune]: (-1, 0) at the end of input, otherwise DecodeRune as it is *)
Definition read_next_rune (rest : bytes) : rune * nat :=
  match rest with
  | [] => (-1, 0%nat)
  | _ => decode_rune rest
  end.

Definition next_rune (st : state) : rune := fst (read_next_rune (s_rest st)).
Definition next_size (st : state) : nat := snd (read_next_rune (s_rest st)).

(** [nextRuneIsInvalid] *)
Definition next_invalid (st : state) : bool :=
  (next_rune st =? RuneError) && Nat.eqb (next_size st) 1.

(** [peek]: DecodeRune(src[offset+nextRuneSize:]), RuneError at the end of input *)
Definition peek (st : state) : rune := fst (decode_rune (skipn (next_size st) (s_rest st))).

(** [errorf] *)
Definition errorf (st : state) : state :=
  {| s_rest := s_rest st; s_off := s_off st; s_line := s_line st; s_col := s_col st;
     s_errs := s_errs st ++ [(s_line st, s_col st)] |}.

(** [consumeRune] (the returned rune is [next_rune st]) *)
Definition consume_rune (st : state) : state :=
  let r := next_rune st in
  let rest' := skipn (next_size st) (s_rest st) in
  let r' := fst (read_next_rune rest') in
  let newline := (r =? 10) || ((r =? 13) && negb (r' =? 10)) in
  {| s_rest := rest';
     s_off := s_off st + Z.of_nat (next_size st);
     s_line := if newline then s_line st + 1 else s_line st;
     s_col := if newline then 1 else s_col st + 1;
     s_errs := s_errs st |}.

(** ** Character classes *)
Definition is_digit (r : rune) : bool := (48 <=? r) && (r <=? 57).
Definition is_name_start (r : rune) : bool :=
  (r =? 95) || ((97 <=? r) && (r <=? 122)) || ((65 <=? r) && (r <=? 90)).
Definition is_name_continue (r : rune) : bool :=
  (r =? 95) || ((97 <=? r) && (r <=? 122)) || ((65 <=? r) && (r <=? 90)) || ((48 <=? r) && (r <=? 57)).
Definition is_source_character (r : rune) : bool :=
  (r =? 9) || (r =? 10) || (r =? 13) || ((32 <=? r) && (r <=? 65535)).
Definition hex_rune_value (r : rune) : Z :=
  if (48 <=? r) && (r <=? 57) then r - 48
  else if (97 <=? r) && (r <=? 102) then 10 + r - 97
  else if (65 <=? r) && (r <=? 70) then 10 + r - 65
  else -1.

(** [for !s.isDone() && p(s.nextRune) { s.consumeRune() }] *)
Fixpoint consume_while (fuel : nat) (p : rune -> bool) (st : state) : option state :=
  if negb (is_done st) && p (next_rune st) then
    match fuel with
    | O => None
    | S f => consume_while f p (consume_rune st)
    end
  else Some st.

Definition fuel_of (st : state) : nat := length (s_rest st).

(** [consumeName] *)
Definition consume_name (st : state) : option (bool * state) :=
  if is_name_start (next_rune st) then
    let st1 := consume_rune st in
    match consume_while (fuel_of st1) is_name_continue st1 with
    | Some st2 => Some (true, st2)
    | None => None
    end
  else Some (false, st).

(** [consumeIntegerPart] *)
Definition consume_integer_part (st : state) : option (bool * state) :=
  let st1 := if (next_rune st =? 45) && is_digit (peek st) then consume_rune st else st in
  if next_rune st1 =? 48 then Some (true, consume_rune st1)
  else if negb (is_digit (next_rune st1)) then Some (false, st1)
  else match consume_while (fuel_of st1) is_digit st1 with
       | Some st2 => Some (true, st2)
       | None => None
       end.

(** [consumeFractionalPart] *)
Definition consume_fractional_part (st : state) : option (bool * state) :=
  if negb (next_rune st =? 46) || negb (is_digit (peek st)) then Some (false, st)
  else
    let st1 := consume_rune st in
    match consume_while (fuel_of st1) is_digit st1 with
    | Some st2 => Some (true, st2)
    | None => None
    end.

(** [consumeExponentPart] *)
Definition consume_exponent_part (st : state) : option (bool * state) :=
  if negb (next_rune st =? 101) && negb (next_rune st =? 69) then Some (false, st)
  else
    let st1 := consume_rune st in
    let st2 := if (next_rune st1 =? 43) || (next_rune st1 =? 45) then consume_rune st1 else st1 in
    let st3 := if negb (is_digit (next_rune st2)) then errorf st2 else st2 in
    match consume_while (fuel_of st3) is_digit st3 with
    | Some st4 => Some (true, st4)
    | None => None
    end.

(** ** [blockStringValue] (on the bytes of the Go string) *)

(** strings.ReplaceAll(s, "\r\n", "\n") *)
Fixpoint replace_crlf (s : bytes) : bytes :=
  match s with
  | [] => []
  | c :: t =>
      match t with
      | d :: t' => if (c =? 13)%N && (d =? 10)%N then 10%N :: replace_crlf t' else c :: replace_crlf t
      | [] => [c]
      end
  end.

(** strings.ReplaceAll(s, "\r", "\n") *)
Definition replace_cr (s : bytes) : bytes := map (fun c => if (c =? 13)%N then 10%N else c) s.

(** strings.Split(s, "\n") as (lines[0], lines[1:]) — Split never returns an empty slice *)
Fixpoint split_lf (s : bytes) : bytes * list bytes :=
  match s with
  | [] => ([], [])
  | c :: t =>
      let (l, ls) := split_lf t in
      if (c =? 10)%N then ([], l :: ls) else (c :: l, ls)
  end.

Definition is_ws_byte (c : N) : bool := (c =? 32)%N || (c =? 9)%N.

(** the inner loop [for _, r := range line { if r != ' ' && r != '\t' { break }; indent++ }].
    Go ranges over runes; a multi-byte rune is never ' ' or '\t' and starts with a byte >= 0x80,
    so counting leading white-space bytes gives the same number. *)
Fixpoint leading_ws (line : bytes) : nat :=
  match line with
  | c :: t => if is_ws_byte c then S (leading_ws t) else O
  | [] => O
  end.

(** strings.IndexFunc(line, r != ' ' && r != '\t') == -1 *)
Definition is_blank (line : bytes) : bool := forallb is_ws_byte line.

Definition common_indent_step (ci : Z) (line : bytes) : Z :=
  let indent := Z.of_nat (leading_ws line) in
  if (indent <? Z.of_nat (length line)) && ((ci =? -1) || (indent <? ci)) then indent else ci.

Definition remove_indent (ci : Z) (line : bytes) : bytes :=
  if Z.of_nat (length line) >=? ci then skipn (Z.to_nat ci) line else [].

(** [for len(lines) > 0 { if blank(first) drop it else if len > 1 && blank(last) drop it else break }];
    fuel: the number of lines (each iteration removes one) *)
Fixpoint strip_blank (fuel : nat) (lines : list bytes) : option (list bytes) :=
  match lines with
  | [] => Some []
  | l0 :: rest =>
      if is_blank l0 then
        match fuel with O => None | S f => strip_blank f rest end
      else if (1 <? length lines)%nat && is_blank (last lines []) then
        match fuel with O => None | S f => strip_blank f (removelast lines) end
      else Some lines
  end.

(** strings.Join(lines, "\n") *)
Fixpoint join_lf (lines : list bytes) : bytes :=
  match lines with
  | [] => []
  | [l] => l
  | l :: t => l ++ 10%N :: join_lf t
  end.

Definition block_string_value (raw : bytes) : option bytes :=
  let (l0, ls) := split_lf (replace_cr (replace_crlf raw)) in
  let ci := fold_left common_indent_step ls (-1) in
  let ls' := if ci >? 0 then map (remove_indent ci) ls else ls in
  match strip_blank (S (length ls')) (l0 :: ls') with
  | Some lines => Some (join_lf lines)
  | None => None
  end.

(** ** [consumeStringValue] *)

(** the [for i := 0; i < 4; i++] loop of the \u escape: stops with an error at the first
    non-hex rune; [code] is what has been accumulated so far *)
Fixpoint hex4 (n : nat) (st : state) (code : Z) : state * Z :=
  match n with
  | O => (st, code)
  | S n' =>
      let v := hex_rune_value (next_rune st) in
      if v <? 0 then (errorf st, code)
      else hex4 n' (consume_rune st) (code * 16 + v)
  end.

(** one round of [if isEscaped { ... }] (only reachable for quoted strings) *)
Definition escaped_step (st : state) (value : bytes) : state * bytes :=
  let r := next_rune st in
  if (r =? 34) || (r =? 92) || (r =? 47) then (consume_rune st, value ++ encode_rune r)
  else if r =? 98 then (consume_rune st, value ++ [8%N])
  else if r =? 102 then (consume_rune st, value ++ [12%N])
  else if r =? 110 then (consume_rune st, value ++ [10%N])
  else if r =? 114 then (consume_rune st, value ++ [13%N])
  else if r =? 116 then (consume_rune st, value ++ [9%N])
  else if r =? 117 then
    let (st1, code) := hex4 4 (consume_rune st) 0 in
    (st1, value ++ encode_rune code)
  else (consume_rune (errorf st), value).

(** the main loop; result: final state, accumulated value, [terminated] *)
Fixpoint string_loop (fuel : nat) (is_block : bool) (st : state) (value : bytes) (is_escaped : bool)
  : option (state * bytes * bool) :=
  if is_done st then Some (st, value, false)
  else
    match fuel with
    | O => None
    | S f =>
        let r := next_rune st in
        if is_escaped then
          let (st1, value1) := escaped_step st value in
          string_loop f is_block st1 value1 false
        else if (r =? 10) || (r =? 13) then
          if negb is_block then Some (st, value, false)
          else
            let value1 := value ++ encode_rune r in
            let st1 := consume_rune st in
            if (r =? 13) && (next_rune st1 =? 10) then
              string_loop f is_block (consume_rune st1) (value1 ++ encode_rune 10) false
            else string_loop f is_block st1 value1 false
        else if r =? 92 then
          let st1 := consume_rune st in
          if negb is_block then string_loop f is_block st1 value true
          else if negb (next_rune st1 =? 34) then string_loop f is_block st1 (value ++ [92%N]) false
          else
            let st2 := consume_rune st1 in
            if (next_rune st2 =? 34) && (peek st2 =? 34) then
              string_loop f is_block (consume_rune (consume_rune st2)) (value ++ [34%N; 34%N; 34%N]) false
            else string_loop f is_block st2 (value ++ [92%N; 34%N]) false
        else if r =? 34 then
          let st1 := consume_rune st in
          if is_block then
            if (next_rune st1 =? 34) && (peek st1 =? 34) then
              Some (consume_rune (consume_rune st1), value, true)
            else string_loop f is_block st1 (value ++ [34%N]) false
          else Some (st1, value, true)
        else if next_invalid st then string_loop f is_block (consume_rune (errorf st)) value false
        else if negb (is_source_character r) then string_loop f is_block (consume_rune (errorf st)) value false
        else string_loop f is_block (consume_rune st) (value ++ encode_rune r) false
    end.

(** result: state after the string, the decoded value *)
Definition consume_string_value (st : state) : option (state * bytes) :=
  let st1 := consume_rune st in
  let is_block := (next_rune st1 =? 34) && (peek st1 =? 34) in
  let st2 := if is_block then consume_rune (consume_rune st1) else st1 in
  match string_loop (S (fuel_of st2)) is_block st2 [] false with
  | None => None
  | Some (st3, value, terminated) =>
      let st4 := if terminated then st3 else errorf st3 in
      if is_block then
        match block_string_value value with
        | Some v => Some (st4, v)
        | None => None
        end
      else Some (st4, value)
  end.

(** ** [Scan] *)

(** the comment loop *)
Fixpoint consume_comment (fuel : nat) (st : state) : option state :=
  if negb (is_done st) && negb (next_rune st =? 13) && negb (next_rune st =? 10) then
    match fuel with
    | O => None
    | S f =>
        let st1 := if next_invalid st then errorf st
                   else if negb (is_source_character (next_rune st)) then errorf st
                   else st in
        consume_comment f (consume_rune st1)
    end
  else Some st.

Definition is_punctuator_rune (r : rune) : bool :=
  (r =? 33) || (r =? 36) || (r =? 40) || (r =? 41) || (r =? 58) || (r =? 61) || (r =? 64) ||
  (r =? 91) || (r =? 93) || (r =? 123) || (r =? 124) || (r =? 125).

(** the [switch s.nextRune] of one round of Scan's loop (called when not done):
    resulting [s.token], [s.tokenStringValue] (meaningful for STRING_VALUE only), state *)
Definition scan_switch (st : state) : option (tok * bytes * state) :=
  let r := next_rune st in
  if (r =? 9) || (r =? 32) then Some (WHITE_SPACE, [], consume_rune st)
  else if is_punctuator_rune r then Some (PUNCTUATOR, [], consume_rune st)
  else if r =? 44 then Some (COMMA, [], consume_rune st)
  else if (r =? 13) || (r =? 10) then
    let st1 := consume_rune st in
    if (r =? 13) && (next_rune st1 =? 10) then Some (LINE_TERMINATOR, [], consume_rune st1)
    else Some (LINE_TERMINATOR, [], st1)
  else if r =? 35 then
    match consume_comment (fuel_of st) st with
    | Some st1 => Some (COMMENT, [], st1)
    | None => None
    end
  else if r =? 46 then
    let st1 := consume_rune st in
    if negb (next_rune st1 =? 46) then Some (INVALID, [], errorf st1)
    else
      let st2 := consume_rune st1 in
      if negb (next_rune st2 =? 46) then Some (INVALID, [], errorf st2)
      else Some (PUNCTUATOR, [], consume_rune st2)
  else if r =? 34 then
    match consume_string_value st with
    | Some (st1, v) => Some (STRING_VALUE, v, st1)
    | None => None
    end
  else if r =? RuneError then Some (INVALID, [], consume_rune (errorf st))
  else if r =? 65279 then
    if s_off st =? 0 then Some (UNICODE_BOM, [], consume_rune st)
    else Some (INVALID, [], consume_rune (errorf st))
  else
    match consume_integer_part st with
    | None => None
    | Some (true, st1) =>
        match consume_fractional_part st1 with
        | None => None
        | Some (true, st2) =>
            match consume_exponent_part st2 with
            | None => None
            | Some (_, st3) => Some (FLOAT_VALUE, [], st3)
            end
        | Some (false, st2) =>
            match consume_exponent_part st2 with
            | None => None
            | Some (true, st3) => Some (FLOAT_VALUE, [], st3)
            | Some (false, st3) => Some (INT_VALUE, [], st3)
            end
        end
    | Some (false, st1) =>
        match consume_name st1 with
        | None => None
        | Some (true, st2) => Some (NAME, [], st2)
        | Some (false, st2) => Some (INVALID, [], consume_rune (errorf st2))
        end
    end.

(** what the caller reads after a successful Scan: Token(), tokenOffset/tokenLength (observable
    as Literal()), Position(), StringValue() *)
Record token := mkToken {
  t_kind : tok;
  t_off : Z;
  t_len : Z;
  t_line : Z;
  t_col : Z;
  t_lit : bytes;       (* Literal()     = src[tokenOffset : tokenOffset+tokenLength] *)
  t_value : bytes      (* StringValue() = tokenStringValue for STRING_VALUE, Literal() otherwise *)
}.

Inductive scan_result :=
| ScanFuel
| ScanFalse (st : state)                 (* Scan() returned false *)
| ScanTrue (t : token) (st : state).     (* Scan() returned true *)

(** [Scan]: the [for] loop; [scan_ignored] is [mode&ScanIgnored != 0] *)
Fixpoint scan (fuel : nat) (scan_ignored : bool) (st : state) : scan_result :=
  if is_done st then ScanFalse st
  else
    match fuel with
    | O => ScanFuel
    | S f =>
        match scan_switch st with
        | None => ScanFuel
        | Some (k, sv, st') =>
            if tok_eqb k INVALID || (is_ignored k && negb scan_ignored) then scan f scan_ignored st'
            else
              let len := s_off st' - s_off st in
              let lit := firstn (Z.to_nat len) (s_rest st) in
              ScanTrue {| t_kind := k; t_off := s_off st; t_len := len;
                          t_line := s_line st; t_col := s_col st; t_lit := lit;
                          t_value := if tok_eqb k STRING_VALUE then sv else lit |} st'
        end
    end.

Inductive lex_result :=
| OutOfFuel
| Done (tokens : list token) (errors : list (Z * Z)).

(** [for s.Scan() { record the token }; s.Errors()] *)
Fixpoint scan_all (fuel : nat) (scan_ignored : bool) (st : state) : lex_result :=
  match fuel with
  | O => OutOfFuel
  | S f =>
      match scan (S (fuel_of st)) scan_ignored st with
      | ScanFuel => OutOfFuel
      | ScanFalse st' => Done [] (s_errs st')
      | ScanTrue t st' =>
          match scan_all f scan_ignored st' with
          | Done ts es => Done (t :: ts) es
          | OutOfFuel => OutOfFuel
          end
      end
  end.

Definition lex (scan_ignored : bool) (src : bytes) : lex_result :=
  scan_all (S (length src)) scan_ignored (init src).

(** ** Pre-repair variants (witnesses of the repaired defects; not used by [lex]) *)

(** before "fix: block strings kept white-space-only lines shorter than the common indentation":
    [if i > 0 && len(line) >= commonIndent { lines[i] = line[commonIndent:] }] *)
Definition remove_indent_before_fix (ci : Z) (line : bytes) : bytes :=
  if Z.of_nat (length line) >=? ci then skipn (Z.to_nat ci) line else line.

Definition block_string_value_before_fix (raw : bytes) : option bytes :=
  let (l0, ls) := split_lf (replace_cr (replace_crlf raw)) in
  let ci := fold_left common_indent_step ls (-1) in
  let ls' := if ci >? 0 then map (remove_indent_before_fix ci) ls else ls in
  match strip_blank (S (length ls')) (l0 :: ls') with
  | Some lines => Some (join_lf lines)
  | None => None
  end.

(** before "fix: scanner split a literal U+FFFD into three replacement characters":
    [r == utf8.RuneError && size != 0] forced the size to 1 *)
Definition read_next_rune_before_fix (rest : bytes) : rune * nat :=
  match rest with
  | [] => (-1, 0%nat)
  | _ => let (r, size) := decode_rune rest in
         if (r =? RuneError) && negb (Nat.eqb size 0) then (r, 1%nat) else (r, size)
  end.
