(** * Lex/LexSpecFacts.v — C07: facts about the reference lexer alone: which token class can start
    with which character ([longest_token] by first character), and how the character classes of
    the model ([Z]) and of the specification ([N]) correspond. *)
From Coq Require Import List NArith ZArith Bool Lia ZifyBool ZifyNat ZifyN.
From ApiFu Require Import Base.Sexp Lex.ListAux Lex.Utf8 Lex.LexModel Lex.LexSpec.
Import ListNotations.
Open Scope N_scope.

(** decide every [if] whose condition [lia] can settle from the context *)
Ltac decide_ifs :=
  repeat match goal with
         | |- context [if ?b then _ else _] =>
             first [ let H := fresh "Hb" in assert (H : b = true) by (timeout 600 lia); rewrite H; clear H
                   | let H := fresh "Hb" in assert (H : b = false) by (timeout 600 lia); rewrite H; clear H ]
         end.

(** ** character classes: model (runes, Z) vs specification (code points, N) *)
Lemma is_digit_of_N c : is_digit (Z.of_N c) = digit c.
Proof. unfold is_digit, digit. lia. Qed.
Lemma is_name_start_of_N c : is_name_start (Z.of_N c) = name_start c.
Proof. unfold is_name_start, name_start, letter. lia. Qed.
Lemma is_name_continue_of_N c : is_name_continue (Z.of_N c) = name_continue c.
Proof. unfold is_name_continue, name_continue, letter, digit. lia. Qed.
Lemma is_source_character_of_N c : is_source_character (Z.of_N c) = source_character c.
Proof. unfold is_source_character, source_character. lia. Qed.
Lemma is_punctuator_rune_of_N c : is_punctuator_rune (Z.of_N c) = single_punctuator c.
Proof. unfold is_punctuator_rune, single_punctuator. lia. Qed.

Lemma span_ext (p q : cp -> bool) l : (forall c, p c = q c) -> span p l = span q l.
Proof. intro H. induction l as [|c l IH]; [reflexivity|]. cbn [span]. rewrite H, IH. reflexivity. Qed.

Lemma span_le p l : (span p l <= length l)%nat.
Proof. induction l as [|c l IH]; cbn [span length]; [lia|]. destruct (p c); lia. Qed.

Lemma span_forallb p l : forallb p (firstn (span p l) l) = true.
Proof. induction l as [|c l IH]; [reflexivity|]. cbn [span]. destruct (p c) eqn:E; [|reflexivity]. cbn [firstn forallb]. rewrite E, IH. reflexivity. Qed.

Lemma span_stop p l : match skipn (span p l) l with c :: _ => p c = false | [] => True end.
Proof. induction l as [|c l IH]; [exact I|]. cbn [span]. destruct (p c) eqn:E; [exact IH|exact E]. Qed.

Lemma span_pos p c l : p c = true -> (0 < span p (c :: l))%nat.
Proof. intro H. cbn [span]. rewrite H. lia. Qed.

(** ** [better] / [cand] *)
Lemma better_None_l x : better None x = x.
Proof. reflexivity. Qed.
Lemma better_None_r x : better x None = x.
Proof. destruct x as [[k n]|]; reflexivity. Qed.

(** ** numbers *)
Lemma match_integer_part_cons c t : match_integer_part (c :: t) =
  if c =? 45 then
    match t with
    | d :: t' => if d =? 48 then Some 2%nat else if digit d then Some (2 + span digit t')%nat else None
    | [] => None
    end
  else if c =? 48 then Some 1%nat else if digit c then Some (1 + span digit t)%nat else None.
Proof.
  unfold match_integer_part, head_is. destruct (c =? 45); cbn [skipn Nat.add]; [|reflexivity].
  destruct t as [|d t']; reflexivity.
Qed.

Lemma match_integer_part_first c t i : match_integer_part (c :: t) = Some i ->
  (c = 45 /\ exists d t', t = d :: t' /\ digit d = true) \/ digit c = true.
Proof.
  rewrite match_integer_part_cons. destruct (c =? 45) eqn:E.
  - destruct t as [|d t']; [discriminate|]. intro H. left. split; [lia|].
    exists d, t'. split; [reflexivity|]. destruct (d =? 48) eqn:E0; [unfold digit; lia|].
    destruct (digit d); [reflexivity|discriminate].
  - intro H. right. destruct (c =? 48) eqn:E0; [unfold digit; lia|].
    destruct (digit c); [reflexivity|discriminate].
Qed.

Lemma match_integer_part_pos l i : match_integer_part l = Some i -> (0 < i)%nat.
Proof.
  unfold match_integer_part. destruct (skipn _ l) as [|c l']; [discriminate|].
  destruct (c =? 48); [intro H; inversion H; lia|]. destruct (digit c); [intro H; inversion H; lia|discriminate].
Qed.

Lemma match_fractional_part_pos l f : match_fractional_part l = Some f -> (0 < f)%nat.
Proof.
  unfold match_fractional_part. destruct l as [|c l']; [discriminate|].
  destruct ((c =? 46) && (0 <? span digit l')%nat); [intro H; inversion H; lia|discriminate].
Qed.

Lemma match_exponent_part_pos l e : match_exponent_part l = Some e -> (0 < e)%nat.
Proof.
  unfold match_exponent_part. destruct l as [|c l']; [discriminate|].
  destruct (exponent_indicator c); [|discriminate].
  destruct (0 <? span digit _)%nat; [intro H; inversion H; lia|discriminate].
Qed.

Lemma match_float_gt l i m : match_integer_part l = Some i -> match_float l = Some m -> (i < m)%nat.
Proof.
  intros Hi. unfold match_float. rewrite Hi.
  destruct (match_fractional_part (skipn i l)) as [f|] eqn:Ef.
  - pose proof (match_fractional_part_pos _ _ Ef) as Hf.
    destruct (match_exponent_part (skipn (i + f) l)) as [e|]; intro H'; inversion H'; lia.
  - destruct (match_exponent_part (skipn i l)) as [e|] eqn:Ee; [|discriminate].
    pose proof (match_exponent_part_pos _ _ Ee) as He. intro H'; inversion H'; lia.
Qed.

(** ** [longest_token] by first character *)

(** when a class cannot start with [c] *)
Lemma match_name_none c t : name_start c = false -> match_name (c :: t) = None.
Proof. intro H. unfold match_name. rewrite H. reflexivity. Qed.
Lemma match_integer_part_none c t : c <> 45 -> digit c = false -> match_integer_part (c :: t) = None.
Proof.
  intros H1 H2. rewrite match_integer_part_cons. assert (E : (c =? 45) = false) by lia. rewrite E, H2.
  assert (E0 : (c =? 48) = false) by (unfold digit in H2; lia). rewrite E0. reflexivity.
Qed.
Lemma match_float_none l : match_integer_part l = None -> match_float l = None.
Proof. intro H. unfold match_float. rewrite H. reflexivity. Qed.
Lemma string_length_none c t : c <> 34 -> string_length (c :: t) = None.
Proof. intro H. unfold string_length, match_string. assert (E : (c =? 34) = false) by lia. rewrite E. reflexivity. Qed.
Lemma match_bom_none c t : c <> 65279 -> match_bom (c :: t) = None.
Proof. intro H. unfold match_bom, head_is. assert (E : (c =? 65279) = false) by lia. rewrite E. reflexivity. Qed.
Lemma match_white_space_none c t : white_space c = false -> match_white_space (c :: t) = None.
Proof. intro H. unfold match_white_space. rewrite H. reflexivity. Qed.
Lemma match_line_terminator_none c t : c <> 10 -> c <> 13 -> match_line_terminator (c :: t) = None.
Proof.
  intros H1 H2. unfold match_line_terminator. assert (E : (c =? 10) = false) by lia.
  assert (E' : (c =? 13) = false) by lia. rewrite E, E'. reflexivity.
Qed.
Lemma match_comment_none c t : c <> 35 -> match_comment (c :: t) = None.
Proof. intro H. unfold match_comment. assert (E : (c =? 35) = false) by lia. rewrite E. reflexivity. Qed.
Lemma match_comma_none c t : c <> 44 -> match_comma (c :: t) = None.
Proof. intro H. unfold match_comma, head_is. assert (E : (c =? 44) = false) by lia. rewrite E. reflexivity. Qed.
Lemma match_punctuator_none c t : single_punctuator c = false -> c <> 46 -> match_punctuator (c :: t) = None.
Proof.
  intros H1 H2. unfold match_punctuator. rewrite H1. assert (E : (c =? 46) = false) by lia. rewrite E. reflexivity.
Qed.

Ltac cls := unfold name_start, letter, digit, white_space, single_punctuator, source_character in *; lia.

(** rewrite every matcher that cannot fire on the first character [c] to [None] *)
Ltac lt_none :=
  unfold longest_token, match_int;
  rewrite ?match_name_none by cls;
  rewrite ?match_integer_part_none by cls;
  rewrite ?match_float_none by (apply match_integer_part_none; cls);
  rewrite ?string_length_none by cls;
  rewrite ?match_bom_none by cls;
  rewrite ?match_white_space_none by cls;
  rewrite ?match_line_terminator_none by cls;
  rewrite ?match_comment_none by cls;
  rewrite ?match_comma_none by cls;
  rewrite ?match_punctuator_none by cls;
  cbn [cand fold_left better].

Lemma lt_white_space c t : white_space c = true -> longest_token (c :: t) = Some (KWhiteSpace, 1%nat).
Proof. intro H. lt_none. unfold match_white_space. rewrite H. reflexivity. Qed.

Lemma lt_single_punctuator c t : single_punctuator c = true -> longest_token (c :: t) = Some (KPunctuator, 1%nat).
Proof. intro H. lt_none. unfold match_punctuator. rewrite H. reflexivity. Qed.

Lemma lt_comma t : longest_token (44 :: t) = Some (KComma, 1%nat).
Proof. lt_none. reflexivity. Qed.

Lemma lt_lf t : longest_token (10 :: t) = Some (KLineTerminator, 1%nat).
Proof. lt_none. reflexivity. Qed.

Lemma lt_cr t : longest_token (13 :: t) = Some (KLineTerminator, if head_is t 10 then 2%nat else 1%nat).
Proof. lt_none. unfold match_line_terminator. cbn [N.eqb Pos.eqb]. destruct (head_is t 10); reflexivity. Qed.

Lemma lt_comment t : longest_token (35 :: t) = Some (KComment, S (span comment_char t)).
Proof. lt_none. reflexivity. Qed.

Lemma lt_dot t : longest_token (46 :: t) =
  match t with d :: e :: _ => if (d =? 46) && (e =? 46) then Some (KPunctuator, 3%nat) else None | _ => None end.
Proof.
  lt_none. unfold match_punctuator. cbn [single_punctuator N.eqb Pos.eqb orb].
  destruct t as [|d [|e t']]; try reflexivity.
  destruct ((d =? 46) && (e =? 46)); reflexivity.
Qed.

Lemma lt_quote t : longest_token (34 :: t) = cand KString (string_length (34 :: t)).
Proof.
  lt_none. destruct (string_length (34 :: t)) as [j|]; reflexivity.
Qed.

Lemma lt_bom t : longest_token (65279 :: t) = Some (KBOM, 1%nat).
Proof. lt_none. reflexivity. Qed.

Lemma lt_number c t i : match_integer_part (c :: t) = Some i ->
  longest_token (c :: t) =
    match match_float (c :: t) with Some m => Some (KFloat, m) | None => Some (KInt, i) end.
Proof.
  intro Hi. pose proof (match_integer_part_first _ _ _ Hi) as Hc.
  pose proof (match_float_gt (c :: t) i) as Hgt. specialize (fun m => Hgt m Hi).
  unfold longest_token, match_int. rewrite Hi.
  rewrite match_name_none by cls.
  rewrite string_length_none by cls.
  rewrite match_bom_none by cls.
  rewrite match_white_space_none by cls.
  rewrite match_line_terminator_none by cls.
  rewrite match_comment_none by cls.
  rewrite match_comma_none by cls.
  rewrite match_punctuator_none by cls.
  cbn [cand fold_left better].
  destruct (match_float (c :: t)) as [m|]; [|reflexivity].
  cbn [cand better]. specialize (Hgt m eq_refl).
  destruct (i <? m)%nat eqn:E; [reflexivity|lia].
Qed.

(** what is left for the scanner's [default:] branch *)
Definition plain_char (c : cp) : bool :=
  negb (white_space c) && negb (single_punctuator c) && negb (c =? 44) && negb (c =? 13) && negb (c =? 10) &&
  negb (c =? 35) && negb (c =? 46) && negb (c =? 34) && negb (c =? 65279).

Lemma lt_name c t : name_start c = true ->
  longest_token (c :: t) = Some (KName, S (span name_continue t)).
Proof. intro H. lt_none. unfold match_name. rewrite H. reflexivity. Qed.

Lemma lt_nothing c t : plain_char c = true -> name_start c = false -> match_integer_part (c :: t) = None ->
  longest_token (c :: t) = None.
Proof.
  unfold plain_char. intros H Hn Hi.
  unfold longest_token, match_int. rewrite Hi, (match_float_none _ Hi).
  rewrite match_name_none by exact Hn.
  rewrite string_length_none by cls.
  rewrite match_bom_none by cls.
  rewrite match_white_space_none by cls.
  rewrite match_line_terminator_none by cls.
  rewrite match_comment_none by cls.
  rewrite match_comma_none by cls.
  rewrite match_punctuator_none by cls.
  reflexivity.
Qed.

(** a character outside SourceCharacter starts nothing *)
Lemma lt_non_source c t : source_character c = false -> longest_token (c :: t) = None.
Proof.
  intro H. apply lt_nothing.
  - unfold plain_char. cls.
  - cls.
  - apply match_integer_part_none; cls.
Qed.
