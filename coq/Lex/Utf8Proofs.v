(** * Lex/Utf8Proofs.v — Go's [utf8.DecodeRune] / [string(rune)] (Lex/Utf8.v) against the RFC 3629
    encoder and strict decoder of Lex/LexSpec.v.  Proofs only; no definitions are changed. *)
From Coq Require Import List NArith ZArith Bool Lia ZifyBool ZifyNat ZifyN.
From ApiFu Require Import Base.Sexp Lex.Utf8 Lex.LexModel Lex.LexSpec.
Import ListNotations.

Ltac Zify.zify_post_hook ::= Z.div_mod_to_equations.

(** ** tactics *)

(** equality of explicit lists, element by element *)
Ltac list_eq :=
  repeat match goal with
         | |- _ :: _ = _ :: _ => f_equal
         end.

(** decide one [if] of the goal whose condition follows from the hypotheses by [lia] *)
Ltac decide_if :=
  match goal with
  | |- context [if ?b then _ else _] =>
      first
        [ let H := fresh "Hb" in
          assert (H : b = true) by (unfold in_range, zb in *; timeout 600 lia); rewrite H; clear H
        | let H := fresh "Hb" in
          assert (H : b = false) by (unfold in_range, zb in *; timeout 600 lia); rewrite H; clear H ]
  end.

(** ** the encoder *)

Lemma utf8_encode_length : forall c : cp, Z.of_nat (length (utf8_encode c)) = utf8_width c.
Proof.
  intros c. unfold utf8_encode, utf8_width.
  destruct (c <? 128)%N; [reflexivity|].
  destruct (c <? 2048)%N; [reflexivity|].
  destruct (c <? 65536)%N; reflexivity.
Qed.

Lemma utf8_encode_length_pos : forall c : cp, (1 <= length (utf8_encode c) <= 4)%nat.
Proof.
  intros c. unfold utf8_encode.
  destruct (c <? 128)%N; [cbn [length]; lia|].
  destruct (c <? 2048)%N; [cbn [length]; lia|].
  destruct (c <? 65536)%N; cbn [length]; lia.
Qed.

Lemma utf8_encode_ascii : forall c : cp, (c < 128)%N -> utf8_encode c = [c].
Proof.
  intros c H. unfold utf8_encode.
  destruct (N.ltb_spec c 128); [reflexivity|lia].
Qed.

Lemma utf8_encode_high : forall (c : cp) (b : N), (128 <= c)%N -> In b (utf8_encode c) -> (128 <= b)%N.
Proof.
  intros c b H. unfold utf8_encode.
  destruct (N.ltb_spec c 128) as [H1|H1]; [lia|].
  destruct (N.ltb_spec c 2048) as [H2|H2];
    [|destruct (N.ltb_spec c 65536) as [H3|H3]];
    cbn [In]; intros Hin;
    repeat (destruct Hin as [Hin|Hin]; [subst b; lia|]); contradiction.
Qed.

Lemma scalar_value_spec : forall c : cp,
  scalar_value c = true <-> (c < 55296 \/ (57343 < c /\ c <= 1114111))%N.
Proof. intros c. unfold scalar_value. lia. Qed.

Lemma utf8_encode_byte_range : forall (c : cp) (b : N), scalar_value c = true -> In b (utf8_encode c) -> (b < 256)%N.
Proof.
  intros c b Hs. apply scalar_value_spec in Hs. unfold utf8_encode.
  destruct (N.ltb_spec c 128) as [H1|H1];
    [|destruct (N.ltb_spec c 2048) as [H2|H2];
      [|destruct (N.ltb_spec c 65536) as [H3|H3]]];
    cbn [In]; intros Hin;
    repeat (destruct Hin as [Hin|Hin]; [subst b; timeout 600 lia|]); contradiction.
Qed.

(** ** Go's decoder on RFC encodings *)

Lemma decode_rune_encode : forall (c : cp) (rest : bytes), scalar_value c = true ->
  decode_rune (utf8_encode c ++ rest) = (Z.of_N c, length (utf8_encode c)).
Proof.
  intros c rest Hs. apply scalar_value_spec in Hs. unfold utf8_encode.
  destruct (N.ltb_spec c 128) as [H1|H1];
    [|destruct (N.ltb_spec c 2048) as [H2|H2];
      [|destruct (N.ltb_spec c 65536) as [H3|H3]]];
    cbv beta iota zeta delta [decode_rune app length].
  - repeat decide_if. reflexivity.
  - repeat decide_if. f_equal. unfold zb. timeout 600 lia.
  - repeat decide_if.
    repeat match goal with
           | |- context [if (?a =? ?b)%Z then _ else _] => destruct (Z.eqb_spec a b)
           end; try (exfalso; timeout 600 lia).
    all: repeat decide_if. all: f_equal; unfold zb in *. all: timeout 600 lia.
  - repeat decide_if.
    repeat match goal with
           | |- context [if (?a =? ?b)%Z then _ else _] => destruct (Z.eqb_spec a b)
           end; try (exfalso; timeout 600 lia).
    all: repeat decide_if. all: f_equal; unfold zb in *. all: timeout 600 lia.
Qed.

Lemma read_next_rune_encode : forall (c : cp) (rest : bytes), scalar_value c = true ->
  read_next_rune (utf8_encode c ++ rest) = (Z.of_N c, length (utf8_encode c)).
Proof.
  intros c rest Hs. rewrite <- (decode_rune_encode c rest Hs).
  unfold read_next_rune.
  destruct (utf8_encode c ++ rest) eqn:E; [|reflexivity].
  pose proof (utf8_encode_length_pos c) as Hl.
  apply (f_equal (@length N)) in E. rewrite app_length in E. cbn [length] in E. lia.
Qed.

(** ** Go's [string(rune)] *)

Lemma encode_valid_N : forall c : cp, encode_valid (Z.of_N c) = utf8_encode c.
Proof.
  intros c. unfold encode_valid, utf8_encode, nb.
  destruct (N.ltb_spec c 128) as [H1|H1];
    [|destruct (N.ltb_spec c 2048) as [H2|H2];
      [|destruct (N.ltb_spec c 65536) as [H3|H3]]];
    repeat decide_if; list_eq; timeout 600 lia.
Qed.

Lemma encode_rune_scalar : forall c : cp, scalar_value c = true -> encode_rune (Z.of_N c) = utf8_encode c.
Proof.
  intros c Hs. apply scalar_value_spec in Hs.
  unfold encode_rune, is_surrogate, MaxRune.
  decide_if. apply encode_valid_N.
Qed.

Lemma encode_rune_surrogate : forall r : Z, (55296 <= r <= 57343)%Z -> encode_rune r = utf8_encode 65533%N.
Proof.
  intros r Hr. unfold encode_rune, is_surrogate, MaxRune.
  decide_if. vm_compute. reflexivity.
Qed.

(** every rune that is not a scalar value becomes U+FFFD *)
Lemma encode_rune_invalid : forall r : Z,
  (r < 0 \/ 1114111 < r \/ 55296 <= r <= 57343)%Z -> encode_rune r = utf8_encode 65533%N.
Proof.
  intros r Hr. unfold encode_rune, is_surrogate, MaxRune.
  decide_if. vm_compute. reflexivity.
Qed.

(** ** the strict decoder *)

Lemma continuation_Some : forall b x : N, continuation b = Some x -> (b = 128 + x /\ x < 64)%N.
Proof.
  intros b x. unfold continuation.
  destruct ((128 <=? b)%N && (b <=? 191)%N) eqn:E; [|discriminate].
  intros H. injection H as H. lia.
Qed.

Lemma continuation_enc : forall x : N, (x < 64)%N -> continuation (128 + x) = Some x.
Proof.
  intros x H. unfold continuation. decide_if. f_equal. lia.
Qed.

Lemma cons_opt_Some : forall (A : Type) (x : A) (o : option (list A)) (l : list A),
  cons_opt x o = Some l -> exists l', o = Some l' /\ l = x :: l'.
Proof.
  intros A x [l'|] l H; cbn [cons_opt] in H; [|discriminate].
  injection H as H. eauto.
Qed.

Lemma utf8_decode_cons : forall (b0 : N) (t1 : bytes),
  utf8_decode (b0 :: t1) =
      if (b0 <? 128)%N then cons_opt b0 (utf8_decode t1)
      else if ((192 <=? b0) && (b0 <? 224))%N then
        match t1 with
        | b1 :: t2 =>
            match continuation b1 with
            | Some x1 =>
                let c := ((b0 - 192) * 64 + x1)%N in
                if (128 <=? c)%N then cons_opt c (utf8_decode t2) else None
            | None => None
            end
        | _ => None
        end
      else if ((224 <=? b0) && (b0 <? 240))%N then
        match t1 with
        | b1 :: b2 :: t3 =>
            match continuation b1, continuation b2 with
            | Some x1, Some x2 =>
                let c := ((b0 - 224) * 4096 + x1 * 64 + x2)%N in
                if ((2048 <=? c)%N && scalar_value c) then cons_opt c (utf8_decode t3) else None
            | _, _ => None
            end
        | _ => None
        end
      else if ((240 <=? b0) && (b0 <? 248))%N then
        match t1 with
        | b1 :: b2 :: b3 :: t4 =>
            match continuation b1, continuation b2, continuation b3 with
            | Some x1, Some x2, Some x3 =>
                let c := ((b0 - 240) * 262144 + x1 * 4096 + x2 * 64 + x3)%N in
                if ((65536 <=? c) && (c <=? 1114111))%N then cons_opt c (utf8_decode t4) else None
            | _, _, _ => None
            end
        | _ => None
        end
      else None.
Proof. intros b0 t1. reflexivity. Qed.

(** one step of the strict decoder on an encoded scalar value *)
Lemma utf8_decode_encode_app : forall (c : cp) (rest : bytes), scalar_value c = true ->
  utf8_decode (utf8_encode c ++ rest) = cons_opt c (utf8_decode rest).
Proof.
  intros c rest Hs. pose proof Hs as Hs'. apply scalar_value_spec in Hs'. unfold utf8_encode.
  destruct (N.ltb_spec c 128) as [H1|H1];
    [|destruct (N.ltb_spec c 2048) as [H2|H2];
      [|destruct (N.ltb_spec c 65536) as [H3|H3]]];
    cbv beta iota zeta delta [app]; rewrite utf8_decode_cons.
  - decide_if. reflexivity.
  - repeat decide_if.
    rewrite (continuation_enc (c mod 64)) by (timeout 600 lia). cbv beta iota zeta.
    replace ((192 + c / 64 - 192) * 64 + c mod 64)%N with c by (timeout 600 lia).
    decide_if. reflexivity.
  - repeat decide_if.
    rewrite (continuation_enc (c mod 64)) by (timeout 600 lia).
    rewrite (continuation_enc ((c / 64) mod 64)) by (timeout 600 lia). cbv beta iota zeta.
    replace ((224 + c / 4096 - 224) * 4096 + (c / 64) mod 64 * 64 + c mod 64)%N with c
      by (timeout 600 lia).
    rewrite Hs. decide_if. reflexivity.
  - repeat decide_if.
    rewrite (continuation_enc (c mod 64)) by (timeout 600 lia).
    rewrite (continuation_enc ((c / 64) mod 64)) by (timeout 600 lia).
    rewrite (continuation_enc ((c / 4096) mod 64)) by (timeout 600 lia). cbv beta iota zeta.
    replace ((240 + c / 262144 - 240) * 262144 + (c / 4096) mod 64 * 4096 +
             (c / 64) mod 64 * 64 + c mod 64)%N with c by (timeout 600 lia).
    decide_if. reflexivity.
Qed.

Lemma utf8_decode_complete : forall cps : list cp, forallb scalar_value cps = true ->
  utf8_decode (utf8_encode_all cps) = Some cps.
Proof.
  induction cps as [|c cps IH]; intros H.
  - reflexivity.
  - cbn [forallb] in H. apply andb_true_iff in H. destruct H as [Hc Hcps].
    unfold utf8_encode_all in *. cbn [flat_map].
    rewrite (utf8_decode_encode_app c _ Hc), (IH Hcps). reflexivity.
Qed.

Lemma utf8_decode_sound_step : forall (c : cp) (t : bytes) (cps : list cp),
  scalar_value c = true ->
  cons_opt c (utf8_decode t) = Some cps ->
  (forall cps', utf8_decode t = Some cps' ->
                t = utf8_encode_all cps' /\ forallb scalar_value cps' = true) ->
  utf8_encode c ++ t = utf8_encode_all cps /\ forallb scalar_value cps = true.
Proof.
  intros c t cps Hs Hc IH.
  apply cons_opt_Some in Hc. destruct Hc as (l' & Hd & ->).
  apply IH in Hd. destruct Hd as [Ht Hf].
  unfold utf8_encode_all in *. cbn [flat_map forallb].
  rewrite <- Ht, Hs, Hf. split; reflexivity.
Qed.

Lemma utf8_decode_sound_aux : forall (n : nat) (bs : bytes) (cps : list cp),
  (length bs < n)%nat -> utf8_decode bs = Some cps ->
  bs = utf8_encode_all cps /\ forallb scalar_value cps = true.
Proof.
  induction n as [|n IH]; intros bs cps Hn Hd; [lia|].
  destruct bs as [|b0 t1].
  - cbn [utf8_decode] in Hd. injection Hd as <-. split; reflexivity.
  - rewrite utf8_decode_cons in Hd. cbn [length] in Hn.
    destruct (N.ltb_spec b0 128) as [H1|H1].
    { (* one byte *)
      assert (Hs : scalar_value b0 = true) by (apply scalar_value_spec; lia).
      replace (b0 :: t1) with (utf8_encode b0 ++ t1)
        by (rewrite (utf8_encode_ascii b0 H1); reflexivity).
      apply utf8_decode_sound_step; [exact Hs|exact Hd|].
      intros cps' Hd'. apply IH; [lia|exact Hd']. }
    destruct ((192 <=? b0)%N && (b0 <? 224)%N) eqn:E2.
    { (* two bytes *)
      destruct t1 as [|b1 t2]; [discriminate|].
      destruct (continuation b1) as [x1|] eqn:C1; [|discriminate].
      apply continuation_Some in C1. destruct C1 as [-> Hx1].
      cbv zeta in Hd.
      destruct (N.leb_spec 128 ((b0 - 192) * 64 + x1)) as [Hc|Hc]; [|discriminate].
      remember ((b0 - 192) * 64 + x1)%N as c eqn:Ec.
      assert (Henc : utf8_encode c = [b0; (128 + x1)%N]).
      { unfold utf8_encode. repeat decide_if. list_eq; timeout 600 lia. }
      assert (Hs : scalar_value c = true) by (apply scalar_value_spec; timeout 600 lia).
      change (b0 :: (128 + x1)%N :: t2) with ([b0; (128 + x1)%N] ++ t2). rewrite <- Henc.
      apply utf8_decode_sound_step; [exact Hs|exact Hd|].
      intros cps' Hd'. apply IH; [cbn [length] in Hn; lia|exact Hd']. }
    destruct ((224 <=? b0)%N && (b0 <? 240)%N) eqn:E3.
    { (* three bytes *)
      destruct t1 as [|b1 [|b2 t3]]; [discriminate|discriminate|].
      destruct (continuation b1) as [x1|] eqn:C1; [|discriminate].
      destruct (continuation b2) as [x2|] eqn:C2; [|discriminate].
      apply continuation_Some in C1. destruct C1 as [-> Hx1].
      apply continuation_Some in C2. destruct C2 as [-> Hx2].
      cbv zeta in Hd.
      remember ((b0 - 224) * 4096 + x1 * 64 + x2)%N as c eqn:Ec.
      destruct (N.leb_spec 2048 c) as [Hc|Hc]; [|discriminate].
      destruct (scalar_value c) eqn:Hs; [|discriminate].
      cbn [andb] in Hd.
      assert (Henc : utf8_encode c = [b0; (128 + x1)%N; (128 + x2)%N]).
      { unfold utf8_encode. repeat decide_if. list_eq; timeout 600 lia. }
      change (b0 :: (128 + x1)%N :: (128 + x2)%N :: t3)
        with ([b0; (128 + x1)%N; (128 + x2)%N] ++ t3). rewrite <- Henc.
      apply utf8_decode_sound_step; [exact Hs|exact Hd|].
      intros cps' Hd'. apply IH; [cbn [length] in Hn; lia|exact Hd']. }
    destruct ((240 <=? b0)%N && (b0 <? 248)%N) eqn:E4; [|discriminate].
    { (* four bytes *)
      destruct t1 as [|b1 [|b2 [|b3 t4]]]; [discriminate|discriminate|discriminate|].
      destruct (continuation b1) as [x1|] eqn:C1; [|discriminate].
      destruct (continuation b2) as [x2|] eqn:C2; [|discriminate].
      destruct (continuation b3) as [x3|] eqn:C3; [|discriminate].
      apply continuation_Some in C1. destruct C1 as [-> Hx1].
      apply continuation_Some in C2. destruct C2 as [-> Hx2].
      apply continuation_Some in C3. destruct C3 as [-> Hx3].
      cbv zeta in Hd.
      remember ((b0 - 240) * 262144 + x1 * 4096 + x2 * 64 + x3)%N as c eqn:Ec.
      destruct (N.leb_spec 65536 c) as [Hc|Hc]; [|discriminate].
      destruct (N.leb_spec c 1114111) as [Hc'|Hc']; [|discriminate].
      cbn [andb] in Hd.
      assert (Henc : utf8_encode c = [b0; (128 + x1)%N; (128 + x2)%N; (128 + x3)%N]).
      { unfold utf8_encode. repeat decide_if. list_eq; timeout 600 lia. }
      assert (Hs : scalar_value c = true) by (apply scalar_value_spec; timeout 600 lia).
      change (b0 :: (128 + x1)%N :: (128 + x2)%N :: (128 + x3)%N :: t4)
        with ([b0; (128 + x1)%N; (128 + x2)%N; (128 + x3)%N] ++ t4). rewrite <- Henc.
      apply utf8_decode_sound_step; [exact Hs|exact Hd|].
      intros cps' Hd'. apply IH; [cbn [length] in Hn; lia|exact Hd']. }
Qed.

Lemma utf8_decode_sound : forall (bs : bytes) (cps : list cp), utf8_decode bs = Some cps ->
  bs = utf8_encode_all cps /\ forallb scalar_value cps = true.
Proof.
  intros bs cps H. apply (utf8_decode_sound_aux (S (length bs)) bs cps); [lia|exact H].
Qed.

Print Assumptions decode_rune_encode.
Print Assumptions encode_rune_scalar.
Print Assumptions utf8_decode_sound.
Print Assumptions utf8_decode_complete.
