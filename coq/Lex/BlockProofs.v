(** * Lex/BlockProofs.v — [blockStringValue] (model) against [BlockStringValue] (specification).

    1. [block_value_eq]: the model of the Go function equals the specification's algorithm on
       every input.
    2. [block_value_utf8]: the specification's algorithm commutes with UTF-8 encoding.
    3. [block_value_eq_refuted_before_fix]: the pre-repair code violated 1. *)
From Coq Require Import List NArith ZArith Bool Lia ZifyBool ZifyNat ZifyN.
From ApiFu Require Import Base.Sexp Lex.Utf8 Lex.LexModel Lex.LexSpec.
Import ListNotations.
Local Open Scope nat_scope.

(** ** Part 1: model = specification *)

(** *** splitting into lines *)

Definition pair_list (p : bytes * list bytes) : list bytes := fst p :: snd p.

Lemma pair_list_split_lf_cons (c : N) (t : bytes) :
  pair_list (split_lf (c :: t)) =
  if (c =? 10)%N then [] :: pair_list (split_lf t) else cons_first c (pair_list (split_lf t)).
Proof.
  cbn [split_lf]. destruct (split_lf t) as [l ls]. unfold pair_list.
  destruct (c =? 10)%N; reflexivity.
Qed.

Lemma replace_crlf_cons (c : N) (r1 : bytes) :
  replace_crlf (c :: r1) =
  if (c =? 13)%N then
    match r1 with
    | d :: r2 => if (d =? 10)%N then 10%N :: replace_crlf r2 else c :: replace_crlf r1
    | [] => c :: replace_crlf r1
    end
  else c :: replace_crlf r1.
Proof.
  destruct r1 as [|d r2].
  - cbn [replace_crlf]. destruct (c =? 13)%N; reflexivity.
  - change (replace_crlf (c :: d :: r2)) with
      (if (c =? 13)%N && (d =? 10)%N then 10%N :: replace_crlf r2 else c :: replace_crlf (d :: r2)).
    destruct (c =? 13)%N; destruct (d =? 10)%N; reflexivity.
Qed.

Lemma replace_cr_cons (c : N) (s : bytes) :
  replace_cr (c :: s) = (if (c =? 13)%N then 10%N else c) :: replace_cr s.
Proof. reflexivity. Qed.

Lemma split_lines_pair_list_len :
  forall (n : nat) (raw : list N), length raw <= n ->
    split_lines raw = pair_list (split_lf (replace_cr (replace_crlf raw))).
Proof.
  induction n as [|n IH]; intros raw Hlen.
  - destruct raw as [|c r1]; [reflexivity | cbn [length] in Hlen; lia].
  - destruct raw as [|c r1]; [reflexivity|].
    cbn [length] in Hlen.
    rewrite replace_crlf_cons.
    cbn [split_lines].
    destruct (N.eqb_spec c 10) as [Hc10|Hc10].
    + subst c. change (10 =? 13)%N with false. cbv iota.
      rewrite replace_cr_cons, pair_list_split_lf_cons.
      change (10 =? 13)%N with false. cbv iota. change (10 =? 10)%N with true. cbv iota.
      rewrite (IH r1) by lia. reflexivity.
    + destruct (N.eqb_spec c 13) as [Hc13|Hc13].
      * subst c. destruct r1 as [|d r2].
        -- reflexivity.
        -- destruct (N.eqb_spec d 10) as [Hd|Hd].
           ++ rewrite replace_cr_cons, pair_list_split_lf_cons.
              change (10 =? 13)%N with false. cbv iota. change (10 =? 10)%N with true. cbv iota.
              cbn [length] in Hlen. rewrite (IH r2) by lia. reflexivity.
           ++ rewrite replace_cr_cons, pair_list_split_lf_cons.
              change (13 =? 13)%N with true. cbv iota. change (10 =? 10)%N with true. cbv iota.
              rewrite (IH (d :: r2)) by lia. reflexivity.
      * rewrite replace_cr_cons, pair_list_split_lf_cons.
        destruct (N.eqb_spec c 13) as [Hc13'|_]; [contradiction|].
        destruct (N.eqb_spec c 10) as [Hc10'|_]; [contradiction|].
        rewrite (IH r1) by lia. reflexivity.
Qed.

Lemma split_lines_pair_list (raw : list N) :
  split_lines raw = pair_list (split_lf (replace_cr (replace_crlf raw))).
Proof. apply (split_lines_pair_list_len (length raw)); lia. Qed.

(** *** white space *)

Lemma is_ws_byte_white_space (c : N) : is_ws_byte c = white_space c.
Proof. unfold is_ws_byte, white_space. apply orb_comm. Qed.

Lemma leading_ws_span (l : bytes) : leading_ws l = span white_space l.
Proof.
  induction l as [|c t IH]; [reflexivity|].
  cbn [leading_ws span]. rewrite is_ws_byte_white_space, IH. reflexivity.
Qed.

Lemma is_blank_only_white_space (l : bytes) : is_blank l = only_white_space l.
Proof.
  unfold is_blank, only_white_space.
  induction l as [|c t IH]; [reflexivity|].
  cbn [forallb]. rewrite is_ws_byte_white_space, IH. reflexivity.
Qed.

(** *** the common indentation *)

Definition ci_enc (o : option nat) : Z :=
  match o with None => (-1)%Z | Some n => Z.of_nat n end.

Lemma common_indent_step_enc (o : option nat) (line : bytes) :
  common_indent_step (ci_enc o) line = ci_enc (common_indent_of o line).
Proof.
  unfold common_indent_step, common_indent_of, leading_white_space. cbv zeta.
  rewrite leading_ws_span. unfold cp, bytes.
  set (i := span white_space line). set (len := length line).
  destruct (Nat.ltb_spec i len) as [Hlt|Hge].
  - destruct o as [m|]; cbn [ci_enc].
    + destruct (Nat.ltb_spec i m) as [Him|Him].
      * replace ((Z.of_nat i <? Z.of_nat len)%Z && ((Z.of_nat m =? -1)%Z || (Z.of_nat i <? Z.of_nat m)%Z))
          with true by lia. reflexivity.
      * replace ((Z.of_nat i <? Z.of_nat len)%Z && ((Z.of_nat m =? -1)%Z || (Z.of_nat i <? Z.of_nat m)%Z))
          with false by lia. reflexivity.
    + replace ((Z.of_nat i <? Z.of_nat len)%Z && ((-1 =? -1)%Z || (Z.of_nat i <? -1)%Z))
        with true by lia. reflexivity.
  - replace (Z.of_nat i <? Z.of_nat len)%Z with false by lia. reflexivity.
Qed.

Lemma fold_common_indent_enc (ls : list bytes) :
  forall o : option nat,
    fold_left common_indent_step ls (ci_enc o) = ci_enc (fold_left common_indent_of ls o).
Proof.
  induction ls as [|l ls IH]; intros o; [reflexivity|].
  cbn [fold_left]. rewrite common_indent_step_enc. apply IH.
Qed.

(** *** removing the indentation *)

Lemma skipn_short {A} (n : nat) (l : list A) : length l <= n -> skipn n l = [].
Proof. intros H. apply skipn_all2. exact H. Qed.

Lemma remove_indent_skipn (n : nat) (line : bytes) :
  remove_indent (Z.of_nat n) line = skipn n line.
Proof.
  unfold remove_indent. rewrite Nat2Z.id.
  destruct (Z.geb_spec (Z.of_nat (length line)) (Z.of_nat n)) as [H|H]; [reflexivity|].
  symmetry. apply skipn_short. lia.
Qed.

Lemma map_skipn_0 {A} (ls : list (list A)) : map (skipn 0) ls = ls.
Proof. induction ls as [|l ls IH]; [reflexivity|]. cbn [map]. rewrite IH. reflexivity. Qed.

Lemma remove_indent_enc (o : option nat) (ls : list bytes) :
  (if (ci_enc o >? 0)%Z then map (remove_indent (ci_enc o)) ls else ls) =
  match o with Some n => map (skipn n) ls | None => ls end.
Proof.
  destruct o as [n|]; cbn [ci_enc].
  - destruct (Z.gtb_spec (Z.of_nat n) 0) as [H|H].
    + apply map_ext. intros l. apply remove_indent_skipn.
    + assert (n = 0) by lia. subst n. symmetry. apply map_skipn_0.
  - reflexivity.
Qed.

(** *** dropping blank lines *)

Lemma drop_trailing_blank_snoc_blank (l : list (list cp)) (x : list cp) :
  only_white_space x = true -> drop_trailing_blank (l ++ [x]) = drop_trailing_blank l.
Proof.
  intros Hx. unfold drop_trailing_blank. rewrite rev_app_distr. cbn [rev app drop_leading_blank].
  rewrite Hx. reflexivity.
Qed.

Lemma drop_trailing_blank_snoc_nonblank (l : list (list cp)) (x : list cp) :
  only_white_space x = false -> drop_trailing_blank (l ++ [x]) = l ++ [x].
Proof.
  intros Hx. unfold drop_trailing_blank. rewrite rev_app_distr. cbn [rev app drop_leading_blank].
  rewrite Hx. cbn [rev]. rewrite rev_involutive. reflexivity.
Qed.

Lemma drop_trailing_blank_nil : drop_trailing_blank [] = [].
Proof. reflexivity. Qed.

Lemma strip_blank_spec :
  forall (fuel : nat) (lines : list bytes), length lines <= fuel ->
    strip_blank fuel lines = Some (drop_trailing_blank (drop_leading_blank lines)).
Proof.
  induction fuel as [|f IH]; intros lines Hlen.
  - destruct lines as [|l0 rest]; [reflexivity | cbn [length] in Hlen; lia].
  - destruct lines as [|l0 rest]; [reflexivity|].
    cbn [strip_blank drop_leading_blank].
    rewrite is_blank_only_white_space.
    destruct (only_white_space l0) eqn:Hl0.
    + apply IH. cbn [length] in Hlen. lia.
    + set (lines := l0 :: rest) in *.
      assert (Hne : lines <> []) by (unfold lines; discriminate).
      pose proof (app_removelast_last (@nil N) Hne) as Hsplit.
      rewrite is_blank_only_white_space.
      destruct (only_white_space (last lines [])) eqn:Hlast.
      * (* the last line is blank *)
        destruct (Nat.ltb_spec 1 (length lines)) as [Hlong|Hshort].
        -- cbn [andb].
           rewrite IH.
           2:{ assert (length lines = length (removelast lines) + 1) as Hl.
               { rewrite Hsplit at 1. rewrite app_length. reflexivity. }
               lia. }
           rewrite Hsplit at 2. rewrite drop_trailing_blank_snoc_blank by exact Hlast.
           f_equal. f_equal.
           (* the head of [removelast lines] is still [l0] *)
           subst lines. destruct rest as [|l1 rest'].
           ++ cbn [length] in Hlong. lia.
           ++ change (removelast (l0 :: l1 :: rest')) with (l0 :: removelast (l1 :: rest')).
              cbn [drop_leading_blank]. rewrite Hl0. reflexivity.
        -- (* a single line: it is both first and last *)
           exfalso. unfold lines in *. destruct rest as [|l1 rest'].
           ++ cbn [last] in Hlast. congruence.
           ++ cbn [length] in Hshort. lia.
      * rewrite andb_false_r.
        rewrite Hsplit. rewrite drop_trailing_blank_snoc_nonblank by exact Hlast. reflexivity.
Qed.

(** *** joining *)

Lemma fold_join_flat_map (rest : list (list cp)) :
  forall acc : list cp,
    fold_left (fun formatted line => formatted ++ [10%N] ++ line) rest acc =
    acc ++ flat_map (cons 10%N) rest.
Proof.
  induction rest as [|l rest IH]; intros acc.
  - cbn [fold_left flat_map]. rewrite app_nil_r. reflexivity.
  - cbn [fold_left flat_map]. rewrite IH. rewrite <- app_assoc. reflexivity.
Qed.

Lemma join_lines_cons (first : list cp) (rest : list (list cp)) :
  join_lines (first :: rest) = first ++ flat_map (cons 10%N) rest.
Proof. unfold join_lines. apply fold_join_flat_map. Qed.

Lemma join_lf_cons (l : bytes) (rest : list bytes) :
  join_lf (l :: rest) = l ++ flat_map (cons 10%N) rest.
Proof.
  revert l. induction rest as [|l1 rest IH]; intros l.
  - cbn [join_lf flat_map]. rewrite app_nil_r. reflexivity.
  - change (join_lf (l :: l1 :: rest)) with (l ++ 10%N :: join_lf (l1 :: rest)).
    rewrite IH. reflexivity.
Qed.

Lemma join_lf_join_lines (lines : list bytes) : join_lf lines = join_lines lines.
Proof.
  destruct lines as [|l rest]; [reflexivity|].
  rewrite join_lf_cons, join_lines_cons. reflexivity.
Qed.

(** *** 1 *)

Theorem block_value_eq : forall raw : list N, block_string_value raw = Some (BlockStringValue raw).
Proof.
  intros raw. unfold block_string_value, BlockStringValue.
  rewrite (split_lines_pair_list raw).
  destruct (split_lf (replace_cr (replace_crlf raw))) as [l0 ls].
  unfold pair_list. cbn [fst snd].
  unfold common_indent. cbn [tl].
  change (-1)%Z with (ci_enc None).
  rewrite fold_common_indent_enc.
  set (o := fold_left common_indent_of ls None).
  rewrite remove_indent_enc.
  assert (Hrem : remove_common_indent o (l0 :: ls) =
                 l0 :: match o with Some n => map (skipn n) ls | None => ls end).
  { destruct o; reflexivity. }
  rewrite Hrem.
  set (ls' := match o with Some n => map (skipn n) ls | None => ls end).
  rewrite strip_blank_spec by (cbn [length]; lia).
  rewrite join_lf_join_lines. reflexivity.
Qed.

(** ** 3 *)

Theorem block_value_eq_refuted_before_fix :
  exists raw : list N, block_string_value_before_fix raw <> Some (BlockStringValue raw).
Proof.
  exists [10;32;32;32;32;97;10;32;32;10;32;32;32;32;98;10]%N.
  vm_compute. discriminate.
Qed.

(** ** Part 2: the specification's algorithm commutes with UTF-8 encoding *)

Lemma utf8_encode_all_cons (c : cp) (l : list cp) :
  utf8_encode_all (c :: l) = utf8_encode c ++ utf8_encode_all l.
Proof. reflexivity. Qed.

Lemma utf8_encode_all_app (a b : list cp) :
  utf8_encode_all (a ++ b) = utf8_encode_all a ++ utf8_encode_all b.
Proof. unfold utf8_encode_all. apply flat_map_app. Qed.

Lemma utf8_encode_lo (c : cp) : (c < 128)%N -> utf8_encode c = [c].
Proof.
  intros H. unfold utf8_encode. destruct (N.ltb_spec c 128) as [_|H']; [reflexivity | lia].
Qed.

Lemma utf8_encode_hi (c : cp) :
  (128 <= c)%N ->
  exists (b : N) (bs : bytes), utf8_encode c = b :: bs /\ Forall (fun x => (128 <= x)%N) (b :: bs).
Proof.
  intros H. unfold utf8_encode.
  destruct (N.ltb_spec c 128) as [H'|_]; [lia|].
  destruct (N.ltb_spec c 2048) as [_|_]; [|destruct (N.ltb_spec c 65536) as [_|_]];
    (do 2 eexists; split; [reflexivity|]);
    repeat match goal with
           | |- context [(?a / ?b)%N] => generalize (a / b)%N; intro
           | |- context [(?a mod ?b)%N] => generalize (a mod b)%N; intro
           end;
    repeat constructor; lia.
Qed.

Lemma utf8_encode_cases (c : cp) :
  ((c < 128)%N /\ utf8_encode c = [c]) \/
  ((128 <= c)%N /\
   exists (b : N) (bs : bytes), utf8_encode c = b :: bs /\ Forall (fun x => (128 <= x)%N) (b :: bs)).
Proof.
  destruct (N.lt_ge_cases c 128) as [H|H].
  - left. split; [exact H | apply utf8_encode_lo; exact H].
  - right. split; [exact H | apply utf8_encode_hi; exact H].
Qed.

Lemma white_space_hi (b : N) : (128 <= b)%N -> white_space b = false.
Proof. intros H. unfold white_space. lia. Qed.

Lemma white_space_lo (c : N) : white_space c = true -> (c < 128)%N.
Proof. unfold white_space. lia. Qed.

(** *** lines *)

Definition app_first (bs : list cp) (lines : list (list cp)) : list (list cp) :=
  match lines with
  | l :: rest => (bs ++ l) :: rest
  | [] => [bs]
  end.

Lemma split_lines_nonempty (s : list cp) : exists l rest, split_lines s = l :: rest.
Proof.
  destruct s as [|c r1]; [cbn [split_lines]; eauto|].
  cbn [split_lines].
  destruct (c =? 10)%N; [eauto|].
  destruct (c =? 13)%N.
  - destruct r1 as [|d r2]; [eauto|]. destruct (d =? 10)%N; eauto.
  - destruct (split_lines r1) as [|l rest]; cbn [cons_first]; eauto.
Qed.

Lemma split_lines_plain_cons (b : N) (s : list cp) :
  b <> 10%N -> b <> 13%N -> split_lines (b :: s) = cons_first b (split_lines s).
Proof.
  intros H10 H13. cbn [split_lines].
  destruct (N.eqb_spec b 10) as [?|_]; [contradiction|].
  destruct (N.eqb_spec b 13) as [?|_]; [contradiction|].
  reflexivity.
Qed.

Lemma split_lines_cr_cons (d : cp) (r2 : list cp) :
  d <> 10%N -> split_lines (13%N :: d :: r2) = [] :: split_lines (d :: r2).
Proof.
  intros Hd. cbn [split_lines].
  change (13 =? 10)%N with false. change (13 =? 13)%N with true. cbv iota.
  destruct (N.eqb_spec d 10) as [?|_]; [contradiction|]. reflexivity.
Qed.

Lemma split_lines_app_plain (bs : list N) (s : list cp) :
  Forall (fun b => b <> 10%N /\ b <> 13%N) bs ->
  split_lines (bs ++ s) = app_first bs (split_lines s).
Proof.
  induction bs as [|b bs IH]; intros HF.
  - destruct (split_lines_nonempty s) as (l & rest & Hs). cbn [app]. rewrite Hs. reflexivity.
  - inversion HF as [|b' bs' [Hb10 Hb13] HF' Heq]; subst.
    change ((b :: bs) ++ s) with (b :: (bs ++ s)).
    rewrite split_lines_plain_cons by assumption.
    rewrite IH by exact HF'.
    destruct (split_lines s) as [|l rest]; reflexivity.
Qed.

Lemma utf8_encode_plain (c : cp) :
  c <> 10%N -> c <> 13%N -> Forall (fun b => b <> 10%N /\ b <> 13%N) (utf8_encode c).
Proof.
  intros H10 H13.
  destruct (utf8_encode_cases c) as [[_ He]|[_ (b & bs & He & HF)]]; rewrite He.
  - constructor; [split; assumption | constructor].
  - eapply Forall_impl; [|exact HF]. intros x Hx. cbv beta in Hx. lia.
Qed.

Lemma utf8_encode_head (d : cp) :
  d <> 10%N -> exists (b : N) (bs : bytes), utf8_encode d = b :: bs /\ b <> 10%N.
Proof.
  intros Hd.
  destruct (utf8_encode_cases d) as [[_ He]|[_ (b & bs & He & HF)]].
  - exists d, []. split; assumption.
  - exists b, bs. split; [exact He|].
    inversion HF as [|b' bs' Hb HF' Heq]; subst. lia.
Qed.

Lemma map_utf8_cons_first (c : cp) (lines : list (list cp)) :
  map utf8_encode_all (cons_first c lines) = app_first (utf8_encode c) (map utf8_encode_all lines).
Proof.
  destruct lines as [|l rest].
  - cbn [cons_first map app_first]. rewrite utf8_encode_all_cons.
    change (utf8_encode_all []) with (@nil N). rewrite app_nil_r. reflexivity.
  - reflexivity.
Qed.

Lemma split_lines_utf8_len :
  forall (n : nat) (raw : list cp), length raw <= n ->
    split_lines (utf8_encode_all raw) = map utf8_encode_all (split_lines raw).
Proof.
  induction n as [|n IH]; intros raw Hlen.
  - destruct raw as [|c r1]; [reflexivity | cbn [length] in Hlen; lia].
  - destruct raw as [|c r1]; [reflexivity|].
    cbn [length] in Hlen.
    rewrite utf8_encode_all_cons.
    destruct (N.eqb_spec c 10) as [Hc10|Hc10].
    + subst c. change (utf8_encode 10%N) with [10%N].
      change (split_lines ([10%N] ++ utf8_encode_all r1))
        with ([] :: split_lines (utf8_encode_all r1)).
      change (split_lines (10%N :: r1)) with ([] :: split_lines r1).
      rewrite (IH r1) by lia. reflexivity.
    + destruct (N.eqb_spec c 13) as [Hc13|Hc13].
      * subst c. change (utf8_encode 13%N) with [13%N].
        destruct r1 as [|d r2]; [reflexivity|].
        destruct (N.eqb_spec d 10) as [Hd|Hd].
        -- subst d. rewrite utf8_encode_all_cons. change (utf8_encode 10%N) with [10%N].
           change (split_lines ([13%N] ++ [10%N] ++ utf8_encode_all r2))
             with ([] :: split_lines (utf8_encode_all r2)).
           change (split_lines (13%N :: 10%N :: r2)) with ([] :: split_lines r2).
           cbn [length] in Hlen. rewrite (IH r2) by lia. reflexivity.
        -- rewrite split_lines_cr_cons by exact Hd.
           destruct (utf8_encode_head d Hd) as (b & bs & He & Hb).
           assert (Hl : [13%N] ++ utf8_encode_all (d :: r2) = 13%N :: b :: (bs ++ utf8_encode_all r2)).
           { rewrite utf8_encode_all_cons, He. reflexivity. }
           rewrite Hl. rewrite split_lines_cr_cons by exact Hb.
           cbn [map]. f_equal.
           rewrite <- (IH (d :: r2)) by lia.
           rewrite utf8_encode_all_cons, He. reflexivity.
      * rewrite split_lines_app_plain by (apply utf8_encode_plain; assumption).
        rewrite split_lines_plain_cons by assumption.
        rewrite (IH r1) by lia.
        symmetry. apply map_utf8_cons_first.
Qed.

Lemma split_lines_utf8 (raw : list cp) :
  split_lines (utf8_encode_all raw) = map utf8_encode_all (split_lines raw).
Proof. apply (split_lines_utf8_len (length raw)); lia. Qed.

(** *** white space *)

Lemma span_white_space_utf8 (l : list cp) :
  span white_space (utf8_encode_all l) = span white_space l.
Proof.
  induction l as [|c l IH]; [reflexivity|].
  rewrite utf8_encode_all_cons.
  destruct (utf8_encode_cases c) as [[_ He]|[Hc (b & bs & He & HF)]]; rewrite He.
  - cbn [app span]. rewrite IH. reflexivity.
  - inversion HF as [|b' bs' Hb HF' Heq]; subst.
    cbn [app span]. rewrite (white_space_hi b Hb), (white_space_hi c Hc). reflexivity.
Qed.

Lemma only_white_space_utf8 (l : list cp) :
  only_white_space (utf8_encode_all l) = only_white_space l.
Proof.
  unfold only_white_space.
  induction l as [|c l IH]; [reflexivity|].
  rewrite utf8_encode_all_cons, forallb_app. cbn [forallb]. f_equal; [|exact IH].
  destruct (utf8_encode_cases c) as [[_ He]|[Hc (b & bs & He & HF)]]; rewrite He.
  - cbn [forallb]. apply andb_true_r.
  - inversion HF as [|b' bs' Hb HF' Heq]; subst.
    cbn [forallb]. rewrite (white_space_hi b Hb), (white_space_hi c Hc). reflexivity.
Qed.

Lemma utf8_encode_all_blank (l : list cp) :
  only_white_space l = true -> utf8_encode_all l = l.
Proof.
  unfold only_white_space.
  induction l as [|c l IH]; intros H; [reflexivity|].
  cbn [forallb] in H. apply andb_true_iff in H. destruct H as [Hc Hl].
  rewrite utf8_encode_all_cons, (utf8_encode_lo c (white_space_lo c Hc)), (IH Hl). reflexivity.
Qed.

Lemma span_lt_length (p : cp -> bool) (l : list cp) :
  (span p l <? length l) = negb (forallb p l).
Proof.
  induction l as [|c l IH]; [reflexivity|].
  cbn [span length forallb]. destruct (p c).
  - cbn [andb]. rewrite <- IH. reflexivity.
  - reflexivity.
Qed.

(** *** the common indentation *)

Lemma common_indent_of_utf8 (o : option nat) (l : list cp) :
  common_indent_of o (utf8_encode_all l) = common_indent_of o l.
Proof.
  unfold common_indent_of, leading_white_space. cbv zeta.
  rewrite !span_lt_length.
  change (forallb white_space (utf8_encode_all l)) with (only_white_space (utf8_encode_all l)).
  rewrite only_white_space_utf8, span_white_space_utf8. reflexivity.
Qed.

Lemma fold_common_indent_utf8 (ls : list (list cp)) :
  forall o : option nat,
    fold_left common_indent_of (map utf8_encode_all ls) o = fold_left common_indent_of ls o.
Proof.
  induction ls as [|l ls IH]; intros o; [reflexivity|].
  cbn [map fold_left]. rewrite common_indent_of_utf8. apply IH.
Qed.

Lemma common_indent_utf8 (lines : list (list cp)) :
  common_indent (map utf8_encode_all lines) = common_indent lines.
Proof.
  unfold common_indent. destruct lines as [|l ls]; [reflexivity|].
  cbn [map tl]. apply fold_common_indent_utf8.
Qed.

(** the common indentation is at most the indentation of every non-blank line *)
Lemma fold_common_indent_le (ls : list (list cp)) :
  forall (o : option nat) (n : nat),
    fold_left common_indent_of ls o = Some n ->
    (forall m, o = Some m -> n <= m) /\
    (forall l, In l ls -> only_white_space l = false -> n <= span white_space l).
Proof.
  induction ls as [|a ls IH]; intros o n Hfold.
  - cbn [fold_left] in Hfold. split.
    + intros m Hm. rewrite Hm in Hfold. injection Hfold as Hfold. lia.
    + intros l [].
  - cbn [fold_left] in Hfold. destruct (IH _ _ Hfold) as [IHo IHl]. clear IH.
    unfold common_indent_of, leading_white_space in IHo. cbv zeta in IHo.
    rewrite span_lt_length in IHo.
    change (forallb white_space a) with (only_white_space a) in IHo.
    split.
    + intros m Hm. subst o.
      destruct (only_white_space a); cbn [negb] in IHo.
      * apply IHo. reflexivity.
      * destruct (Nat.ltb_spec (span white_space a) m) as [Hlt|Hge].
        -- specialize (IHo _ eq_refl). lia.
        -- apply IHo. reflexivity.
    + intros l [Hl|Hl] Hnb.
      * subst l. rewrite Hnb in IHo. cbn [negb] in IHo.
        destruct o as [m|].
        -- destruct (Nat.ltb_spec (span white_space a) m) as [Hlt|Hge].
           ++ apply IHo. reflexivity.
           ++ specialize (IHo _ eq_refl). lia.
        -- apply IHo. reflexivity.
      * apply IHl; assumption.
Qed.

(** *** removing the indentation *)

Lemma skipn_utf8_indent (n : nat) :
  forall l : list cp, n <= span white_space l ->
    skipn n (utf8_encode_all l) = utf8_encode_all (skipn n l).
Proof.
  induction n as [|n IH]; intros l Hn; [reflexivity|].
  destruct l as [|c l]; [reflexivity|].
  cbn [span] in Hn. destruct (white_space c) eqn:Hc; [|lia].
  rewrite utf8_encode_all_cons, (utf8_encode_lo c (white_space_lo c Hc)).
  cbn [app skipn]. apply IH. lia.
Qed.

Lemma only_white_space_skipn (n : nat) :
  forall l : list cp, only_white_space l = true -> only_white_space (skipn n l) = true.
Proof.
  unfold only_white_space.
  induction n as [|n IH]; intros l H; [exact H|].
  destruct l as [|c l]; [reflexivity|].
  cbn [forallb] in H. apply andb_true_iff in H. destruct H as [_ Hl].
  cbn [skipn]. apply IH. exact Hl.
Qed.

Lemma skipn_utf8_blank (n : nat) (l : list cp) :
  only_white_space l = true -> skipn n (utf8_encode_all l) = utf8_encode_all (skipn n l).
Proof.
  intros H. rewrite (utf8_encode_all_blank l H).
  symmetry. apply utf8_encode_all_blank. apply only_white_space_skipn. exact H.
Qed.

Lemma remove_common_indent_utf8 (lines : list (list cp)) :
  remove_common_indent (common_indent lines) (map utf8_encode_all lines) =
  map utf8_encode_all (remove_common_indent (common_indent lines) lines).
Proof.
  destruct (common_indent lines) as [n|] eqn:Hci; [|reflexivity].
  destruct lines as [|first rest]; [reflexivity|].
  cbn [map remove_common_indent]. f_equal.
  unfold common_indent in Hci. cbn [tl] in Hci.
  destruct (fold_common_indent_le rest None n Hci) as [_ Hle].
  rewrite !map_map. apply map_ext_in. intros l Hl.
  destruct (only_white_space l) eqn:Hb.
  - apply skipn_utf8_blank. exact Hb.
  - apply skipn_utf8_indent. apply Hle; assumption.
Qed.

(** *** dropping blank lines, joining *)

Lemma drop_leading_blank_utf8 (lines : list (list cp)) :
  drop_leading_blank (map utf8_encode_all lines) = map utf8_encode_all (drop_leading_blank lines).
Proof.
  induction lines as [|l rest IH]; [reflexivity|].
  cbn [map drop_leading_blank]. rewrite only_white_space_utf8.
  destruct (only_white_space l); [exact IH | reflexivity].
Qed.

Lemma drop_trailing_blank_utf8 (lines : list (list cp)) :
  drop_trailing_blank (map utf8_encode_all lines) = map utf8_encode_all (drop_trailing_blank lines).
Proof.
  unfold drop_trailing_blank.
  rewrite <- map_rev, drop_leading_blank_utf8, map_rev. reflexivity.
Qed.

Lemma flat_map_lf_utf8 (rest : list (list cp)) :
  flat_map (cons 10%N) (map utf8_encode_all rest) = utf8_encode_all (flat_map (cons 10%N) rest).
Proof.
  induction rest as [|l rest IH]; [reflexivity|].
  cbn [map flat_map]. rewrite IH.
  change ((10%N :: l) ++ flat_map (cons 10%N) rest) with (10%N :: (l ++ flat_map (cons 10%N) rest)).
  rewrite utf8_encode_all_cons, utf8_encode_all_app. reflexivity.
Qed.

Lemma join_lines_utf8 (lines : list (list cp)) :
  join_lines (map utf8_encode_all lines) = utf8_encode_all (join_lines lines).
Proof.
  destruct lines as [|first rest]; [reflexivity|].
  cbn [map]. rewrite !join_lines_cons, utf8_encode_all_app, flat_map_lf_utf8. reflexivity.
Qed.

(** *** 2 *)

Theorem block_value_utf8 : forall raw : list cp,
  BlockStringValue (utf8_encode_all raw) = utf8_encode_all (BlockStringValue raw).
Proof.
  intros raw. unfold BlockStringValue.
  rewrite split_lines_utf8, common_indent_utf8, remove_common_indent_utf8.
  rewrite drop_leading_blank_utf8, drop_trailing_blank_utf8, join_lines_utf8.
  reflexivity.
Qed.

Print Assumptions block_value_eq.
Print Assumptions block_value_utf8.
Print Assumptions block_value_eq_refuted_before_fix.
