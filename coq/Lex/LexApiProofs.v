(** * Lex/LexApiProofs.v — C07: the API state machine satisfies LexApiSpec for EVERY source, mode
    and call sequence.

    Invariant ([api_inv]) after [j] calls of Scan, whatever observers were called in between:
    the scanner state is the one the canonical loop is in after [j] rounds (what remains to be
    scanned yields the remaining tokens [skipn j ts] and the same final errors [es]), it
    satisfies the boundary invariant of LexErrors, and the token fields are those of token [j]
    (zero values before the first Scan; INVALID / end position / length 0 after the last). *)
From Coq Require Import List NArith ZArith Bool Lia ZifyBool ZifyNat ZifyN.
From ApiFu Require Import Base.Sexp Lex.ListAux Lex.Utf8 Lex.LexModel Lex.LexProgress Lex.LexErrors
  Lex.LexApi Lex.LexApiSpec.
Import ListNotations.
Open Scope Z_scope.

(** the scanner after [j] calls of Scan *)
Fixpoint scan_n (j : nat) (a : api) : api :=
  match j with O => a | S i => fst (api_scan (scan_n i a)) end.

(** one round of the canonical loop, with the run of [steps] it makes *)
Lemma scan_cases m st f tsr es : scan_all f m st = Done tsr es ->
  (exists st', scan (S (fuel_of st)) m st = ScanFalse st' /\ tsr = [] /\ es = s_errs st' /\
               is_done st' = true /\ steps 0 st st') \/
  (exists t st' tsr' f', scan (S (fuel_of st)) m st = ScanTrue t st' /\ tsr = t :: tsr' /\
               scan_all f' m st' = Done tsr' es /\ steps 0 st st').
Proof.
  destruct f as [|f]; [discriminate|]. cbn [scan_all]. intro H.
  destruct (scan_ok m (S (fuel_of st)) st) as [(st' & H1 & [K1 K2] & D1)|(t & st0 & st' & H1 & [K1 K2] & T1)];
    [unfold fuel_of; lia| |]; rewrite H1 in H.
  - left. exists st'. inversion H; subst. repeat split; try reflexivity; assumption.
  - right. destruct (scan_all f m st') as [|ts' es'] eqn:E; [discriminate|]. inversion H; subst.
    exists t, st', ts', f. repeat split; try reflexivity; try assumption.
    eapply steps_then; [exact K1|apply (ta_steps _ _ _ T1)|lia].
Qed.

Lemma skipn_cons_nth {A} : forall (j : nat) (l : list A) (x : A) (t : list A),
  skipn j l = x :: t -> nth_error l j = Some x /\ skipn (S j) l = t /\ (j < length l)%nat.
Proof.
  induction j as [|j IH]; intros l x t H; destruct l as [|y l]; try discriminate.
  - cbn in H. inversion H; subst. cbn. repeat split. lia.
  - cbn [skipn] in H. destruct (IH _ _ _ H) as (H1 & H2 & H3). cbn [nth_error length]. repeat split; [exact H1|exact H2|lia].
Qed.

Lemma skipn_nil_nth {A} : forall (j : nat) (l : list A), skipn j l = [] -> nth_error l j = None /\ (length l <= j)%nat.
Proof.
  intros j l H. assert (L : length (skipn j l) = 0%nat) by (rewrite H; reflexivity). rewrite skipn_length in L.
  split; [apply nth_error_None; lia|lia].
Qed.

(** the token fields at cursor [j] *)
Definition fields_ok (ts : list token) (src : bytes) (j : nat) (a : api) : Prop :=
  match j with
  | O => a_tok a = INVALID /\ a_toff a = 0 /\ a_tlen a = 0 /\ a_tline a = 0 /\ a_tcol a = 0
  | S i =>
      match nth_error ts i with
      | Some t => a_tok a = t_kind t /\ a_toff a = t_off t /\ a_tlen a = t_len t /\
                  a_tline a = t_line t /\ a_tcol a = t_col t /\
                  (t_kind t = STRING_VALUE -> a_tsv a = t_value t)
      | None => a_tok a = INVALID /\ a_tlen a = 0 /\ 0 <= a_toff a <= Z.of_nat (length src) /\
                (a_tline a, a_tcol a) = end_pos src
      end
  end.

Record api_inv (m : bool) (src : bytes) (ts : list token) (es : list (Z * Z)) (j : nat) (a : api) : Prop := {
  ai_src : a_src a = src;
  ai_mode : a_mode a = m;
  ai_rest : exists f, scan_all f m (a_st a) = Done (skipn j ts) es;
  ai_errs : errs_inv src (a_st a);
  ai_at : at_bs src (a_st a);
  ai_fields : fields_ok ts src j a;
  ai_final : (length ts < j)%nat -> s_errs (a_st a) = es
}.

Lemma api_inv_0 m src ts es : lex m src = Done ts es -> api_inv m src ts es 0 (api_new m src).
Proof.
  intro H. constructor; try reflexivity.
  - exists (S (length src)). exact H.
  - apply errs_inv_init.
  - apply at_bs_init.
  - cbn. repeat split.
  - intro Hl. lia.
Qed.

(** one more Scan: the invariant moves to the next cursor, the answer is "is there a j-th token",
    and the errors only grow *)
Lemma api_inv_scan m src ts es j a : api_inv m src ts es j a ->
  api_inv m src ts es (S j) (fst (api_scan a)) /\
  snd (api_scan a) = RBool (S j <=? length ts)%nat /\
  exists l, s_errs (a_st (fst (api_scan a))) = s_errs (a_st a) ++ l.
Proof.
  intros [Hsrc Hmode (f & Hrest) Herrs Hat Hfields Hfinal].
  unfold api_scan, api_scan_gen. rewrite Hmode.
  destruct (scan_cases _ _ _ _ _ Hrest) as [(st' & H1 & Hn & He & Hd & Hs)|(t & st' & tsr & f' & H1 & Hn & H2 & Hs)];
    rewrite H1; cbn [fst snd].
  - destruct (skipn_nil_nth _ _ Hn) as [Hnone Hlen].
    split; [|split].
    + constructor; cbn [a_src a_mode a_st a_tok a_toff a_tline a_tcol a_tlen a_tsv]; try assumption; try reflexivity.
      * exists 1%nat. cbn [scan_all scan]. rewrite Hd.
        replace (skipn (S j) ts) with (@nil token); [rewrite He; reflexivity|].
        symmetry. apply skipn_all2. lia.
      * eapply errs_inv_steps; eassumption.
      * eapply at_bs_steps; eassumption.
      * cbn [fields_ok]. rewrite Hnone. repeat split.
        -- apply (at_bs_steps _ _ _ _ Hat Hs).
        -- apply (at_bs_steps _ _ _ _ Hat Hs).
        -- apply errs_inv_done_pos; [eapply errs_inv_steps; eassumption|exact Hd].
      * intros _. symmetry. exact He.
    + f_equal. symmetry. apply Nat.leb_gt. lia.
    + apply (steps_errs _ _ _ Hs).
  - destruct (skipn_cons_nth _ _ _ _ Hn) as (Hnth & Hskip & Hlt).
    split; [|split].
    + constructor; cbn [a_src a_mode a_st a_tok a_toff a_tline a_tcol a_tlen a_tsv]; try assumption; try reflexivity.
      * exists f'. rewrite Hskip. exact H2.
      * eapply errs_inv_steps; eassumption.
      * eapply at_bs_steps; eassumption.
      * cbn [fields_ok]. rewrite Hnth. repeat split. intros ->. reflexivity.
      * intro Hl. lia.
    + f_equal. symmetry. apply Nat.leb_le. lia.
    + apply (steps_errs _ _ _ Hs).
Qed.

Lemma api_inv_n m src ts es : lex m src = Done ts es ->
  forall j, api_inv m src ts es j (scan_n j (api_new m src)).
Proof.
  intros H j. induction j as [|j IH]; [apply api_inv_0; exact H|].
  cbn [scan_n]. apply (api_inv_scan _ _ _ _ _ _ IH).
Qed.

(** ** what the tokens of a complete scan are made of *)
Lemma extents_forall bs : forall ts from, 0 <= from -> extents_ok bs from ts ->
  Forall (fun t => 0 <= t_off t /\ t_off t + t_len t <= Z.of_nat (length bs) /\
                   t_lit t = firstn (Z.to_nat (t_len t)) (skipn (Z.to_nat (t_off t)) bs)) ts.
Proof.
  induction ts as [|t ts IH]; intros from Hf H; [constructor|].
  cbn [extents_ok] in H. destruct H as (H1 & H2 & H3 & H4 & _ & H6).
  constructor; [repeat split; [lia|exact H3|exact H4]|]. apply (IH (t_off t + t_len t)); [lia|exact H6].
Qed.

Lemma lex_values m bs ts es : lex m bs = Done ts es ->
  Forall (fun t => t_kind t <> STRING_VALUE -> t_value t = t_lit t) ts.
Proof.
  unfold lex. apply (scan_all_forall m (fun _ => True)); [auto| |exact I].
  intros st0 st' t _ T. destruct (ta_switch _ _ _ T) as (k & sv & _ & ->).
  unfold mk_token. cbn [t_kind t_value t_lit]. intro Hk.
  destruct (tok_eqb k STRING_VALUE) eqn:E; [apply tok_eqb_eq in E; contradiction|reflexivity].
Qed.

Lemma tok_eqb_refl k : tok_eqb k k = true.
Proof. apply tok_eqb_eq. reflexivity. Qed.

(** ** the observers at cursor [j] *)
Lemma api_observe m src ts es j a c : lex m src = Done ts es -> api_inv m src ts es j a -> c <> CScan ->
  fst (api_step_gen true a c) = a /\
  resp_ok ts (end_pos src) (fun i => s_errs (a_st (scan_n i (api_new m src)))) j c (snd (api_step_gen true a c)) \/
  c = CErrors.
Proof.
  intros H [Hsrc Hmode _ _ _ Hfields _] Hc.
  destruct (lex_progress m src) as (ts0 & es0 & H0 & Hext). rewrite H in H0. inversion H0; subst ts0 es0.
  pose proof (extents_forall _ _ 0 ltac:(lia) Hext) as Hall. rewrite Forall_forall in Hall.
  pose proof (lex_values _ _ _ _ H) as Hval. rewrite Forall_forall in Hval.
  assert (LIT : api_literal a = RBytes (ref_literal ts j)).
  { unfold api_literal, ref_literal, cur. rewrite Hsrc. destruct j as [|i]; cbn [fields_ok] in Hfields.
    - destruct Hfields as (_ & -> & -> & _).
      destruct (0 + 0 <=? Z.of_nat (length src)) eqn:L; [reflexivity|lia].
    - destruct (nth_error ts i) as [t|] eqn:E.
      + destruct Hfields as (_ & -> & -> & _). destruct (Hall t (nth_error_In _ _ E)) as (A & B & C).
        destruct (t_off t + t_len t <=? Z.of_nat (length src)) eqn:L; [|lia]. rewrite C. reflexivity.
      + destruct Hfields as (_ & -> & Hoff & _).
        destruct (a_toff a + 0 <=? Z.of_nat (length src)) eqn:L; [|lia]. reflexivity. }
  destruct c; try contradiction; [left|left|left|left|right; reflexivity]; (split; [reflexivity|]); cbn [api_step_gen snd resp_ok].
  - unfold api_token, ref_token, cur. destruct j as [|i]; cbn [fields_ok] in Hfields.
    + destruct Hfields as (-> & _). reflexivity.
    + destruct (nth_error ts i); destruct Hfields as (-> & _); reflexivity.
  - unfold api_position, ref_position. destruct j as [|i]; cbn [fields_ok] in Hfields.
    + destruct Hfields as (_ & _ & _ & -> & ->). reflexivity.
    + destruct (nth_error ts i).
      * destruct Hfields as (_ & _ & _ & -> & -> & _). reflexivity.
      * destruct Hfields as (_ & _ & _ & <-). reflexivity.
  - exact LIT.
  - unfold api_string_value. rewrite LIT. unfold ref_value, ref_literal, cur.
    destruct j as [|i]; cbn [fields_ok] in Hfields.
    + destruct Hfields as (-> & _). reflexivity.
    + destruct (nth_error ts i) as [t|] eqn:E.
      * destruct Hfields as (-> & _ & _ & _ & _ & Hsv).
        destruct (tok_eqb (t_kind t) STRING_VALUE) eqn:K.
        -- apply tok_eqb_eq in K. rewrite (Hsv K). reflexivity.
        -- f_equal. symmetry. apply (Hval t (nth_error_In _ _ E)). intro K'. rewrite K', tok_eqb_refl in K. discriminate.
      * destruct Hfields as (-> & _). reflexivity.
Qed.

(** ** Main theorem: call-order independence.

    For every source [src] (any bytes), mode and call sequence [cs]: if the canonical loop yields
    [ts] and [es], then the answers to [cs] are exactly those LexApiSpec prescribes — each a
    function of the number of Scan() calls so far; in particular no call panics, repeated
    observers repeat their answer, Scan() keeps answering false after the end, and Errors()
    only grows and ends as [es]. *)
Theorem api_call_order : forall m src ts es, lex m src = Done ts es ->
  exists E, errs_by_cursor_ok ts es E /\
            forall cs, trace_ok ts (end_pos src) E 0 cs (run m src cs).
Proof.
  intros m src ts es H.
  set (E := fun i => s_errs (a_st (scan_n i (api_new m src)))).
  exists E. split.
  - split; [reflexivity|]. split.
    + intro j. unfold E. cbn [scan_n].
      destruct (api_inv_scan _ _ _ _ _ _ (api_inv_n _ _ _ _ H j)) as (_ & _ & Hl). exact Hl.
    + intros j Hj. unfold E. apply (ai_final _ _ _ _ _ _ (api_inv_n _ _ _ _ H j) Hj).
  - intro cs. unfold run. change (api_new m src) with (scan_n 0 (api_new m src)).
    generalize 0%nat as j. induction cs as [|c cs IH]; intro j; [exact I|].
    cbn [run_gen]. destruct (api_step_gen true (scan_n j (api_new m src)) c) as [a' r] eqn:Es.
    cbn [trace_ok]. pose proof (api_inv_n _ _ _ _ H j) as Hinv.
    destruct c; cbn [next_cursor].
    1: { cbn [api_step_gen] in Es. destruct (api_inv_scan _ _ _ _ _ _ Hinv) as (_ & Hr & _).
         change (api_scan_gen true) with api_scan in Es. rewrite Es in Hr. cbn [snd] in Hr.
         split; [exact Hr|]. replace a' with (scan_n (S j) (api_new m src)); [apply IH|].
         cbn [scan_n]. rewrite Es. reflexivity. }
    all: try (cbn [api_step_gen] in Es; inversion Es; subst a' r;
              split; [|apply IH]; cbn [resp_ok]; try reflexivity).
    + destruct (api_observe _ _ _ _ _ _ CToken H Hinv ltac:(discriminate)) as [[_ R]|R]; [exact R|discriminate].
    + destruct (api_observe _ _ _ _ _ _ CPosition H Hinv ltac:(discriminate)) as [[_ R]|R]; [exact R|discriminate].
    + destruct (api_observe _ _ _ _ _ _ CLiteral H Hinv ltac:(discriminate)) as [[_ R]|R]; [exact R|discriminate].
    + destruct (api_observe _ _ _ _ _ _ CStringValue H Hinv ltac:(discriminate)) as [[_ R]|R]; [exact R|discriminate].
Qed.

(** before "fix: Literal and StringValue after the last token sliced past the end of the source":
    on the source "a", Scan Scan Literal panics *)
Theorem api_call_order_refuted_before_fix :
  exists m src cs, In RPanic (run_before_fix m src cs).
Proof. exists false, [97%N], [CScan; CScan; CLiteral]. vm_compute. right. right. left. reflexivity. Qed.

(** after the repair no call ever panics or runs out of fuel *)
Corollary api_never_panics : forall m src cs, ~ In RPanic (run m src cs) /\ ~ In RFuel (run m src cs).
Proof.
  intros m src cs. destruct (lex_progress m src) as (ts & es & H & _).
  destruct (api_call_order _ _ _ _ H) as (E & _ & HT). specialize (HT cs).
  revert HT. generalize (run m src cs) as rs. generalize 0%nat as j.
  induction cs as [|c cs IH]; intros j rs HT; destruct rs as [|r rs]; cbn [trace_ok] in HT; try contradiction.
  - split; intros [].
  - destruct HT as [Hr HT]. destruct (IH _ _ HT) as [I1 I2].
    split; intros [Hx|Hx]; try (apply I1; exact Hx); try (apply I2; exact Hx); subst r;
      destruct c; cbn [resp_ok] in Hr; discriminate.
Qed.
