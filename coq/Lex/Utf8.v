(** * Lex/Utf8.v — Go's [unicode/utf8] as the scanner uses it (C07).  No proofs in this file.

    - [decode_rune]  = [utf8.DecodeRune]: first rune of a byte slice and its width in bytes;
                       an empty slice gives (RuneError, 0), every malformed prefix (RuneError, 1),
                       a correctly encoded U+FFFD gives (RuneError, 3).
    - [encode_rune]  = Go's conversion [string(rune)] (= [utf8.AppendRune]): runes that are not
                       Unicode scalar values (negative, surrogates, above U+10FFFF) become U+FFFD.

    Modelled, not verified: these two functions are transcriptions of the Go standard library
    (utf8.go: tables [first], [acceptRanges]); they are tied to the real ones only by the
    correspondence check (every token extent, column and decoded value depends on them).

    Bytes are [N] (Base/Sexp.v), runes are [Z] because the scanner uses -1 for end of input. *)
From Coq Require Import List NArith ZArith Bool.
From ApiFu Require Import Base.Sexp.
Import ListNotations.
Open Scope Z_scope.

Definition rune := Z.
Definition RuneError : rune := 65533.      (* U+FFFD *)
Definition MaxRune : rune := 1114111.      (* U+10FFFF *)

Definition zb (b : N) : Z := Z.of_N b.

Definition in_range (b : N) (lo hi : Z) : bool := (lo <=? zb b) && (zb b <=? hi).

(** [utf8.DecodeRune].  The Go code looks up [first[p0]] to get the width and the accepted range
    of the second byte ([acceptRanges]); here the same table is written as comparisons:
      00..7F one byte; 80..C1 invalid; C2..DF two bytes, second 80..BF;
      E0 three bytes, second A0..BF; E1..EC, EE..EF second 80..BF; ED second 80..9F;
      F0 four bytes, second 90..BF; F1..F3 second 80..BF; F4 second 80..8F; F5..FF invalid;
    continuation bytes 80..BF.  Every failure is (RuneError, 1). *)
Definition decode_rune (p : bytes) : rune * nat :=
  match p with
  | [] => (RuneError, 0%nat)
  | p0 :: t =>
      let z0 := zb p0 in
      if z0 <? 128 then (z0, 1%nat)
      else if z0 <? 194 then (RuneError, 1%nat)
      else if z0 <? 224 then
        match t with
        | b1 :: _ =>
            if in_range b1 128 191 then ((z0 mod 32) * 64 + zb b1 mod 64, 2%nat)
            else (RuneError, 1%nat)
        | _ => (RuneError, 1%nat)
        end
      else if z0 <? 240 then
        let lo := if z0 =? 224 then 160 else 128 in
        let hi := if z0 =? 237 then 159 else 191 in
        match t with
        | b1 :: b2 :: _ =>
            if in_range b1 lo hi then
              if in_range b2 128 191 then
                ((z0 mod 16) * 4096 + (zb b1 mod 64) * 64 + zb b2 mod 64, 3%nat)
              else (RuneError, 1%nat)
            else (RuneError, 1%nat)
        | _ => (RuneError, 1%nat)
        end
      else if z0 <? 245 then
        let lo := if z0 =? 240 then 144 else 128 in
        let hi := if z0 =? 244 then 143 else 191 in
        match t with
        | b1 :: b2 :: b3 :: _ =>
            if in_range b1 lo hi then
              if in_range b2 128 191 then
                if in_range b3 128 191 then
                  ((z0 mod 8) * 262144 + (zb b1 mod 64) * 4096 + (zb b2 mod 64) * 64 + zb b3 mod 64, 4%nat)
                else (RuneError, 1%nat)
              else (RuneError, 1%nat)
            else (RuneError, 1%nat)
        | _ => (RuneError, 1%nat)
        end
      else (RuneError, 1%nat)
  end.

(** [string(r)] for a rune [r] ([utf8.AppendRune]) *)
Definition nb (z : Z) : N := Z.to_N z.

Definition encode_valid (r : Z) : bytes :=
  if r <? 128 then [nb r]
  else if r <? 2048 then [nb (192 + r / 64); nb (128 + r mod 64)]
  else if r <? 65536 then [nb (224 + r / 4096); nb (128 + (r / 64) mod 64); nb (128 + r mod 64)]
  else [nb (240 + r / 262144); nb (128 + (r / 4096) mod 64); nb (128 + (r / 64) mod 64); nb (128 + r mod 64)].

Definition is_surrogate (r : Z) : bool := (55296 <=? r) && (r <=? 57343).

Definition encode_rune (r : rune) : bytes :=
  if (r <? 0) || (MaxRune <? r) || is_surrogate r then encode_valid RuneError
  else encode_valid r.
