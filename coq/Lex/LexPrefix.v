(** * Lex/LexPrefix.v — C07: on a text with a lexical error (or in a known class) the scanner still
    reproduces the grammar's tokens up to the failure, and reports no error before it.

    [prefix_gen]: from a synchronised state the scanner follows the reference lexer token for
    token through [agreed ...] without reporting anything, and arrives synchronised behind them.
    [errs_from]: whatever is reported from a state standing at boundary [k0] on sits at
    boundaries [>= k0]. *)
From Coq Require Import List NArith ZArith Bool Lia ZifyBool ZifyNat ZifyN.
From ApiFu Require Import Base.Sexp Lex.ListAux Lex.Utf8 Lex.LexModel Lex.LexSpec Lex.LexRel Lex.Utf8Proofs
  Lex.LexProgress Lex.LexSync Lex.LexSpecFacts Lex.LexClasses Lex.LexStrings Lex.LexStep Lex.LexStepStrong Lex.LexRefine
  Lex.LexErrors Lex.LexPrefixSpec Lex.LexMode.
Import ListNotations.
Open Scope Z_scope.

Lemma agreed_count_cons t l : agreed_count (t :: l) = (length (st_text t) + agreed_count l)%nat.
Proof. reflexivity. Qed.

(** beyond the end of the text the position no longer moves *)
Lemma advance_pos_sat : forall l m p, (length l <= m)%nat -> advance_pos p m l = advance_pos p (length l) l.
Proof.
  induction l as [|c l IH]; intros m p Hm.
  - destruct m; reflexivity.
  - destruct m as [|m]; [simpl in Hm; lia|]. cbn [length advance_pos]. apply IH. simpl in Hm. lia.
Qed.

Section Prefix.
  Variable cps : list cp.
  Hypothesis Hscalar : forallb scalar_value cps = true.
  Notation sync := (LexSync.sync cps).

  (** a state synchronised "beyond" the end of the text stands at its end *)
  Lemma sync_clip n L st j st1 : sync n L st -> sync (n + j) (skipn j L) st1 -> (length L < j)%nat ->
    sync (n + length L) (skipn (length L) L) st1.
  Proof.
    intros Hs Hs1 Hj. pose proof (sy_L _ _ _ _ Hs) as HL.
    assert (Hlen : length L = (length cps - n)%nat) by (rewrite <- HL; apply skipn_length).
    rewrite skipn_all. rewrite skipn_all2 in Hs1 by lia.
    constructor.
    - apply skipn_all2. lia.
    - apply (sy_rest _ _ _ _ Hs1).
    - rewrite (sy_off _ _ _ _ Hs1). rewrite !firstn_all2 by lia. reflexivity.
    - rewrite (sy_pos _ _ _ _ Hs1). rewrite (advance_pos_sat cps (n + j)) by lia.
      rewrite (advance_pos_sat cps (n + length L)) by lia. reflexivity.
  Qed.

  Lemma prefix_trivial n L st fm ts es : sync n L st -> scan_all fm true st = Done ts es ->
    exists rest stk fm', ts = map token_of_stoken [] ++ rest /\ scan_all fm' true stk = Done rest es /\
      sync (n + agreed_count []) (skipn (agreed_count []) L) stk /\ s_errs stk = s_errs st /\
      (agreed_count [] <= length L)%nat.
  Proof.
    intros Hs H. exists ts, st, fm. split; [reflexivity|]. split; [exact H|].
    unfold agreed_count. cbn [map list_sum skipn]. rewrite Nat.add_0_r. split; [exact Hs|]. split; [reflexivity|]. apply Nat.le_0_l.
  Qed.

  Lemma prefix_gen : forall fs n L st stoks e, sync n L st -> (length L < fs)%nat ->
    spec_scan fs n (s_off st) (s_line st, s_col st) L = (stoks, e) ->
    forall fm ts es, scan_all fm true st = Done ts es ->
    exists rest stk fm', ts = map token_of_stoken (agreed cps stoks (is_end_error e)) ++ rest /\
      scan_all fm' true stk = Done rest es /\
      sync (n + agreed_count (agreed cps stoks (is_end_error e)))
           (skipn (agreed_count (agreed cps stoks (is_end_error e))) L) stk /\
      s_errs stk = s_errs st /\
      (agreed_count (agreed cps stoks (is_end_error e)) <= length L)%nat.
  Proof.
    induction fs as [|fs IH]; intros n L st stoks e Hs Hfs HS fm ts es H; [lia|].
    destruct L as [|c t].
    { cbn [spec_scan] in HS. inversion HS; subst. cbn [agreed]. eapply prefix_trivial; eassumption. }
    cbn [spec_scan] in HS.
    destruct (longest_token (c :: t)) as [[sk j]|] eqn:Elt;
      [|inversion HS; subst; cbn [agreed]; eapply prefix_trivial; eassumption].
    destruct j as [|j]; [inversion HS; subst; cbn [agreed]; eapply prefix_trivial; eassumption|].
    destruct (spec_scan fs (n + S j) _ _ _) as [ts' e'] eqn:ES. inversion HS; subst stoks e'. clear HS.
    match goal with |- context [agreed cps (?x :: ts') _] => set (tok := x) end.
    assert (Htokeq : tok = stoken_at n (c :: t) st sk (S j)) by reflexivity.
    assert (Htext : st_text tok = firstn (S j) (c :: t)) by reflexivity.
    pose proof (sync_not_done _ _ _ _ _ Hs) as Hnd.
    destruct (scan_switch_ok st Hnd) as (k & sv & st1 & Hsw & _).
    pose proof (scan_switch_sync_s _ Hscalar _ _ _ _ _ _ _ Hs Hsw) as HP. unfold step_post_s in HP.
    rewrite Elt in HP. destruct HP as [_ HP].
    rewrite (trouble_excl cps n (c :: t) st sk (S j) Hs), <- Htokeq in HP.
    cbn [agreed].
    destruct (dangling_exponent cps tok || inner_bom tok) eqn:Etr; [eapply prefix_trivial; eassumption|].
    destruct HP as [HG|(_ & (d & r & Hsk & Hnone) & Hcomment)].
    - pose proof (good_token _ _ _ _ _ _ _ _ _ Hs HG) as Htok. rewrite <- Htokeq in Htok.
      destruct HG as (Hk & Hs1 & He1 & Hv).
      destruct fm as [|fm]; [discriminate|]. cbn [scan_all] in H.
      rewrite (scan_round_true _ _ _ _ _ Hnd Hsw) in H by (rewrite Hk; apply tok_of_kind_valid).
      destruct (scan_all fm true st1) as [|ts1 es1] eqn:E1; [discriminate|]. inversion H; subst ts es1. clear H.
      destruct (le_lt_dec (S j) (length (c :: t))) as [Hle|Hgt].
      + (* the token lies inside the text *)
        assert (Hm : length (st_text tok) = S j) by (rewrite Htext; apply firstn_length_le; exact Hle).
        rewrite <- (sync_off_after _ _ _ _ _ _ Hs Hs1) in ES.
        rewrite <- (sync_pos_after _ _ _ _ _ _ Hs Hs1) in ES.
        destruct (IH _ _ _ _ _ Hs1 ltac:(rewrite skipn_length; simpl in *; lia) ES _ _ _ E1)
          as (rest & stk & fm' & HT & HR & HY & HE & HC).
        assert (CONS : exists rest0 stk0 fm0,
                   mk_token st k sv st1 :: ts1 = map token_of_stoken (tok :: agreed cps ts' (is_end_error e)) ++ rest0 /\
                   scan_all fm0 true stk0 = Done rest0 es /\
                   sync (n + agreed_count (tok :: agreed cps ts' (is_end_error e)))
                        (skipn (agreed_count (tok :: agreed cps ts' (is_end_error e))) (c :: t)) stk0 /\
                   s_errs stk0 = s_errs st /\
                   (agreed_count (tok :: agreed cps ts' (is_end_error e)) <= length (c :: t))%nat).
        { exists rest, stk, fm'. split; [cbn [map app]; rewrite Htok, HT; reflexivity|]. split; [exact HR|].
          rewrite agreed_count_cons, Hm.
          rewrite skipn_skipn in HY. rewrite Nat.add_assoc. split; [exact HY|].
          split; [rewrite HE; exact He1|]. rewrite skipn_length in HC. lia. }
        destruct ts' as [|t' ts''].
        * cbn [agreed] in CONS. destruct (is_end_error e && is_comment tok); [|exact CONS].
          apply (prefix_trivial n _ st (S fm) _ es Hs). cbn [scan_all].
          rewrite (scan_round_true _ _ _ _ _ Hnd Hsw) by (rewrite Hk; apply tok_of_kind_valid).
          rewrite E1. reflexivity.
        * exact CONS.
      + (* a token reaching beyond the text: it is the last one and the text ends with it *)
        rewrite (skipn_all2 (c :: t)) in ES by lia.
        destruct fs as [|fs']; [simpl in Hfs; lia|]. cbn [spec_scan] in ES. inversion ES; subst ts' e.
        cbn [is_end_error andb]. cbv iota.
        assert (Hm : length (st_text tok) = length (c :: t)) by (rewrite Htext; rewrite firstn_all2 by lia; reflexivity).
        exists ts1, st1, fm. split; [cbn [map app]; rewrite Htok; reflexivity|]. split; [exact E1|].
        assert (Hc : agreed_count [tok] = length (c :: t)).
        { rewrite agreed_count_cons. change (agreed_count []) with 0%nat. rewrite Nat.add_0_r. exact Hm. }
        rewrite Hc.
        split; [apply (sync_clip _ _ _ _ _ Hs Hs1); lia|]. split; [exact He1|lia].
    - (* the grammar has no token right after this one: it is the last before the failure *)
      rewrite Hsk in ES. destruct fs as [|fs']; [simpl in Hfs; lia|].
      cbn [spec_scan] in ES. rewrite Hnone in ES. inversion ES; subst ts' e. cbn [is_end_error].
      replace (is_comment tok) with true by (unfold is_comment, tok; cbn [st_kind]; rewrite Hcomment; reflexivity).
      cbn [andb]. eapply prefix_trivial; eassumption.
  Qed.
End Prefix.

(** ** errors reported from boundary [k0] on sit at boundaries [>= k0] *)
Definition errs_from (bs : bytes) (k0 n0 : nat) (st : state) : Prop :=
  exists k st0 ks, boundary bs k st0 /\ same_place st st0 /\ (k0 <= k)%nat /\
    (n0 <= length (s_errs st))%nat /\
    Forall2 (err_at bs) (skipn n0 (s_errs st)) ks /\ Forall (fun i => (k0 <= i)%nat) ks.

Lemma errs_from_steps bs k0 n0 m st st' : steps m st st' -> errs_from bs k0 n0 st -> errs_from bs k0 n0 st'.
Proof.
  apply (steps_preserve (errs_from bs k0 n0)).
  - intros s (k & st0 & ks & Hb & Hp & Hk & Hn & Hf & Hl) Hd.
    exists (S k), (consume_rune st0), ks. split.
    { constructor; [exact Hb|]. rewrite <- (same_place_done _ _ Hp). exact Hd. }
    split; [apply same_place_consume; exact Hp|]. rewrite consume_rune_errs.
    repeat split; try assumption. lia.
  - intros s (k & st0 & ks & Hb & Hp & Hk & Hn & Hf & Hl).
    exists k, st0, (ks ++ [k]). split; [exact Hb|]. split; [apply same_place_errorf; exact Hp|].
    split; [exact Hk|]. cbn [errorf s_errs]. rewrite app_length. cbn [length]. split; [lia|].
    rewrite skipn_app. replace (n0 - length (s_errs s))%nat with 0%nat by lia. cbn [skipn]. split.
    + apply Forall2_app; [exact Hf|]. constructor; [|constructor]. exists st0. split; [exact Hb|].
      destruct Hp as (_ & _ & -> & ->). reflexivity.
    + apply Forall_app. split; [exact Hl|constructor; [exact Hk|constructor]].
Qed.

(** a synchronised state stands at the boundary of its code point *)
Lemma boundary_exists cps : forallb scalar_value cps = true ->
  forall n, (n <= length cps)%nat -> exists st0, boundary (utf8_encode_all cps) n st0.
Proof.
  intros Hsc. induction n as [|n IH]; intro Hn; [eexists; constructor|].
  destruct (IH ltac:(lia)) as (st0 & Hb). destruct (boundary_sync _ Hsc _ _ Hb) as [Hy _].
  destruct (skipn n cps) as [|c t] eqn:E.
  - assert (length (skipn n cps) = 0%nat) by (rewrite E; reflexivity). rewrite skipn_length in H. lia.
  - exists (consume_rune st0). constructor; [exact Hb|]. apply (sync_not_done _ _ _ _ _ Hy).
Qed.

Lemma sync_same_place cps n L L' st st0 : sync cps n L st -> sync cps n L' st0 -> same_place st st0.
Proof.
  intros [A1 A2 A3 A4] [B1 B2 B3 B4].
  unfold same_place. rewrite A2, B2, A3, B3, <- A1, <- B1. split; [reflexivity|]. split; [reflexivity|].
  rewrite <- B4 in A4. inversion A4. split; reflexivity.
Qed.

(** ** Main theorem *)

(** for every valid UTF-8 text, whatever the grammar says about it ([stoks] and how it ends):
    the scanner's tokens begin with the agreed grammar tokens — kind, byte extent, line, column,
    literal, decoded value — and every error it reports sits at a code point at or after the end
    of those tokens (and inside the text, or at its end) *)
Theorem lex_agrees_before_failure : forall bs cps stoks e ts es,
  utf8_decode bs = Some cps -> spec_lex cps = (stoks, e) -> lex true bs = Done ts es ->
  exists rest ns,
    ts = map token_of_stoken (agreed cps stoks (is_end_error e)) ++ rest /\
    es = map (fun n => advance_pos (1, 1) n cps) ns /\
    Forall (fun n => (agreed_count (agreed cps stoks (is_end_error e)) <= n <= length cps)%nat) ns.
Proof.
  intros bs cps stoks e ts es Hd HS H. destruct (utf8_decode_sound _ _ Hd) as [-> Hsc].
  unfold lex in H. unfold spec_lex in HS.
  destruct (prefix_gen cps Hsc (S (length cps)) 0%nat cps _ _ _ (sync_init cps) (Nat.lt_succ_diag_r _) HS _ _ _ H)
    as (rest & stk & fm' & HT & HR & HY & HE & HC).
  set (ag := agreed cps stoks (is_end_error e)) in *. cbn [Nat.add] in HY.
  exists rest.
  destruct (boundary_exists cps Hsc (agreed_count ag) HC) as (st0 & Hb).
  destruct (boundary_sync _ Hsc _ _ Hb) as [Hy0 _].
  assert (F0 : errs_from (utf8_encode_all cps) (agreed_count ag) 0 stk).
  { exists (agreed_count ag), st0, []. split; [exact Hb|]. split; [eapply sync_same_place; eassumption|].
    split; [lia|]. split; [lia|]. rewrite HE. cbn [init s_errs skipn]. split; constructor. }
  destruct (scan_all_final true (errs_from (utf8_encode_all cps) (agreed_count ag) 0)
              (errs_from_steps _ _ _) _ _ _ _ F0 HR)
    as (st' & (k & st1 & ks & _ & _ & _ & _ & Hf & Hl) & _ & ->).
  cbn [skipn] in Hf. exists ks. split; [exact HT|]. clear - Hf Hl Hsc. split.
  - clear Hl. induction Hf as [|e0 k0 es0 ks0 (s0 & Hb0 & ->) Hf IH]; [reflexivity|].
    cbn [map]. rewrite <- IH. f_equal.
    destruct (boundary_sync _ Hsc _ _ Hb0) as [Hy _]. apply (sy_pos _ _ _ _ Hy).
  - revert Hl. induction Hf as [|e0 k0 es0 ks0 (s0 & Hb0 & _) Hf IH]; intro Hl; [constructor|].
    inversion Hl; subst. constructor; [|apply IH; assumption].
    split; [assumption|]. apply (boundary_sync _ Hsc _ _ Hb0).
Qed.

(** the same for what the parser sees (mode 0): the non-ignored agreed tokens come first *)
Corollary lex_agrees_before_failure_mode0 : forall bs cps stoks e ts es,
  utf8_decode bs = Some cps -> spec_lex cps = (stoks, e) -> lex false bs = Done ts es ->
  exists rest ns,
    ts = significant_tokens (map token_of_stoken (agreed cps stoks (is_end_error e))) ++ rest /\
    es = map (fun n => advance_pos (1, 1) n cps) ns /\
    Forall (fun n => (agreed_count (agreed cps stoks (is_end_error e)) <= n <= length cps)%nat) ns.
Proof.
  intros bs cps stoks e ts es Hd HS H.
  destruct (lex_progress true bs) as (ts1 & es1 & H1 & _).
  pose proof (lex_mode _ _ _ H1) as H0. rewrite H in H0. inversion H0; subst ts es1.
  destruct (lex_agrees_before_failure _ _ _ _ _ _ Hd HS H1) as (rest & ns & HT & HE & HF).
  exists (significant_tokens rest), ns. split; [|split; assumption].
  rewrite HT. unfold significant_tokens. apply filter_app.
Qed.
