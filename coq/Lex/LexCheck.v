(** * Lex/LexCheck.v — C07 correspondence: decode a case, run the model and the Spec oracle, compare
    with what the real scanner did.  Executable only (extracted / vm_compute).

    case ::= (case (src BYTES) (ign TOKS ERRS) (sig TOKS ERRS))
      ign: scanner.New(src, ScanIgnored), sig: scanner.New(src, 0)
      TOKS ::= ((kind literal line column stringvalue) ...)     kind = int(Token())
      ERRS ::= ((line column) ...)

    Oracle (runs on every case, on the IMPLEMENTATION's observation):
      - src is not valid UTF-8        => the scanner must report an error;
      - the reference lexer fails     => the scanner must report an error;
      - the reference lexer succeeds  => no error, and in ScanIgnored mode the token list equals the
        reference token list (kind, literal = UTF-8 of the token text, line, column, decoded value),
        in mode 0 the list of its non-ignored tokens.
    Inputs in the two known classes (dangling-exponent, inner-bom) are outside the theorem; for
    them the model alone judges the implementation, and the case is reported under the class key.

    Correspondence (model vs implementation), compared modulo the property's equivalence: the
    token lists (all five observables) in both modes, the error/no-error verdict and the position
    of the first error.  Messages, the number of errors and later error positions are not compared. *)
From Coq Require Import List NArith ZArith Bool String.
From ApiFu Require Import Base.Sexp Lex.Utf8 Lex.LexModel Lex.LexSpec Lex.LexRel.
Import ListNotations.
Open Scope string_scope.

(** what is observable of one token *)
Record otok := mkOtok { o_kind : Z; o_lit : bytes; o_line : Z; o_col : Z; o_val : bytes }.

Definition dec_tok (s : sexp) : option otok :=
  match s with
  | SL [k; l; li; co; v] =>
      match as_Z k, as_bytes l, as_Z li, as_Z co, as_bytes v with
      | Some k', Some l', Some li', Some co', Some v' => Some (mkOtok k' l' li' co' v')
      | _, _, _, _, _ => None
      end
  | _ => None
  end.

Definition dec_err (s : sexp) : option (Z * Z) :=
  match s with
  | SL [l; c] => match as_Z l, as_Z c with Some l', Some c' => Some (l', c') | _, _ => None end
  | _ => None
  end.

Definition dec_obs (l : list sexp) : option (list otok * list (Z * Z)) :=
  match l with
  | [SL ts; SL es] =>
      match map_opt dec_tok ts, map_opt dec_err es with
      | Some ts', Some es' => Some (ts', es')
      | _, _ => None
      end
  | _ => None
  end.

Definition otok_of_token (t : token) : otok :=
  mkOtok (tok_code (t_kind t)) (t_lit t) (t_line t) (t_col t) (t_value t).

Definition otok_of_stoken (t : stoken) : otok := otok_of_token (token_of_stoken t).

(** first difference between two observed token lists: index and the field that differs *)
Fixpoint first_diff (i : nat) (a b : list otok) : option (nat * string) :=
  match a, b with
  | [], [] => None
  | x :: a', y :: b' =>
      if negb (o_kind x =? o_kind y)%Z then Some (i, "kind")
      else if negb (bytes_eqb (o_lit x) (o_lit y)) then Some (i, "extent")
      else if negb ((o_line x =? o_line y)%Z && (o_col x =? o_col y)%Z) then Some (i, "position")
      else if negb (bytes_eqb (o_val x) (o_val y)) then
        Some (i, if bytes_eqb (firstn 3 (o_lit x)) [34%N; 34%N; 34%N] then "block-string-value" else "string-value")
      else first_diff (S i) a' b'
  | _, _ => Some (i, "count")
  end.

Definition token_eqb (a b : token) : bool :=
  tok_eqb (t_kind a) (t_kind b) && (t_off a =? t_off b)%Z && (t_len a =? t_len b)%Z &&
  (t_line a =? t_line b)%Z && (t_col a =? t_col b)%Z && bytes_eqb (t_lit a) (t_lit b) &&
  bytes_eqb (t_value a) (t_value b).

Fixpoint tokens_eqb (a b : list token) : bool :=
  match a, b with
  | [], [] => true
  | x :: a', y :: b' => token_eqb x y && tokens_eqb a' b'
  | _, _ => false
  end.

Definition is_nil {A} (l : list A) : bool := match l with [] => true | _ => false end.

Definition first_err_eqb (a b : list (Z * Z)) : bool :=
  match a, b with
  | [], [] => true
  | (l, c) :: _, (l', c') :: _ => (l =? l')%Z && (c =? c')%Z
  | _, _ => false
  end.

Definition reason_name (w : reason) : string :=
  match w with
  | RUnterminated => "unterminated-string"
  | RBadEscape => "bad-escape"
  | RNonSourceInString => "non-source-character-in-string"
  | RNonSource => "non-source-character"
  | RStray => "stray-character"
  end.

(** ** model vs implementation *)
Definition compare_mode (name : string) (m : lex_result) (o : list otok * list (Z * Z)) : option sexp :=
  match m with
  | OutOfFuel => Some (v_mismatch (name ++ "-model-out-of-fuel") [])
  | Done ts es =>
      match first_diff 0 (map otok_of_token ts) (fst o) with
      | Some (i, what) => Some (v_mismatch (name ++ "-token-" ++ what) [of_nat i])
      | None =>
          if negb (Bool.eqb (is_nil es) (is_nil (snd o))) then Some (v_mismatch (name ++ "-error-verdict") [])
          else if negb (first_err_eqb es (snd o)) then Some (v_mismatch (name ++ "-first-error-position") [])
          else None
      end
  end.

Definition compare (src : bytes) (oi os : list otok * list (Z * Z)) : option sexp :=
  match compare_mode "ign" (lex true src) oi with
  | Some v => Some v
  | None => compare_mode "sig" (lex false src) os
  end.

(** positions, also where the text has lexical errors (the instance of [lex_positions] on the
    observation): every observed token must sit at a code point whose specification position is
    the reported (line, column), and its literal must be the text found there *)
Fixpoint locate (fuel : nat) (p : Z * Z) (l : list cp) (line col : Z) : option (list cp) :=
  if (fst p =? line)%Z && (snd p =? col)%Z then Some l
  else match fuel, l with
       | S f, c :: l' =>
           locate f (if ends_line c (hd_error l') then (fst p + 1, 1)%Z else (fst p, snd p + 1)%Z) l' line col
       | _, _ => None
       end.

Definition located (cps : list cp) (t : otok) : option string :=
  match locate (S (List.length cps)) (1, 1)%Z cps (o_line t) (o_col t) with
  | None => Some "position"
  | Some l =>
      if bytes_eqb (firstn (List.length (o_lit t)) (utf8_encode_all l)) (o_lit t) && negb (is_nil (o_lit t))
      then None else Some "extent"
  end.

Fixpoint first_unlocated (i : nat) (cps : list cp) (ts : list otok) : option (nat * string) :=
  match ts with
  | [] => None
  | t :: ts' => match located cps t with
                | Some what => Some (i, what)
                | None => first_unlocated (S i) cps ts'
                end
  end.

(** ** Spec oracle on the implementation's observation.
    Result: None = accepted; Some (key, known_class, details). *)
Definition oracle (src : bytes) (oi os : list otok * list (Z * Z)) : option (string * bool * list sexp) :=
  match utf8_decode src with
  | None =>
      if is_nil (snd oi) || is_nil (snd os) then Some ("invalid-utf8-accepted", false, []) else None
  | Some cps =>
      match spec_lex cps with
      | (_, EndFuel) => Some ("spec-out-of-fuel", false, [])
      | (_, EndError why idx _ _) =>
          if is_nil (snd oi) || is_nil (snd os) then Some ("accepted-" ++ reason_name why, false, [of_nat idx])
          else match first_unlocated 0 cps (fst oi ++ fst os) with
               | Some (i, what) => Some ("token-" ++ what ++ "-in-erroneous-text", false, [of_nat i])
               | None => None
               end
      | (stoks, EndOk) =>
          let known := if excl_dangling_exponent cps stoks then Some "dangling-exponent"
                       else if excl_inner_bom stoks then Some "inner-bom" else None in
          let verdict :=
            match first_diff 0 (fst oi) (map otok_of_stoken stoks) with
            | Some (i, what) => Some ("token-" ++ what, [of_nat i])
            | None =>
                match first_diff 0 (fst os) (map otok_of_stoken (significant stoks)) with
                | Some (i, what) => Some ("significant-token-" ++ what, [of_nat i])
                | None =>
                    if negb (is_nil (snd oi)) || negb (is_nil (snd os)) then Some ("valid-text-rejected", [])
                    else None
                end
            end in
          match verdict, known with
          | None, _ => None
          | Some (_, d), Some k => Some (k, true, d)
          | Some (key, d), None => Some (key, false, d)
          end
      end
  end.

(** ** the theorem instance on this input (model vs Spec; must hold by LexRefine / LexValid /
    LexMode — a failure here means the extracted code or this file is broken) *)
Definition theorem_instance (src : bytes) : bool :=
  match utf8_decode src with
  | None =>
      match lex true src, lex false src with
      | Done _ es, Done _ es' => negb (is_nil es) && negb (is_nil es')
      | _, _ => false
      end
  | Some cps =>
      match spec_lex cps, lex true src, lex false src with
      | (_, EndFuel), _, _ => false
      | _, OutOfFuel, _ | _, _, OutOfFuel => false
      | (_, EndError _ _ _ _), Done _ es, Done _ es' => negb (is_nil es) && negb (is_nil es')
      | (stoks, EndOk), Done ts es, Done ts' es' =>
          if excl_dangling_exponent cps stoks || excl_inner_bom stoks then negb (is_nil es) && negb (is_nil es')
          else tokens_eqb ts (map token_of_stoken stoks) && is_nil es &&
               tokens_eqb ts' (map token_of_stoken (significant stoks)) && is_nil es'
      end
  end.

(** ** evidence classes *)
Fixpoint has_sub (needle hay : bytes) : bool :=
  match hay with
  | [] => is_nil needle
  | _ :: t => bytes_eqb (firstn (List.length needle) hay) needle || has_sub needle t
  end.

Definition classes (src : bytes) (m : lex_result) : list string :=
  match m with
  | OutOfFuel => []
  | Done ts es =>
      let has k := existsb (fun t => tok_eqb (t_kind t) k) ts in
      let strs := filter (fun t => tok_eqb (t_kind t) STRING_VALUE) ts in
      let block := existsb (fun t => bytes_eqb (firstn 3 (t_lit t)) [34%N; 34%N; 34%N]) strs in
      let quoted := existsb (fun t => negb (bytes_eqb (firstn 3 (t_lit t)) [34%N; 34%N; 34%N])) strs in
      let esc := existsb (fun t => existsb (N.eqb 92) (t_lit t)) strs in
      let uesc := existsb (fun t => has_sub [92%N; 117%N] (t_lit t)) strs in
      let valid := match utf8_decode src with Some _ => true | None => false end in
      let spec_ok := match utf8_decode src with
                     | Some cps => match spec_lex cps with (_, EndOk) => true | _ => false end
                     | None => false end in
      (if has NAME then ["name"] else []) ++ (if has INT_VALUE then ["int"] else []) ++
      (if has FLOAT_VALUE then ["float"] else []) ++ (if has PUNCTUATOR then ["punctuator"] else []) ++
      (if quoted then ["quoted-string"] else []) ++ (if block then ["block-string"] else []) ++
      (if esc then ["backslash-in-string"] else []) ++ (if uesc then ["unicode-escape"] else []) ++
      (if has COMMENT then ["comment"] else []) ++ (if has UNICODE_BOM then ["bom"] else []) ++
      (if has LINE_TERMINATOR then ["line-terminator"] else []) ++
      (if has_sub [13%N; 10%N] src then ["crlf"] else []) ++
      (if existsb (fun t => (1 <? t_line t)%Z) ts then ["multi-line"] else []) ++
      (if existsb (fun b => (127 <? b)%N) src then ["non-ascii"] else []) ++
      (if valid then [] else ["invalid-utf8"]) ++
      (if is_nil es then ["no-error"] else ["error"]) ++
      (if spec_ok then ["spec-accepts"] else []) ++
      (if negb (is_nil strs) || has INT_VALUE || has FLOAT_VALUE || negb (is_nil es) || (2 <? List.length ts)%nat
       then ["nontrivial"] else [])
  end.

Definition check (c : sexp) : sexp :=
  match tagged "case" c with
  | Some l =>
      match field1 "src" l, field "ign" l, field "sig" l with
      | Some (SStr src), Some li, Some ls =>
          match dec_obs li, dec_obs ls with
          | Some oi, Some os =>
              if negb (forallb (fun b => (b <? 256)%N) src) then v_bad "byte-range"
              else
                let corr := compare src oi os in
                match oracle src oi os with
                | Some (key, known, d) =>
                    match known, corr with
                    | true, Some v => v            (* outside the theorem: the model is the judge *)
                    | _, _ => v_oracle_fail key d
                    end
                | None =>
                    match corr with
                    | Some v => v
                    | None =>
                        if theorem_instance src then v_ok (classes src (lex true src))
                        else v_mismatch "model-vs-spec" []
                    end
                end
          | _, _ => v_bad "decode"
          end
      | _, _, _ => v_bad "fields"
      end
  | None => v_bad "shape"
  end.
