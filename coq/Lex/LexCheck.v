(** * Lex/LexCheck.v — C07 correspondence: decode a case, run the model and the Spec oracle, compare
    with what the real scanner did.  Executable only (extracted / vm_compute).

    case ::= (case (src BYTES) (ign TOKS ERRS) (sig TOKS ERRS) [(api MODE (CALL ...) (RESP ...) (COUNT ...))])
      ign: scanner.New(src, ScanIgnored), sig: scanner.New(src, 0)
      TOKS ::= ((kind literal line column stringvalue) ...)     kind = int(Token())
      ERRS ::= ((line column) ...)
      api (optional): a fresh scanner in mode MODE (1 = ScanIgnored) driven by an arbitrary call
        sequence; CALL ::= 0 Scan | 1 Token | 2 Position | 3 Literal | 4 StringValue | 5 Errors;
        RESP ::= 0|1 (Scan) | kind (Token) | (line column) (Position) | BYTES or panic (Literal,
        StringValue) | ERRS (Errors); COUNT: len(Errors()) after each Scan() of the canonical loop in
        that mode, the final Scan() = false included

    Oracle (runs on every case, on the IMPLEMENTATION's observation):
      - src is not valid UTF-8        => the scanner must report an error;
      - the reference lexer fails     => the scanner must report an error; its tokens must begin with
        the agreed grammar tokens (LexPrefixSpec.agreed: all of them, except a comment that ends at the failure point)
        and no error may lie before the end of those (instance of LexPrefix.lex_agrees_before_failure);
      - the reference lexer succeeds  => no error, and in ScanIgnored mode the token list equals the
        reference token list (kind, literal = UTF-8 of the token text, line, column, decoded value),
        in mode 0 the list of its non-ignored tokens;
      - every reported error (all of them) carries the (line, column) of a rune boundary of the
        text or of its end, and successive errors never go backwards (instance of
        LexErrors.lex_error_positions[_bytes]);
      - api: every answer is the one LexApiSpec prescribes for the number of Scan() calls issued
        so far, relative to the implementation's OWN canonical observation of that mode (instance
        of LexApiProofs.api_call_order): no panic, stable observers, Scan() stays false after the
        end, Errors() at cursor j is exactly the first COUNT[j] errors of the canonical list.
    Inputs in the two known classes (dangling-exponent, inner-bom) are outside the theorem; for
    them the model alone judges the implementation, and the case is reported under the class key.

    Correspondence (model vs implementation), compared modulo the property's equivalence: the
    token lists (all five observables) in both modes, the NUMBER of errors and the (line, column)
    of EVERY error in order of report, and every answer of the api call sequence.  Error messages
    are not compared (the property does not name them). *)
From Coq Require Import List NArith ZArith Bool String.
From ApiFu Require Import Base.Sexp Lex.Utf8 Lex.LexModel Lex.LexSpec Lex.LexRel Lex.LexErrors
  Lex.LexApi Lex.LexApiSpec Lex.LexPrefixSpec.
Import ListNotations.
Open Scope string_scope.

(** what is observable of one token *)
Record otok := mkOtok { o_kind : Z; o_lit : bytes; o_line : Z; o_col : Z; o_val : bytes }.

Definition dec_tok (s : sexp) : option otok :=
  match s with
  | SL [k; l; li; co; v] =>
      match as_Z k, as_bytes l, as_Z li, as_Z co, as_bytes v with
      | Some k', Some l', Some li', Some co', Some v' => Some (mkOtok k' l' li' co' v')
      | _, _, _, _, _ => None
      end
  | _ => None
  end.

Definition dec_err (s : sexp) : option (Z * Z) :=
  match s with
  | SL [l; c] => match as_Z l, as_Z c with Some l', Some c' => Some (l', c') | _, _ => None end
  | _ => None
  end.

Definition dec_obs (l : list sexp) : option (list otok * list (Z * Z)) :=
  match l with
  | [SL ts; SL es] =>
      match map_opt dec_tok ts, map_opt dec_err es with
      | Some ts', Some es' => Some (ts', es')
      | _, _ => None
      end
  | _ => None
  end.

Definition otok_of_token (t : token) : otok :=
  mkOtok (tok_code (t_kind t)) (t_lit t) (t_line t) (t_col t) (t_value t).

Definition otok_of_stoken (t : stoken) : otok := otok_of_token (token_of_stoken t).

(** first difference between two observed token lists: index and the field that differs *)
Fixpoint first_diff (i : nat) (a b : list otok) : option (nat * string) :=
  match a, b with
  | [], [] => None
  | x :: a', y :: b' =>
      if negb (o_kind x =? o_kind y)%Z then Some (i, "kind")
      else if negb (bytes_eqb (o_lit x) (o_lit y)) then Some (i, "extent")
      else if negb ((o_line x =? o_line y)%Z && (o_col x =? o_col y)%Z) then Some (i, "position")
      else if negb (bytes_eqb (o_val x) (o_val y)) then
        Some (i, if bytes_eqb (firstn 3 (o_lit x)) [34%N; 34%N; 34%N] then "block-string-value" else "string-value")
      else first_diff (S i) a' b'
  | _, _ => Some (i, "count")
  end.

(** first difference between the observed tokens and a required PREFIX of them *)
Fixpoint first_prefix_diff (i : nat) (obs want : list otok) : option (nat * string) :=
  match want with
  | [] => None
  | y :: want' =>
      match obs with
      | [] => Some (i, "count")
      | x :: obs' =>
          match first_diff 0 [x] [y] with
          | Some (_, what) => Some (i, what)
          | None => first_prefix_diff (S i) obs' want'
          end
      end
  end.

Definition pos_before (a b : Z * Z) : bool :=
  (fst a <? fst b)%Z || ((fst a =? fst b)%Z && (snd a <? snd b)%Z).

Definition token_eqb (a b : token) : bool :=
  tok_eqb (t_kind a) (t_kind b) && (t_off a =? t_off b)%Z && (t_len a =? t_len b)%Z &&
  (t_line a =? t_line b)%Z && (t_col a =? t_col b)%Z && bytes_eqb (t_lit a) (t_lit b) &&
  bytes_eqb (t_value a) (t_value b).

Fixpoint tokens_eqb (a b : list token) : bool :=
  match a, b with
  | [], [] => true
  | x :: a', y :: b' => token_eqb x y && tokens_eqb a' b'
  | _, _ => false
  end.

Definition is_nil {A} (l : list A) : bool := match l with [] => true | _ => false end.

(** first index at which two error lists differ (a missing error counts as a difference) *)
Fixpoint first_err_diff (i : nat) (a b : list (Z * Z)) : option nat :=
  match a, b with
  | [], [] => None
  | (l, c) :: a', (l', c') :: b' => if (l =? l')%Z && (c =? c')%Z then first_err_diff (S i) a' b' else Some i
  | _, _ => Some i
  end.

Definition errs_eqb (a b : list (Z * Z)) : bool :=
  match first_err_diff 0 a b with None => true | Some _ => false end.

Definition reason_name (w : reason) : string :=
  match w with
  | RUnterminated => "unterminated-string"
  | RBadEscape => "bad-escape"
  | RNonSourceInString => "non-source-character-in-string"
  | RNonSource => "non-source-character"
  | RStray => "stray-character"
  end.

(** ** model vs implementation *)
Definition compare_mode (name : string) (m : lex_result) (o : list otok * list (Z * Z)) : option sexp :=
  match m with
  | OutOfFuel => Some (v_mismatch (name ++ "-model-out-of-fuel") [])
  | Done ts es =>
      match first_diff 0 (map otok_of_token ts) (fst o) with
      | Some (i, what) => Some (v_mismatch (name ++ "-token-" ++ what) [of_nat i])
      | None =>
          if negb (Bool.eqb (is_nil es) (is_nil (snd o))) then Some (v_mismatch (name ++ "-error-verdict") [])
          else if negb (List.length es =? List.length (snd o))%nat then Some (v_mismatch (name ++ "-error-count") [])
          else match first_err_diff 0 es (snd o) with
               | Some i => Some (v_mismatch (name ++ "-error-position") [of_nat i])
               | None => None
               end
      end
  end.

Definition compare (src : bytes) (oi os : list otok * list (Z * Z)) : option sexp :=
  match compare_mode "ign" (lex true src) oi with
  | Some v => Some v
  | None => compare_mode "sig" (lex false src) os
  end.

(** positions, also where the text has lexical errors (the instance of [lex_positions] on the
    observation): every observed token must sit at a code point whose specification position is
    the reported (line, column), and its literal must be the text found there *)
Fixpoint locate (fuel : nat) (p : Z * Z) (l : list cp) (line col : Z) : option (list cp) :=
  if (fst p =? line)%Z && (snd p =? col)%Z then Some l
  else match fuel, l with
       | S f, c :: l' =>
           locate f (if ends_line c (hd_error l') then (fst p + 1, 1)%Z else (fst p, snd p + 1)%Z) l' line col
       | _, _ => None
       end.

Definition located (cps : list cp) (t : otok) : option string :=
  match locate (S (List.length cps)) (1, 1)%Z cps (o_line t) (o_col t) with
  | None => Some "position"
  | Some l =>
      if bytes_eqb (firstn (List.length (o_lit t)) (utf8_encode_all l)) (o_lit t) && negb (is_nil (o_lit t))
      then None else Some "extent"
  end.

Fixpoint first_unlocated (i : nat) (cps : list cp) (ts : list otok) : option (nat * string) :=
  match ts with
  | [] => None
  | t :: ts' => match located cps t with
                | Some what => Some (i, what)
                | None => first_unlocated (S i) cps ts'
                end
  end.

(** ** Spec oracle on the implementation's observation.
    Result: None = accepted; Some (key, known_class, details). *)
Definition oracle (src : bytes) (oi os : list otok * list (Z * Z)) : option (string * bool * list sexp) :=
  match utf8_decode src with
  | None =>
      if is_nil (snd oi) || is_nil (snd os) then Some ("invalid-utf8-accepted", false, []) else None
  | Some cps =>
      match spec_lex cps with
      | (_, EndFuel) => Some ("spec-out-of-fuel", false, [])
      | (stoks_e, EndError why idx _ _) =>
          if is_nil (snd oi) || is_nil (snd os) then Some ("accepted-" ++ reason_name why, false, [of_nat idx])
          else
            let ag := agreed cps stoks_e true in
            let limit := advance_pos (1, 1)%Z (agreed_count ag) cps in
            match first_prefix_diff 0 (fst oi) (map otok_of_stoken ag) with
            | Some (i, what) => Some ("token-" ++ what ++ "-before-failure", false, [of_nat i])
            | None =>
                match first_prefix_diff 0 (fst os) (map otok_of_stoken (significant ag)) with
                | Some (i, what) => Some ("significant-token-" ++ what ++ "-before-failure", false, [of_nat i])
                | None =>
                    if existsb (fun e => pos_before e limit) (snd oi ++ snd os)
                    then Some ("error-before-failure", false, [])
                    else match first_unlocated 0 cps (fst oi ++ fst os) with
                         | Some (i, what) => Some ("token-" ++ what ++ "-in-erroneous-text", false, [of_nat i])
                         | None => None
                         end
                end
            end
      | (stoks, EndOk) =>
          let known := if excl_dangling_exponent cps stoks then Some "dangling-exponent"
                       else if excl_inner_bom stoks then Some "inner-bom" else None in
          let verdict :=
            match first_diff 0 (fst oi) (map otok_of_stoken stoks) with
            | Some (i, what) => Some ("token-" ++ what, [of_nat i])
            | None =>
                match first_diff 0 (fst os) (map otok_of_stoken (significant stoks)) with
                | Some (i, what) => Some ("significant-token-" ++ what, [of_nat i])
                | None =>
                    if negb (is_nil (snd oi)) || negb (is_nil (snd os)) then Some ("valid-text-rejected", [])
                    else None
                end
            end in
          match verdict, known with
          | None, _ => None
          | Some (_, d), Some k => Some (k, true, d)
          | Some (key, d), None => Some (key, false, d)
          end
      end
  end.

(** ** error positions (oracle, on the implementation's observation).
    The (line, column) of every rune boundary of the text, the end included: from the code points
    with the specification's line rule when the text is valid UTF-8, otherwise by walking the
    bytes rune by rune as utf8.DecodeRune delimits them (LexErrors.boundary). *)
Fixpoint spec_positions (p : Z * Z) (l : list cp) : list (Z * Z) :=
  p :: match l with
       | [] => []
       | c :: l' => spec_positions (if ends_line c (hd_error l') then (fst p + 1, 1)%Z else (fst p, snd p + 1)%Z) l'
       end.

Fixpoint byte_positions (fuel : nat) (st : state) : list (Z * Z) :=
  (s_line st, s_col st) ::
  (if is_done st then []
   else match fuel with O => [] | S f => byte_positions f (consume_rune st) end).

Definition boundary_positions (src : bytes) : list (Z * Z) :=
  match utf8_decode src with
  | Some cps => spec_positions (1, 1)%Z cps
  | None => byte_positions (List.length src) (init src)
  end.

(** the suffix of [ps] that starts with [e] *)
Fixpoint drop_until (e : Z * Z) (ps : list (Z * Z)) : option (list (Z * Z)) :=
  match ps with
  | [] => None
  | p :: ps' => if (fst p =? fst e)%Z && (snd p =? snd e)%Z then Some ps else drop_until e ps'
  end.

(** index of the first error that is at no boundary at or after the boundary of its predecessor *)
Fixpoint first_unplaced (i : nat) (ps : list (Z * Z)) (es : list (Z * Z)) : option nat :=
  match es with
  | [] => None
  | e :: es' => match drop_until e ps with
                | Some ps' => first_unplaced (S i) ps' es'
                | None => Some i
                end
  end.

Definition errors_oracle (src : bytes) (oi os : list otok * list (Z * Z)) : option (string * list sexp) :=
  let ps := boundary_positions src in
  match first_unplaced 0 ps (snd oi) with
  | Some i => Some ("error-position-outside-text", [of_nat i])
  | None => match first_unplaced 0 ps (snd os) with
            | Some i => Some ("error-position-outside-text-mode0", [of_nat i])
            | None => None
            end
  end.

(** ** the api call sequence *)
Inductive oresp :=
| OBool (b : bool) | OTok (k : Z) | OPos (l c : Z) | OBytes (b : bytes) | OPanic | OErrs (es : list (Z * Z)).

Definition call_of_Z (z : Z) : option call :=
  if (z =? 0)%Z then Some CScan else if (z =? 1)%Z then Some CToken else if (z =? 2)%Z then Some CPosition
  else if (z =? 3)%Z then Some CLiteral else if (z =? 4)%Z then Some CStringValue
  else if (z =? 5)%Z then Some CErrors else None.

Definition dec_call (s : sexp) : option call := match as_Z s with Some z => call_of_Z z | None => None end.

Definition dec_bytes_or_panic (s : sexp) : option oresp :=
  match s with
  | SStr b => Some (OBytes b)
  | _ => if is_sym "panic" s then Some OPanic else None
  end.

Definition dec_resp (c : call) (s : sexp) : option oresp :=
  match c with
  | CScan => match as_Z s with Some z => Some (OBool (negb (z =? 0)%Z)) | None => None end
  | CToken => match as_Z s with Some z => Some (OTok z) | None => None end
  | CPosition => match dec_err s with Some (l, c') => Some (OPos l c') | None => None end
  | CLiteral | CStringValue => dec_bytes_or_panic s
  | CErrors => match s with
               | SL es => match map_opt dec_err es with Some es' => Some (OErrs es') | None => None end
               | _ => None
               end
  end.

Fixpoint dec_resps (cs : list call) (rs : list sexp) : option (list oresp) :=
  match cs, rs with
  | [], [] => Some []
  | c :: cs', r :: rs' =>
      match dec_resp c r, dec_resps cs' rs' with
      | Some r', Some l => Some (r' :: l)
      | _, _ => None
      end
  | _, _ => None
  end.

Definition oresp_of_resp (r : resp) : option oresp :=
  match r with
  | RFuel => None
  | RBool b => Some (OBool b)
  | RTok k => Some (OTok (tok_code k))
  | RPos l c => Some (OPos l c)
  | RBytes b => Some (OBytes b)
  | RPanic => Some OPanic
  | RErrs es => Some (OErrs es)
  end.

Definition oresp_eqb (a b : oresp) : bool :=
  match a, b with
  | OBool x, OBool y => Bool.eqb x y
  | OTok x, OTok y => (x =? y)%Z
  | OPos l c, OPos l' c' => (l =? l')%Z && (c =? c')%Z
  | OBytes x, OBytes y => bytes_eqb x y
  | OPanic, OPanic => true
  | OErrs x, OErrs y => errs_eqb x y
  | _, _ => false
  end.

Definition call_name (c : call) : string :=
  match c with
  | CScan => "scan" | CToken => "token" | CPosition => "position" | CLiteral => "literal"
  | CStringValue => "string-value" | CErrors => "errors"
  end.

Fixpoint is_prefix (a b : list (Z * Z)) : bool :=
  match a, b with
  | [], _ => true
  | (l, c) :: a', (l', c') :: b' => (l =? l')%Z && (c =? c')%Z && is_prefix a' b'
  | _, _ => false
  end.

(** LexApiSpec, executable, relative to a canonical observation [(ots, oes)]; [last] / [lastj]:
    the previous answer of Errors() and the cursor it was given at.  Result: the key of the first
    answer that is not the prescribed one. *)
Fixpoint api_oracle (ots : list otok) (oes : list (Z * Z)) (counts : list nat) (endp : Z * Z) (j : nat)
  (last : list (Z * Z)) (lastj : nat) (cs : list call) (rs : list oresp) : option string :=
  match cs, rs with
  | [], [] => None
  | c :: cs', r :: rs' =>
      let j' := next_cursor j c in
      let curt := match j' with O => None | S i => nth_error ots i end in
      let after := (List.length ots <? j')%nat in
      let phase := match j' with O => "before-scan" | S _ => if after then "after-end" else "at-token" end in
      let ok :=
        match c, r with
        | CScan, OBool b => Bool.eqb b (j' <=? List.length ots)%nat
        | CToken, OTok k => (k =? match curt with Some t => o_kind t | None => 0 end)%Z
        | CPosition, OPos l co =>
            match j', curt with
            | O, _ => (l =? 0)%Z && (co =? 0)%Z
            | _, Some t => (l =? o_line t)%Z && (co =? o_col t)%Z
            | _, None => (l =? fst endp)%Z && (co =? snd endp)%Z
            end
        | CLiteral, OBytes b => bytes_eqb b (match curt with Some t => o_lit t | None => [] end)
        | CStringValue, OBytes b => bytes_eqb b (match curt with Some t => o_val t | None => [] end)
        | CErrors, OErrs es =>
            is_prefix last es && is_prefix es oes &&
            (if Nat.eqb lastj j' then errs_eqb last es else true) &&
            (match j' with O => is_nil es | S i => Nat.eqb (List.length es) (nth i counts (List.last counts O)) end) &&
            (if after then errs_eqb es oes else true)
        | _, _ => false
        end in
      if ok then
        api_oracle ots oes counts endp j' (match r with OErrs es => es | _ => last end)
                   (match r with OErrs _ => j' | _ => lastj end) cs' rs'
      else Some ("api-" ++ call_name c ++ "-" ++ phase)
  | _, _ => Some "api-shape"
  end.

Fixpoint first_resp_diff (i : nat) (a b : list oresp) : option nat :=
  match a, b with
  | [], [] => None
  | x :: a', y :: b' => if oresp_eqb x y then first_resp_diff (S i) a' b' else Some i
  | _, _ => Some i
  end.

(** decoded api field: mode, calls, observed answers *)
Definition dec_api (l : list sexp) : option (option (bool * list call * list oresp * list nat)) :=
  match field "api" l with
  | None => Some None
  | Some [m; SL cs; SL rs; SL ks] =>
      match as_Z m, map_opt dec_call cs, map_opt as_nat ks with
      | Some m', Some cs', Some ks' =>
          match dec_resps cs' rs with
          | Some rs' => Some (Some (negb (m' =? 0)%Z, cs', rs', ks'))
          | None => None
          end
      | _, _, _ => None
      end
  | Some _ => None
  end.

Definition api_oracle_case (src : bytes) (oi os : list otok * list (Z * Z))
  (a : option (bool * list call * list oresp * list nat)) : option string :=
  match a with
  | None => None
  | Some (m, cs, rs, ks) =>
      let o := if m then oi else os in
      if negb (Nat.eqb (List.length ks) (S (List.length (fst o)))) then Some "api-error-counts-shape"
      else if negb (Nat.eqb (List.last ks O) (List.length (snd o))) then Some "api-error-counts-final"
      else api_oracle (fst o) (snd o) ks (end_pos src) 0 [] 0 cs rs
  end.

Definition api_compare (src : bytes) (a : option (bool * list call * list oresp * list nat)) : option sexp :=
  match a with
  | None => None
  | Some (m, cs, rs, _) =>
      match map_opt oresp_of_resp (run m src cs) with
      | None => Some (v_mismatch "api-model-out-of-fuel" [])
      | Some ms => match first_resp_diff 0 ms rs with
                   | Some i => Some (v_mismatch "api-answer" [of_nat i])
                   | None => None
                   end
      end
  end.

(** the instance of api_call_order on this input: the model's answers against the model's own
    canonical scan *)
Definition api_theorem_instance (src : bytes) (a : option (bool * list call * list oresp * list nat)) : bool :=
  match a with
  | None => true
  | Some (m, cs, _, ks) =>
      match lex m src, map_opt oresp_of_resp (run m src cs) with
      | Done ts es, Some ms =>
          match api_oracle (map otok_of_token ts) es ks (end_pos src) 0 [] 0 cs ms with
          | None => true
          | Some _ => false
          end
      | _, _ => false
      end
  end.

Definition api_classes (ots : list otok) (a : option (bool * list call * list oresp * list nat)) : list string :=
  match a with
  | None => []
  | Some (m, cs, rs, _) =>
      let scans := List.length (filter (fun c => match c with CScan => true | _ => false end) cs) in
      ["api"] ++ (if m then ["api-scan-ignored"] else ["api-mode0"]) ++
      (match cs with c :: _ => match c with CScan => [] | _ => ["api-observer-before-scan"] end | [] => [] end) ++
      (if (S (List.length ots) <? scans)%nat then ["api-scan-after-end"] else []) ++
      (if (List.length ots <? scans)%nat then ["api-reaches-end"] else [])
  end.

(** ** the theorem instance on this input (model vs Spec; must hold by LexRefine / LexValid /
    LexMode — a failure here means the extracted code or this file is broken) *)
Definition model_errors_placed (src : bytes) : bool :=
  match lex true src, lex false src with
  | Done _ es, Done _ es' =>
      let ps := boundary_positions src in
      match first_unplaced 0 ps es, first_unplaced 0 ps es' with
      | None, None => true
      | _, _ => false
      end
  | _, _ => false
  end.

Definition theorem_instance (src : bytes) : bool :=
  model_errors_placed src &&
  match utf8_decode src with
  | None =>
      match lex true src, lex false src with
      | Done _ es, Done _ es' => negb (is_nil es) && negb (is_nil es')
      | _, _ => false
      end
  | Some cps =>
      match spec_lex cps, lex true src, lex false src with
      | (_, EndFuel), _, _ => false
      | _, OutOfFuel, _ | _, _, OutOfFuel => false
      | (_, EndError _ _ _ _), Done _ es, Done _ es' => negb (is_nil es) && negb (is_nil es')
      | (stoks, EndOk), Done ts es, Done ts' es' =>
          if excl_dangling_exponent cps stoks || excl_inner_bom stoks then negb (is_nil es) && negb (is_nil es')
          else tokens_eqb ts (map token_of_stoken stoks) && is_nil es &&
               tokens_eqb ts' (map token_of_stoken (significant stoks)) && is_nil es'
      end
  end.

(** ** evidence classes *)
Fixpoint has_sub (needle hay : bytes) : bool :=
  match hay with
  | [] => is_nil needle
  | _ :: t => bytes_eqb (firstn (List.length needle) hay) needle || has_sub needle t
  end.

(** look-alikes: what unicode.IsSpace / strings.TrimSpace accept beyond TAB LF CR SPACE, and the BOM *)
Definition space_like (c : cp) : bool :=
  existsb (N.eqb c) [11; 12; 28; 29; 30; 31; 133; 160; 5760; 6158; 8192; 8193; 8194; 8195; 8196; 8197; 8198; 8199; 8200;
                     8201; 8202; 8203; 8232; 8233; 8239; 8287; 12288; 65279]%N.

(** a block string literal one of whose lines (between the delimiters) is not empty and consists
    only of look-alikes and white space, with at least one look-alike: the line BlockStringValue
    must NOT treat as blank *)
Definition block_has_space_like_line (lit : bytes) : bool :=
  match utf8_decode lit with
  | Some cps =>
      let inner := firstn (List.length cps - 6) (skipn 3 cps) in
      existsb (fun line => existsb space_like line && forallb (fun c => space_like c || white_space c) line)
              (split_lines inner)
  | None => false
  end.

Definition classes (src : bytes) (m : lex_result) : list string :=
  match m with
  | OutOfFuel => []
  | Done ts es =>
      let has k := existsb (fun t => tok_eqb (t_kind t) k) ts in
      let strs := filter (fun t => tok_eqb (t_kind t) STRING_VALUE) ts in
      let block := existsb (fun t => bytes_eqb (firstn 3 (t_lit t)) [34%N; 34%N; 34%N]) strs in
      let quoted := existsb (fun t => negb (bytes_eqb (firstn 3 (t_lit t)) [34%N; 34%N; 34%N])) strs in
      let esc := existsb (fun t => existsb (N.eqb 92) (t_lit t)) strs in
      let uesc := existsb (fun t => has_sub [92%N; 117%N] (t_lit t)) strs in
      let valid := match utf8_decode src with Some _ => true | None => false end in
      let spec_ok := match utf8_decode src with
                     | Some cps => match spec_lex cps with (_, EndOk) => true | _ => false end
                     | None => false end in
      (if has NAME then ["name"] else []) ++ (if has INT_VALUE then ["int"] else []) ++
      (if has FLOAT_VALUE then ["float"] else []) ++ (if has PUNCTUATOR then ["punctuator"] else []) ++
      (if quoted then ["quoted-string"] else []) ++ (if block then ["block-string"] else []) ++
      (if esc then ["backslash-in-string"] else []) ++ (if uesc then ["unicode-escape"] else []) ++
      (if has COMMENT then ["comment"] else []) ++ (if has UNICODE_BOM then ["bom"] else []) ++
      (if has LINE_TERMINATOR then ["line-terminator"] else []) ++
      (if has_sub [13%N; 10%N] src then ["crlf"] else []) ++
      (if existsb (fun t => (1 <? t_line t)%Z) ts then ["multi-line"] else []) ++
      (if existsb (fun b => (127 <? b)%N) src then ["non-ascii"] else []) ++
      (match utf8_decode src with
       | Some cps => if existsb space_like cps then ["unicode-space"] else []
       | None => [] end) ++
      (if existsb (fun t => bytes_eqb (firstn 3 (t_lit t)) [34%N; 34%N; 34%N] &&
                            match utf8_decode (t_lit t) with Some l => existsb space_like l | None => false end) strs
       then ["block-unicode-space"] else []) ++
      (if existsb (fun t => bytes_eqb (firstn 3 (t_lit t)) [34%N; 34%N; 34%N] && block_has_space_like_line (t_lit t)) strs
       then ["block-line-of-unicode-space"] else []) ++
      (if valid then [] else ["invalid-utf8"]) ++
      (if is_nil es then ["no-error"] else ["error"]) ++
      (if (1 <? List.length es)%nat then ["multi-error"] else []) ++
      (if existsb (fun e => (fst e =? fst (end_pos src))%Z && (snd e =? snd (end_pos src))%Z) es then ["error-at-end"] else []) ++
      (if spec_ok then ["spec-accepts"] else []) ++
      (if negb (is_nil strs) || has INT_VALUE || has FLOAT_VALUE || negb (is_nil es) || (2 <? List.length ts)%nat
       then ["nontrivial"] else [])
  end.

Definition check (c : sexp) : sexp :=
  match tagged "case" c with
  | Some l =>
      match field1 "src" l, field "ign" l, field "sig" l with
      | Some (SStr src), Some li, Some ls =>
          match dec_obs li, dec_obs ls, dec_api l with
          | Some oi, Some os, Some a =>
              if negb (forallb (fun b => (b <? 256)%N) src) then v_bad "byte-range"
              else
                let corr := match compare src oi os with
                            | Some v => Some v
                            | None => api_compare src a
                            end in
                let orc := match oracle src oi os with
                           | Some r => Some r
                           | None =>
                               match errors_oracle src oi os with
                               | Some (key, d) => Some (key, false, d)
                               | None => match api_oracle_case src oi os a with
                                         | Some key => Some (key, false, [])
                                         | None => None
                                         end
                               end
                           end in
                match orc with
                | Some (key, known, d) =>
                    match known, corr with
                    | true, Some v => v            (* outside the theorem: the model is the judge *)
                    | true, None =>
                        (* a known class: the api sequence and the error positions are still judged *)
                        match errors_oracle src oi os with
                        | Some (key', d') => v_oracle_fail key' d'
                        | None => match api_oracle_case src oi os a with
                                  | Some key' => v_oracle_fail key' []
                                  | None => v_oracle_fail key d
                                  end
                        end
                    | _, _ => v_oracle_fail key d
                    end
                | None =>
                    match corr with
                    | Some v => v
                    | None =>
                        if theorem_instance src && api_theorem_instance src a
                        then v_ok (classes src (lex true src) ++ api_classes (fst (if match a with Some (true, _, _, _) => true | _ => false end then oi else os)) a)
                        else v_mismatch "model-vs-spec" []
                    end
                end
          | _, _, _ => v_bad "decode"
          end
      | _, _, _ => v_bad "fields"
      end
  | None => v_bad "shape"
  end.
