(** * Lex/LexValid.v — C07: a scan that reports no error has only consumed validly encoded runes,
    so its input is valid UTF-8.  With [LexRefine.lex_sound] this makes the soundness statement
    total over byte strings, and shows that invalid UTF-8 is always reported. *)
From Coq Require Import List NArith ZArith Bool Lia ZifyBool ZifyNat ZifyN.
From ApiFu Require Import Base.Sexp Lex.ListAux Lex.Utf8 Lex.LexModel Lex.LexSpec Lex.LexRel Lex.Utf8Proofs
  Lex.Utf8Valid Lex.LexProgress Lex.LexSync Lex.LexRefine.
Import ListNotations.
Open Scope Z_scope.

(** the runes consumed before the first error are valid encodings of scalar values *)
Lemma nsteps_clean_valid d k st st' : nsteps d k st st' -> d = false ->
  length (s_errs st') = length (s_errs st) ->
  exists l, forallb scalar_value l = true /\ s_rest st = utf8_encode_all l ++ s_rest st'.
Proof.
  induction 1 as [d st|d k st st' Hd Hv H IH|k st st' Hd H IH|d k st st' H IH]; intros Hclean He.
  - exists []. split; reflexivity.
  - destruct (IH Hclean He) as (l & Hl & Hr).
    apply is_done_false in Hd.
    unfold next_invalid, next_rune, next_size in Hv. unfold read_next_rune in Hv.
    destruct (s_rest st) as [|b0 t] eqn:Er; [congruence|].
    destruct (decode_rune (b0 :: t)) as [r size] eqn:Ed. cbn [fst snd] in Hv.
    destruct (decode_rune_valid (b0 :: t) r size ltac:(congruence) Ed Hv) as (c & Hc & _ & Hs & Hp).
    exists (c :: l). split; [cbn [forallb]; rewrite Hc, Hl; reflexivity|].
    rewrite utf8_encode_all_cons, <- app_assoc, <- Hr.
    unfold consume_rune. cbn [s_rest]. unfold next_size, read_next_rune. rewrite Er, Ed. cbn [snd]. exact Hp.
  - discriminate.
  - exfalso. destruct (nsteps_extent _ _ _ _ H) as (j & _ & _ & _ & _ & l & Hl).
    rewrite Hl, app_length, errorf_errs_length in He. lia.
Qed.

Lemma steps_clean_valid m st st' : steps m st st' -> length (s_errs st') = length (s_errs st) ->
  exists l, forallb scalar_value l = true /\ s_rest st = utf8_encode_all l ++ s_rest st'.
Proof. intros (k & _ & H) He. eapply nsteps_clean_valid; [exact H|reflexivity|exact He]. Qed.

Lemma scan_all_valid : forall fuel st ts es, scan_all fuel true st = Done ts es ->
  length es = length (s_errs st) ->
  exists l, forallb scalar_value l = true /\ s_rest st = utf8_encode_all l.
Proof.
  induction fuel as [|f IH]; intros st ts es H He; [discriminate|]. cbn [scan_all] in H.
  destruct (scan_ok true (S (fuel_of st)) st) as [(st' & H1 & [K1 K2] & D1)|(t & st0 & st' & H1 & [K1 K2] & T1)];
    [unfold fuel_of; lia| |]; rewrite H1 in H.
  - inversion H; subst ts es. pose proof (steps_errs_length _ _ _ K1) as Hmono.
    destruct (K2 eq_refl) as [Ho|Hl]; [|lia].
    pose proof (steps_same _ _ _ K1 Ho He). subst st'.
    exists []. split; [reflexivity|]. unfold is_done in D1. destruct (s_rest st); [reflexivity|discriminate].
  - destruct (scan_all f true st') as [|ts' es'] eqn:E; [discriminate|]. inversion H; subst ts es'.
    pose proof (steps_errs_length _ _ _ K1) as M1.
    pose proof (steps_errs_length _ _ _ (ta_steps _ _ _ T1)) as M2.
    pose proof (scan_all_errs_mono _ _ _ _ _ E) as M3.
    destruct (K2 eq_refl) as [Ho|Hl]; [|lia].
    assert (st0 = st) by (apply (steps_same _ _ _ K1 Ho); lia). subst st0.
    destruct (steps_clean_valid _ _ _ (ta_steps _ _ _ T1) ltac:(lia)) as (l1 & Hl1 & Hr1).
    destruct (IH _ _ _ E ltac:(lia)) as (l2 & Hl2 & Hr2).
    exists (l1 ++ l2). split; [rewrite forallb_app, Hl1, Hl2; reflexivity|].
    rewrite utf8_encode_all_app, Hr1, Hr2. reflexivity.
Qed.

(** a scan without error has read valid UTF-8 *)
Theorem lex_valid_utf8 : forall bs ts, lex true bs = Done ts [] -> exists cps, utf8_decode bs = Some cps.
Proof.
  intros bs ts H. unfold lex in H.
  destruct (scan_all_valid _ _ _ _ H eq_refl) as (l & Hl & Hr). cbn [init s_rest] in Hr.
  exists l. subst bs. apply utf8_decode_complete. exact Hl.
Qed.

(** invalid UTF-8 is always reported *)
Theorem lex_invalid_utf8_rejected : forall bs, utf8_decode bs = None ->
  exists ts es, lex true bs = Done ts es /\ es <> [].
Proof.
  intros bs Hn. destruct (lex_progress true bs) as (ts & es & H & _). exists ts, es. split; [exact H|].
  intro He. subst es. destruct (lex_valid_utf8 _ _ H) as (cps & Hc). congruence.
Qed.

(** soundness, for every byte string: no error reported => the input is valid UTF-8, the grammar
    tokenises it, and the tokens are the grammar's *)
Theorem lex_sound_bytes : forall bs ts, lex true bs = Done ts [] ->
  exists cps stoks, utf8_decode bs = Some cps /\ spec_lex cps = (stoks, EndOk) /\
                    ts = map token_of_stoken stoks /\
                    excl_dangling_exponent cps stoks = false /\ excl_inner_bom stoks = false.
Proof.
  intros bs ts H. destruct (lex_valid_utf8 _ _ H) as (cps & Hc).
  destruct (lex_sound _ _ _ Hc H) as (stoks & H1 & H2 & H3 & H4).
  exists cps, stoks. repeat split; assumption.
Qed.
