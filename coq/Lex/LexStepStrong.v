(** * Lex/LexStepStrong.v — C07: LexStep.scan_switch_sync once more, with one more fact in its
    post-condition: the only round that reports an error although the grammar has a token there
    (outside the known classes) is a COMMENT running into a character outside SourceCharacter.
    The section below is LexStep's Section Step with [sk = KComment] added to the third
    alternative of [step_post] (names carry the suffix _s); LexStep.v itself is unchanged. *)
From Coq Require Import List NArith ZArith Bool Lia ZifyBool ZifyNat ZifyN.
From ApiFu Require Import Base.Sexp Lex.ListAux Lex.Utf8 Lex.LexModel Lex.LexSpec Lex.LexRel Lex.Utf8Proofs
  Lex.LexProgress Lex.LexSync Lex.LexSpecFacts Lex.LexClasses Lex.LexStrings Lex.LexStep.
Import ListNotations.
Open Scope Z_scope.

Section StepStrong.
  Variable cps : list cp.
  Hypothesis Hscalar : forallb scalar_value cps = true.
  Notation sync := (LexSync.sync cps).

  Ltac sync_facts Hs :=
    let Hn := fresh "Hnext" in let Hd := fresh "Hnd" in let Hp := fresh "Hpeek" in
    let Hv := fresh "Hvalid" in let Hc := fresh "Hcons" in
    pose proof (sync_next _ Hscalar _ _ _ _ Hs) as Hn;
    pose proof (sync_not_done _ _ _ _ _ Hs) as Hd;
    pose proof (sync_peek _ Hscalar _ _ _ _ Hs) as Hp;
    pose proof (sync_valid _ Hscalar _ _ _ _ Hs) as Hv;
    pose proof (sync_consume _ Hscalar _ _ _ _ Hs) as Hc.

  Lemma sync_off_zero_s n c t st : sync n (c :: t) st -> (s_off st =? 0) = Nat.eqb n 0.
  Proof.
    intro Hs. rewrite (sy_off _ _ _ _ Hs). pose proof (skipn_lt_length _ _ _ _ (sy_L _ _ _ _ Hs)) as Hlt.
    pose proof (utf8_length_ge (firstn n cps)) as Hge. rewrite firstn_length in Hge.
    destruct n as [|n]; [reflexivity|]. cbn [Nat.eqb]. lia.
  Qed.

  (** the post-condition of a round that produced the grammar's token *)
  Definition good_s (n : nat) (L : list cp) (st : state) (sk : kind) (j : nat) (k : tok) (sv : bytes) (st1 : state) : Prop :=
    k = tok_of_kind sk /\ sync (n + j) (skipn j L) st1 /\ same_errs st st1 /\
    (sk = KString -> exists val, match_string L = Some (SMatch j val) /\ sv = utf8_encode_all val).

  (** one round of the switch against the grammar: the same token; or an error where the grammar
      has no token, or has none right after this one (a comment running into a character outside
      SourceCharacter), or in one of the two known situations *)
  Definition step_post_s (n : nat) (L : list cp) (st : state) (k : tok) (sv : bytes) (st1 : state) : Prop :=
    match longest_token L with
    | Some (sk, j) =>
        j <> 0%nat /\
        (if trouble n L sk j then more_errs st st1
         else good_s n L st sk j k sv st1 \/ (more_errs st st1 /\ spec_fails_next L j /\ sk = KComment))
    | None => more_errs st st1
    end.

  Lemma more_errs_invalid_s st : more_errs st (consume_rune (errorf st)).
  Proof. unfold more_errs. rewrite consume_rune_errs, errorf_errs_length. lia. Qed.

  (** single-character tokens *)
  Lemma step_single_s n c t st sk k : sync n (c :: t) st -> longest_token (c :: t) = Some (sk, 1%nat) ->
    trouble n (c :: t) sk 1 = false -> k = tok_of_kind sk -> sk <> KString ->
    step_post_s n (c :: t) st k [] (consume_rune st).
  Proof.
    intros Hs Hl Ht Hk Hns. unfold step_post_s. rewrite Hl, Ht. split; [lia|]. left.
    split; [exact Hk|]. split; [|split; [reflexivity|congruence]].
    cbn [skipn]. replace (n + 1)%nat with (S n) by lia. apply (sync_consume _ Hscalar _ _ _ _ Hs).
  Qed.

  Lemma scan_switch_numbers_s n c t st k sv st1 : sync n (c :: t) st ->
    forall i sta, match_integer_part (c :: t) = Some i ->
    sync (n + i) (skipn i (c :: t)) sta -> same_errs st sta ->
    match consume_fractional_part sta with
    | None => None
    | Some (true, st2) =>
        match consume_exponent_part st2 with
        | None => None
        | Some (_, st3) => Some (FLOAT_VALUE, @nil N, st3)
        end
    | Some (false, st2) =>
        match consume_exponent_part st2 with
        | None => None
        | Some (true, st3) => Some (FLOAT_VALUE, [], st3)
        | Some (false, st3) => Some (INT_VALUE, [], st3)
        end
    end = Some (k, sv, st1) ->
    step_post_s n (c :: t) st k sv st1.
  Proof.
    intros Hs i sta Ei Hsa Hea H.
    pose proof (match_integer_part_pos _ _ Ei) as Hipos.
    pose proof (integer_part_chars _ _ Ei) as Hichars.
    unfold step_post_s. rewrite (lt_number _ _ _ Ei). unfold match_float. rewrite Ei.
    set (L := c :: t) in *.
    destruct (consume_fractional_part sta) as [[b2 stb]|] eqn:EF; [|discriminate].
    pose proof (consume_fractional_part_sync _ Hscalar _ _ _ _ _ Hsa EF) as HF.
    destruct (match_fractional_part (skipn i L)) as [f|] eqn:Ef.
    - destruct HF as (-> & Hsb & Heb). rewrite skipn_skipn in Hsb.
      pose proof (match_fractional_part_pos _ _ Ef) as Hfpos.
      pose proof (fractional_part_chars _ _ Ef) as Hfchars.
      pose proof (forallb_firstn_app _ _ _ _ Hichars Hfchars) as Hchars.
      destruct (consume_exponent_part stb) as [[b3 stc]|] eqn:EE; [|discriminate].
      inversion H; subst k sv st1.
      pose proof (consume_exponent_part_sync _ Hscalar _ _ _ _ _ Hsb EE) as HE.
      assert (NOEXP : existsb exponent_indicator (firstn (i + f) L) = false).
      { eapply existsb_forallb_false; [exact Hchars|exact number_char_no_exponent]. }
      destruct (skipn (i + f) L) as [|d r] eqn:Esk.
      + destruct HE as [-> ->]. cbn [match_exponent_part]. split; [lia|].
        cbn [trouble]. rewrite nth_error_skipn, Esk. cbn [hd_error]. rewrite andb_false_r. left.
        split; [reflexivity|]. rewrite <- Nat.add_assoc in Hsb. rewrite Esk.
        split; [exact Hsb|]. split; [unfold same_errs in *; congruence|discriminate].
      + destruct (exponent_indicator d) eqn:Ed.
        * destruct HE as [-> HE]. destruct (match_exponent_part (d :: r)) as [e|] eqn:Ee.
          -- destruct HE as [Hsc Hec]. pose proof (match_exponent_part_pos _ _ Ee) as Hepos.
             split; [lia|]. cbn [trouble].
             rewrite (existsb_firstn_nth exponent_indicator (i + f) (i + f + e) L d); [|rewrite nth_error_skipn, Esk; reflexivity|exact Ed|lia].
             cbn [negb andb]. left. split; [reflexivity|].
             rewrite <- Esk, skipn_skipn in Hsc.
             replace (n + (i + f + e))%nat with (n + i + f + e)%nat by lia.
             split; [exact Hsc|]. split; [unfold same_errs in *; congruence|discriminate].
          -- split; [lia|]. cbn [trouble]. rewrite NOEXP, nth_error_skipn, Esk. cbn [hd_error negb andb]. rewrite Ed.
             unfold more_errs, same_errs in *. rewrite Heb, Hea in HE. exact HE.
        * destruct HE as [-> ->]. rewrite (match_exponent_part_head _ _ Ed). split; [lia|].
          cbn [trouble]. rewrite nth_error_skipn, Esk. cbn [hd_error]. rewrite Ed, andb_false_r. left.
          split; [reflexivity|]. rewrite <- Nat.add_assoc in Hsb. rewrite Esk.
          split; [exact Hsb|]. split; [unfold same_errs in *; congruence|discriminate].
    - destruct HF as [-> ->].
      destruct (consume_exponent_part sta) as [[b3 stc]|] eqn:EE; [|discriminate].
      pose proof (consume_exponent_part_sync _ Hscalar _ _ _ _ _ Hsa EE) as HE.
      assert (NOEXP : existsb exponent_indicator (firstn i L) = false).
      { eapply existsb_forallb_false; [exact Hichars|exact number_char_no_exponent]. }
      destruct (skipn i L) as [|d r] eqn:Esk.
      + destruct HE as [-> ->]. inversion H; subst k sv st1. cbn [match_exponent_part]. split; [lia|].
        cbn [trouble]. rewrite nth_error_skipn, Esk. cbn [hd_error]. rewrite andb_false_r. left.
        split; [reflexivity|]. rewrite Esk. split; [exact Hsa|]. split; [exact Hea|discriminate].
      + destruct (exponent_indicator d) eqn:Ed.
        * destruct HE as [-> HE]. inversion H; subst k sv st1.
          destruct (match_exponent_part (d :: r)) as [e|] eqn:Ee.
          -- destruct HE as [Hsc Hec]. pose proof (match_exponent_part_pos _ _ Ee) as Hepos.
             split; [lia|]. cbn [trouble].
             rewrite (existsb_firstn_nth exponent_indicator i (i + e) L d); [|rewrite nth_error_skipn, Esk; reflexivity|exact Ed|lia].
             cbn [negb andb]. left. split; [reflexivity|].
             rewrite <- Esk, skipn_skipn in Hsc. rewrite Nat.add_assoc.
             split; [exact Hsc|]. split; [unfold same_errs in *; congruence|discriminate].
          -- split; [lia|]. cbn [trouble]. rewrite NOEXP, nth_error_skipn, Esk. cbn [hd_error negb andb]. rewrite Ed.
             unfold more_errs, same_errs in *. rewrite Hea in HE. exact HE.
        * destruct HE as [-> ->]. inversion H; subst k sv st1. rewrite (match_exponent_part_head _ _ Ed). split; [lia|].
          cbn [trouble]. rewrite nth_error_skipn, Esk. cbn [hd_error]. rewrite Ed, andb_false_r. left.
          split; [reflexivity|]. rewrite Esk. split; [exact Hsa|]. split; [exact Hea|discriminate].
  Qed.

  (** ** the switch *)
  Theorem scan_switch_sync_s n c t st k sv st1 : sync n (c :: t) st ->
    scan_switch st = Some (k, sv, st1) -> step_post_s n (c :: t) st k sv st1.
  Proof.
    intros Hs H. sync_facts Hs. unfold scan_switch in H. rewrite Hnext in H.
    (* white space *)
    destruct (white_space c) eqn:Ews.
    { pose proof (lt_white_space c t Ews) as Hl. unfold white_space in Ews. decide_ifs_in H. inversion H; subst.
      eapply step_single_s; [exact Hs|exact Hl|reflexivity|reflexivity|discriminate]. }
    unfold white_space in Ews. decide_ifs_in H.
    (* one-character punctuators *)
    rewrite is_punctuator_rune_of_N in H.
    destruct (single_punctuator c) eqn:Ep.
    { inversion H; subst.
      eapply step_single_s; [exact Hs|apply lt_single_punctuator; exact Ep|reflexivity|reflexivity|discriminate]. }
    (* comma *)
    destruct (c =? 44)%N eqn:E44.
    { assert (c = 44%N) by lia. subst c. decide_ifs_in H. inversion H; subst.
      eapply step_single_s; [exact Hs|apply lt_comma|reflexivity|reflexivity|discriminate]. }
    decide_ifs_in H.
    (* line terminators *)
    destruct (c =? 10)%N eqn:E10.
    { assert (c = 10%N) by lia. subst c. decide_ifs_in H. cbn [andb] in H. inversion H; subst.
      eapply step_single_s; [exact Hs|apply lt_lf|reflexivity|reflexivity|discriminate]. }
    destruct (c =? 13)%N eqn:E13.
    { assert (c = 13%N) by lia. subst c. decide_ifs_in H. cbn [andb] in H.
      rewrite (sync_head _ Hscalar _ _ _ Hcons) in H.
      unfold step_post_s. rewrite lt_cr. unfold head_is.
      destruct t as [|d t']; cbn [head_rune] in H.
      - cbn in H. inversion H; subst. split; [lia|]. cbn [trouble]. left. split; [reflexivity|].
        cbn [skipn]. replace (n + 1)%nat with (S n) by lia. split; [exact Hcons|]. split; [reflexivity|discriminate].
      - destruct (d =? 10)%N eqn:Ed.
        + decide_ifs_in H. inversion H; subst. split; [lia|]. cbn [trouble]. left. split; [reflexivity|].
          cbn [skipn]. replace (n + 2)%nat with (S (S n)) by lia.
          split; [apply (sync_consume _ Hscalar _ _ _ _ Hcons)|]. split; [reflexivity|discriminate].
        + decide_ifs_in H. inversion H; subst. split; [lia|]. cbn [trouble]. left. split; [reflexivity|].
          cbn [skipn]. replace (n + 1)%nat with (S n) by lia. split; [exact Hcons|]. split; [reflexivity|discriminate]. }
    decide_ifs_in H.
    (* comments *)
    destruct (c =? 35)%N eqn:E35.
    { assert (c = 35%N) by lia. subst c. decide_ifs_in H.
      destruct (consume_comment (fuel_of st) st) as [st2|] eqn:EC; [|discriminate]. inversion H; subst.
      pose proof (consume_comment_sync _ Hscalar _ _ _ _ _ Hs EC) as HC.
      change (span comment_char (_ :: t)) with (S (span comment_char t)) in HC. unfold step_post_s. rewrite lt_comment. split; [lia|].
      cbn [trouble]. cbn [skipn] in HC.
      pose proof (span_stop comment_char t) as Hstop.
      destruct (skipn (span comment_char t) t) as [|d r] eqn:Esk.
      - destruct HC as [HC1 HC2]. left. split; [reflexivity|]. split; [cbn [skipn]; rewrite Esk; exact HC1|]. split; [exact HC2|discriminate].
      - destruct (line_terminator_char d) eqn:Elt.
        + destruct HC as [HC1 HC2]. left. split; [reflexivity|]. split; [cbn [skipn]; rewrite Esk; exact HC1|]. split; [exact HC2|discriminate].
        + right. split; [exact HC|]. split; [|reflexivity]. exists d, r. split; [cbn [skipn]; exact Esk|].
          apply lt_non_source. unfold comment_char in Hstop. rewrite Elt in Hstop. cbn [negb] in Hstop.
          rewrite andb_true_r in Hstop. exact Hstop. }
    decide_ifs_in H.
    (* the ellipsis *)
    destruct (c =? 46)%N eqn:E46.
    { assert (c = 46%N) by lia. subst c. decide_ifs_in H.
      rewrite (sync_head _ Hscalar _ _ _ Hcons) in H. unfold step_post_s. rewrite lt_dot.
      assert (ERR1 : more_errs st (errorf (consume_rune st))).
      { unfold more_errs. rewrite errorf_errs_length, consume_rune_errs. lia. }
      destruct t as [|d t']; cbn [head_rune] in H.
      - cbn in H. inversion H; subst. exact ERR1.
      - destruct (d =? 46)%N eqn:Ed.
        + assert (d = 46%N) by lia. subst d. decide_ifs_in H. cbn [negb] in H.
          pose proof (sync_consume _ Hscalar _ _ _ _ Hcons) as Hcons2.
          rewrite (sync_head _ Hscalar _ _ _ Hcons2) in H.
          assert (ERR2 : more_errs st (errorf (consume_rune (consume_rune st)))).
          { unfold more_errs. rewrite errorf_errs_length, !consume_rune_errs. lia. }
          destruct t' as [|e t'']; cbn [head_rune] in H.
          * cbn in H. inversion H; subst. exact ERR2.
          * cbn [N.eqb Pos.eqb andb]. destruct (e =? 46)%N eqn:Ee.
            -- decide_ifs_in H. cbn [negb] in H. inversion H; subst. split; [lia|]. cbn [trouble]. left.
               split; [reflexivity|]. cbn [skipn]. replace (n + 3)%nat with (S (S (S n))) by lia.
               split; [apply (sync_consume _ Hscalar _ _ _ _ Hcons2)|]. split; [reflexivity|discriminate].
            -- decide_ifs_in H. cbn [negb] in H. inversion H; subst. exact ERR2.
        + decide_ifs_in H. cbn [negb] in H. inversion H; subst.
          destruct t' as [|e t'']; cbn [andb]; exact ERR1. }
    decide_ifs_in H.
    (* strings *)
    destruct (c =? 34)%N eqn:E34.
    { assert (c = 34%N) by lia. subst c. decide_ifs_in H.
      destruct (consume_string_value st) as [[st2 v]|] eqn:ES; [|discriminate]. inversion H; subst.
      pose proof (consume_string_value_sync _ Hscalar _ _ _ _ _ Hs ES) as HS.
      unfold step_post_s. rewrite lt_quote. unfold string_length.
      destruct (match_string (34%N :: t)) as [[j val|w]|] eqn:EM; cbn [cand]; try exact HS.
      destruct HS as (HS1 & HS2 & HS3). split; [pose proof (match_string_pos _ _ _ EM); lia|].
      cbn [trouble]. left. split; [reflexivity|]. split; [exact HS1|]. split; [exact HS2|].
      intros _. exists val. split; [exact EM|exact HS3]. }
    decide_ifs_in H.
    (* U+FFFD *)
    destruct (c =? 65533)%N eqn:Efffd.
    { unfold RuneError in H. decide_ifs_in H. inversion H; subst. unfold step_post_s.
      rewrite lt_nothing; [apply more_errs_invalid_s| | |].
      - unfold plain_char, white_space. rewrite Ep. lia.
      - unfold name_start, letter. lia.
      - apply match_integer_part_none; [lia|unfold digit; lia]. }
    unfold RuneError in H. decide_ifs_in H.
    (* byte order mark *)
    destruct (c =? 65279)%N eqn:Ebom.
    { assert (c = 65279%N) by lia. subst c. decide_ifs_in H.
      rewrite (sync_off_zero_s _ _ _ _ Hs) in H. unfold step_post_s. rewrite lt_bom. split; [lia|]. cbn [trouble].
      destruct (Nat.eqb n 0); cbn [negb]; inversion H; subst.
      - left. split; [reflexivity|]. cbn [skipn]. replace (n + 1)%nat with (S n) by lia.
        split; [exact Hcons|]. split; [reflexivity|discriminate].
      - apply more_errs_invalid_s. }
    decide_ifs_in H.
    (* numbers and names *)
    destruct (consume_integer_part st) as [[b1 sta]|] eqn:EI; [|discriminate].
    pose proof (consume_integer_part_sync _ Hscalar _ _ _ _ _ Hs EI) as HI.
    destruct (match_integer_part (c :: t)) as [i|] eqn:Ei.
    - destruct HI as (-> & Hsa & Hea). eapply scan_switch_numbers_s; eassumption.
    - destruct HI as [-> ->].
      destruct (consume_name st) as [[b2 stb]|] eqn:EN; [|discriminate].
      pose proof (consume_name_sync _ Hscalar _ _ _ _ _ Hs EN) as HN.
      unfold match_name in HN. unfold step_post_s.
      destruct (name_start c) eqn:Ens.
      + destruct HN as (-> & Hsb & Heb). inversion H; subst. rewrite (lt_name _ _ Ens). split; [lia|].
        cbn [trouble]. left. split; [reflexivity|]. split; [exact Hsb|]. split; [exact Heb|discriminate].
      + destruct HN as [-> ->]. inversion H; subst. rewrite lt_nothing; [apply more_errs_invalid_s| |exact Ens|exact Ei].
        unfold plain_char, white_space. rewrite Ep. lia.
  Qed.
End StepStrong.

(** the strengthened post-condition implies LexStep's, and its [good] is LexStep's [good] *)
Lemma good_s_good cps n L st sk j k sv st1 : good_s cps n L st sk j k sv st1 <-> good cps n L st sk j k sv st1.
Proof. reflexivity. Qed.
