(** * Lex/LexClasses.v — C07: each consume* function of the scanner model, on a synchronised state,
    consumes exactly what the specification's matcher of that class matches. *)
From Coq Require Import List NArith ZArith Bool Lia ZifyBool ZifyNat ZifyN.
From ApiFu Require Import Base.Sexp Lex.ListAux Lex.Utf8 Lex.LexModel Lex.LexSpec Lex.Utf8Proofs
  Lex.LexProgress Lex.LexSync Lex.LexSpecFacts.
Import ListNotations.
Open Scope Z_scope.

Section Classes.
  Variable cps : list cp.
  Hypothesis Hscalar : forallb scalar_value cps = true.
  Notation sync := (LexSync.sync cps).

  (** the facts about a synchronised state standing before [c :: t] *)
  Ltac sync_facts Hs :=
    let Hn := fresh "Hnext" in let Hd := fresh "Hnd" in let Hp := fresh "Hpeek" in
    let Hv := fresh "Hvalid" in let Hc := fresh "Hcons" in
    pose proof (sync_next _ Hscalar _ _ _ _ Hs) as Hn;
    pose proof (sync_not_done _ _ _ _ _ Hs) as Hd;
    pose proof (sync_peek _ Hscalar _ _ _ _ Hs) as Hp;
    pose proof (sync_valid _ Hscalar _ _ _ _ Hs) as Hv;
    pose proof (sync_consume _ Hscalar _ _ _ _ Hs) as Hc.

  Definition same_errs (st st' : state) : Prop := s_errs st' = s_errs st.
  Definition more_errs (st st' : state) : Prop := (length (s_errs st) < length (s_errs st'))%nat.

  (** ** names *)
  Lemma consume_name_sync n L st b st' : sync n L st -> consume_name st = Some (b, st') ->
    match match_name L with
    | Some j => b = true /\ sync (n + j) (skipn j L) st' /\ same_errs st st'
    | None => b = false /\ st' = st
    end.
  Proof.
    intros Hs H. unfold consume_name in H. rewrite (sync_head _ Hscalar _ _ _ Hs) in H.
    destruct L as [|c t]; cbn [head_rune match_name] in *.
    - cbn in H. inversion H; subst. split; reflexivity.
    - rewrite is_name_start_of_N in H. destruct (name_start c) eqn:E.
      + sync_facts Hs.
        destruct (consume_while _ _ _) as [st2|] eqn:E2; [|discriminate]. inversion H; subst b st'.
        destruct (consume_while_sync _ Hscalar _ _ is_name_continue_of_N _ _ _ _ _ Hcons E2) as [H1 H2].
        split; [reflexivity|]. cbn [skipn]. replace (n + S (span name_continue t))%nat with (S n + span name_continue t)%nat by lia.
        split; [exact H1|exact H2].
      + inversion H; subst. split; reflexivity.
  Qed.

  (** ** numbers *)
  Lemma span_digit_cons c t : digit c = true -> span digit (c :: t) = S (span digit t).
  Proof. intro H. cbn [span]. rewrite H. reflexivity. Qed.

  Lemma consume_integer_part_sync n L st b st' : sync n L st -> consume_integer_part st = Some (b, st') ->
    match match_integer_part L with
    | Some j => b = true /\ sync (n + j) (skipn j L) st' /\ same_errs st st'
    | None => b = false /\ st' = st
    end.
  Proof.
    intros Hs H. unfold consume_integer_part in H.
    destruct L as [|c t].
    - rewrite (sync_eof _ _ _ Hs) in H. cbn in H. rewrite (sync_eof _ _ _ Hs) in H. cbn in H.
      inversion H; subst. split; reflexivity.
    - sync_facts Hs. rewrite match_integer_part_cons. rewrite Hnext, Hpeek in H.
      destruct (c =? 45)%N eqn:E45.
      + assert (Ez : (Z.of_N c =? 45) = true) by lia. rewrite Ez in H. cbn [andb] in H.
        destruct t as [|d t'].
        * cbn in H. rewrite Hnext in H. assert (E0 : (Z.of_N c =? 48) = false) by lia. rewrite E0 in H.
          rewrite is_digit_of_N in H. assert (Ed : digit c = false) by (unfold digit; lia). rewrite Ed in H.
          cbn in H. inversion H; subst. split; reflexivity.
        * rewrite is_digit_of_N in H. destruct (digit d) eqn:Ed.
          -- (* the sign is consumed *)
             pose proof Hcons as Hs1. sync_facts Hs1. rewrite Hnext0 in H.
             destruct (d =? 48)%N eqn:E48.
             ++ assert (Ez0 : (Z.of_N d =? 48) = true) by lia. rewrite Ez0 in H. inversion H; subst b st'.
                split; [reflexivity|]. cbn [skipn]. replace (n + 2)%nat with (S (S n)) by lia.
                split; [exact Hcons0|reflexivity].
             ++ assert (Ez0 : (Z.of_N d =? 48) = false) by lia. rewrite Ez0, is_digit_of_N, Ed in H. cbn [negb] in H.
                destruct (consume_while _ _ _) as [st2|] eqn:E2; [|discriminate]. inversion H; subst b st'.
                destruct (consume_while_sync _ Hscalar _ _ is_digit_of_N _ _ _ _ _ Hs1 E2) as [H1 H2].
                rewrite (span_digit_cons _ _ Ed) in H1. cbn [skipn] in H1.
                split; [reflexivity|]. cbn [skipn].
                replace (n + (2 + span digit t'))%nat with (S n + S (span digit t'))%nat by lia.
                split; [exact H1|exact H2].
          -- (* a minus sign that starts nothing *)
             rewrite Hnext in H. assert (E0 : (Z.of_N c =? 48) = false) by lia. rewrite E0 in H.
             rewrite is_digit_of_N in H. assert (Edc : digit c = false) by (unfold digit; lia). rewrite Edc in H.
             cbn in H. inversion H; subst.
             assert (E48 : (d =? 48)%N = false) by (unfold digit in Ed; lia). rewrite E48. split; reflexivity.
      + assert (Ez : (Z.of_N c =? 45) = false) by lia. rewrite Ez in H. cbn [andb] in H. rewrite Hnext in H.
        destruct (c =? 48)%N eqn:E48.
        * assert (Ez0 : (Z.of_N c =? 48) = true) by lia. rewrite Ez0 in H. inversion H; subst b st'.
          split; [reflexivity|]. cbn [skipn]. replace (n + 1)%nat with (S n) by lia. split; [exact Hcons|reflexivity].
        * assert (Ez0 : (Z.of_N c =? 48) = false) by lia. rewrite Ez0, is_digit_of_N in H.
          destruct (digit c) eqn:Ed; cbn [negb] in H.
          -- destruct (consume_while _ _ _) as [st2|] eqn:E2; [|discriminate]. inversion H; subst b st'.
             destruct (consume_while_sync _ Hscalar _ _ is_digit_of_N _ _ _ _ _ Hs E2) as [H1 H2].
             rewrite (span_digit_cons _ _ Ed) in H1. cbn [skipn] in H1.
             split; [reflexivity|]. cbn [skipn].
             replace (n + (1 + span digit t))%nat with (n + S (span digit t))%nat by lia.
             split; [exact H1|exact H2].
          -- inversion H; subst. split; reflexivity.
  Qed.

  Lemma consume_fractional_part_sync n L st b st' : sync n L st -> consume_fractional_part st = Some (b, st') ->
    match match_fractional_part L with
    | Some j => b = true /\ sync (n + j) (skipn j L) st' /\ same_errs st st'
    | None => b = false /\ st' = st
    end.
  Proof.
    intros Hs H. unfold consume_fractional_part in H.
    destruct L as [|c t].
    - rewrite (sync_eof _ _ _ Hs) in H. cbn in H. inversion H; subst. split; reflexivity.
    - sync_facts Hs. rewrite Hnext, Hpeek in H. unfold match_fractional_part.
      destruct (c =? 46)%N eqn:E46.
      + assert (Ez : (Z.of_N c =? 46) = true) by lia. rewrite Ez in H. cbn [negb orb andb] in H.
        destruct t as [|d t'].
        * cbn in H. inversion H; subst. cbn. split; reflexivity.
        * rewrite is_digit_of_N in H. cbn [span]. destruct (digit d) eqn:Ed; cbn [negb] in H.
          -- destruct (consume_while _ _ _) as [st2|] eqn:E2; [|discriminate]. inversion H; subst b st'.
             destruct (consume_while_sync _ Hscalar _ _ is_digit_of_N _ _ _ _ _ Hcons E2) as [H1 H2].
             rewrite (span_digit_cons _ _ Ed) in H1. cbn [skipn] in H1.
             assert (Epos : (0 <? S (span digit t'))%nat = true) by lia. rewrite Epos.
             split; [reflexivity|]. cbn [skipn].
             replace (n + (1 + S (span digit t')))%nat with (S n + S (span digit t'))%nat by lia.
             split; [exact H1|exact H2].
          -- inversion H; subst. cbn. split; reflexivity.
      + assert (Ez : (Z.of_N c =? 46) = false) by lia. rewrite Ez in H. cbn in H. inversion H; subst.
        split; reflexivity.
  Qed.

  (** the exponent part: when an exponent indicator is not followed by digits the scanner still
      commits to it and reports an error (the known deviation "dangling-exponent") *)
  Lemma consume_exponent_part_sync n L st b st' : sync n L st -> consume_exponent_part st = Some (b, st') ->
    match L with
    | c :: _ =>
        if exponent_indicator c then
          b = true /\
          match match_exponent_part L with
          | Some j => sync (n + j) (skipn j L) st' /\ same_errs st st'
          | None => more_errs st st'
          end
        else b = false /\ st' = st
    | [] => b = false /\ st' = st
    end.
  Proof.
    intros Hs H. unfold consume_exponent_part in H.
    destruct L as [|c t].
    - rewrite (sync_eof _ _ _ Hs) in H. cbn in H. inversion H; subst. split; reflexivity.
    - sync_facts Hs. rewrite Hnext in H. unfold exponent_indicator.
      destruct ((c =? 101) || (c =? 69))%N eqn:Ee.
      + assert (Ez : negb (Z.of_N c =? 101) && negb (Z.of_N c =? 69) = false) by lia. rewrite Ez in H.
        set (st1 := consume_rune st) in *.
        set (st2 := if (next_rune st1 =? 43) || (next_rune st1 =? 45) then consume_rune st1 else st1) in *.
        set (st3 := if negb (is_digit (next_rune st2)) then errorf st2 else st2) in *.
        destruct (consume_while _ _ st3) as [st4|] eqn:E4; [|discriminate]. inversion H; subst b st'.
        split; [reflexivity|].
        unfold match_exponent_part, exponent_indicator. rewrite Ee.
        set (sign := if head_is t 43%N || head_is t 45%N then 1%nat else 0%nat).
        (* st2 stands after the optional sign *)
        assert (S2 : sync (S n + sign) (skipn sign t) st2 /\ s_errs st2 = s_errs st).
        { unfold st2, sign. rewrite (sync_head _ Hscalar _ _ _ Hcons).
          destruct t as [|d t']; cbn [head_rune head_is].
          - cbn. rewrite Nat.add_0_r. split; [exact Hcons|reflexivity].
          - destruct ((d =? 43) || (d =? 45))%N eqn:Ed.
            + assert (Ezd : (Z.of_N d =? 43) || (Z.of_N d =? 45) = true) by lia. rewrite Ezd.
              cbn [skipn]. replace (S n + 1)%nat with (S (S n)) by lia.
              split; [apply (sync_consume _ Hscalar _ _ _ _ Hcons)|reflexivity].
            + assert (Ezd : (Z.of_N d =? 43) || (Z.of_N d =? 45) = false) by lia. rewrite Ezd.
              cbn [skipn]. rewrite Nat.add_0_r. split; [exact Hcons|reflexivity]. }
        destruct S2 as [S2 E2].
        assert (S3 : sync (S n + sign) (skipn sign t) st3) by (unfold st3; destruct (negb _); [apply sync_errorf|]; exact S2).
        destruct (consume_while_sync _ Hscalar _ _ is_digit_of_N _ _ _ _ _ S3 E4) as [H1 H2].
        destruct (0 <? span digit (skipn sign t))%nat eqn:Epos.
        * (* digits follow: no error *)
          assert (Hd3 : st3 = st2).
          { unfold st3. rewrite (sync_head _ Hscalar _ _ _ S2).
            destruct (skipn sign t) as [|d t'] eqn:Esk; [cbn in Epos; lia|]. cbn [head_rune].
            rewrite is_digit_of_N. cbn [span] in Epos. destruct (digit d); [reflexivity|lia]. }
          split.
          -- cbn [skipn]. rewrite skipn_skipn in H1.
             replace (n + (1 + sign + span digit (skipn sign t)))%nat with (S n + sign + span digit (skipn sign t))%nat by lia.
             replace (1 + sign + span digit (skipn sign t))%nat with (S (sign + span digit (skipn sign t))) by lia.
             cbn [skipn]. exact H1.
          -- unfold same_errs. rewrite H2, Hd3. exact E2.
        * (* no digit: the dangling exponent *)
          assert (Hd3 : st3 = errorf st2).
          { unfold st3. rewrite (sync_head _ Hscalar _ _ _ S2).
            destruct (skipn sign t) as [|d t'] eqn:Esk; [reflexivity|]. cbn [head_rune].
            rewrite is_digit_of_N. cbn [span] in Epos. destruct (digit d); [lia|reflexivity]. }
          unfold more_errs. rewrite H2, Hd3, errorf_errs_length, E2. lia.
      + assert (Ez : negb (Z.of_N c =? 101) && negb (Z.of_N c =? 69) = true) by lia. rewrite Ez in H.
        inversion H; subst. split; reflexivity.
  Qed.

  (** ** comments *)
  Lemma consume_comment_errs : forall fuel st st', consume_comment fuel st = Some st' ->
    (length (s_errs st) <= length (s_errs st'))%nat.
  Proof.
    induction fuel as [|f IH]; intros st st' H; cbn [consume_comment] in H;
      destruct (negb (is_done st) && negb (next_rune st =? 13) && negb (next_rune st =? 10)); try discriminate;
      try (inversion H; subst; lia).
    apply IH in H. rewrite consume_rune_errs in H.
    destruct (next_invalid st); [rewrite errorf_errs_length in H; lia|].
    destruct (negb (is_source_character (next_rune st))); [rewrite errorf_errs_length in H; lia|lia].
  Qed.

  (** the scanner runs to the end of the line; the grammar's comment ends at the first character
      that is no CommentChar.  They agree unless that character is neither a line terminator nor
      the end of the text, i.e. it is outside SourceCharacter: then the scanner reports an error *)
  Lemma consume_comment_sync : forall fuel n L st st', sync n L st -> consume_comment fuel st = Some st' ->
    match skipn (span comment_char L) L with
    | [] => sync (n + span comment_char L) [] st' /\ same_errs st st'
    | d :: r => if line_terminator_char d then sync (n + span comment_char L) (d :: r) st' /\ same_errs st st'
                else more_errs st st'
    end.
  Proof.
    assert (STOP : forall n c t st, sync n (c :: t) st -> line_terminator_char c = true ->
              match skipn (span comment_char (c :: t)) (c :: t) with
              | [] => sync (n + span comment_char (c :: t)) [] st /\ same_errs st st
              | d :: r => if line_terminator_char d then sync (n + span comment_char (c :: t)) (d :: r) st /\ same_errs st st
                          else more_errs st st
              end).
    { intros n c t st Hs El. assert (Ecc : comment_char c = false) by (unfold comment_char; rewrite El; apply andb_false_r).
      cbn [span]. rewrite Ecc. cbn [skipn]. rewrite El, Nat.add_0_r. split; [exact Hs|reflexivity]. }
    induction fuel as [|f IH]; intros n L st st' Hs H; cbn [consume_comment] in H.
    - destruct L as [|c t].
      + rewrite (sync_done _ _ _ Hs) in H. cbn in H. inversion H; subst. cbn [span skipn]. rewrite Nat.add_0_r.
        split; [exact Hs|reflexivity].
      + sync_facts Hs. rewrite Hnd, Hnext in H. cbn [negb andb] in H.
        destruct (negb (Z.of_N c =? 13) && negb (Z.of_N c =? 10)) eqn:E; [discriminate|].
        inversion H; subst. apply STOP; [exact Hs|]. unfold line_terminator_char. lia.
    - destruct L as [|c t].
      + rewrite (sync_done _ _ _ Hs) in H. cbn in H. inversion H; subst. cbn [span skipn]. rewrite Nat.add_0_r.
        split; [exact Hs|reflexivity].
      + sync_facts Hs. rewrite Hnd, Hnext, Hvalid in H. cbn [negb andb] in H.
        destruct (negb (Z.of_N c =? 13) && negb (Z.of_N c =? 10)) eqn:E.
        * rewrite is_source_character_of_N in H.
          assert (El : line_terminator_char c = false) by (unfold line_terminator_char; lia).
          destruct (source_character c) eqn:Esrc; cbn [negb] in H.
          -- assert (Ecc : comment_char c = true) by (unfold comment_char; rewrite Esrc, El; reflexivity).
             specialize (IH _ _ _ _ Hcons H). cbn [span]. rewrite Ecc. cbn [skipn].
             replace (n + S (span comment_char t))%nat with (S n + span comment_char t)%nat by lia.
             exact IH.
          -- assert (Ecc : comment_char c = false) by (unfold comment_char; rewrite Esrc; reflexivity).
             cbn [span]. rewrite Ecc. cbn [skipn]. rewrite El. unfold more_errs.
             apply consume_comment_errs in H. rewrite consume_rune_errs, errorf_errs_length in H. lia.
        * inversion H; subst. apply STOP; [exact Hs|]. unfold line_terminator_char. lia.
  Qed.
End Classes.
