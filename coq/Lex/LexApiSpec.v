(** * Lex/LexApiSpec.v — C07: what a caller of the scanner's API may rely on, whatever the order
    of its calls.  Written from the canonical use [for s.Scan() { Token() ... }; Errors()] whose
    result is [lex m src = Done ts es]; executable where possible (it is also the oracle of the
    API stream of the harness, run on the implementation's own canonical observation).

    The cursor [j] is the number of Scan() calls issued so far.  The answers of the observers are
    a function of the cursor alone:
      j = 0               no token yet: INVALID, Position (0,0), empty literal and value
      1 <= j <= |ts|      the j-th token of the canonical loop
      j > |ts|            Scan() has returned false (and keeps returning false): INVALID, the
                          position of the end of input, empty literal and value — no panic
    and Errors() answers [E j], a list that starts empty, only grows with the cursor, and is the
    canonical error list [es] from the first Scan() = false on. *)
From Coq Require Import List NArith ZArith Bool.
From ApiFu Require Import Base.Sexp Lex.Utf8 Lex.LexModel Lex.LexApi.
Import ListNotations.
Open Scope Z_scope.

(** the token under the cursor *)
Definition cur (ts : list token) (j : nat) : option token :=
  match j with O => None | S i => nth_error ts i end.

Definition ref_token (ts : list token) (j : nat) : tok :=
  match cur ts j with Some t => t_kind t | None => INVALID end.

Definition ref_position (ts : list token) (endp : Z * Z) (j : nat) : Z * Z :=
  match j with
  | O => (0, 0)
  | S i => match nth_error ts i with Some t => (t_line t, t_col t) | None => endp end
  end.

Definition ref_literal (ts : list token) (j : nat) : bytes :=
  match cur ts j with Some t => t_lit t | None => [] end.

Definition ref_value (ts : list token) (j : nat) : bytes :=
  match cur ts j with Some t => t_value t | None => [] end.

(** the answer [r] to call [c] at cursor [j] (for Scan: [j] counts this call) *)
Definition resp_ok (ts : list token) (endp : Z * Z) (E : nat -> list (Z * Z)) (j : nat) (c : call) (r : resp) : Prop :=
  match c with
  | CScan => r = RBool (j <=? length ts)%nat
  | CToken => r = RTok (ref_token ts j)
  | CPosition => r = RPos (fst (ref_position ts endp j)) (snd (ref_position ts endp j))
  | CLiteral => r = RBytes (ref_literal ts j)
  | CStringValue => r = RBytes (ref_value ts j)
  | CErrors => r = RErrs (E j)
  end.

Definition next_cursor (j : nat) (c : call) : nat := match c with CScan => S j | _ => j end.

(** a whole call sequence, started at cursor [j] *)
Fixpoint trace_ok (ts : list token) (endp : Z * Z) (E : nat -> list (Z * Z)) (j : nat)
  (cs : list call) (rs : list resp) : Prop :=
  match cs, rs with
  | [], [] => True
  | c :: cs', r :: rs' =>
      resp_ok ts endp E (next_cursor j c) c r /\ trace_ok ts endp E (next_cursor j c) cs' rs'
  | _, _ => False
  end.

(** the errors as a function of the cursor *)
Definition errs_by_cursor_ok (ts : list token) (es : list (Z * Z)) (E : nat -> list (Z * Z)) : Prop :=
  E O = [] /\ (forall j, exists l, E (S j) = E j ++ l) /\ (forall j, (length ts < j)%nat -> E j = es).
