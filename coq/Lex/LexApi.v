(** * Lex/LexApi.v — C07: the scanner's public API as a state machine.  No proofs in this file.

    Go (graphql/scanner/scanner.go)                  here
    -----------------------------------------------  -----------------------------------------
    Scanner{src, mode, offset/line/column/errors}    [a_src], [a_mode], [a_st]
    Scanner{token, tokenOffset, tokenPosition,       [a_tok], [a_toff], [a_tline]/[a_tcol],
            tokenLength, tokenStringValue}           [a_tlen], [a_tsv]
    New(src, mode)                                   [api_new]   (the token fields are Go zero values)
    Scan()                                           [api_scan]  (the loop itself is [LexModel.scan])
    Token() Position() Literal() StringValue()       [api_token] [api_position] [api_literal]
    Errors()                                         [api_string_value] [api_errors]

    A caller may issue these calls in ANY order and any number of times ([call], [run]).  Every
    round of Scan's loop assigns token = INVALID, tokenOffset = offset, tokenPosition = (line,
    column) and (since "fix: Literal and StringValue after the last token ...") tokenLength = 0;
    a round that returns a token then assigns token, tokenLength and, for strings,
    tokenStringValue.  So after Scan() = true the fields are those of the returned token, and
    after Scan() = false they are (INVALID, end offset, end position, 0).

    Literal() is [src[tokenOffset : tokenOffset+tokenLength]]: Go panics when the upper bound
    exceeds the capacity of [src]; the harness hands the scanner a slice whose capacity is its
    length, so the panic condition is [tokenOffset + tokenLength > len(src)] ([RPanic]). *)
From Coq Require Import List NArith ZArith Bool.
From ApiFu Require Import Base.Sexp Lex.Utf8 Lex.LexModel.
Import ListNotations.
Open Scope Z_scope.

Record api := mkApi {
  a_src : bytes;
  a_mode : bool;            (* mode & ScanIgnored != 0 *)
  a_st : state;
  a_tok : tok;
  a_toff : Z;
  a_tline : Z;
  a_tcol : Z;
  a_tlen : Z;
  a_tsv : bytes
}.

Definition api_new (m : bool) (src : bytes) : api :=
  {| a_src := src; a_mode := m; a_st := init src;
     a_tok := INVALID; a_toff := 0; a_tline := 0; a_tcol := 0; a_tlen := 0; a_tsv := [] |}.

Inductive call := CScan | CToken | CPosition | CLiteral | CStringValue | CErrors.

Inductive resp :=
| RFuel                         (* the model's Scan loop ran out of fuel (excluded by the theorems) *)
| RBool (b : bool)              (* Scan() *)
| RTok (k : tok)                (* Token() *)
| RPos (line col : Z)           (* Position() *)
| RBytes (b : bytes)            (* Literal(), StringValue() *)
| RPanic                        (* Literal(), StringValue(): slice bounds out of range *)
| RErrs (es : list (Z * Z)).    (* Errors(): (Line, Column) of each *)

(** [Scan]; [reset] is the assignment [s.tokenLength = 0] at the head of every round (true on the
    repaired tree) *)
Definition api_scan_gen (reset : bool) (a : api) : api * resp :=
  match scan (S (fuel_of (a_st a))) (a_mode a) (a_st a) with
  | ScanFuel => (a, RFuel)
  | ScanFalse st' =>
      ({| a_src := a_src a; a_mode := a_mode a; a_st := st';
          a_tok := INVALID; a_toff := s_off st'; a_tline := s_line st'; a_tcol := s_col st';
          a_tlen := if reset then 0 else a_tlen a; a_tsv := a_tsv a |}, RBool false)
  | ScanTrue t st' =>
      ({| a_src := a_src a; a_mode := a_mode a; a_st := st';
          a_tok := t_kind t; a_toff := t_off t; a_tline := t_line t; a_tcol := t_col t;
          a_tlen := t_len t;
          a_tsv := if tok_eqb (t_kind t) STRING_VALUE then t_value t else a_tsv a |}, RBool true)
  end.

Definition api_scan : api -> api * resp := api_scan_gen true.

Definition api_token (a : api) : resp := RTok (a_tok a).
Definition api_position (a : api) : resp := RPos (a_tline a) (a_tcol a).

Definition api_literal (a : api) : resp :=
  if a_toff a + a_tlen a <=? Z.of_nat (length (a_src a))
  then RBytes (firstn (Z.to_nat (a_tlen a)) (skipn (Z.to_nat (a_toff a)) (a_src a)))
  else RPanic.

Definition api_string_value (a : api) : resp :=
  if tok_eqb (a_tok a) STRING_VALUE then RBytes (a_tsv a) else api_literal a.

Definition api_errors (a : api) : resp := RErrs (s_errs (a_st a)).

Definition api_step_gen (reset : bool) (a : api) (c : call) : api * resp :=
  match c with
  | CScan => api_scan_gen reset a
  | CToken => (a, api_token a)
  | CPosition => (a, api_position a)
  | CLiteral => (a, api_literal a)
  | CStringValue => (a, api_string_value a)
  | CErrors => (a, api_errors a)
  end.

Fixpoint run_gen (reset : bool) (cs : list call) (a : api) : list resp :=
  match cs with
  | [] => []
  | c :: cs' => let (a', r) := api_step_gen reset a c in r :: run_gen reset cs' a'
  end.

(** the responses to the calls [cs] issued on a fresh scanner *)
Definition run (m : bool) (src : bytes) (cs : list call) : list resp := run_gen true cs (api_new m src).

(** before the repair (witness only) *)
Definition run_before_fix (m : bool) (src : bytes) (cs : list call) : list resp :=
  run_gen false cs (api_new m src).
