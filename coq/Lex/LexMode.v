(** * Lex/LexMode.v — C07: the two scanner modes.  For EVERY byte string, scanning with mode 0
    yields exactly the non-ignored tokens of the ScanIgnored scan, and the same errors. *)
From Coq Require Import List NArith ZArith Bool Lia ZifyBool ZifyNat ZifyN.
From ApiFu Require Import Base.Sexp Lex.ListAux Lex.Utf8 Lex.LexModel Lex.LexProgress.
Import ListNotations.
Open Scope Z_scope.

Lemma scan_switch_shrinks st k sv st1 : is_done st = false -> scan_switch st = Some (k, sv, st1) ->
  (length (s_rest st1) < length (s_rest st))%nat.
Proof.
  intros Hd H. destruct (scan_switch_ok st Hd) as (k' & sv' & st' & H' & S1 & _).
  rewrite H in H'. inversion H'; subst. pose proof (steps_length _ _ _ S1). lia.
Qed.

(** [scan] does not depend on its fuel once there is enough of it *)
Lemma scan_fuel m : forall f1 f2 st, (length (s_rest st) < f1)%nat -> (length (s_rest st) < f2)%nat ->
  scan f1 m st = scan f2 m st.
Proof.
  induction f1 as [|a IH]; intros f2 st H1 H2; [lia|]. destruct f2 as [|b]; [lia|].
  cbn [scan]. destruct (is_done st) eqn:Hd; [reflexivity|].
  destruct (scan_switch st) as [[[k sv] st1]|] eqn:Hsw; [|reflexivity].
  pose proof (scan_switch_shrinks _ _ _ _ Hd Hsw) as Hl.
  destruct (tok_eqb k INVALID || is_ignored k && negb m); [|reflexivity].
  apply IH; lia.
Qed.

(** what [scan] returns leaves less input *)
Lemma scan_true_shrinks m f st t st' : (length (s_rest st) < f)%nat -> scan f m st = ScanTrue t st' ->
  (length (s_rest st') < length (s_rest st))%nat.
Proof.
  intros Hf H. destruct (scan_ok m f st Hf) as [(x & H1 & _)|(t0 & st0 & x & H1 & [K1 _] & T1)]; rewrite H in H1; [discriminate|].
  inversion H1; subst. pose proof (steps_length _ _ _ K1). pose proof (steps_length _ _ _ (ta_steps _ _ _ T1)). lia.
Qed.

Lemma scan_false_not_fuel m f st : (length (s_rest st) < f)%nat -> scan f m st <> ScanFuel.
Proof.
  intros Hf. destruct (scan_ok m f st Hf) as [(x & H1 & _)|(t0 & st0 & x & H1 & _)]; rewrite H1; discriminate.
Qed.

Lemma scan_true_kind f st t st' : scan f true st = ScanTrue t st' -> tok_eqb (t_kind t) INVALID = false.
Proof.
  revert st. induction f as [|f IH]; intros st H; cbn [scan] in H.
  - destruct (is_done st); discriminate.
  - destruct (is_done st); [discriminate|]. destruct (scan_switch st) as [[[k sv] st1]|]; [|discriminate].
    destruct (tok_eqb k INVALID || is_ignored k && negb true) eqn:E; [eapply IH; exact H|].
    inversion H; subst. cbn [t_kind]. apply orb_false_iff in E. tauto.
Qed.

Lemma scan_S f m st : scan (S f) m st =
  if is_done st then ScanFalse st
  else match scan_switch st with
       | None => ScanFuel
       | Some (k, sv, st') =>
           if tok_eqb k INVALID || (is_ignored k && negb m) then scan f m st'
           else ScanTrue (mk_token st k sv st') st'
       end.
Proof. reflexivity. Qed.

(** mode 0 is ScanIgnored mode with the ignored tokens skipped *)
Lemma scan_false_true : forall f st, (length (s_rest st) < f)%nat ->
  scan f false st =
    match scan f true st with
    | ScanFuel => ScanFuel
    | ScanFalse st' => ScanFalse st'
    | ScanTrue t st' => if is_ignored (t_kind t) then scan f false st' else ScanTrue t st'
    end.
Proof.
  induction f as [|f IH]; intros st Hf; [lia|].
  rewrite (scan_S f false st), (scan_S f true st). destruct (is_done st) eqn:Hd; [reflexivity|].
  destruct (scan_switch st) as [[[k sv] st1]|] eqn:Hsw; [|reflexivity].
  pose proof (scan_switch_shrinks _ _ _ _ Hd Hsw) as Hl.
  destruct (tok_eqb k INVALID) eqn:Ek; cbn [orb negb].
  - rewrite (IH st1) by lia.
    destruct (scan f true st1) as [|x|t x] eqn:E1; try reflexivity.
    destruct (is_ignored (t_kind t)); [|reflexivity].
    pose proof (scan_true_shrinks true f st1 t x ltac:(lia) E1). apply scan_fuel; lia.
  - rewrite andb_false_r, andb_true_r. cbn [t_kind mk_token].
    destruct (is_ignored k); [|reflexivity]. apply scan_fuel; lia.
Qed.

(** [scan_all] does not depend on its fuel either *)
Lemma scan_all_fuel m : forall f1 f2 st, (length (s_rest st) < f1)%nat -> (length (s_rest st) < f2)%nat ->
  scan_all f1 m st = scan_all f2 m st.
Proof.
  induction f1 as [|a IH]; intros f2 st H1 H2; [lia|]. destruct f2 as [|b]; [lia|].
  cbn [scan_all]. destruct (scan (S (fuel_of st)) m st) as [|x|t x] eqn:E; try reflexivity.
  assert (HF : (length (s_rest st) < S (fuel_of st))%nat) by (unfold fuel_of; lia).
  pose proof (scan_true_shrinks m _ st t x HF E).
  rewrite (IH b x) by lia. reflexivity.
Qed.

Definition significant_tokens (ts : list token) : list token :=
  filter (fun t => negb (is_ignored (t_kind t))) ts.

Lemma scan_all_false : forall f st ts es, (length (s_rest st) < f)%nat ->
  scan_all f true st = Done ts es -> scan_all f false st = Done (significant_tokens ts) es.
Proof.
  induction f as [|f IH]; intros st ts es Hf H; [lia|].
  cbn [scan_all] in *.
  rewrite (scan_false_true (S (fuel_of st)) st) by (unfold fuel_of; lia).
  destruct (scan (S (fuel_of st)) true st) as [|x|t x] eqn:E; try discriminate.
  - inversion H; subst. reflexivity.
  - assert (HF : (length (s_rest st) < S (fuel_of st))%nat) by (unfold fuel_of; lia).
    pose proof (scan_true_shrinks true _ st t x HF E) as Hl.
    destruct (scan_all f true x) as [|ts' es'] eqn:E2; [discriminate|]. inversion H; subst ts es'.
    pose proof (IH x ts' es ltac:(lia) E2) as IH2.
    unfold significant_tokens. cbn [filter]. fold (significant_tokens ts').
    destruct (is_ignored (t_kind t)); cbn [negb].
    + (* an ignored token: mode 0 goes on scanning from [x] *)
      rewrite (scan_fuel false (S (fuel_of st)) (S (fuel_of x)) x) by (unfold fuel_of; lia).
      change (match scan (S (fuel_of x)) false x with
              | ScanFuel => OutOfFuel
              | ScanFalse st' => Done [] (s_errs st')
              | ScanTrue t0 st' => match scan_all f false st' with
                                   | OutOfFuel => OutOfFuel
                                   | Done ts0 es0 => Done (t0 :: ts0) es0
                                   end
              end) with (scan_all (S f) false x).
      rewrite (scan_all_fuel false (S f) f x) by lia. exact IH2.
    + rewrite IH2. reflexivity.
Qed.

(** for every byte string: mode 0 yields the non-ignored tokens of the ScanIgnored scan, in
    order, with the same extents, positions and values, and the same errors *)
Theorem lex_mode : forall bs ts es, lex true bs = Done ts es ->
  lex false bs = Done (significant_tokens ts) es.
Proof. intros bs ts es H. unfold lex in *. apply scan_all_false; [cbn [init s_rest]; lia|exact H]. Qed.
