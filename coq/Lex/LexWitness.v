(** * Lex/LexWitness.v — C07: witnesses.  The two known classes are really outside the refinement
    (so the exclusion hypotheses of [lex_refines_spec] are needed), and the repaired defects were
    real violations of the statements proved of the repaired model. *)
From Coq Require Import List NArith ZArith Bool.
From ApiFu Require Import Base.Sexp Lex.Utf8 Lex.LexModel Lex.LexSpec Lex.LexRel.
Import ListNotations.

(** "1e": the grammar reads Int 1, Name e; the scanner an erroneous Float *)
Definition w_dangling : bytes := [49; 101]%N.
Theorem refines_refuted_dangling_exponent :
  exists bs cps stoks, utf8_decode bs = Some cps /\ spec_lex cps = (stoks, EndOk) /\
    excl_dangling_exponent cps stoks = true /\ excl_inner_bom stoks = false /\
    lex true bs <> Done (map token_of_stoken stoks) [].
Proof.
  exists w_dangling. eexists. eexists. split; [vm_compute; reflexivity|]. split; [vm_compute; reflexivity|].
  split; [vm_compute; reflexivity|]. split; [vm_compute; reflexivity|]. vm_compute. discriminate.
Qed.

(** "a" U+FEFF: the grammar reads Name a, UnicodeBOM (ignored); the scanner reports an error *)
Definition w_inner_bom : bytes := [97; 239; 187; 191]%N.
Theorem refines_refuted_inner_bom :
  exists bs cps stoks, utf8_decode bs = Some cps /\ spec_lex cps = (stoks, EndOk) /\
    excl_dangling_exponent cps stoks = false /\ excl_inner_bom stoks = true /\
    lex true bs <> Done (map token_of_stoken stoks) [].
Proof.
  exists w_inner_bom. eexists. eexists. split; [vm_compute; reflexivity|]. split; [vm_compute; reflexivity|].
  split; [vm_compute; reflexivity|]. split; [vm_compute; reflexivity|]. vm_compute. discriminate.
Qed.

(** before "fix: scanner split a literal U+FFFD ...": readNextRune gave a correctly encoded U+FFFD
    the width 1 (so [Utf8Proofs.read_next_rune_encode] was false of it) *)
Theorem read_next_rune_refuted_before_fix :
  exists (c : cp) (rest : bytes), scalar_value c = true /\
    read_next_rune_before_fix (utf8_encode c ++ rest) <> (Z.of_N c, length (utf8_encode c)).
Proof. exists 65533%N, []. split; [reflexivity|]. vm_compute. discriminate. Qed.
