(** * Pipe/Corollaries.v — C03: the round-1 glue theorems (graphql.go over stage verdicts), now with the
    stage verdicts being the OUTPUTS OF THE COMPOSED STAGES, so that their "no stage crashed"
    premises are theorems; graphql.Subscribe with the per-event execution; and
    [C03_pipeline_response] under a bound on the length of the text.

    [parse_verdict], [validate_verdict], [exec_verdict], [subscribe_verdict]: what the glue model
    (PipelineModel.v) takes as inputs, computed by the composed stage models from the bytes.
    [glue_is_composed]: the glue model on these verdicts IS the composed model's outcome, seen
    through [glue_of] (number of errors, data present / null). *)
From Coq Require Import List NArith ZArith Bool Lia.
From ApiFu Require Import Base.Sexp.
From ApiFu Require Syn.Ast Syn.ParserModel Syn.FrontEnd Syn.FrontEndProofs Vld.Ast Vld.ValidatorModel Vld.ProofsCommon.
From ApiFu Require Val.Values ExeA.ArgData ExeA.ArgArgs ExeA.ArgModel ExeA.ArgSpec ExeA.ArgHyps.
From ApiFu Require Import Pipe.PipelineModel Pipe.PipelineProofs Pipe.Convert Pipe.Compose Pipe.SchemaAgree Pipe.ComposeProofs
     Pipe.CostCompose Pipe.InvariantProofs Pipe.InvariantBridge Pipe.SubscribeCompose Pipe.SubscribeProofs Pipe.TextBound.
Import ListNotations.

(** ** the composed stages as stage verdicts *)
Definition parse_verdict (bs : bytes) : parse_out :=
  match Syn.FrontEnd.parse_document_bytes bs with
  | Syn.ParserModel.Out _ (e :: es) => Returned (S (length es))
  | Syn.ParserModel.Out (Some _) [] => Returned O
  | _ => Crashed
  end.

Definition validate_verdict pi VS F (bs : bytes) : validate_out :=
  match Syn.FrontEnd.parse_document_bytes bs with
  | Syn.ParserModel.Out (Some d) [] =>
      match validate_doc pi VS F d with
      | Vld.Ast.Done errs => Returned (length errs)
      | _ => Crashed
      end
  | _ => Returned O                        (* not called *)
  end.

Definition exec_verdict pi VS F ES (bs : bytes) opname raw W : exec_out :=
  match parse_and_validate_order pi VS F bs with
  | FAccepted d =>
      match execute_doc ES d opname raw W with
      | PExecuted data errs => Returned (match data with None => true | Some _ => false end, length errs)
      | _ => Crashed
      end
  | _ => Returned (true, 1%nat)            (* not called *)
  end.

Definition glue_of (r : presult) : outcome :=
  match r with
  | PSyntax e es => Resp {| has_data := false; data_null := true; nerrors := S (length es) |}
  | PInvalid e es => Resp {| has_data := false; data_null := true; nerrors := S (length es) |}
  | PExecuted data errs => Resp {| has_data := true; data_null := match data with None => true | Some _ => false end;
                                   nerrors := length errs |}
  | _ => Crash
  end.

Lemma of_run_not_front r : match of_run r with PSyntax _ _ | PInvalid _ _ => False | _ => True end.
Proof. destruct r; exact I. Qed.

Lemma execute_doc_not_front ES d opname raw W :
  match execute_doc ES d opname raw W with PSyntax _ _ | PInvalid _ _ => False | _ => True end.
Proof.
  unfold execute_doc.
  destruct (ExeA.ArgModel.get_operation (exe_of_syn d) opname); try apply of_run_not_front.
  destruct (ExeA.ArgModel.coerce_request_vars ES _ raw); try apply of_run_not_front; try exact I.
  cbv zeta. destruct (negb (ExeA.ArgHyps.doc_positions_okb _)); [exact I|].
  destruct (negb (ExeA.ArgSpec.doc_ok_nodirs _ _ _ _ _)); [exact I|]. apply of_run_not_front.
Qed.

Theorem glue_is_composed pi VS F ES bs opname raw W :
  execute (parse_verdict bs) (validate_verdict pi VS F bs) (exec_verdict pi VS F ES bs opname raw W)
  = glue_of (pipeline_order pi VS F ES bs opname raw W).
Proof.
  unfold parse_verdict, validate_verdict, exec_verdict, pipeline_order, parse_and_validate_order.
  destruct (Syn.FrontEnd.parse_document_bytes bs) as [[d|] [|e es]|]; try reflexivity.
  destruct (validate_doc pi VS F d) as [[|e es]| |]; try reflexivity.
  cbn [length execute parse_and_validate]. pose proof (execute_doc_not_front ES d opname raw W) as Hnf.
  destruct (execute_doc ES d opname raw W); try reflexivity; contradiction.
Qed.

(** ** graphql.Execute: total, data or errors, parse errors alone — no premise about the stages *)
Section AnyOrder.
  Variable pi : Vld.ValidatorModel.order.
  Hypothesis Hpi : Vld.ProofsCommon.order_ok pi.

  (** every request whose text is shorter than 2^24 - 1 bytes gets a response *)
  Theorem pipeline_response_short VS F ES bs opname raw W :
    schema_accepted ES = true -> cost_schema_accepted ES = true -> schemas_agree VS ES = true ->
    es_wf ES = true -> vschema_wf VS = true -> text_short bs ->
    is_response (pipeline_order pi VS F ES bs opname raw W) = true.
  Proof.
    intros Hn Hs Ha Hwf Hvs Hshort.
    apply (pipeline_response pi VS F ES bs opname raw W Hpi Hn Hs Ha Hwf Hvs). apply short_text_positions_small. exact Hshort.
  Qed.

  Theorem execute_total_composed VS F ES bs opname raw W :
    schema_accepted ES = true -> cost_schema_accepted ES = true -> schemas_agree VS ES = true ->
    es_wf ES = true -> vschema_wf VS = true -> text_short bs ->
    exists r, execute (parse_verdict bs) (validate_verdict pi VS F bs) (exec_verdict pi VS F ES bs opname raw W) = Resp r.
  Proof.
    intros Hn Hs Ha Hwf Hvs Hshort. rewrite glue_is_composed.
    pose proof (pipeline_response_short VS F ES bs opname raw W Hn Hs Ha Hwf Hvs Hshort) as H.
    destruct (pipeline_order pi VS F ES bs opname raw W); try discriminate; eexists; reflexivity.
  Qed.

  (** whatever the glue returns as a response has data or errors: the executor's contract "nil data
      only together with an error" is a theorem about the composed executor stage *)
  Theorem execute_data_or_errors_composed VS F ES bs opname raw W r :
    schema_accepted ES = true ->
    execute (parse_verdict bs) (validate_verdict pi VS F bs) (exec_verdict pi VS F ES bs opname raw W) = Resp r ->
    data_or_errors r = true.
  Proof.
    intros Hn. rewrite glue_is_composed. intro H.
    destruct (pipeline_cases pi Hpi VS F ES bs opname raw W Hn) as [(_ & Hd & _)|Hb].
    - destruct (pipeline_order pi VS F ES bs opname raw W) as [e es|e es|[j|] errs| | |]; try discriminate;
        cbn [glue_of] in H; inversion H; subst r; try reflexivity.
      cbn [data_or_errors_p] in Hd. destruct errs; [discriminate|reflexivity].
    - destruct (pipeline_order pi VS F ES bs opname raw W); try discriminate.
  Qed.

  (** syntax errors are returned alone: whatever the schemas, the operation name, the variables
      and the resolvers, a text with syntax errors yields exactly these errors and no data *)
  Theorem parse_errors_alone_composed VS F ES bs opname raw W tree e es :
    Syn.FrontEnd.parse_document_bytes bs = Syn.ParserModel.Out tree (e :: es) ->
    pipeline_order pi VS F ES bs opname raw W = PSyntax e es /\
    execute (parse_verdict bs) (validate_verdict pi VS F bs) (exec_verdict pi VS F ES bs opname raw W)
    = Resp {| has_data := false; data_null := true; nerrors := S (length es) |}.
  Proof.
    intro Hp. assert (H : pipeline_order pi VS F ES bs opname raw W = PSyntax e es).
    { unfold pipeline_order, parse_and_validate_order. rewrite Hp. destruct tree; reflexivity. }
    split; [exact H|]. rewrite glue_is_composed, H. reflexivity.
  Qed.

  (** ** graphql.Subscribe with the per-event execution.
      graphql.Subscribe answers syntax errors / validation errors / one error, or hands the source
      resolver's value to the application; for every event of the source stream the application
      runs graphql.Execute on the same request with the event as InitialValue (executor.go:
      ExecuteRequest of a subscription operation = executeSubscriptionEvent, the query mode on the
      subscription root type): [pipeline_order] with the event as root value.  The events are
      the application's: any list of outcomes. *)
  Inductive subp_result :=
  | SPRefused (r : sub_result)
  | SPStream (source : ExeA.ArgData.outcome) (responses : list presult).

  Definition subscribe_pipeline VS F ES bs opname raw (W : ExeA.ArgData.outcome) (events : list ExeA.ArgData.outcome) : subp_result :=
    match subscribe_order pi VS F ES bs opname raw W with
    | SubSource w => SPStream w (map (fun ev => pipeline_order pi VS F ES bs opname raw ev) events)
    | r => SPRefused r
    end.

  Definition event_ok (r : presult) : bool := is_response r && data_or_errors_p r && serialisable_p r.

  Theorem subscribe_pipeline_total VS F ES bs opname raw W events :
    schema_accepted ES = true -> cost_schema_accepted ES = true -> schemas_agree VS ES = true ->
    es_wf ES = true -> vschema_wf VS = true -> text_short bs ->
    match subscribe_pipeline VS F ES bs opname raw W events with
    | SPRefused (SubSyntax _ _) | SPRefused (SubInvalid _ _) | SPRefused (SubError _) => True
    | SPRefused _ => False
    | SPStream _ rs => length rs = length events /\ forallb event_ok rs = true
    end.
  Proof.
    intros Hn Hs Ha Hwf Hvs Hshort. unfold subscribe_pipeline.
    pose proof (subscribe_never_crashes pi VS F ES bs opname raw W Hpi Hn Hs Ha) as Hsub.
    destruct (subscribe_order pi VS F ES bs opname raw W); try exact I; try contradiction.
    split; [apply map_length|]. apply forallb_forall. intros r Hr. apply in_map_iff in Hr as (ev & <- & _).
    unfold event_ok.
    pose proof (pipeline_response_short VS F ES bs opname raw ev Hn Hs Ha Hwf Hvs Hshort) as H1.
    destruct (pipeline_cases pi Hpi VS F ES bs opname raw ev Hn) as [(_ & H2 & H3)|Hb].
    - rewrite H1, H2, H3. reflexivity.
    - destruct (pipeline_order pi VS F ES bs opname raw ev); discriminate.
  Qed.

  (** the glue model of graphql.Subscribe on the composed stages *)
  Definition subscribe_verdict VS F ES (bs : bytes) opname raw W : subscribe_out :=
    match subscribe_order pi VS F ES bs opname raw W with
    | SubError _ => Returned true
    | SubSource _ => Returned false
    | SubSyntax _ _ | SubInvalid _ _ => Returned true          (* not called *)
    | _ => Crashed
    end.

  Definition glue_of_sub (r : sub_result) : outcome :=
    match r with
    | SubSyntax e es => Resp {| has_data := false; data_null := true; nerrors := S (length es) |}
    | SubInvalid e es => Resp {| has_data := false; data_null := true; nerrors := S (length es) |}
    | SubError _ => Resp {| has_data := false; data_null := true; nerrors := 1 |}
    | SubSource _ => Resp {| has_data := true; data_null := false; nerrors := 0 |}
    | _ => Crash
    end.

  Lemma subscribe_doc_not_front ES d opname raw W :
    match subscribe_doc ES d opname raw W with SubSyntax _ _ | SubInvalid _ _ => False | _ => True end.
  Proof.
    unfold subscribe_doc, subscribe_op. cbv zeta.
    repeat match goal with
           | |- match (match ?x with _ => _ end) with _ => _ end => destruct x; try exact I
           end.
  Qed.

  Theorem subscribe_glue_is_composed VS F ES bs opname raw W :
    subscribe (parse_verdict bs) (validate_verdict pi VS F bs) (subscribe_verdict VS F ES bs opname raw W)
    = glue_of_sub (subscribe_order pi VS F ES bs opname raw W).
  Proof.
    unfold parse_verdict, validate_verdict, subscribe_verdict, subscribe_order, parse_and_validate_order.
    destruct (Syn.FrontEnd.parse_document_bytes bs) as [[d|] [|e es]|]; try reflexivity.
    destruct (validate_doc pi VS F d) as [[|e es]| |]; try reflexivity.
    cbn [length subscribe parse_and_validate]. pose proof (subscribe_doc_not_front ES d opname raw W) as Hnf.
    destruct (subscribe_doc ES d opname raw W); try reflexivity; contradiction.
  Qed.

  Theorem subscribe_total_composed VS F ES bs opname raw W :
    schema_accepted ES = true -> cost_schema_accepted ES = true -> schemas_agree VS ES = true ->
    exists r, subscribe (parse_verdict bs) (validate_verdict pi VS F bs) (subscribe_verdict VS F ES bs opname raw W) = Resp r /\
              data_or_errors r = true.
  Proof.
    intros Hn Hs Ha. rewrite subscribe_glue_is_composed.
    pose proof (subscribe_never_crashes pi VS F ES bs opname raw W Hpi Hn Hs Ha) as Hsub.
    destruct (subscribe_order pi VS F ES bs opname raw W); try contradiction; eexists; split; reflexivity.
  Qed.
End AnyOrder.

(** ** what stays outside the composition: requests whose stages are only OBSERVED
    (API.ServeGraphQL: the HTTP layer in front of the same stages; the hostile schema's scalars whose
    literal coercion depends on the value).  For these the check applies the glue model to the
    verdicts of the separately called stages; the glue theorems of round 1, for ARBITRARY verdicts: *)
Theorem observed_stages_total :
  (forall p v e, no_crash p -> no_crash v -> no_crash e -> exists r, execute p v e = Resp r) /\
  (forall p v s, no_crash p -> no_crash v -> no_crash s -> exists r, subscribe p v s = Resp r).
Proof. split; [exact execute_total|exact subscribe_total]. Qed.

Theorem observed_stages_data_or_errors :
  (forall p v e r, exec_contract e -> execute p v e = Resp r -> data_or_errors r = true) /\
  (forall p v s r, subscribe p v s = Resp r -> data_or_errors r = true).
Proof. split; [exact execute_data_or_errors|exact subscribe_data_or_errors]. Qed.
