(** * Pipe/TypingProofs.v — C03: conjunct (c) of C01's [doc_ok] list, proved for accepted texts: the
    root type of the selected operation exists in the executor's schema (from C04's valid_root:
    accepted_operations_hold, across the conversions and [schemas_agree]).  With (a) (CondsProofs.v)
    this reduces the open obligation [validate accepted => doc_ok] to [sels_ok] alone: conjuncts
    (d) - (i) of the list in the header of Properties/C01.v. *)
From Coq Require Import List NArith ZArith Bool Lia.
From ApiFu Require Import Base.Sexp.
From ApiFu Require Syn.Ast Syn.ParserModel Syn.FrontEnd.
From ApiFu Require Vld.Ast Vld.ValidatorModel Vld.ValidSpec Vld.ProofsCommon Vld.ValidatorProofs Vld.MemoEquiv.
From ApiFu Require Val.Values ExeA.ArgData ExeA.ArgArgs ExeA.ArgModel ExeA.ArgSpec ExeA.ArgHyps.
From ApiFu Require Val.CoerceModel Val.CoerceTotal.
From ApiFu Require Import Pipe.Convert Pipe.Compose Pipe.SchemaAgree Pipe.PositionsProofs Pipe.FieldPositions Pipe.ComposeProofs Pipe.CondsProofs.
From ApiFu Require Pipe.CostCompose Pipe.CostComposeProofs.
Import ListNotations.

Lemma selected_operation_kind d opname o :
  ExeA.ArgModel.get_operation (exe_of_syn d) opname = ExeA.ArgModel.GOp o ->
  exists ot n vars dirs sub,
    In (Syn.Ast.DOp ot n vars dirs sub) d /\ ExeA.ArgData.o_kind o = e_kind ot /\ ExeA.ArgData.o_sels o = e_ss sub.
Proof.
  unfold ExeA.ArgModel.get_operation. intro H. apply get_operation_loop_in in H.
  destruct H as [H|H]; [|discriminate].
  cbn [exe_of_syn ExeA.ArgData.r_ops] in H. unfold e_ops in H. apply in_flat_map in H.
  destruct H as (x & Hx & Ho). destruct x as [ot n vars dirs sub|kw n cond dirs sub]; [|destruct Ho].
  destruct Ho as [Ho|[]]. exists ot, n, vars, dirs, sub. subst o. auto.
Qed.

Lemma kw_mutation : Syn.Ast.b_mutation = Vld.ValidSpec.s_mutation_kw. Proof. reflexivity. Qed.
Lemma kw_subscription : Syn.Ast.b_subscription = Vld.ValidSpec.s_subscription_kw. Proof. reflexivity. Qed.

Lemma opt_names_agree_some a b x : opt_names_agree a b = true -> a = Some x -> exists y, b = Some y.
Proof. destruct a, b; cbn; try discriminate; intros _ _; eauto. Qed.

(** the operation kind the executor derives from the keyword has a root type whenever the
    validator's [root_type] of the same keyword exists *)
Lemma root_type_agrees VS ES ot rt :
  schemas_agree VS ES = true ->
  Vld.ValidSpec.root_type VS (option_map (fun o => (Syn.Ast.ot_value o, vpos (Syn.Ast.ot_pos o))) ot) = Some rt ->
  exists rt', ExeA.ArgSpec.s_root_type ES (e_kind ot) = Some rt'.
Proof.
  intros Ha Hr. unfold schemas_agree in Ha. apply andb_true_iff in Ha as [Ha _].
  apply andb_true_iff in Ha as [Ha Hsub]. apply andb_true_iff in Ha as [Ha Hmut]. clear Ha.
  destruct ot as [o|]; [|eexists; reflexivity].
  cbn [option_map Vld.ValidSpec.root_type] in Hr. unfold e_kind.
  destruct (bytes_eqb (Syn.Ast.ot_value o) Syn.Ast.b_mutation) eqn:Em.
  - apply bytes_eqb_eq in Em. rewrite Em, kw_mutation in Hr. cbn in Hr.
    cbn [ExeA.ArgSpec.s_root_type]. exact (opt_names_agree_some _ _ _ Hmut Hr).
  - destruct (bytes_eqb (Syn.Ast.ot_value o) Syn.Ast.b_subscription) eqn:Es.
    + apply bytes_eqb_eq in Es. rewrite Es, kw_subscription in Hr. cbn in Hr.
      cbn [ExeA.ArgSpec.s_root_type]. exact (opt_names_agree_some _ _ _ Hsub Hr).
    + eexists; reflexivity.
Qed.

Theorem accepted_root_type pi VS F ES bs d opname o vv :
  Vld.ProofsCommon.order_ok pi -> schemas_agree VS ES = true ->
  parse_and_validate_order pi VS F bs = FAccepted d ->
  ExeA.ArgModel.get_operation (exe_of_syn d) opname = ExeA.ArgModel.GOp o ->
  exists rt, ExeA.ArgSpec.s_root_type ES (ExeA.ArgData.op_kind (ExeA.ArgData.doc_of (exe_of_syn d) o vv)) = Some rt.
Proof.
  intros Hpi Ha Hacc Hg.
  destruct (front_cases pi Hpi VS F bs) as [(e & es & t & H & _)|[(d' & e & es & H & _)|(d' & H & Hp & Hv)]];
    rewrite Hacc in H; try discriminate. inversion H; subst d'. clear H.
  unfold validate_doc in Hv.
  apply (Vld.MemoEquiv.validate_memo_iff_parsed pi VS F (vld_of_syn d) Hpi (parsed_field_positions_distinct bs d [] Hp)) in Hv.
  destruct (Vld.ValidatorProofs.accepted_operations_hold pi VS F (vld_of_syn d) Hv) as (_ & _ & Hroot).
  destruct (selected_operation_kind d opname o Hg) as (ot & n & vars & dirs & sub & Hin & Hk & _).
  unfold Vld.ValidSpec.valid_root in Hroot. rewrite forallb_forall in Hroot.
  specialize (Hroot (v_def (Syn.Ast.DOp ot n vars dirs sub)) (in_map v_def _ _ Hin)).
  cbn [v_def] in Hroot. cbn [ExeA.ArgData.doc_of ExeA.ArgData.op_kind]. rewrite Hk.
  destruct (Vld.ValidSpec.root_type VS (option_map (fun o0 => (Syn.Ast.ot_value o0, vpos (Syn.Ast.ot_pos o0))) ot)) as [rt|] eqn:Er;
    [|discriminate].
  exact (root_type_agrees VS ES ot rt Ha Er).
Qed.

(** ** the open obligation, reduced to [sels_ok]: conjuncts (d) - (i) *)
Definition validate_establishes_sels_ok pi VS F ES : Prop :=
  forall bs d opname o vv rt,
    parse_and_validate_order pi VS F bs = FAccepted d ->
    ExeA.ArgModel.get_operation (exe_of_syn d) opname = ExeA.ArgModel.GOp o ->
    let D := ExeA.ArgData.doc_of (exe_of_syn d) o vv in
    let E := ExeA.ArgArgs.env_of_vars vv in
    ExeA.ArgSpec.s_root_type ES (ExeA.ArgData.op_kind D) = Some rt ->
    ExeA.ArgSpec.sels_ok ES D E (ExeA.ArgModel.default_fuel D) (ExeA.ArgModel.default_fuel D) rt (ExeA.ArgData.op_sels D) = true.

Theorem typing_from_sels_ok pi VS F ES :
  Vld.ProofsCommon.order_ok pi -> schemas_agree VS ES = true ->
  validate_establishes_sels_ok pi VS F ES -> validate_establishes_typing pi VS F ES.
Proof.
  intros Hpi Ha Hs bs d opname o vv Hacc Hg D E. subst D E. unfold doc_typed.
  destruct (accepted_root_type pi VS F ES bs d opname o vv Hpi Ha Hacc Hg) as (rt & Hr). rewrite Hr.
  exact (Hs bs d opname o vv rt Hacc Hg Hr).
Qed.

Theorem pipeline_response_if_sels_ok pi VS F ES bs opname raw W :
  Vld.ProofsCommon.order_ok pi ->
  schema_accepted ES = true -> schemas_agree VS ES = true ->
  validate_establishes_sels_ok pi VS F ES -> text_positions_small bs ->
  is_response (pipeline_order pi VS F ES bs opname raw W) = true.
Proof.
  intros Hpi Hn Ha Hs Hp.
  apply (pipeline_response_if_typing pi VS F ES bs opname raw W Hpi Hn Ha); try assumption.
  apply typing_from_sels_ok; assumption.
Qed.

Theorem doc_ok_from_sels_ok pi VS F ES :
  Vld.ProofsCommon.order_ok pi -> schemas_agree VS ES = true ->
  validate_establishes_sels_ok pi VS F ES -> validate_establishes_doc_ok pi VS F ES.
Proof. intros Hpi Ha Hs. apply doc_ok_from_typing; [assumption|assumption|]. apply typing_from_sels_ok; assumption. Qed.

(** conjunct (g), [args_total]: coercing a field node's arguments never hits the "unsupported type"
    panic of the coercion code, for every document, field and object type — given closed input and
    argument types (C05's argument_values_no_panic) *)
Theorem args_total_closed ES D ot f :
  Pipe.CostCompose.cost_schema_accepted ES = true -> ExeA.ArgSpec.args_total ES D ot f = true.
Proof.
  intro Hs. apply andb_true_iff in Hs as [HC Hcl]. unfold ExeA.ArgSpec.args_total, ExeA.ArgArgs.coerce_field_args.
  destruct (Val.CoerceModel.coerce_argument_values Val.CoerceModel.all_fixed (ExeA.ArgData.s_inputs ES) (ExeA.ArgArgs.dt_oracle ES)
              (ExeA.ArgArgs.argdefs_of ES ot (ExeA.ArgData.fn_name f)) (ExeA.ArgArgs.args_of D f) (ExeA.ArgData.d_vars D)) eqn:Ec;
    try reflexivity.
  exfalso. refine (Val.CoerceTotal.argument_values_no_panic _ _ HC _ _ _ _ _ Ec).
  intros ad Hin. exact (Pipe.CostComposeProofs.argdefs_of_closed ES ot _ ad Hcl Hin).
Qed.
