(** * Pipe/ComposeProofs.v — C03: the composed model (Pipe/Compose.v) never panics and never runs
    out of fuel, by chaining the stage theorems of C06 (parser from bytes, on the scanner model of
    C07), C04 (validator) and C01 (executor); its response carries data or errors and its data is
    serialisable. *)
From Coq Require Import List NArith ZArith Bool Lia.
From ApiFu Require Import Base.Sexp.
From ApiFu Require Syn.Ast Syn.ParserModel Syn.FrontEnd Syn.FrontEndProofs.
From ApiFu Require Vld.Ast Vld.ValidatorModel Vld.ProofsCommon Vld.ProofsTotal Vld.ValidatorProofs Vld.ProofsMemo Vld.MemoEquiv.
From ApiFu Require Val.Values Val.CoerceSpec Val.CoerceTotal ExeA.ArgData ExeA.ArgArgs ExeA.ArgModel ExeA.ArgSpec ExeA.ArgHyps ExeA.ArgProofs.
From ApiFu Require Import Pipe.Convert Pipe.Compose Pipe.PositionsProofs Pipe.FieldPositions.
Import ListNotations.

(** ** the front half: graphql.ParseAndValidate from bytes *)
Definition front_settled (r : front_result) : Prop :=
  match r with FPanic _ | FOutOfFuel _ => False | _ => True end.

Section AnyOrder.
Variable pi : Vld.ValidatorModel.order.
Hypothesis Hpi : Vld.ProofsCommon.order_ok pi.

Theorem front_never_panics VS F bs : front_settled (parse_and_validate_order pi VS F bs).
Proof.
  unfold parse_and_validate_order.
  destruct (Syn.FrontEndProofs.parse_document_bytes_never_panics bs) as (tree & es & Hp & Hne).
  rewrite Hp. destruct es as [|e es].
  - destruct tree as [d|]; [|exfalso; apply (Hne eq_refl); reflexivity].
    unfold validate_doc.
    destruct (Vld.ProofsMemo.validate_memo_no_panic pi VS F (vld_of_syn d) Hpi) as (errs & Hv).
    rewrite Hv. destruct errs; exact I.
  - destruct tree; exact I.
Qed.

(** the three outcomes of ParseAndValidate, and what each means for the stages *)
Theorem front_cases VS F bs :
  (exists e es tree, parse_and_validate_order pi VS F bs = FSyntax e es /\
                     Syn.FrontEnd.parse_document_bytes bs = Syn.ParserModel.Out tree (e :: es)) \/
  (exists d e es, parse_and_validate_order pi VS F bs = FInvalid e es /\
                  Syn.FrontEnd.parse_document_bytes bs = Syn.ParserModel.Out (Some d) [] /\
                  validate_doc pi VS F d = Vld.Ast.Done (e :: es)) \/
  (exists d, parse_and_validate_order pi VS F bs = FAccepted d /\
             Syn.FrontEnd.parse_document_bytes bs = Syn.ParserModel.Out (Some d) [] /\
             validate_doc pi VS F d = Vld.Ast.Done []).
Proof.
  unfold parse_and_validate_order.
  destruct (Syn.FrontEndProofs.parse_document_bytes_never_panics bs) as (tree & es & Hp & Hne).
  rewrite Hp. destruct es as [|e es].
  - destruct tree as [d|]; [|exfalso; apply (Hne eq_refl); reflexivity].
    destruct (Vld.ProofsMemo.validate_memo_no_panic pi VS F (vld_of_syn d) Hpi) as (errs & Hv).
    unfold validate_doc in *. rewrite Hv. destruct errs as [|e es].
    + right; right. exists d. auto.
    + right; left. exists d, e, es. auto.
  - left. exists e, es, tree. destruct tree; auto.
Qed.

(** ** the back half *)
Lemma run_none_has_error M S D E fuel W errs :
  ExeA.ArgModel.run M S D E fuel W = ExeA.ArgModel.Done None errs -> errs <> [].
Proof.
  unfold ExeA.ArgModel.run.
  destruct (ExeA.ArgModel.root_type S (ExeA.ArgData.op_kind D)) as [rt|].
  - destruct (ExeA.ArgModel.exec_selections M S D E fuel (ExeA.ArgModel.children_of M S D E fuel W) rt
                (ExeA.ArgData.op_sels D) [] ExeA.ArgModel.init_state) as [r st].
    destruct r; intro H; inversion H; subst.
    intro Hn. apply app_eq_nil in Hn. destruct Hn as [_ Hn]. discriminate.
  - intro H; inversion H. discriminate.
Qed.

Definition crashed (r : presult) : bool :=
  match r with PPanic _ | POutOfFuel _ => true | _ => false end.
Definition contract_broken (r : presult) : bool :=
  match r with PContractBroken _ => true | _ => false end.

(** the schema hypotheses of the executor stage: no zero byte in a type name (schema.New's name
    check) and every named type an input type mentions is defined (C05's [env_closed]) *)
Definition schema_accepted (ES : ExeA.ArgData.schema) : bool :=
  ExeA.ArgHyps.type_names_okb ES && Val.CoerceSpec.env_closed (ExeA.ArgData.s_inputs ES).

Lemma run_request_not_selected M S R opname raw fuel W :
  (forall o, ExeA.ArgModel.get_operation R opname <> ExeA.ArgModel.GOp o) ->
  exists e, ExeA.ArgModel.run_request M S R opname raw fuel W = ExeA.ArgModel.Done None [e].
Proof.
  unfold ExeA.ArgModel.run_request. intro H.
  destruct (ExeA.ArgModel.get_operation R opname) as [o|p|].
  - exfalso. apply (H o). reflexivity.
  - eexists; reflexivity.
  - eexists; reflexivity.
Qed.

(** every outcome of the executor stage of the composed model *)
Theorem execute_doc_cases ES d opname raw W :
  schema_accepted ES = true ->
  let r := execute_doc ES d opname raw W in
  (exists data errs, r = PExecuted data errs /\
                     (data = None -> errs <> []) /\
                     (forall j, data = Some j -> ExeA.ArgData.json_finite j = true)) \/
  (exists c, r = PContractBroken c).
Proof.
  intros Hs. apply andb_true_iff in Hs as [Hn Hc]. unfold execute_doc.
  destruct (ExeA.ArgModel.get_operation (exe_of_syn d) opname) as [o|p|] eqn:Hg.
  - destruct (ExeA.ArgModel.coerce_request_vars ES o raw) as [vv| |] eqn:Hv.
    + set (D := ExeA.ArgData.doc_of (exe_of_syn d) o vv). set (E := ExeA.ArgArgs.env_of_vars vv).
      destruct (ExeA.ArgHyps.doc_positions_okb D) eqn:Hp; cbn [negb].
      2:{ right. eexists; reflexivity. }
      destruct (ExeA.ArgSpec.doc_ok_nodirs ES D E (ExeA.ArgModel.default_fuel D) (ExeA.ArgModel.default_fuel D)) eqn:Hd; cbn [negb].
      2:{ right. eexists; reflexivity. }
      destruct (ExeA.ArgProofs.exec_total_nodirs ES D E (ExeA.ArgModel.default_fuel D) Hn Hp (ExeA.ArgModel.default_fuel D) W Hd)
        as (data & errs & Hr).
      left. exists data, errs. rewrite Hr. cbn [of_run]. split; [reflexivity|]. split.
      * intros ->. eapply run_none_has_error. exact Hr.
      * intros j ->. exact (ExeA.ArgProofs.exec_data_finite_nodirs ES D E _ Hn Hp _ W j errs Hd Hr).
    + left. unfold ExeA.ArgModel.run_request. rewrite Hg, Hv. cbn [of_run].
      eexists _, _. split; [reflexivity|]. split; [intros _; discriminate|intros j Hj; discriminate].
    + exfalso. unfold ExeA.ArgModel.coerce_request_vars in Hv.
      exact (Val.CoerceTotal.variable_values_no_panic _ _ Hc _ _ _ Hv).
  - left. unfold ExeA.ArgModel.run_request. rewrite Hg. cbn [of_run].
    eexists _, _. split; [reflexivity|]. split; [intros _; discriminate|intros j Hj; discriminate].
  - left. unfold ExeA.ArgModel.run_request. rewrite Hg. cbn [of_run].
    eexists _, _. split; [reflexivity|]. split; [intros _; discriminate|intros j Hj; discriminate].
Qed.

(** ** the whole pipeline *)
Theorem pipeline_never_panics VS F ES bs opname raw W :
  schema_accepted ES = true ->
  crashed (pipeline_order pi VS F ES bs opname raw W) = false.
Proof.
  intro Hn. unfold pipeline_order.
  destruct (front_cases VS F bs) as [(e & es & t & H & _)|[(d & e & es & H & _)|(d & H & _)]]; rewrite H; try reflexivity.
  destruct (execute_doc_cases ES d opname raw W Hn) as [(data & errs & Hr & _)|(c & Hr)]; rewrite Hr; reflexivity.
Qed.

(** the outcomes, classified: a response (with data or errors, serialisable data) or a broken stage
    contract — nothing else, whatever the variables *)
Theorem pipeline_cases VS F ES bs opname raw W :
  schema_accepted ES = true ->
  let r := pipeline_order pi VS F ES bs opname raw W in
  (is_response r = true /\ data_or_errors_p r = true /\ serialisable_p r = true) \/ contract_broken r = true.
Proof.
  intro Hn. unfold pipeline_order.
  destruct (front_cases VS F bs) as [(e & es & t & H & _)|[(d & e & es & H & _)|(d & H & _)]]; rewrite H.
  - left. auto.
  - left. auto.
  - destruct (execute_doc_cases ES d opname raw W Hn) as [(data & errs & Hr & Hne & Hfin)|(c & Hr)]; rewrite Hr.
    + left. split; [reflexivity|]. split.
      * destruct data; [reflexivity|]. cbn. destruct errs; [exfalso; apply (Hne eq_refl); reflexivity|reflexivity].
      * destruct data as [j|]; [|reflexivity]. cbn. apply Hfin. reflexivity.
    + right. reflexivity.
Qed.

Theorem pipeline_total VS F ES bs opname raw W :
  schema_accepted ES = true ->
  let r := pipeline_order pi VS F ES bs opname raw W in
  is_response r = true \/ contract_broken r = true.
Proof.
  intros Hn r. destruct (pipeline_cases VS F ES bs opname raw W Hn) as [(H & _)|H]; [left|right]; exact H.
Qed.

Theorem pipeline_data_or_errors VS F ES bs opname raw W :
  schema_accepted ES = true ->
  is_response (pipeline_order pi VS F ES bs opname raw W) = true ->
  data_or_errors_p (pipeline_order pi VS F ES bs opname raw W) = true.
Proof.
  intros Hn Hr. destruct (pipeline_cases VS F ES bs opname raw W Hn) as [(_ & H & _)|H]; [exact H|].
  destruct (pipeline_order pi VS F ES bs opname raw W); discriminate.
Qed.

Theorem pipeline_serialisable VS F ES bs opname raw W j errs :
  schema_accepted ES = true ->
  pipeline_order pi VS F ES bs opname raw W = PExecuted (Some j) errs ->
  ExeA.ArgData.json_finite j = true.
Proof.
  intros Hn Hr. destruct (pipeline_cases VS F ES bs opname raw W Hn) as [(_ & _ & H)|H];
    rewrite Hr in H; [exact H|discriminate].
Qed.

(** ** the open obligations, as named propositions, and what follows from them *)

(** C04's half (not proved there yet; stated in the header of Properties/C01.v as
    [validate_ok_doc_ok]): a document the validator accepts satisfies the executor's typing
    hypothesis (without its directive conjunct: [doc_ok_nodirs]), for every operation of it and
    all coerced variables.  [VS] and [ES] must describe the same schema. *)
Definition validate_establishes_doc_ok VS F ES : Prop :=
  forall bs d opname o vv,
    parse_and_validate_order pi VS F bs = FAccepted d ->
    ExeA.ArgModel.get_operation (exe_of_syn d) opname = ExeA.ArgModel.GOp o ->
    let D := ExeA.ArgData.doc_of (exe_of_syn d) o vv in
    let E := ExeA.ArgArgs.env_of_vars vv in
    ExeA.ArgSpec.doc_ok_nodirs ES D E (ExeA.ArgModel.default_fuel D) (ExeA.ArgModel.default_fuel D) = true.

(** C06's half is proved (Pipe/PositionsProofs.v, from C06_parse_bytes_pos_injective): the selection
    nodes of a parsed text have pairwise distinct positions; what is left of [doc_positions_okb] is
    a bound on the text: the memo key of collectFields stores line and column in 24 + 32 bits *)
Definition text_positions_small bs : Prop :=
  forall d es o opname vv,
    Syn.FrontEnd.parse_document_bytes bs = Syn.ParserModel.Out (Some d) es ->
    ExeA.ArgModel.get_operation (exe_of_syn d) opname = ExeA.ArgModel.GOp o ->
    forallb ExeA.ArgHyps.pos_smallb (ExeA.ArgHyps.all_sels (ExeA.ArgData.doc_of (exe_of_syn d) o vv)) = true.

Theorem positions_contract_is_size bs d es opname o vv :
  Syn.FrontEnd.parse_document_bytes bs = Syn.ParserModel.Out (Some d) es ->
  ExeA.ArgModel.get_operation (exe_of_syn d) opname = ExeA.ArgModel.GOp o ->
  ExeA.ArgHyps.doc_positions_okb (ExeA.ArgData.doc_of (exe_of_syn d) o vv)
  = forallb ExeA.ArgHyps.pos_smallb (ExeA.ArgHyps.all_sels (ExeA.ArgData.doc_of (exe_of_syn d) o vv)).
Proof.
  intros Hp Hg. unfold ExeA.ArgHyps.doc_positions_okb.
  rewrite (parsed_positions_distinct bs d es opname o vv Hp Hg). reflexivity.
Qed.

Theorem pipeline_response_if_obligations VS F ES bs opname raw W :
  schema_accepted ES = true ->
  validate_establishes_doc_ok VS F ES -> text_positions_small bs ->
  is_response (pipeline_order pi VS F ES bs opname raw W) = true.
Proof.
  intros Hn Hv Hp.
  destruct (pipeline_cases VS F ES bs opname raw W Hn) as [(H & _)|H]; [exact H|].
  exfalso. revert H. unfold pipeline_order.
  destruct (front_cases VS F bs) as [(e & es & t & H & _)|[(d & e & es & H & _)|(d & H & Hparse & _)]]; rewrite H; try discriminate.
  unfold execute_doc.
  destruct (ExeA.ArgModel.get_operation (exe_of_syn d) opname) as [o|p|] eqn:Hg.
  - destruct (ExeA.ArgModel.coerce_request_vars ES o raw) as [vv| |] eqn:Hc.
    + assert (Hpos : ExeA.ArgHyps.doc_positions_okb (ExeA.ArgData.doc_of (exe_of_syn d) o vv) = true).
      { rewrite (positions_contract_is_size bs d [] opname o vv Hparse Hg). exact (Hp d [] o opname vv Hparse Hg). }
      rewrite Hpos. cbn [negb]. rewrite (Hv bs d opname o vv H Hg). cbn [negb].
      destruct (ExeA.ArgModel.run ExeA.ArgModel.fixed ES _ _ _ W); discriminate.
    + destruct (ExeA.ArgModel.run_request ExeA.ArgModel.fixed ES (exe_of_syn d) opname raw 0 W); discriminate.
    + discriminate.
  - destruct (ExeA.ArgModel.run_request ExeA.ArgModel.fixed ES (exe_of_syn d) opname raw 0 W); discriminate.
  - destruct (ExeA.ArgModel.run_request ExeA.ArgModel.fixed ES (exe_of_syn d) opname raw 0 W); discriminate.
Qed.

(** [pipeline_never_panics], spelled out on the outcome *)
Theorem pipeline_never_panics_cases VS F ES bs opname raw W :
  schema_accepted ES = true ->
  match pipeline_order pi VS F ES bs opname raw W with PPanic _ | POutOfFuel _ => False | _ => True end.
Proof.
  intro Hn. pose proof (pipeline_never_panics VS F ES bs opname raw W Hn) as H.
  destruct (pipeline_order pi VS F ES bs opname raw W); try exact I; discriminate.
Qed.

End AnyOrder.

(** ** the order in which Go ranges over the validator's maps does not matter: the same syntax
    errors, the same accepted document and hence the same response; only the list of validation
    errors of a rejected document may differ (it is non-empty under both orders) *)
Theorem pipeline_order_independent pi1 pi2 VS F ES bs opname raw W :
  Vld.ProofsCommon.order_ok pi1 -> Vld.ProofsCommon.order_ok pi2 ->
  pipeline_order pi1 VS F ES bs opname raw W = pipeline_order pi2 VS F ES bs opname raw W \/
  (exists e1 l1 e2 l2, pipeline_order pi1 VS F ES bs opname raw W = PInvalid e1 l1 /\
                       pipeline_order pi2 VS F ES bs opname raw W = PInvalid e2 l2).
Proof.
  intros H1 H2. unfold pipeline_order, parse_and_validate_order.
  destruct (Syn.FrontEnd.parse_document_bytes bs) as [tree es|] eqn:Hp; [|left; reflexivity].
  destruct es as [|e es]; [|left; reflexivity].
  destruct tree as [d|]; [|left; reflexivity].
  unfold validate_doc.
  destruct (Vld.MemoEquiv.validate_memo_verdict_order pi1 pi2 VS F (vld_of_syn d) H1 H2
              (proj2 (Vld.MemoEquiv.field_positions_distinct_pti _ VS F (vld_of_syn d))
                     (parsed_field_positions_distinct bs d [] Hp)))
    as [(E1 & E2)|(e1 & l1 & e2 & l2 & E1 & E2)]; rewrite E1, E2.
  - left; reflexivity.
  - right. exists e1, l1, e2, l2. split; reflexivity.
Qed.
