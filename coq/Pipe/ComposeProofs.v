(** * Pipe/ComposeProofs.v — C03: the composed model (Pipe/Compose.v) never panics and never runs
    out of fuel, by chaining the stage theorems of C06 (parser from bytes, on the scanner model of
    C07), C04 (validator) and C01 (executor); its response carries data or errors and its data is
    serialisable. *)
From Coq Require Import List NArith ZArith Bool Lia.
From ApiFu Require Import Base.Sexp.
From ApiFu Require Syn.Ast Syn.ParserModel Syn.FrontEnd Syn.FrontEndProofs.
From ApiFu Require Vld.Ast Vld.ValidatorModel Vld.ProofsCommon Vld.ProofsTotal Vld.ValidatorProofs.
From ApiFu Require Exe.ExecData Exe.ExecModel Exe.ExecSpec Exe.ExecHyps Exe.ExecProofs.
From ApiFu Require Import Pipe.Convert Pipe.Compose Pipe.PositionsProofs.
Import ListNotations.

(** ** the front half: graphql.ParseAndValidate from bytes *)
Definition front_settled (r : front_result) : Prop :=
  match r with FPanic _ | FOutOfFuel _ => False | _ => True end.

Section AnyOrder.
Variable pi : Vld.ValidatorModel.order.
Hypothesis Hpi : Vld.ProofsCommon.order_ok pi.

Theorem front_never_panics VS F bs : front_settled (parse_and_validate_order pi VS F bs).
Proof.
  unfold parse_and_validate_order.
  destruct (Syn.FrontEndProofs.parse_document_bytes_never_panics bs) as (tree & es & Hp & Hne).
  rewrite Hp. destruct es as [|e es].
  - destruct tree as [d|]; [|exfalso; apply (Hne eq_refl); reflexivity].
    unfold validate_doc.
    destruct (Vld.ProofsTotal.validate_no_panic pi VS F (vld_of_syn d) Hpi) as (errs & Hv).
    rewrite Hv. destruct errs; exact I.
  - destruct tree; exact I.
Qed.

(** the three outcomes of ParseAndValidate, and what each means for the stages *)
Theorem front_cases VS F bs :
  (exists e es tree, parse_and_validate_order pi VS F bs = FSyntax e es /\
                     Syn.FrontEnd.parse_document_bytes bs = Syn.ParserModel.Out tree (e :: es)) \/
  (exists d e es, parse_and_validate_order pi VS F bs = FInvalid e es /\
                  Syn.FrontEnd.parse_document_bytes bs = Syn.ParserModel.Out (Some d) [] /\
                  validate_doc pi VS F d = Vld.Ast.Done (e :: es)) \/
  (exists d, parse_and_validate_order pi VS F bs = FAccepted d /\
             Syn.FrontEnd.parse_document_bytes bs = Syn.ParserModel.Out (Some d) [] /\
             validate_doc pi VS F d = Vld.Ast.Done []).
Proof.
  unfold parse_and_validate_order.
  destruct (Syn.FrontEndProofs.parse_document_bytes_never_panics bs) as (tree & es & Hp & Hne).
  rewrite Hp. destruct es as [|e es].
  - destruct tree as [d|]; [|exfalso; apply (Hne eq_refl); reflexivity].
    destruct (Vld.ProofsTotal.validate_no_panic pi VS F (vld_of_syn d) Hpi) as (errs & Hv).
    unfold validate_doc in *. rewrite Hv. destruct errs as [|e es].
    + right; right. exists d. auto.
    + right; left. exists d, e, es. auto.
  - left. exists e, es, tree. destruct tree; auto.
Qed.

(** ** the back half *)
Lemma run_none_has_error M S D E fuel W errs :
  Exe.ExecModel.run M S D E fuel W = Exe.ExecModel.Done None errs -> errs <> [].
Proof.
  unfold Exe.ExecModel.run.
  destruct (Exe.ExecModel.root_type S (Exe.ExecData.op_kind D)) as [rt|].
  - destruct (Exe.ExecModel.exec_selections M S D E fuel (Exe.ExecModel.children_of M S D E fuel W) rt
                (Exe.ExecData.op_sels D) [] Exe.ExecModel.init_state) as [r st].
    destruct r; intro H; inversion H; subst.
    intro Hn. apply app_eq_nil in Hn. destruct Hn as [_ Hn]. discriminate.
  - intro H; inversion H. discriminate.
Qed.

Lemma run_request_refused M S R opname E fuel W :
  (forall o, Exe.ExecModel.get_operation R opname <> Exe.ExecModel.GOp o) ->
  exists e, Exe.ExecModel.run_request M S R opname E fuel W = Exe.ExecModel.Done None [e].
Proof.
  unfold Exe.ExecModel.run_request. intro H.
  destruct (Exe.ExecModel.get_operation R opname) as [o|p|].
  - exfalso. apply (H o). reflexivity.
  - eexists; reflexivity.
  - eexists; reflexivity.
Qed.

Definition crashed (r : presult) : bool :=
  match r with PPanic _ | POutOfFuel _ => true | _ => false end.
Definition unevaluable (r : presult) : bool :=
  match r with PUnevaluable _ => true | _ => false end.
Definition contract_broken (r : presult) : bool :=
  match r with PContractBroken _ => true | _ => false end.

(** every outcome of the executor stage of the composed model *)
Theorem execute_doc_cases ES d opname VE W :
  Exe.ExecHyps.type_names_okb ES = true ->
  let r := execute_doc ES d opname VE W in
  (exists data errs, r = PExecuted data errs /\
                     (data = None -> errs <> []) /\
                     (forall j, data = Some j -> Exe.ExecData.json_finite j = true)) \/
  r = PVarsRejected \/
  (exists c, r = PContractBroken c) \/
  (exists x o E, r = PUnevaluable x /\ VE = Some E /\
                 Exe.ExecModel.get_operation (exe_of_syn d) opname = Exe.ExecModel.GOp o /\
                 Exe.ExecHyps.dirs_evaluable (Exe.ExecData.doc_of (exe_of_syn d) o) E = false).
Proof.
  intros Hn. unfold execute_doc.
  destruct (Exe.ExecModel.get_operation (exe_of_syn d) opname) as [o|p|] eqn:Hg.
  - destruct VE as [E|]; [|right; left; reflexivity].
    set (D := Exe.ExecData.doc_of (exe_of_syn d) o).
    destruct (Exe.ExecHyps.doc_positions_okb D) eqn:Hp; cbn [negb].
    2:{ right; right; left. eexists; reflexivity. }
    destruct (Exe.ExecHyps.dirs_evaluable D E) eqn:He; cbn [negb].
    2:{ right; right; right. eexists _, o, E. auto. }
    destruct (Exe.ExecSpec.doc_ok ES D E (Exe.ExecModel.default_fuel D) (Exe.ExecModel.default_fuel D)) eqn:Hd; cbn [negb].
    2:{ right; right; left. eexists; reflexivity. }
    destruct (Exe.ExecProofs.exec_total ES D E (Exe.ExecModel.default_fuel D) Hn Hp (Exe.ExecModel.default_fuel D) Hd W)
      as (data & errs & Hr).
    left. exists data, errs. rewrite Hr. cbn [of_run]. split; [reflexivity|]. split.
    + intros ->. eapply run_none_has_error. exact Hr.
    + intros j ->. eapply Exe.ExecProofs.exec_data_finite; eauto.
  - left. unfold Exe.ExecModel.run_request. rewrite Hg. destruct VE; cbn [of_run];
      (eexists _, _; split; [reflexivity|]; split; [intros _; discriminate|intros j Hj; discriminate]).
  - left. unfold Exe.ExecModel.run_request. rewrite Hg. destruct VE; cbn [of_run];
      (eexists _, _; split; [reflexivity|]; split; [intros _; discriminate|intros j Hj; discriminate]).
Qed.

(** ** the whole pipeline *)
Theorem pipeline_never_panics VS F ES bs opname VE W :
  Exe.ExecHyps.type_names_okb ES = true ->
  crashed (pipeline_order pi VS F ES bs opname VE W) = false.
Proof.
  intro Hn. unfold pipeline_order.
  destruct (front_cases VS F bs) as [(e & es & t & H & _)|[(d & e & es & H & _)|(d & H & _)]]; rewrite H; try reflexivity.
  destruct (execute_doc_cases ES d opname VE W Hn) as [(data & errs & Hr & _)|[Hr|[(c & Hr)|(x & o & E & Hr & _)]]];
    rewrite Hr; reflexivity.
Qed.

(** the outcomes, classified: a response (with data or errors, serialisable data), a broken stage
    contract, or a request whose @skip/@include conditions have no boolean value *)
Theorem pipeline_cases VS F ES bs opname VE W :
  Exe.ExecHyps.type_names_okb ES = true ->
  let r := pipeline_order pi VS F ES bs opname VE W in
  (is_response r = true /\ data_or_errors_p r = true /\ serialisable_p r = true) \/
  contract_broken r = true \/
  (unevaluable r = true /\
   exists d o E, VE = Some E /\ parse_and_validate_order pi VS F bs = FAccepted d /\
                 Exe.ExecModel.get_operation (exe_of_syn d) opname = Exe.ExecModel.GOp o /\
                 Exe.ExecHyps.dirs_evaluable (Exe.ExecData.doc_of (exe_of_syn d) o) E = false).
Proof.
  intro Hn. unfold pipeline_order.
  destruct (front_cases VS F bs) as [(e & es & t & H & _)|[(d & e & es & H & _)|(d & H & _)]]; rewrite H.
  - left. auto.
  - left. auto.
  - destruct (execute_doc_cases ES d opname VE W Hn)
      as [(data & errs & Hr & Hne & Hfin)|[Hr|[(c & Hr)|(x & o & E & Hr & HE & Hg & He)]]]; rewrite Hr.
    + left. split; [reflexivity|]. split.
      * destruct data; [reflexivity|]. cbn. destruct errs; [exfalso; apply (Hne eq_refl); reflexivity|reflexivity].
      * destruct data as [j|]; [|reflexivity]. cbn. apply Hfin. reflexivity.
    + left. auto.
    + right; left. reflexivity.
    + right; right. split; [reflexivity|]. exists d, o, E. auto.
Qed.

(** a response, whenever the conditions are evaluable and no contract check fails *)
Definition request_evaluable VS F bs opname VE : Prop :=
  forall d o E, VE = Some E -> parse_and_validate_order pi VS F bs = FAccepted d ->
                Exe.ExecModel.get_operation (exe_of_syn d) opname = Exe.ExecModel.GOp o ->
                Exe.ExecHyps.dirs_evaluable (Exe.ExecData.doc_of (exe_of_syn d) o) E = true.

Theorem pipeline_total VS F ES bs opname VE W :
  Exe.ExecHyps.type_names_okb ES = true -> request_evaluable VS F bs opname VE ->
  let r := pipeline_order pi VS F ES bs opname VE W in
  is_response r = true \/ contract_broken r = true.
Proof.
  intros Hn Hev r. destruct (pipeline_cases VS F ES bs opname VE W Hn) as [(H & _)|[H|(_ & d & o & E & HE & Ha & Hg & He)]].
  - left; exact H.
  - right; exact H.
  - rewrite (Hev d o E HE Ha Hg) in He. discriminate.
Qed.

Theorem pipeline_data_or_errors VS F ES bs opname VE W :
  Exe.ExecHyps.type_names_okb ES = true ->
  is_response (pipeline_order pi VS F ES bs opname VE W) = true ->
  data_or_errors_p (pipeline_order pi VS F ES bs opname VE W) = true.
Proof.
  intros Hn Hr. destruct (pipeline_cases VS F ES bs opname VE W Hn) as [(_ & H & _)|[H|(H & _)]]; [exact H| |].
  - destruct (pipeline_order pi VS F ES bs opname VE W); discriminate.
  - destruct (pipeline_order pi VS F ES bs opname VE W); discriminate.
Qed.

Theorem pipeline_serialisable VS F ES bs opname VE W j errs :
  Exe.ExecHyps.type_names_okb ES = true ->
  pipeline_order pi VS F ES bs opname VE W = PExecuted (Some j) errs ->
  Exe.ExecData.json_finite j = true.
Proof.
  intros Hn Hr. destruct (pipeline_cases VS F ES bs opname VE W Hn) as [(_ & _ & H)|[H|(H & _)]];
    rewrite Hr in H; [exact H|discriminate|discriminate].
Qed.

(** ** the open obligations, as named propositions, and what follows from them *)

(** C04's half (not proved there yet; stated in the header of Properties/C01.v as
    [validate_ok_doc_ok]): a document the validator accepts satisfies the executor's typing
    hypothesis, for every operation of it and every variable environment that gives a boolean to
    every condition.  [VS] and [ES] must describe the same schema. *)
Definition validate_establishes_doc_ok VS F ES : Prop :=
  forall bs d opname o E,
    parse_and_validate_order pi VS F bs = FAccepted d ->
    Exe.ExecModel.get_operation (exe_of_syn d) opname = Exe.ExecModel.GOp o ->
    let D := Exe.ExecData.doc_of (exe_of_syn d) o in
    Exe.ExecHyps.dirs_evaluable D E = true ->
    Exe.ExecSpec.doc_ok ES D E (Exe.ExecModel.default_fuel D) (Exe.ExecModel.default_fuel D) = true.

(** C06's half is proved (Pipe/PositionsProofs.v, from C06_parse_bytes_pos_injective): the selection
    nodes of a parsed text have pairwise distinct positions; what is left of [doc_positions_okb] is
    a bound on the text: the memo key of collectFields stores line and column in 24 + 32 bits *)
Definition text_positions_small bs : Prop :=
  forall d es o opname,
    Syn.FrontEnd.parse_document_bytes bs = Syn.ParserModel.Out (Some d) es ->
    Exe.ExecModel.get_operation (exe_of_syn d) opname = Exe.ExecModel.GOp o ->
    forallb Exe.ExecHyps.pos_smallb (Exe.ExecHyps.all_sels (Exe.ExecData.doc_of (exe_of_syn d) o)) = true.

Theorem positions_contract_is_size bs d es opname o :
  Syn.FrontEnd.parse_document_bytes bs = Syn.ParserModel.Out (Some d) es ->
  Exe.ExecModel.get_operation (exe_of_syn d) opname = Exe.ExecModel.GOp o ->
  Exe.ExecHyps.doc_positions_okb (Exe.ExecData.doc_of (exe_of_syn d) o)
  = forallb Exe.ExecHyps.pos_smallb (Exe.ExecHyps.all_sels (Exe.ExecData.doc_of (exe_of_syn d) o)).
Proof.
  intros Hp Hg. unfold Exe.ExecHyps.doc_positions_okb.
  rewrite (parsed_positions_distinct bs d es opname o Hp Hg). reflexivity.
Qed.

Theorem pipeline_response_if_obligations VS F ES bs opname VE W :
  Exe.ExecHyps.type_names_okb ES = true ->
  validate_establishes_doc_ok VS F ES -> text_positions_small bs ->
  request_evaluable VS F bs opname VE ->
  is_response (pipeline_order pi VS F ES bs opname VE W) = true.
Proof.
  intros Hn Hv Hp Hev. unfold pipeline_order.
  destruct (front_cases VS F bs) as [(e & es & t & H & _)|[(d & e & es & H & _)|(d & H & Hparse & _)]]; rewrite H; try reflexivity.
  unfold execute_doc.
  destruct (Exe.ExecModel.get_operation (exe_of_syn d) opname) as [o|p|] eqn:Hg.
  - destruct VE as [E|]; [|reflexivity].
    assert (Hpos : Exe.ExecHyps.doc_positions_okb (Exe.ExecData.doc_of (exe_of_syn d) o) = true).
    { rewrite (positions_contract_is_size bs d [] opname o Hparse Hg). exact (Hp d [] o opname Hparse Hg). }
    rewrite Hpos. cbn [negb].
    rewrite (Hev d o E eq_refl H Hg). cbn [negb].
    rewrite (Hv bs d opname o E H Hg (Hev d o E eq_refl H Hg)). cbn [negb].
    destruct (Exe.ExecProofs.exec_total ES _ E _ Hn Hpos _ (Hv bs d opname o E H Hg (Hev d o E eq_refl H Hg)) W)
      as (data & errs & Hr).
    rewrite Hr. reflexivity.
  - unfold Exe.ExecModel.run_request. rewrite Hg. destruct VE; reflexivity.
  - unfold Exe.ExecModel.run_request. rewrite Hg. destruct VE; reflexivity.
Qed.

(** [pipeline_never_panics], spelled out on the outcome *)
Theorem pipeline_never_panics_cases VS F ES bs opname VE W :
  Exe.ExecHyps.type_names_okb ES = true ->
  match pipeline_order pi VS F ES bs opname VE W with PPanic _ | POutOfFuel _ => False | _ => True end.
Proof.
  intro Hn. pose proof (pipeline_never_panics VS F ES bs opname VE W Hn) as H.
  destruct (pipeline_order pi VS F ES bs opname VE W); try exact I; discriminate.
Qed.

End AnyOrder.

(** ** the order in which Go ranges over the validator's maps does not matter: the same syntax
    errors, the same accepted document and hence the same response; only the list of validation
    errors of a rejected document may differ (it is non-empty under both orders) *)
Theorem pipeline_order_independent pi1 pi2 VS F ES bs opname VE W :
  Vld.ProofsCommon.order_ok pi1 -> Vld.ProofsCommon.order_ok pi2 ->
  pipeline_order pi1 VS F ES bs opname VE W = pipeline_order pi2 VS F ES bs opname VE W \/
  (exists e1 l1 e2 l2, pipeline_order pi1 VS F ES bs opname VE W = PInvalid e1 l1 /\
                       pipeline_order pi2 VS F ES bs opname VE W = PInvalid e2 l2).
Proof.
  intros H1 H2. unfold pipeline_order, parse_and_validate_order.
  destruct (Syn.FrontEnd.parse_document_bytes bs) as [tree es|]; [|left; reflexivity].
  destruct es as [|e es]; [|left; reflexivity].
  destruct tree as [d|]; [|left; reflexivity].
  unfold validate_doc.
  destruct (Vld.ValidatorProofs.validate_verdict_order pi1 pi2 VS F (vld_of_syn d) H1 H2)
    as [(E1 & E2)|(e1 & l1 & e2 & l2 & E1 & E2)]; rewrite E1, E2.
  - left; reflexivity.
  - right. exists e1, l1, e2, l2. split; reflexivity.
Qed.
