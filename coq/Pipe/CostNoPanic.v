(** * Pipe/CostNoPanic.v — C03: the cost rule of the composed model never panics.

    validate_cost.go can panic in three places: a cost function (or CoerceArgumentValues inside the
    callback) panics; [multipliers[len-1]] on an empty stack; [multipliers[:len-1]] on an empty
    stack.  For a document all of whose cost functions return ([calm]) the walk keeps both stacks
    exactly as it found them at every node — so the two slice operations are always in range — and
    returns normally or with a fuel verdict (excluded separately: C14_request_never_out_of_fuel). *)
From Coq Require Import List NArith ZArith Bool Lia Wf_nat.
From ApiFu Require Import Base.Sexp.
From ApiFu Require Import Cost.CostModel Cost.CostProofs.
Import ListNotations.

Section NoPanic.
  Variable C : Type.
  Variable skip_zero : bool.
  Variable dc : fcost C.
  Variable frs : list (bytes * node C).

  Definition kind_calm (k : kind C) : Prop :=
    match k with KField (Some f) _ => forall ctx, f ctx <> None | _ => True end.
  Inductive calm : node C -> Prop :=
  | calm_node k kids : kind_calm k -> Forall calm kids -> calm (Node k kids).

  Hypothesis Hfrs : forall n d, lookup_last C frs n = Some d -> calm d.

  Definition stacks_ok (st : state C) : Prop := st_mults C st <> [] /\ st_ctxs C st <> [].
  Definition same_stacks (r : res (state C)) (st : state C) : Prop :=
    match r with
    | Ok st' => st_mults C st' = st_mults C st /\ st_ctxs C st' = st_ctxs C st
    | Panic => False
    | OutOfFuel => True
    end.

  Lemma visit_no_panic : forall fuel n st, calm n -> stacks_ok st ->
    same_stacks (visit C skip_zero dc frs fuel n st) st.
  Proof.
    induction fuel as [fuel IHfuel] using lt_wf_ind.
    intros n. induction n as [k kids IH] using node_ind'.
    intros st Hcalm Hst. inversion Hcalm as [k' kids' Hk Hkids]; subst k' kids'.
    assert (HL : forall s, stacks_ok s -> same_stacks (visit_list C skip_zero dc frs fuel kids s) s).
    { clear Hst Hcalm. induction IH as [|x l Hx Hl IHl]; intros s Hs.
      - rewrite visit_list_nil. split; reflexivity.
      - rewrite visit_list_cons. inversion Hkids as [|x' l' Hcx Hcl]; subst x' l'.
        specialize (Hx s Hcx Hs).
        destruct (visit C skip_zero dc frs fuel x s) as [s'| |] eqn:E; cbn [same_stacks] in *; try assumption.
        destruct Hx as [Hm Hc].
        assert (Hs' : stacks_ok s') by (unfold stacks_ok in *; rewrite Hm, Hc; exact Hs).
        specialize (IHl Hcl s' Hs').
        destruct (visit_list C skip_zero dc frs fuel l s') as [s''| |]; cbn [same_stacks] in *; try assumption.
        destruct IHl as [Hm' Hc']. split; congruence. }
    rewrite visit_eq. destruct Hst as [Hm Hc].
    destruct (st_mults C st) as [|multiplier mrest] eqn:Em; [contradiction|].
    destruct (st_ctxs C st) as [|ctx crest] eqn:Ec; [contradiction|].
    assert (Hsw : match after_switch C skip_zero dc frs fuel k st multiplier ctx with
                  | Ok (st1, _, _) => st_mults C st1 = st_mults C st /\ st_ctxs C st1 = st_ctxs C st
                  | Panic => False
                  | OutOfFuel => True
                  end).
    { destruct k as [cost aerr|tn|name|]; cbn [after_switch].
      - destruct aerr; [split; reflexivity|].
        destruct cost as [f|]; cbn [kind_calm] in Hk.
        + specialize (Hk ctx). destruct (f ctx); [split; reflexivity|contradiction].
        + split; reflexivity.
      - destruct tn; split; reflexivity.
      - destruct (mem_name name (st_path C st)); [split; reflexivity|].
        destruct (lookup_last C frs name) as [def|] eqn:Elook; [|split; reflexivity].
        destruct fuel as [|fuel']; [exact I|].
        assert (Hst' : stacks_ok (set_path C st (name :: st_path C st))).
        { unfold stacks_ok. cbn [set_path st_mults st_ctxs]. rewrite Em, Ec. split; discriminate. }
        pose proof (IHfuel fuel' ltac:(lia) def _ (Hfrs _ _ Elook) Hst') as Hdef.
        destruct (visit C skip_zero dc frs fuel' def (set_path C st (name :: st_path C st))) as [st1| |];
          cbn [same_stacks] in Hdef; try assumption.
      - split; reflexivity. }
    destruct (after_switch C skip_zero dc frs fuel k st multiplier ctx) as [[[st1 nm] nc]| |]; try assumption.
    destruct Hsw as [Hm1 Hc1].
    destruct (negb (is_nil (st_errs C st1))).
    { cbn [same_stacks]. rewrite Hm1, Hc1. split; reflexivity. }
    assert (Hpush : stacks_ok (push C st1 nm nc)).
    { unfold stacks_ok. cbn [push st_mults st_ctxs]. split; discriminate. }
    specialize (HL _ Hpush).
    destruct (visit_list C skip_zero dc frs fuel kids (push C st1 nm nc)) as [st3| |]; cbn [same_stacks] in *; try assumption.
    destruct HL as [Hm3 Hc3]. cbn [push st_mults st_ctxs] in Hm3, Hc3.
    unfold pop. rewrite Hm3, Hc3. cbn [same_stacks st_mults st_ctxs]. rewrite Hm1, Hc1. split; reflexivity.
  Qed.
End NoPanic.

(** the operation the rule walks is one of the document's *)
Lemma select_op_in (C : Type) (ops : list (option bytes * node C)) opname : forall acc def,
  select_op C ops opname acc = Some def -> acc = Some def \/ In def (map snd ops).
Proof.
  induction ops as [|[name d] rest IH]; intros acc def H; cbn [select_op] in H.
  - left; exact H.
  - destruct (is_nil opname || match name with Some n => bytes_eqb n opname | None => false end).
    + destruct acc; [discriminate|]. destruct (IH _ _ H) as [Ha|Hi].
      * inversion Ha; subst. right; left; reflexivity.
      * right; right; exact Hi.
    + destruct (IH _ _ H) as [Ha|Hi]; [left; exact Ha|right; right; exact Hi].
Qed.

Lemma lookup_last_In (C : Type) (l : list (bytes * node C)) n d :
  lookup_last C l n = Some d -> In d (map snd l).
Proof.
  induction l as [|[x y] r IH]; cbn [lookup_last]; [discriminate|].
  destruct (lookup_last C r n) as [d'|].
  - intro H. inversion H; subst. right. apply IH. reflexivity.
  - destruct (bytes_eqb x n); [|discriminate]. intro H; inversion H; subst. left; reflexivity.
Qed.

Theorem validate_cost_no_panic (C : Type) (skip_zero : bool) (dc : fcost C) (ctx0 : C)
        (ops : list (option bytes * node C)) (frs : list (bytes * node C)) opname vars_err max fuel :
  Forall (calm C) (map snd ops) -> Forall (calm C) (map snd frs) ->
  validate_cost C skip_zero fuel dc ctx0 ops frs opname vars_err max <> RPanic.
Proof.
  intros Hops Hfrs. unfold validate_cost.
  assert (Hf : forall n d, lookup_last C frs n = Some d -> calm C d).
  { intros n d H. rewrite Forall_forall in Hfrs. apply Hfrs. eapply lookup_last_In; eassumption. }
  destruct (select_op C ops opname None) as [op|] eqn:Es.
  - destruct vars_err; cbn [is_nil].
    + discriminate.
    + match goal with |- context [visit C skip_zero dc frs fuel op ?s] =>
        pose proof (visit_no_panic C skip_zero dc frs Hf fuel op s) as H; set (s0 := s) in *
      end.
      assert (Hc : calm C op).
      { destruct (select_op_in C ops opname None op Es) as [Ha|Hi]; [discriminate|].
        rewrite Forall_forall in Hops. apply Hops. exact Hi. }
      assert (Hs : stacks_ok C s0) by (unfold stacks_ok, s0; cbn [st_mults st_ctxs]; split; discriminate).
      specialize (H Hc Hs).
      destruct (visit C skip_zero dc frs fuel op s0) as [st| |]; cbn [same_stacks] in H.
      * destruct (is_nil (st_errs C st)); discriminate.
      * contradiction.
      * discriminate.
  - cbn [is_nil st_errs]. discriminate.
Qed.
