(** * Pipe/MergeBridge.v — C03: from C04's guarantees about an accepted document (fields defined
    on the parent type and on every possible object type; merge soundness, rule 5.3.2) to the
    invariant Q of C01_doc_ok_nodirs_acyclic, across both conversions.

    [Sub top ss]     the selection set [ss] of the parsed document is written beneath scope [top]
                     (the scopes are TypeInfo's, Vld/TypeInfoPure.v);
    [LR ot ...]      a field node is reached from a selection set through inline fragments and
                     fragment spreads whose type conditions APPLY to the object type [ot] — what
                     C01's CollectFields can collect;
    [Qv ot sels]     [sels] is the concatenation of selection sets written beneath scopes of
                     which [ot] is a possible type, pairwise merge-checked by the validator. *)
From Coq Require Import List NArith ZArith Bool Lia.
From ApiFu Require Import Base.Sexp.
From ApiFu Require Syn.Ast Vld.Ast Vld.TypeInfoModel Vld.TypeInfoPure Vld.Enumerate Vld.ValidSpec Vld.SpecEnum Vld.ValidatorModel
     Vld.ProofsCommon Vld.ProofsTotal Vld.ProofsDepth Vld.ProofsCollect Vld.ProofsMergeSound Vld.ProofsPossibleFields Vld.Hyps
     Vld.ValidatorProofs Vld.ProofsSpecReach Vld.ProofsSubscription.
From ApiFu Require Val.Values ExeA.ArgData ExeA.ArgArgs ExeA.ArgModel ExeA.ArgSpec ExeA.ArgHyps ExeA.ArgCollectProofs
     ExeA.ArgCacheProofs ExeA.ArgFuelProofs ExeA.ArgLevelProofs.
From ApiFu Require Import Vld.ProofsCollectEntries.
From ApiFu Require Import Pipe.Convert Pipe.Compose Pipe.SchemaAgree Pipe.AcyclicProofs Pipe.CondsProofs Pipe.AgreeProofs Pipe.InvariantProofs.
Import ListNotations.

(** ** small facts *)
Lemma FOP_in {X} (R : X -> X -> Prop) l :
  ForallOrdPairs R l -> forall x y, In x l -> In y l -> x = y \/ R x y \/ R y x.
Proof.
  induction 1 as [|a l Ha _ IH]; intros x y Hx Hy; [destruct Hx|].
  rewrite Forall_forall in Ha.
  destruct Hx as [<-|Hx], Hy as [<-|Hy].
  - left; reflexivity.
  - right; left. exact (Ha y Hy).
  - right; right. exact (Ha x Hx).
  - exact (IH x y Hx Hy).
Qed.

Lemma sg_add_in_key k0 f0 : forall g k fs f,
  In (k, fs) (ExeA.ArgSpec.sg_add k0 f0 g) -> In f fs ->
  (k = k0 /\ f = f0) \/ exists fs', In (k, fs') g /\ In f fs'.
Proof.
  induction g as [|[k' fs'] g IH]; intros k fs f Hin Hf; cbn [ExeA.ArgSpec.sg_add] in Hin.
  - destruct Hin as [Heq|[]]. inversion Heq; subst. destruct Hf as [<-|[]]. left; auto.
  - destruct (ExeA.ArgData.name_eqb k0 k') eqn:E.
    + destruct Hin as [Heq|Hin].
      * inversion Heq; subst. apply in_app_or in Hf as [Hf|[<-|[]]].
        -- right. exists fs'. split; [left; reflexivity|exact Hf].
        -- left. apply bytes_eqb_eq in E. auto.
      * right. exists fs. split; [right; exact Hin|exact Hf].
    + destruct Hin as [Heq|Hin].
      * inversion Heq; subst. right. exists fs. split; [left; reflexivity|exact Hf].
      * destruct (IH _ _ _ Hin Hf) as [H|(fs'' & H1 & H2)]; [left; exact H|right; exists fs''; split; [right; exact H1|exact H2]].
Qed.

Lemma group_fold_in_key flat : forall g k fs f,
  In (k, fs) (fold_left (fun acc kf => ExeA.ArgSpec.sg_add (fst kf) (snd kf) acc) flat g) -> In f fs ->
  In (k, f) flat \/ exists fs', In (k, fs') g /\ In f fs'.
Proof.
  induction flat as [|[k0 f0] flat IH]; intros g k fs f Hin Hf; cbn [fold_left] in Hin.
  - right. exists fs. split; assumption.
  - destruct (IH _ _ _ _ Hin Hf) as [Hk|(fs' & H1 & H2)].
    + left. right. exact Hk.
    + cbn [fst snd] in H1. destruct (sg_add_in_key k0 f0 g k fs' f H1 H2) as [[-> ->]|(fs'' & H3 & H4)].
      * left. left. reflexivity.
      * right. exists fs''. split; assumption.
Qed.

Lemma s_group_in_key flat k fs f : In (k, fs) (ExeA.ArgSpec.s_group flat) -> In f fs -> In (k, f) flat.
Proof.
  intros Hin Hf. destruct (group_fold_in_key flat [] k fs f Hin Hf) as [H|(fs' & [] & _)]. exact H.
Qed.

Lemma sg_add_nonempty k0 f0 g : (forall k fs, In (k, fs) g -> fs <> []) -> forall k fs, In (k, fs) (ExeA.ArgSpec.sg_add k0 f0 g) -> fs <> [].
Proof.
  induction g as [|[k' fs'] g IH]; intros Hg k fs Hin; cbn [ExeA.ArgSpec.sg_add] in Hin.
  - destruct Hin as [Heq|[]]. inversion Heq; subst. discriminate.
  - destruct (ExeA.ArgData.name_eqb k0 k').
    + destruct Hin as [Heq|Hin]; [inversion Heq; subst; destruct fs'; discriminate|apply (Hg k fs); right; exact Hin].
    + destruct Hin as [Heq|Hin]; [inversion Heq; subst; apply (Hg k fs); left; reflexivity|].
      apply (IH (fun k1 fs1 H => Hg k1 fs1 (or_intror H)) k fs Hin).
Qed.
Lemma s_group_nonempty flat k fs : In (k, fs) (ExeA.ArgSpec.s_group flat) -> fs <> [].
Proof.
  unfold ExeA.ArgSpec.s_group.
  assert (H : forall g, (forall k fs, In (k, fs) g -> fs <> []) ->
                        forall k fs, In (k, fs) (fold_left (fun acc kf => ExeA.ArgSpec.sg_add (fst kf) (snd kf) acc) flat g) -> fs <> []).
  { induction flat as [|[k0 f0] flat IH]; intros g Hg k' fs' Hin; cbn [fold_left] in Hin; [exact (Hg _ _ Hin)|].
    apply (IH _ (sg_add_nonempty k0 f0 g Hg) _ _ Hin). }
  apply H. intros k' fs' [].
Qed.

(** ** the field node C01's CollectFields makes of a parsed field selection *)
Definition s_key (s : Syn.Ast.selection) : ExeA.ArgData.name :=
  match s with
  | Syn.Ast.SField (Some a) _ _ _ _ => Syn.Ast.id_name a
  | Syn.Ast.SField None n _ _ _ => Syn.Ast.id_name n
  | _ => []
  end.
Definition s_fname (s : Syn.Ast.selection) : ExeA.ArgData.name :=
  match s with Syn.Ast.SField _ n _ _ _ => Syn.Ast.id_name n | _ => [] end.
Definition s_sub (s : Syn.Ast.selection) : option Syn.Ast.selset :=
  match s with Syn.Ast.SField _ _ _ _ sub => sub | _ => None end.
Definition s_node (s : Syn.Ast.selection) : ExeA.ArgData.fnode :=
  {| ExeA.ArgData.fn_name := s_fname s; ExeA.ArgData.fn_pos := epos (Syn.Ast.selection_pos s);
     ExeA.ArgData.fn_sub := match s_sub s with Some ss => e_ss ss | None => [] end |}.
Definition is_sfield (s : Syn.Ast.selection) : bool :=
  match s with Syn.Ast.SField _ _ _ _ _ => true | _ => false end.

Lemma e_frags_in_cond d fr :
  In fr (e_frags d) ->
  exists kw n cond dirs sub, In (Syn.Ast.DFrag kw n cond dirs sub) d /\
    ExeA.ArgData.fr_name fr = Syn.Ast.id_name n /\ ExeA.ArgData.fr_cond fr = Syn.Ast.id_name cond /\
    ExeA.ArgData.fr_sels fr = e_ss sub.
Proof.
  unfold e_frags. intro H. apply in_flat_map in H as (x & Hx & Hf).
  destruct x as [ot n vars dirs sub|kw n cond dirs sub]; [destruct Hf|].
  destruct Hf as [<-|[]]. exists kw, n, cond, dirs, sub. auto.
Qed.

(** where a collected field node comes from: the field selection [o_s], written in the selection set
    [o_w] beneath scope [o_top] *)
Record orig := { o_top : Vld.TypeInfoModel.scope; o_w : Syn.Ast.selset; o_s : Syn.Ast.selection }.

Lemma list_choice {X Y} (P : X -> Y -> Prop) (l : list X) :
  (forall x, In x l -> exists y, P x y) -> exists l', Forall2 P l l'.
Proof.
  induction l as [|x l IH]; intro H; [exists []; constructor|].
  destruct (H x (or_introl eq_refl)) as (y & Hy). destruct (IH (fun x' h => H x' (or_intror h))) as (l' & Hl').
  exists (y :: l'). constructor; assumption.
Qed.
Lemma Forall2_in_r {X Y} (P : X -> Y -> Prop) l l' : Forall2 P l l' -> forall y, In y l' -> exists x, In x l /\ P x y.
Proof.
  induction 1 as [|x y l l' Hxy _ IH]; intros y0 Hy; [destruct Hy|].
  destruct Hy as [<-|Hy]; [exists x; split; [left; reflexivity|exact Hxy]|].
  destruct (IH y0 Hy) as (x0 & Hx0 & Hp). exists x0. split; [right; exact Hx0|exact Hp].
Qed.
Lemma nodup_keys_same {X} (m : list (Vld.Ast.name * X)) k l1 l2 :
  NoDup (map fst m) -> In (k, l1) m -> In (k, l2) m -> l1 = l2.
Proof.
  intros Hnd H1 H2. pose proof (vld_assoc_nodup m Hnd k l1 H1) as E1. pose proof (vld_assoc_nodup m Hnd k l2 H2) as E2. congruence.
Qed.

Section Bridge.
  Variables (VS : Vld.Ast.schema) (F : Vld.Ast.features) (ES : ExeA.ArgData.schema).
  Variable d : Syn.Ast.document.
  Variables (o : ExeA.ArgData.operation) (vv : list (ExeA.ArgData.name * Val.Values.gval)).
  Let D := ExeA.ArgData.doc_of (exe_of_syn d) o vv.
  Let E := ExeA.ArgArgs.env_of_vars vv.
  Notation A := (Vld.TypeInfoPure.pti_doc true VS F (vld_of_syn d)).
  Notation scope := Vld.TypeInfoModel.scope.
  Notation field_scope := (Vld.TypeInfoPure.field_scope VS F).
  Notation inline_scope := (Vld.TypeInfoPure.inline_scope VS F).
  Notation frag_scope := (Vld.TypeInfoPure.frag_scope VS F).

  (** *** reached for [ot] *)
  Section Reach.
    Variable ot : ExeA.ArgData.name.

    Inductive LR : scope -> Syn.Ast.selset -> scope -> Syn.Ast.selset -> Syn.Ast.selection -> Prop :=
    | LR_here top sels p c s :
        In s sels -> is_sfield s = true -> LR top (Syn.Ast.SelSet sels p c) top (Syn.Ast.SelSet sels p c) s
    | LR_inline top sels p c cond dirs isub e top' w s :
        In (Syn.Ast.SInline cond dirs isub e) sels ->
        match cond with Some c0 => ExeA.ArgSpec.s_applies ES ot (Syn.Ast.id_name c0) = true | None => True end ->
        LR (inline_scope top (option_map v_named cond)) isub top' w s ->
        LR top (Syn.Ast.SelSet sels p c) top' w s
    | LR_spread top sels p c n dirs e kw fn cond fdirs fsub top' w s :
        In (Syn.Ast.SSpread n dirs e) sels ->
        In (Syn.Ast.DFrag kw fn cond fdirs fsub) d -> Syn.Ast.id_name fn = Syn.Ast.id_name n ->
        ExeA.ArgSpec.s_applies ES ot (Syn.Ast.id_name cond) = true ->
        LR (frag_scope (v_named cond)) fsub top' w s ->
        LR top (Syn.Ast.SelSet sels p c) top' w s.

    Definition sels_of (ss : Syn.Ast.selset) : list Syn.Ast.selection := match ss with Syn.Ast.SelSet sels _ _ => sels end.

    Lemma collect_LR : forall fuel (tss : list (scope * Syn.Ast.selset)) l visited v flat,
      (forall s, In s l -> exists top ss, In (top, ss) tss /\ In s (sels_of ss)) ->
      ExeA.ArgSpec.s_collect_flat ES D E fuel ot (map e_sel l) visited = Some (v, flat) ->
      forall kf, In kf flat -> exists top ss top' w s, In (top, ss) tss /\ LR top ss top' w s /\ kf = (s_key s, s_node s).
    Proof.
      induction fuel as [fuel IHf] using lt_wf_ind.
      intros tss l. induction l as [|s r IHl]; intros visited v flat Hl Hc kf Hkf.
      - rewrite ExeA.ArgCollectProofs.s_collect_flat_eq in Hc. cbn [map] in Hc. inversion Hc; subst. destruct Hkf.
      - assert (Hr : forall s', In s' r -> exists top ss, In (top, ss) tss /\ In s' (sels_of ss)) by (intros s' Hs'; apply Hl; right; exact Hs').
        destruct (Hl s (or_introl eq_refl)) as (top & [sels p c] & Ht & Hs). cbn [sels_of] in Hs.
        cbn [map] in Hc. rewrite ExeA.ArgCollectProofs.s_collect_flat_eq in Hc. cbv zeta in Hc.
        destruct (ExeA.ArgSpec.s_excluded E (ExeA.ArgData.sel_dirs (e_sel s))); [exact (IHl _ _ _ Hr Hc kf Hkf)|].
        (* a sub-call followed by the rest *)
        assert (Hfrag : forall top1 isels p1 c1 visited1,
                   (forall top' w s0, LR top1 (Syn.Ast.SelSet isels p1 c1) top' w s0 -> LR top (Syn.Ast.SelSet sels p c) top' w s0) ->
                   match fuel with
                   | O => None
                   | S fuel' =>
                       match ExeA.ArgSpec.s_collect_flat ES D E fuel' ot (map e_sel isels) visited1 with
                       | Some (v1, l1) =>
                           match ExeA.ArgSpec.s_collect_flat ES D E fuel ot (map e_sel r) v1 with
                           | Some (v2, l2) => Some (v2, l1 ++ l2)
                           | None => None
                           end
                       | None => None
                       end
                   end = Some (v, flat) ->
                   exists top2 ss top' w s0, In (top2, ss) tss /\ LR top2 ss top' w s0 /\ kf = (s_key s0, s_node s0)).
        { intros top1 isels p1 c1 visited1 Hlift Hc1. destruct fuel as [|fuel']; [discriminate|].
          destruct (ExeA.ArgSpec.s_collect_flat ES D E fuel' ot (map e_sel isels) visited1) as [[v1 l1]|] eqn:E1; [|discriminate].
          destruct (ExeA.ArgSpec.s_collect_flat ES D E (S fuel') ot (map e_sel r) v1) as [[v2 l2]|] eqn:E2; [|discriminate].
          inversion Hc1; subst v flat. apply in_app_or in Hkf as [Hkf|Hkf].
          - destruct (IHf fuel' (Nat.lt_succ_diag_r _) [(top1, Syn.Ast.SelSet isels p1 c1)] isels visited1 v1 l1
                          (fun s0 h => ex_intro _ top1 (ex_intro _ (Syn.Ast.SelSet isels p1 c1) (conj (or_introl eq_refl) h))) E1 kf Hkf)
              as (top2 & ss2 & top' & w & s0 & [Heq|[]] & HLR & Hk).
            inversion Heq; subst top2 ss2.
            exists top, (Syn.Ast.SelSet sels p c), top', w, s0. split; [exact Ht|]. split; [exact (Hlift _ _ _ HLR)|exact Hk].
          - exact (IHl _ _ _ Hr E2 kf Hkf). }
        destruct s as [alias n args dirs sub|n dirs e|cond dirs [isels p1 c1] e]; cbn [e_sel] in Hc.
        + destruct (ExeA.ArgSpec.s_collect_flat ES D E fuel ot (map e_sel r) visited) as [[v2 l2]|] eqn:E2; [|discriminate].
          inversion Hc; subst v flat. destruct Hkf as [Hkf|Hkf]; [|exact (IHl _ _ _ Hr E2 kf Hkf)].
          exists top, (Syn.Ast.SelSet sels p c), top, (Syn.Ast.SelSet sels p c), (Syn.Ast.SField alias n args dirs sub).
          split; [exact Ht|]. split; [apply LR_here; [exact Hs|reflexivity]|].
          subst kf. destruct alias; reflexivity.
        + destruct (ExeA.ArgData.mem (Syn.Ast.id_name n) visited); [exact (IHl _ _ _ Hr Hc kf Hkf)|].
          destruct (ExeA.ArgSpec.s_fragment D (Syn.Ast.id_name n)) as [fr|] eqn:Ef; [|exact (IHl _ _ _ Hr Hc kf Hkf)].
          destruct (ExeA.ArgSpec.s_applies ES ot (ExeA.ArgData.fr_cond fr)) eqn:Ea; [|exact (IHl _ _ _ Hr Hc kf Hkf)].
          rewrite <- ExeA.ArgCollectProofs.find_frag_eq in Ef.
          pose proof (ExeA.ArgCollectProofs.find_frag_in _ _ _ Ef) as Hin.
          pose proof (ExeA.ArgFuelProofs.find_frag_name _ _ _ Ef) as Hname.
          unfold D in Hin. cbn [ExeA.ArgData.doc_of ExeA.ArgData.frags exe_of_syn ExeA.ArgData.r_frags] in Hin.
          destruct (e_frags_in_cond d fr Hin) as (kw & fn & cond & fdirs & [fsels fp fc] & Hd & Hn & Hcd & Hsl).
          rewrite Hsl in Hc. cbn [e_ss] in Hc. rewrite Hcd in Ea.
          apply (Hfrag (frag_scope (v_named cond)) fsels fp fc (Syn.Ast.id_name n :: visited)); [|exact Hc].
          intros top' w s0 HLR. eapply LR_spread; [exact Hs|exact Hd|congruence|exact Ea|exact HLR].
        + destruct cond as [c0|]; cbn [option_map] in Hc.
          * destruct (ExeA.ArgSpec.s_applies ES ot (Syn.Ast.id_name c0)) eqn:Ea; [|exact (IHl _ _ _ Hr Hc kf Hkf)].
            cbn [e_ss] in Hc.
            apply (Hfrag (inline_scope top (option_map v_named (Some c0))) isels p1 c1 visited); [|exact Hc].
            intros top' w s0 HLR. eapply LR_inline; [exact Hs|exact Ea|exact HLR].
          * cbn [e_ss] in Hc.
            apply (Hfrag (inline_scope top (option_map v_named None)) isels p1 c1 visited); [|exact Hc].
            intros top' w s0 HLR. eapply LR_inline; [exact Hs|exact I|exact HLR].
    Qed.
  End Reach.

  (** *** the selection sets of the document with their scopes *)
  Variables (ot0 : option Syn.Ast.optype) (n0 : option Syn.Ast.ident) (vars0 : list Syn.Ast.vardef)
            (dirs0 : list Syn.Ast.directive) (sub0 : Syn.Ast.selset).
  Hypothesis Hop : In (Syn.Ast.DOp ot0 n0 vars0 dirs0 sub0) d.
  Hypothesis Hosel : ExeA.ArgData.o_sels o = e_ss sub0.
  Definition v_ot : option (Vld.Ast.name * Vld.Ast.pos) :=
    option_map (fun x => (Syn.Ast.ot_value x, vpos (Syn.Ast.ot_pos x))) ot0.

  Inductive Sub : scope -> Syn.Ast.selset -> Prop :=
  | Sub_op : Sub (Vld.TypeInfoPure.op_scope VS v_ot) sub0
  | Sub_frag kw n cond dirs fsub : In (Syn.Ast.DFrag kw n cond dirs fsub) d -> Sub (frag_scope (v_named cond)) fsub
  | Sub_field top sels p c alias n args dirs fsub :
      Sub top (Syn.Ast.SelSet sels p c) -> In (Syn.Ast.SField alias n args dirs (Some fsub)) sels ->
      Sub (field_scope top (Syn.Ast.id_name n)) fsub
  | Sub_inline top sels p c cond dirs isub e :
      Sub top (Syn.Ast.SelSet sels p c) -> In (Syn.Ast.SInline cond dirs isub e) sels ->
      Sub (inline_scope top (option_map v_named cond)) isub.

  Definition ann (top : scope) (ss : Syn.Ast.selset) : Vld.Ast.selset := Vld.TypeInfoPure.pti_ss true VS F top (v_ss ss).

  Lemma ann_eq top sels p c :
    ann top (Syn.Ast.SelSet sels p c) = Vld.Ast.SelSet top (map (Vld.TypeInfoPure.pti_sel true VS F top) (map v_sel sels)) (vpos p).
  Proof. reflexivity. Qed.

  Lemma Sub_all_subs top ss : Sub top ss -> In (ann top ss) (Vld.ProofsTotal.all_subs A).
  Proof.
    induction 1 as [|kw n cond dirs fsub Hd|top sels p c alias n args dirs fsub _ IH Hs|top sels p c cond dirs isub e _ IH Hs].
    - unfold Vld.ProofsTotal.all_subs. apply in_flat_map.
      exists (Vld.TypeInfoPure.pti_def true VS F (v_def (Syn.Ast.DOp ot0 n0 vars0 dirs0 sub0))). split.
      + unfold Vld.TypeInfoPure.pti_doc, vld_of_syn. apply in_map, in_map. exact Hop.
      + cbn [v_def Vld.TypeInfoPure.pti_def Vld.Ast.def_sub]. apply Vld.ProofsTotal.subs_self.
    - unfold Vld.ProofsTotal.all_subs. apply in_flat_map.
      exists (Vld.TypeInfoPure.pti_def true VS F (v_def (Syn.Ast.DFrag kw n cond dirs fsub))). split.
      + unfold Vld.TypeInfoPure.pti_doc, vld_of_syn. apply in_map, in_map. exact Hd.
      + cbn [v_def Vld.TypeInfoPure.pti_def Vld.Ast.def_sub]. apply Vld.ProofsTotal.subs_self.
    - rewrite ann_eq in IH.
      apply (Vld.ProofsTotal.subs_closed A _ _ _ (Vld.TypeInfoPure.pti_sel true VS F top (v_sel (Syn.Ast.SField alias n args dirs (Some fsub)))) _ IH).
      + apply in_map, in_map. exact Hs.
      + reflexivity.
    - rewrite ann_eq in IH.
      apply (Vld.ProofsTotal.subs_closed A _ _ _ (Vld.TypeInfoPure.pti_sel true VS F top (v_sel (Syn.Ast.SInline cond dirs isub e))) _ IH).
      + apply in_map, in_map. exact Hs.
      + reflexivity.
  Qed.

  Lemma Sub_occurs top ss : Sub top ss -> Forall (ExeA.ArgCacheProofs.occurs D) (e_ss ss).
  Proof.
    induction 1 as [|kw n cond dirs fsub Hd|top sels p c alias n args dirs fsub _ IH Hs|top sels p c cond dirs isub e _ IH Hs].
    - rewrite <- Hosel. exact (ExeA.ArgCacheProofs.occurs_op D).
    - apply (ExeA.ArgCacheProofs.occurs_frag D {| ExeA.ArgData.fr_name := Syn.Ast.id_name n; ExeA.ArgData.fr_cond := Syn.Ast.id_name cond;
                                                  ExeA.ArgData.fr_sels := e_ss fsub |}).
      unfold D. cbn [ExeA.ArgData.doc_of ExeA.ArgData.frags exe_of_syn ExeA.ArgData.r_frags]. unfold e_frags.
      apply in_flat_map. eexists. split; [exact Hd|]. left. reflexivity.
    - cbn [e_ss] in IH. rewrite Forall_forall in IH.
      exact (ExeA.ArgCacheProofs.occurs_children D _ (IH _ (in_map e_sel _ _ Hs))).
    - cbn [e_ss] in IH. rewrite Forall_forall in IH.
      exact (ExeA.ArgCacheProofs.occurs_children D _ (IH _ (in_map e_sel _ _ Hs))).
  Qed.

  Lemma Sub_fields_ss top ss : Sub top ss ->
    forall x, In x (Vld.ValidSpec.fields_ss VS F top (v_ss ss)) -> In x (Vld.ValidSpec.all_fields VS F (vld_of_syn d)).
  Proof.
    induction 1 as [|kw n cond dirs fsub Hd|top sels p c alias n args dirs fsub _ IH Hs|top sels p c cond dirs isub e _ IH Hs]; intros x Hx.
    - unfold Vld.ValidSpec.all_fields. apply in_flat_map. exists (v_def (Syn.Ast.DOp ot0 n0 vars0 dirs0 sub0)).
      split; [unfold vld_of_syn; apply in_map; exact Hop|]. rewrite Vld.SpecEnum.spec_def_scope_eq. exact Hx.
    - unfold Vld.ValidSpec.all_fields. apply in_flat_map. exists (v_def (Syn.Ast.DFrag kw n cond dirs fsub)).
      split; [unfold vld_of_syn; apply in_map; exact Hd|]. rewrite Vld.SpecEnum.spec_def_scope_eq. exact Hx.
    - apply IH. cbn [v_ss]. rewrite Vld.SpecEnum.fields_ss_eq. apply in_flat_map.
      exists (v_sel (Syn.Ast.SField alias n args dirs (Some fsub))). split; [apply in_map; exact Hs|].
      cbn [v_sel Vld.ValidSpec.fields_sel]. right. rewrite Vld.SpecEnum.sub_scope_field. exact Hx.
    - apply IH. cbn [v_ss]. rewrite Vld.SpecEnum.fields_ss_eq. apply in_flat_map.
      exists (v_sel (Syn.Ast.SInline cond dirs isub e)). split; [apply in_map; exact Hs|].
      cbn [v_sel Vld.ValidSpec.fields_sel]. rewrite Vld.SpecEnum.sub_scope_inline. exact Hx.
  Qed.

  Lemma Sub_field_occ top sels p c s : Sub top (Syn.Ast.SelSet sels p c) -> In s sels -> is_sfield s = true ->
    In {| Vld.ValidSpec.fo_parent := top; Vld.ValidSpec.fo_field := v_sel s |} (Vld.ValidSpec.all_fields VS F (vld_of_syn d)).
  Proof.
    intros HS Hs Hf. apply (Sub_fields_ss _ _ HS). cbn [v_ss]. rewrite Vld.SpecEnum.fields_ss_eq. apply in_flat_map.
    exists (v_sel s). split; [apply in_map; exact Hs|].
    destruct s as [alias n args dirs sub| |]; try discriminate. cbn [v_sel Vld.ValidSpec.fields_sel]. left. reflexivity.
  Qed.

  (** *** what is reached for [ot] lies beneath scopes of which [ot] is a possible type, and the
      validator's addFieldSelections collects it *)
  Hypothesis Hagree : schemas_agree VS ES = true.
  Hypothesis Hnd : NoDup (Vld.Ast.frag_names (vld_of_syn d)).

  Definition scope_has (ot : ExeA.ArgData.name) (top : scope) : Prop :=
    exists P, top = Some P /\ In ot (Vld.ValidSpec.possible VS F P).

  Lemma frag_last_A kw fn cond fdirs fsub :
    In (Syn.Ast.DFrag kw fn cond fdirs fsub) d ->
    Vld.Ast.frag_last A (Syn.Ast.id_name fn) = Some (Vld.TypeInfoPure.pti_def true VS F (v_def (Syn.Ast.DFrag kw fn cond fdirs fsub))).
  Proof.
    intro Hd. rewrite Vld.ProofsSpecReach.frag_last_pti.
    assert (Hv : In (v_def (Syn.Ast.DFrag kw fn cond fdirs fsub)) (vld_of_syn d)) by (unfold vld_of_syn; apply in_map; exact Hd).
    cbn [v_def] in Hv. pose proof (frag_first_unique _ _ _ _ _ _ _ Hnd Hv) as Hf.
    rewrite (Vld.ProofsSpecReach.frag_first_last _ Hnd _ _ Hf). reflexivity.
  Qed.

  Lemma LR_facts ot top ss top' w s :
    LR ot top ss top' w s -> Sub top ss -> scope_has ot top ->
    Sub top' w /\ scope_has ot top' /\ In s (sels_of w) /\ is_sfield s = true /\
    InCw A (ann top ss) (ann top' w) (Vld.TypeInfoPure.pti_sel true VS F top' (v_sel s)).
  Proof.
    induction 1 as [top sels p c s Hs Hf|top sels p c cond dirs isub e top' w s Hs Happ _ IH
                    |top sels p c n dirs e kw fn cond fdirs fsub top' w s Hs Hd Hn Happ _ IH]; intros HS Hsc.
    - split; [exact HS|]. split; [exact Hsc|]. split; [exact Hs|]. split; [exact Hf|].
      rewrite ann_eq. apply InCw_here; [apply in_map, in_map; exact Hs|].
      destruct s; try discriminate. reflexivity.
    - assert (Hsc' : scope_has ot (inline_scope top (option_map v_named cond))).
      { destruct cond as [c0|]; [|exact Hsc]. cbn [option_map v_named Vld.TypeInfoPure.inline_scope].
        destruct (applies_possible VS F ES Hagree ot _ Happ) as ((b & Hb) & Hp). rewrite Hb.
        exists (Syn.Ast.id_name c0). auto. }
      destruct (IH (Sub_inline _ _ _ _ _ _ _ _ HS Hs) Hsc') as (H1 & H2 & H3 & H4 & H5).
      split; [exact H1|]. split; [exact H2|]. split; [exact H3|]. split; [exact H4|].
      rewrite ann_eq. eapply InCw_inline; [|exact H5].
      apply (in_map v_sel) in Hs. apply in_map with (f := Vld.TypeInfoPure.pti_sel true VS F top) in Hs. exact Hs.
    - assert (Hsc' : scope_has ot (frag_scope (v_named cond))).
      { unfold Vld.TypeInfoPure.frag_scope. cbn [v_named fst].
        destruct (applies_possible VS F ES Hagree ot _ Happ) as ((b & Hb) & Hp). rewrite Hb.
        exists (Syn.Ast.id_name cond). auto. }
      destruct (IH (Sub_frag _ _ _ _ _ Hd) Hsc') as (H1 & H2 & H3 & H4 & H5).
      split; [exact H1|]. split; [exact H2|]. split; [exact H3|]. split; [exact H4|].
      rewrite ann_eq.
      apply (InCw_spread A top _ (vpos p) (Syn.Ast.id_name n) (vpos (Syn.Ast.id_pos n)) (map (Vld.TypeInfoModel.ti_dir true VS) (map v_dir dirs)) (vpos e)
               (Vld.TypeInfoPure.pti_def true VS F (v_def (Syn.Ast.DFrag kw fn cond fdirs fsub)))).
      + apply (in_map v_sel) in Hs. apply in_map with (f := Vld.TypeInfoPure.pti_sel true VS F top) in Hs. exact Hs.
      + rewrite <- Hn. exact (frag_last_A _ _ _ _ _ Hd).
      + exact H5.
  Qed.

  (** *** the invariant *)
  Hypothesis Himpls : Vld.Hyps.schema_impls_ok VS = true.
  Hypothesis Hifaces : Vld.Hyps.schema_ifaces_ok VS = true.
  Hypothesis Hfd : Vld.Hyps.fields_defined VS F (vld_of_syn d) = true.
  Hypothesis Hwf : es_wf ES = true.
  Hypothesis Hsets : forall s1 s2, In s1 (Vld.ProofsTotal.all_subs A) -> In s2 (Vld.ProofsTotal.all_subs A) ->
                                   Vld.Ast.ss_pos s1 = Vld.Ast.ss_pos s2 -> s1 = s2.
  Hypothesis Hmerge : forall ss, In ss (Vld.ProofsTotal.all_subs A) ->
    exists m v, Vld.ValidatorModel.add_selections Vld.ValidatorModel.repaired A [] (Some ss) = Vld.ValidatorModel.COk m v /\
                Vld.ProofsMergeSound.MergeOK VS A m.

  Notation addsel := (Vld.ValidatorModel.add_selections Vld.ValidatorModel.repaired A).
  Definition pair_ok (a b : Vld.Ast.selset) : Prop :=
    exists m1 v1 m2 v2, addsel [] (Some a) = Vld.ValidatorModel.COk m1 v1 /\ addsel m1 (Some b) = Vld.ValidatorModel.COk m2 v2 /\
                        Vld.ProofsMergeSound.MergeOK VS A m2.
  Definition compat (a b : Vld.Ast.selset) : Prop := a = b \/ pair_ok a b \/ pair_ok b a.

  Definition Qv (ot : ExeA.ArgData.name) (sels : list ExeA.ArgData.selection) : Prop :=
    is_object ES ot = true /\
    exists tss : list (scope * Syn.Ast.selset),
      sels = flat_map (fun t => e_ss (snd t)) tss /\
      (forall t, In t tss -> Sub (fst t) (snd t) /\ scope_has ot (fst t)) /\
      (forall t1 t2, In t1 tss -> In t2 tss -> compat (ann (fst t1) (snd t1)) (ann (fst t2) (snd t2))).

  Lemma flat_map_e_ss (tss : list (scope * Syn.Ast.selset)) :
    flat_map (fun t => e_ss (snd t)) tss = map e_sel (flat_map (fun t => sels_of (snd t)) tss).
  Proof.
    induction tss as [|[top [sels p c]] r IH]; [reflexivity|]. cbn [flat_map snd e_ss sels_of]. rewrite map_app, IH. reflexivity.
  Qed.

  (** a collected node with its origin *)
  Definition origin (ot : ExeA.ArgData.name) (tss : list (scope * Syn.Ast.selset)) (key : ExeA.ArgData.name)
             (g : ExeA.ArgData.fnode) (og : orig) : Prop :=
    Sub (o_top og) (o_w og) /\ scope_has ot (o_top og) /\ In (o_s og) (sels_of (o_w og)) /\ is_sfield (o_s og) = true /\
    key = s_key (o_s og) /\ g = s_node (o_s og) /\
    exists top ss, In (top, ss) tss /\
                   InCw A (ann top ss) (ann (o_top og) (o_w og)) (Vld.TypeInfoPure.pti_sel true VS F (o_top og) (v_sel (o_s og))).

  Lemma collected_origin ot tss fuel visited v flat :
    (forall t, In t tss -> Sub (fst t) (snd t) /\ scope_has ot (fst t)) ->
    ExeA.ArgSpec.s_collect_flat ES D E fuel ot (flat_map (fun t => e_ss (snd t)) tss) visited = Some (v, flat) ->
    forall k g, In (k, g) flat -> exists og, origin ot tss k g og.
  Proof.
    intros Hall Hc k g Hin. rewrite flat_map_e_ss in Hc.
    assert (Hl : forall s, In s (flat_map (fun t : scope * Syn.Ast.selset => sels_of (snd t)) tss) -> exists top ss, In (top, ss) tss /\ In s (sels_of ss)).
    { intros s Hs. apply in_flat_map in Hs as ([top ss] & Ht & Hs). exists top, ss. auto. }
    destruct (collect_LR ot fuel tss _ visited v flat Hl Hc (k, g) Hin) as (top & ss & top' & w & s & Ht & HLR & Hk).
    destruct (Hall _ Ht) as (HS & Hsc). cbn [fst snd] in HS, Hsc.
    destruct (LR_facts ot top ss top' w s HLR HS Hsc) as (H1 & H2 & H3 & H4 & H5).
    inversion Hk; subst k g. exists {| o_top := top'; o_w := w; o_s := s |}. unfold origin. cbn [o_top o_w o_s].
    repeat (split; [assumption || reflexivity|]). exists top, ss. auto.
  Qed.

  (** the field a collected node selects is defined on the parent type of its selection set *)
  Lemma origin_defined ot tss k g og : origin ot tss k g og ->
    exists P, o_top og = Some P /\ In ot (Vld.ValidSpec.possible VS F P) /\
              Vld.ValidSpec.field_def_of VS F P (s_fname (o_s og)) <> None.
  Proof.
    intros (HS & (P & HP & Hposs) & Hs & Hf & _). exists P. split; [exact HP|]. split; [exact Hposs|].
    destruct (o_w og) as [sels p c] eqn:Ew. cbn [sels_of] in Hs.
    pose proof (Sub_field_occ _ _ _ _ _ HS Hs Hf) as Hocc.
    pose proof (Vld.ValidatorProofs.fields_defined_spec VS F _ Hfd _ Hocc) as Hdef.
    unfold Vld.ValidSpec.fo_def in Hdef. cbn [Vld.ValidSpec.fo_parent Vld.ValidSpec.fo_field] in Hdef. rewrite HP in Hdef.
    destruct (o_s og) as [alias n args dirs sub| |]; try discriminate. exact Hdef.
  Qed.

  Lemma typename_same : Vld.ValidSpec.s_typename = ExeA.ArgData.n_typename. Proof. reflexivity. Qed.

  Lemma kind_of_defined ot n :
    is_object ES ot = true -> Vld.ValidSpec.field_def_of VS F ot n <> None ->
    match ExeA.ArgSpec.s_field_kind ES ot n with
    | ExeA.ArgSpec.SFTypename | ExeA.ArgSpec.SFMeta => True
    | ExeA.ArgSpec.SFUndefined => False
    | ExeA.ArgSpec.SFType t =>
        match ExeA.ArgData.lookup_type ES (ExeA.ArgSpec.sty_base t) with Some ExeA.ArgData.NInput | None => False | _ => True end
    end.
  Proof.
    intros Hobj Hdef. unfold ExeA.ArgSpec.s_field_kind. unfold Vld.ValidSpec.field_def_of in Hdef. rewrite typename_same in Hdef.
    change Vld.Ast.name_eqb with ExeA.ArgData.name_eqb in Hdef.
    destruct (ExeA.ArgData.name_eqb n ExeA.ArgData.n_typename); [exact I|].
    unfold is_object in Hobj. destruct (ExeA.ArgData.lookup_type ES ot) as [[| |fs ifs| | |]|] eqn:El; try discriminate.
    destruct (Vld.ValidSpec.declared_field_of VS F ot n) as [fd|] eqn:Ed; [|congruence].
    destruct (declared_on_object VS F ES Hagree ot fs ifs n fd El Ed) as [(t & Ht & _)|(Hn & Hq & Hm)].
    - rewrite Ht. exact (es_output ES Hwf ot fs ifs n t El Ht).
    - rewrite Hn. subst ot. unfold ExeA.ArgData.name_eqb at 1. rewrite bytes_eqb_refl. cbn [andb].
      destruct Hm as [->| ->]; reflexivity.
  Qed.

  Theorem Qv_fields_defined : fields_defined_on ES D E Qv.
  Proof.
    intros ot sels (Hobj & tss & Hsels & Hall & Hpair).
    assert (Hocc : Forall (ExeA.ArgCacheProofs.occurs D) sels).
    { subst sels. apply Forall_forall. intros x Hx. apply in_flat_map in Hx as (t & Ht & Hx).
      destruct (Hall t Ht) as (HS & _). pose proof (Sub_occurs _ _ HS) as Ho. rewrite Forall_forall in Ho. exact (Ho x Hx). }
    destruct (ExeA.ArgSpec.s_collect_flat ES D E (ExeA.ArgModel.default_fuel D) ot sels []) as [[v flat]|] eqn:Ec;
      [|exfalso; exact (ExeA.ArgFuelProofs.collect_fuel_sufficient_occurs ES D E ot sels [] Hocc Ec)].
    exists (ExeA.ArgSpec.s_group flat). split; [unfold ExeA.ArgSpec.s_collect; rewrite Ec; reflexivity|].
    apply Forall_forall. intros [k fs] Hin. unfold group_defined. cbn [snd].
    destruct fs as [|f more]; [exact (s_group_nonempty flat k [] Hin eq_refl)|].
    pose proof (s_group_in_key flat k (f :: more) f Hin (or_introl eq_refl)) as Hkf.
    subst sels. destruct (collected_origin ot tss _ _ _ _ Hall Ec k f Hkf) as (og & Hog).
    destruct (origin_defined _ _ _ _ _ Hog) as (P & HP & Hposs & Hdef).
    destruct Hog as (_ & _ & _ & _ & _ & Hg & _). subst f. cbn [s_node ExeA.ArgData.fn_name].
    destruct (Vld.ValidSpec.field_def_of VS F P (s_fname (o_s og))) as [fd|] eqn:Efd; [|congruence].
    pose proof (Vld.ProofsPossibleFields.defined_on_possible VS F Himpls Hifaces P _ fd Efd ot Hposs) as Hot.
    pose proof (kind_of_defined ot _ Hobj Hot) as Hk.
    destruct (ExeA.ArgSpec.s_field_kind ES ot (s_fname (o_s og))) as [| |t|]; exact Hk.
  Qed.

  (** *** merge soundness across the bridge *)
  Lemma overlap_possible ot P1 P2 :
    In ot (Vld.ValidSpec.possible VS F P1) -> In ot (Vld.ValidSpec.possible VS F P2) ->
    Vld.ProofsMergeSound.may_overlap VS P1 P2 = true.
  Proof.
    unfold Vld.ProofsMergeSound.may_overlap, Vld.ValidatorModel.is_object_name, Vld.ValidSpec.possible, Vld.ValidSpec.parent_body.
    intros H1 H2.
    destruct (Vld.Ast.raw_body VS P1) as [[| | |fs1 is1| |]|]; cbn [negb orb]; try (rewrite orb_true_r; reflexivity).
    destruct (Vld.Ast.raw_body VS P2) as [[| | |fs2 is2| |]|]; cbn [negb orb]; try (rewrite orb_true_r; reflexivity).
    destruct H1 as [<-|[]]. destruct H2 as [<-|[]]. unfold Vld.Ast.name_eqb. rewrite bytes_eqb_refl. reflexivity.
  Qed.

  Lemma add_keys_nodup m ss m' v : In ss (Vld.ProofsTotal.all_subs A) -> addsel m (Some ss) = Vld.ValidatorModel.COk m' v ->
    NoDup (Vld.ProofsCollect.keys m) -> NoDup (Vld.ProofsCollect.keys m').
  Proof.
    intros Hin H. exact (proj1 (proj2 (proj2 (proj2 (Vld.ProofsCollect.collect_facts A Hsets _ m [] ss m' v Hin H))))).
  Qed.

  (** one merge-checked map that holds the collected fields of both selection sets *)
  Lemma get_map a1 a2 :
    In a1 (Vld.ProofsTotal.all_subs A) -> In a2 (Vld.ProofsTotal.all_subs A) -> compat a1 a2 ->
    exists M, Vld.ProofsMergeSound.MergeOK VS A M /\ NoDup (Vld.ProofsCollect.keys M) /\
              (forall w f, InCw A a1 w f -> has_entry M f (Vld.Ast.ss_ann w) (Vld.Ast.ss_pos w)) /\
              (forall w f, InCw A a2 w f -> has_entry M f (Vld.Ast.ss_ann w) (Vld.Ast.ss_pos w)).
  Proof.
    intros H1 H2 [Heq|[Hp|Hp]].
    - subst a2. destruct (Hmerge a1 H1) as (m & v & Hadd & HM). exists m. split; [exact HM|].
      split; [exact (add_keys_nodup [] a1 m v H1 Hadd (NoDup_nil _))|].
      destruct (add_selections_entries A Hsets [] a1 m v H1 Hadd) as (_ & Hent). split; exact Hent.
    - destruct Hp as (m1 & v1 & m2 & v2 & Ha1 & Ha2 & HM). exists m2. split; [exact HM|].
      split; [exact (add_keys_nodup m1 a2 m2 v2 H2 Ha2 (add_keys_nodup [] a1 m1 v1 H1 Ha1 (NoDup_nil _)))|].
      destruct (add_selections_entries A Hsets [] a1 m1 v1 H1 Ha1) as (_ & Hent1).
      destruct (add_selections_entries A Hsets m1 a2 m2 v2 H2 Ha2) as (Hinc & Hent2).
      split; [intros w f Hw; exact (has_entry_mono _ _ _ _ _ Hinc (Hent1 w f Hw))|exact Hent2].
    - destruct Hp as (m1 & v1 & m2 & v2 & Ha1 & Ha2 & HM). exists m2. split; [exact HM|].
      split; [exact (add_keys_nodup m1 a1 m2 v2 H1 Ha2 (add_keys_nodup [] a2 m1 v1 H2 Ha1 (NoDup_nil _)))|].
      destruct (add_selections_entries A Hsets [] a2 m1 v1 H2 Ha1) as (_ & Hent1).
      destruct (add_selections_entries A Hsets m1 a1 m2 v2 H1 Ha2) as (Hinc & Hent2).
      split; [exact Hent2|intros w f Hw; exact (has_entry_mono _ _ _ _ _ Hinc (Hent1 w f Hw))].
  Qed.

  Lemma ann_field_facts top s : is_sfield s = true ->
    Vld.ValidatorModel.response_name (Vld.TypeInfoPure.pti_sel true VS F top (v_sel s)) = s_key s /\
    Vld.ValidatorModel.sel_name (Vld.TypeInfoPure.pti_sel true VS F top (v_sel s)) = s_fname s /\
    Vld.ValidatorModel.sel_sub (Vld.TypeInfoPure.pti_sel true VS F top (v_sel s)) =
      match s_sub s with Some fsub => Some (ann (field_scope top (s_fname s)) fsub) | None => None end.
  Proof.
    destruct s as [[a|] n args dirs [fsub|]| |]; try discriminate; intros _; repeat split; reflexivity.
  Qed.
  Lemma ann_ss_ann top w : Vld.Ast.ss_ann (ann top w) = top. Proof. destruct w; reflexivity. Qed.

  Lemma core ot tss key g1 g2 og1 og2 :
    (forall t1 t2, In t1 tss -> In t2 tss -> compat (ann (fst t1) (snd t1)) (ann (fst t2) (snd t2))) ->
    (forall t, In t tss -> Sub (fst t) (snd t) /\ scope_has ot (fst t)) ->
    origin ot tss key g1 og1 -> origin ot tss key g2 og2 ->
    s_fname (o_s og1) = s_fname (o_s og2) /\
    forall fsub1 fsub2, s_sub (o_s og1) = Some fsub1 -> s_sub (o_s og2) = Some fsub2 ->
      compat (ann (field_scope (o_top og1) (s_fname (o_s og1))) fsub1) (ann (field_scope (o_top og2) (s_fname (o_s og2))) fsub2).
  Proof.
    intros Hpair Hall (HS1 & (P1 & HP1 & Hposs1) & Hs1 & Hf1 & Hk1 & _ & top1 & ss1 & Ht1 & Hw1)
           (HS2 & (P2 & HP2 & Hposs2) & Hs2 & Hf2 & Hk2 & _ & top2 & ss2 & Ht2 & Hw2).
    destruct (Hall _ Ht1) as (HSa1 & _). destruct (Hall _ Ht2) as (HSa2 & _). cbn [fst snd] in HSa1, HSa2.
    destruct (get_map _ _ (Sub_all_subs _ _ HSa1) (Sub_all_subs _ _ HSa2) (Hpair _ _ Ht1 Ht2)) as (M & HM & Hnd' & He1 & He2).
    destruct (He1 _ _ Hw1) as (l1 & Hl1 & Hx1). destruct (He2 _ _ Hw2) as (l2 & Hl2 & Hx2).
    destruct (ann_field_facts (o_top og1) (o_s og1) Hf1) as (Hr1 & Hn1 & Hsub1).
    destruct (ann_field_facts (o_top og2) (o_s og2) Hf2) as (Hr2 & Hn2 & Hsub2).
    rewrite Hr1, <- Hk1 in Hl1. rewrite Hr2, <- Hk2 in Hl2.
    assert (l2 = l1) by exact (nodup_keys_same M key l2 l1 Hnd' Hl2 Hl1). subst l2.
    rewrite !ann_ss_ann in Hx1, Hx2.
    pose proof (Vld.ProofsMergeSound.merge_ok_unfold VS A M HM key l1 Hl1) as Hfop.
    destruct (FOP_in _ _ Hfop _ _ Hx1 Hx2) as [Heq|[HR|HR]].
    - injection Heq as Hfa Htop Hpos. split.
      + rewrite <- Hn1, <- Hn2, Hfa. reflexivity.
      + intros fsub1 fsub2 E1 E2. left. rewrite E1 in Hsub1. rewrite E2 in Hsub2. rewrite Hfa in Hsub1. rewrite Hsub2 in Hsub1.
        injection Hsub1 as Hsub1. symmetry. exact Hsub1.
    - destruct HR as (_ & pa & pb & Hpa & Hpb & Himp). cbn [fst snd] in Hpa, Hpb. rewrite HP1 in Hpa. rewrite HP2 in Hpb.
      inversion Hpa; subst pa. inversion Hpb; subst pb.
      destruct (Himp (overlap_possible ot P1 P2 Hposs1 Hposs2)) as (Hname & _ & m1 & v1 & m2 & v2 & Ha1 & Ha2 & HM2).
      unfold Vld.ValidatorModel.fst3 in *. cbn [fst] in Hname, Ha1, Ha2. rewrite Hn1, Hn2 in Hname. apply bytes_eqb_eq in Hname.
      split; [exact Hname|]. intros fsub1 fsub2 E1 E2. rewrite Hsub1, E1 in Ha1. rewrite Hsub2, E2 in Ha2.
      right. left. exists m1, v1, m2, v2. auto.
    - destruct HR as (_ & pa & pb & Hpa & Hpb & Himp). cbn [fst snd] in Hpa, Hpb. rewrite HP2 in Hpa. rewrite HP1 in Hpb.
      inversion Hpa; subst pa. inversion Hpb; subst pb.
      destruct (Himp (overlap_possible ot P2 P1 Hposs2 Hposs1)) as (Hname & _ & m1 & v1 & m2 & v2 & Ha1 & Ha2 & HM2).
      unfold Vld.ValidatorModel.fst3 in *. cbn [fst] in Hname, Ha1, Ha2. rewrite Hn1, Hn2 in Hname. apply bytes_eqb_eq in Hname.
      split; [symmetry; exact Hname|]. intros fsub1 fsub2 E1 E2. rewrite Hsub2, E2 in Ha1. rewrite Hsub1, E1 in Ha2.
      right. right. exists m1, v1, m2, v2. auto.
  Qed.

  (** the possible object types of the field's type, seen from the parent type of the selection set
      the field is written in: covariance of implementing fields *)
  Lemma sub_scope_possible ot fs ifs P n fd t ot' :
    ExeA.ArgData.lookup_type ES ot = Some (ExeA.ArgData.NObject fs ifs) ->
    In ot (Vld.ValidSpec.possible VS F P) ->
    Vld.ValidSpec.declared_field_of VS F P n = Some fd ->
    ExeA.ArgData.assoc n fs = Some t ->
    In ot' (ExeA.ArgSpec.s_possible ES (ExeA.ArgSpec.sty_base t)) ->
    In ot' (Vld.ValidSpec.possible VS F (Vld.Ast.unwrapped (Vld.Ast.f_type fd))).
  Proof.
    intros El Hposs Hd Ht Hot'.
    destruct (agree_object VS ES Hagree ot fs ifs (lookup_in ES _ _ El)) as (dv & vfs & Hr & Hreq & Hbody & Hfa).
    unfold Vld.ValidSpec.possible, Vld.ValidSpec.parent_body in Hposs.
    unfold Vld.ValidSpec.declared_field_of, Vld.ValidSpec.parent_body in Hd.
    destruct (Vld.Ast.raw_body VS P) as [[| | |pfs pis|pfs|]|] eqn:EP; try discriminate; try solve [destruct Hposs].
    - (* the parent is the object type itself *)
      destruct Hposs as [HPo|[]]. subst P.
      assert (Hd' : Vld.ValidSpec.declared_field_of VS F ot n = Some fd).
      { unfold Vld.ValidSpec.declared_field_of, Vld.ValidSpec.parent_body. rewrite EP. exact Hd. }
      destruct (declared_on_object VS F ES Hagree ot fs ifs n fd El Hd') as [(t' & Ht' & Hty)|(Hn & _)]; [|congruence].
      rewrite Ht in Ht'. inversion Ht'; subst t'. rewrite (sty_agree_base _ _ Hty).
      exact (s_possible_possible VS F ES Hagree _ _ Hot').
    - (* the parent is an interface the object type declares *)
      apply in_flat_map in Hposs as ([x dvx] & Hx & Hin). cbn [snd fst] in Hin.
      destruct (Vld.Ast.t_body dvx) as [| | |xfs xis| |] eqn:Ebx; try solve [destruct Hin].
      destruct (Vld.Ast.mem P xis && Vld.Ast.subset (Vld.Ast.t_req dvx) F) eqn:Em; [|destruct Hin].
      destruct Hin as [Hxo|[]]. subst x. apply andb_true_iff in Em as [Em _].
      assert (Hnames : NoDup (map fst (Vld.Ast.s_types VS))).
      { unfold Vld.Hyps.schema_impls_ok in Himpls. apply andb_true_iff in Himpls as [Hn _].
        exact (proj1 (Vld.ProofsCommon.nodupb_NoDup _) Hn). }
      pose proof (vld_assoc_nodup _ Hnames _ _ Hx) as Hr'. unfold Vld.Ast.raw_type in Hr. rewrite Hr in Hr'. inversion Hr'; subst dvx.
      rewrite Hbody in Ebx. inversion Ebx; subst xfs xis.
      rewrite <- mem_agree in Em.
      destruct (es_covariant ES Hwf ot fs ifs P El Em) as (eifs & ElP & Hcov).
      destruct (agree_interface VS ES Hagree P eifs (lookup_in ES _ _ ElP)) as (dvP & vifs & HrP & _ & HbP & Hia).
      unfold Vld.Ast.raw_body in EP. rewrite HrP, HbP in EP. inversion EP; subst pfs.
      pose proof (get_field_assoc F _ _ _ Hd) as Hafd.
      destruct (iface_agree_bwd _ _ _ _ Hia Hafd) as (ti & Hti).
      destruct (iface_agree_fwd _ _ _ _ Hia Hti) as (fd' & Hfd' & Hty & _). rewrite Hafd in Hfd'. inversion Hfd'; subst fd'.
      destruct (Hcov n ti Hti) as (t' & Ht' & Hincl). rewrite Ht in Ht'. inversion Ht'; subst t'.
      rewrite (sty_agree_base _ _ Hty). exact (s_possible_possible VS F ES Hagree _ _ (Hincl _ Hot')).
  Qed.

  Theorem Qv_merge_sound : merge_sound ES D E Qv.
  Proof.
    intros ot sels groups kf f more t (Hobj & tss & Hsels & Hall & Hpair) Hc Hin Ek Ef.
    assert (Hgoal : forall ot', In ot' (ExeA.ArgSpec.s_possible ES (ExeA.ArgSpec.sty_base t)) ->
                                Qv ot' (ExeA.ArgSpec.s_merge_selection_sets (snd kf))).
    2:{ destruct (ExeA.ArgData.lookup_type ES (ExeA.ArgSpec.sty_base t)) as [[| | | | |]|]; try exact I; exact Hgoal. }
    intros ot' Hot'. split; [exact (es_possible_object ES Hwf _ _ Hot')|].
    unfold ExeA.ArgSpec.s_collect in Hc.
    destruct (ExeA.ArgSpec.s_collect_flat ES D E (ExeA.ArgModel.default_fuel D) ot sels []) as [[v flat]|] eqn:Ec; [|discriminate].
    inversion Hc; subst groups. clear Hc. destruct kf as [key gs]. cbn [snd] in *. subst sels.
    (* the origins of the nodes of the group *)
    destruct (list_choice (fun g og => origin ot tss key g og) gs) as (ogs & Hogs).
    { intros g Hg. exact (collected_origin ot tss _ _ _ _ Hall Ec key g (s_group_in_key flat key gs g Hin Hg)). }
    (* the first node determines the field *)
    rewrite Ek in Hogs. inversion Hogs as [|f' ogf more' ogs' Hogf Hmore]; subst f' more' ogs. rewrite <- Ek in *.
    assert (Hff : ExeA.ArgData.fn_name f = s_fname (o_s ogf)).
    { destruct Hogf as (_ & _ & _ & _ & _ & Hg & _). rewrite Hg. reflexivity. }
    unfold is_object in Hobj. destruct (ExeA.ArgData.lookup_type ES ot) as [[| |fs ifs| | |]|] eqn:El; try discriminate.
    assert (Hkind : ExeA.ArgData.name_eqb (ExeA.ArgData.fn_name f) ExeA.ArgData.n_typename = false /\ ExeA.ArgData.assoc (ExeA.ArgData.fn_name f) fs = Some t).
    { unfold ExeA.ArgSpec.s_field_kind in Ef. rewrite El in Ef.
      destruct (ExeA.ArgData.name_eqb (ExeA.ArgData.fn_name f) ExeA.ArgData.n_typename); [discriminate|]. split; [reflexivity|].
      destruct (ExeA.ArgData.assoc (ExeA.ArgData.fn_name f) fs) as [t0|]; [inversion Ef; reflexivity|].
      destruct (ExeA.ArgData.name_eqb ot (ExeA.ArgData.query ES) && _); discriminate. }
    destruct Hkind as (Hnt & Hat).
    assert (Hall_ogs : forall og, In og (ogf :: ogs') -> exists g, In g gs /\ origin ot tss key g og).
    { intros og Hog. rewrite Ek. exact (Forall2_in_r _ _ _ (Forall2_cons _ _ Hogf Hmore) og Hog). }
    set (sub_of_og := fun og : orig => match s_sub (o_s og) with
                                       | Some fsub => [(field_scope (o_top og) (s_fname (o_s og)), fsub)]
                                       | None => []
                                       end).
    exists (flat_map sub_of_og (ogf :: ogs')). split; [|split].
    - (* the merged selections *)
      unfold ExeA.ArgSpec.s_merge_selection_sets. rewrite Ek.
      assert (Hgen : forall gs0 ogs0, Forall2 (fun g og => origin ot tss key g og) gs0 ogs0 ->
                       flat_map ExeA.ArgData.fn_sub gs0 = flat_map (fun t0 : scope * Syn.Ast.selset => e_ss (snd t0)) (flat_map sub_of_og ogs0)).
      { induction 1 as [|g og gs0 ogs0 Hg _ IH]; [reflexivity|]. cbn [flat_map]. rewrite flat_map_app, <- IH. f_equal.
        destruct Hg as (_ & _ & _ & _ & _ & Hg & _). rewrite Hg. unfold sub_of_og. cbn [s_node ExeA.ArgData.fn_sub].
        destruct (s_sub (o_s og)); [cbn [flat_map snd]; rewrite app_nil_r; reflexivity|reflexivity]. }
      exact (Hgen _ _ (Forall2_cons _ _ Hogf Hmore)).
    - (* every merged set lies beneath a scope of which [ot'] is a possible type *)
      intros t0 Ht0. apply in_flat_map in Ht0 as (og & Hog & Ht0). destruct (Hall_ogs og Hog) as (g & Hg & Horig).
      unfold sub_of_og in Ht0. destruct (s_sub (o_s og)) as [fsub|] eqn:Esub; [|destruct Ht0]. destruct Ht0 as [<-|[]]. cbn [fst snd].
      destruct (core ot tss key g f og ogf Hpair Hall Horig Hogf) as (Hname & _).
      destruct (origin_defined _ _ _ _ _ Horig) as (P & HP & Hposs & Hdef).
      destruct Horig as (HS & _ & Hs & Hf & _).
      split.
      + destruct (o_w og) as [wsels wp wc] eqn:Ew. cbn [sels_of] in Hs.
        destruct (o_s og) as [alias n args dirs sub| |] eqn:Es; try discriminate. cbn [s_sub] in Esub. subst sub. cbn [s_fname].
        exact (Sub_field _ _ _ _ _ _ _ _ _ HS Hs).
      + rewrite Hname, <- Hff. rewrite Hname, <- Hff in Hdef. rewrite HP.
        unfold Vld.ValidSpec.field_def_of in Hdef. rewrite typename_same in Hdef. change Vld.Ast.name_eqb with ExeA.ArgData.name_eqb in Hdef.
        rewrite Hnt in Hdef. destruct (Vld.ValidSpec.declared_field_of VS F P (ExeA.ArgData.fn_name f)) as [fd|] eqn:Ed; [|congruence].
        unfold Vld.TypeInfoPure.field_scope. rewrite <- Vld.SpecEnum.declared_field_eq, Ed.
        exists (Vld.Ast.unwrapped (Vld.Ast.f_type fd)). split; [reflexivity|].
        exact (sub_scope_possible ot fs ifs P _ fd t ot' El Hposs Ed Hat Hot').
    - (* pairwise merge-checked *)
      intros t1 t2 Ht1 Ht2. apply in_flat_map in Ht1 as (og1 & Hog1 & Ht1). apply in_flat_map in Ht2 as (og2 & Hog2 & Ht2).
      destruct (Hall_ogs og1 Hog1) as (g1 & _ & Ho1). destruct (Hall_ogs og2 Hog2) as (g2 & _ & Ho2).
      unfold sub_of_og in Ht1, Ht2.
      destruct (s_sub (o_s og1)) as [fsub1|] eqn:E1; [|destruct Ht1]. destruct (s_sub (o_s og2)) as [fsub2|] eqn:E2; [|destruct Ht2].
      destruct Ht1 as [<-|[]]. destruct Ht2 as [<-|[]]. cbn [fst snd].
      destruct (core ot tss key g1 g2 og1 og2 Hpair Hall Ho1 Ho2) as (_ & Hc). exact (Hc fsub1 fsub2 E1 E2).
  Qed.

  (** *** the root selections *)
  Lemma opt_names_agree_eq a b x y : opt_names_agree a b = true -> a = Some x -> b = Some y -> x = y.
  Proof. intros H -> ->. cbn in H. apply bytes_eqb_eq in H. exact H. Qed.

  Lemma root_scope_agrees r rt :
    Vld.ValidSpec.root_type VS v_ot = Some r -> ExeA.ArgSpec.s_root_type ES (e_kind ot0) = Some rt -> r = rt.
  Proof.
    unfold v_ot, e_kind. destruct ot0 as [o'|]; cbn [option_map Vld.ValidSpec.root_type ExeA.ArgSpec.s_root_type].
    - destruct (bytes_eqb (Syn.Ast.ot_value o') Syn.Ast.b_mutation) eqn:Em.
      + apply bytes_eqb_eq in Em. rewrite Em. cbn. intros Hr Hrt.
        exact (opt_names_agree_eq _ _ _ _ (agree_mutation VS ES Hagree) Hr Hrt).
      + destruct (bytes_eqb (Syn.Ast.ot_value o') Syn.Ast.b_subscription) eqn:Es.
        * apply bytes_eqb_eq in Es. rewrite Es. cbn. intros Hr Hrt.
          exact (opt_names_agree_eq _ _ _ _ (agree_subscription VS ES Hagree) Hr Hrt).
        * change (Vld.Ast.name_eqb (Syn.Ast.ot_value o') Vld.ValidSpec.s_mutation_kw) with (bytes_eqb (Syn.Ast.ot_value o') Syn.Ast.b_mutation).
          change (Vld.Ast.name_eqb (Syn.Ast.ot_value o') Vld.ValidSpec.s_subscription_kw) with (bytes_eqb (Syn.Ast.ot_value o') Syn.Ast.b_subscription).
          rewrite Em, Es. cbn [ExeA.ArgSpec.s_root_type].
          destruct (Vld.Ast.name_eqb (Syn.Ast.ot_value o') Vld.ValidSpec.s_query_kw); [|discriminate].
          intros Hr Hrt. inversion Hr. inversion Hrt. apply (agree_query VS ES Hagree).
    - intros Hr Hrt. inversion Hr. inversion Hrt. apply (agree_query VS ES Hagree).
  Qed.

  Lemma object_possible_self x : is_object ES x = true -> In x (Vld.ValidSpec.possible VS F x).
  Proof.
    unfold is_object. destruct (ExeA.ArgData.lookup_type ES x) as [[| |fs ifs| | |]|] eqn:El; try discriminate. intros _.
    destruct (agree_object VS ES Hagree x fs ifs (lookup_in ES _ _ El)) as (dv & vfs & Hr & _ & Hbody & _).
    unfold Vld.ValidSpec.possible, Vld.ValidSpec.parent_body, Vld.Ast.raw_body. rewrite Hr, Hbody. left. reflexivity.
  Qed.

  Theorem Qv_root r rt :
    Vld.ValidSpec.root_type VS v_ot = Some r -> ExeA.ArgSpec.s_root_type ES (e_kind ot0) = Some rt ->
    Qv rt (e_ss sub0).
  Proof.
    intros Hr Hrt. pose proof (root_scope_agrees r rt Hr Hrt) as Heq. subst r.
    assert (Hobj : is_object ES rt = true).
    { destruct (e_kind ot0); cbn [ExeA.ArgSpec.s_root_type] in Hrt.
      - inversion Hrt. apply (es_query_object ES Hwf).
      - exact (es_mutation_object ES Hwf rt Hrt).
      - exact (es_subscription_object ES Hwf rt Hrt). }
    split; [exact Hobj|]. exists [(Vld.TypeInfoPure.op_scope VS v_ot, sub0)]. split; [|split].
    - cbn [flat_map snd]. rewrite app_nil_r. reflexivity.
    - intros t [<-|[]]. cbn [fst snd]. split; [exact Sub_op|].
      exists rt. split; [|exact (object_possible_self rt Hobj)].
      pose proof (Vld.SpecEnum.spec_def_scope_eq VS F (Vld.Ast.DOp v_ot None [] [] (Vld.Ast.SelSet None [] (0, 0)%N))) as Hs.
      cbn [Vld.ValidSpec.def_scope Vld.Enumerate.model_def_scope] in Hs. rewrite <- Hs. exact Hr.
    - intros t1 t2 [<-|[]] [<-|[]]. left. reflexivity.
  Qed.
End Bridge.
