(** * Pipe/SubscribeCompose.v — C03: graphql.Subscribe inside the composition.  No proofs in this file.

    graphql.Subscribe(r) (graphql.go:336-354) = ParseAndValidate, then executor.Subscribe
    (executor.go:61-69, 152-199):

      newExecutor: GetOperation, coerceVariableValues          [ArgModel.get_operation], [coerce_request_vars]
      the operation must be a subscription                     [SubError] otherwise
      SubscriptionType() must be an object type                [SubError]
      collectFields(subscriptionType, root selections)         [ArgModel.collect_impl] (first call: the memo is empty)
      exactly one response key                                 [SubError] otherwise
      GetField(first field node's name)                        [SubError] when undefined (no meta-fields here)
      coerceArgumentValues                                     [ArgArgs.coerce_field_args]: [SubError] / panic
      fieldDef.Resolve(FieldContext{Object: InitialValue,      the entry of the root value [W] under
                       Arguments, IsSubscribe: true})          [field_key name args]: an error -> [SubError]
                                                               with path [key]; a value -> [SubSource]

    The event stream itself is the application's; the execution of ONE event is graphql.Execute on
    the same document with the event as InitialValue: [Compose.pipeline_order] (the executor model's
    [run] takes the subscription root type for an operation of kind subscription). *)
From Coq Require Import List NArith ZArith Bool.
From ApiFu Require Import Base.Sexp.
From ApiFu Require Syn.Ast Vld.Ast Vld.ValidatorModel.
From ApiFu Require Val.Values ExeA.ArgData ExeA.ArgArgs ExeA.ArgModel.
From ApiFu Require Import Pipe.Convert Pipe.Compose.
Import ListNotations.

Inductive sub_result :=
| SubSyntax (e : Syn.Ast.pos) (es : list Syn.Ast.pos)
| SubInvalid (e : Vld.Ast.verror) (es : list Vld.Ast.verror)
| SubError (path : ExeA.ArgData.rpath)          (* nil, one error *)
| SubSource (w : ExeA.ArgData.outcome)          (* what the source resolver returned *)
| SubPanic (s : stage_id)
| SubOutOfFuel (s : stage_id).

(** ObjectType.GetField on the subscription type *)
Definition sub_field (ES : ExeA.ArgData.schema) (st fname : ExeA.ArgData.name) : option ExeA.ArgData.sty :=
  match ExeA.ArgData.lookup_type ES st with
  | Some (ExeA.ArgData.NObject fs _) => ExeA.ArgData.assoc fname fs
  | _ => None
  end.

(** the source resolver: the harness' resolvers answer from the root value, by coerced arguments *)
Definition source_outcome (W : ExeA.ArgData.outcome) (key : ExeA.ArgData.name) : option ExeA.ArgData.outcome :=
  match W with
  | ExeA.ArgData.OObj _ fs => ExeA.ArgData.assoc key fs
  | _ => None
  end.

Definition subscribe_op (ES : ExeA.ArgData.schema) (R : ExeA.ArgData.request_doc) (o : ExeA.ArgData.operation)
           (vv : list (ExeA.ArgData.name * Val.Values.gval)) (W : ExeA.ArgData.outcome) : sub_result :=
  let D := ExeA.ArgData.doc_of R o vv in
  let E := ExeA.ArgArgs.env_of_vars vv in
  match ExeA.ArgData.o_kind o with
  | ExeA.ArgData.OpSubscription =>
      match ExeA.ArgData.subscription ES with
      | None => SubError []
      | Some st =>
          match ExeA.ArgData.lookup_type ES st with
          | Some (ExeA.ArgData.NObject _ _) =>
              match ExeA.ArgModel.collect_impl ES D E (ExeA.ArgModel.default_fuel D) st (ExeA.ArgData.o_sels o) [] [] with
              | ExeA.ArgModel.COk _ [x] =>
                  let f := ExeA.ArgModel.g_first x in
                  match sub_field ES st (ExeA.ArgData.fn_name f) with
                  | None => SubError []
                  | Some _ =>
                      match ExeA.ArgArgs.coerce_field_args ES D st f with
                      | Val.Values.Ok A =>
                          match source_outcome W (ExeA.ArgArgs.field_key (ExeA.ArgData.fn_name f) A) with
                          | Some ExeA.ArgData.OErr | None => SubError [ExeA.ArgData.PKey (ExeA.ArgModel.g_key x)]
                          | Some w => SubSource w
                          end
                      | Val.Values.Err => SubError []
                      | Val.Values.Panic => SubPanic StCoerce
                      end
                  end
              | ExeA.ArgModel.COk _ _ => SubError []
              | ExeA.ArgModel.CPanic => SubPanic StExecute
              | ExeA.ArgModel.COutOfFuel => SubOutOfFuel StExecute
              end
          | _ => SubError []
          end
      end
  | _ => SubError []                                 (* "A subscription operation is required." *)
  end.

Definition subscribe_doc (ES : ExeA.ArgData.schema) (d : Syn.Ast.document) (opname : ExeA.ArgData.name)
           (raw : list (ExeA.ArgData.name * Val.Values.jval)) (W : ExeA.ArgData.outcome) : sub_result :=
  let R := exe_of_syn d in
  match ExeA.ArgModel.get_operation R opname with
  | ExeA.ArgModel.GOp o =>
      match ExeA.ArgModel.coerce_request_vars ES o raw with
      | Val.Values.Ok vv => subscribe_op ES R o vv W
      | Val.Values.Err => SubError []
      | Val.Values.Panic => SubPanic StCoerce
      end
  | _ => SubError []
  end.

(** graphql.Subscribe(&Request{Query: bs, Schema, OperationName, VariableValues: raw, InitialValue}) *)
Definition subscribe_order (pi : Vld.ValidatorModel.order) (VS : Vld.Ast.schema) (F : Vld.Ast.features)
           (ES : ExeA.ArgData.schema) (bs : bytes) (opname : ExeA.ArgData.name)
           (raw : list (ExeA.ArgData.name * Val.Values.jval)) (W : ExeA.ArgData.outcome) : sub_result :=
  match parse_and_validate_order pi VS F bs with
  | FSyntax e es => SubSyntax e es
  | FInvalid e es => SubInvalid e es
  | FAccepted d => subscribe_doc ES d opname raw W
  | FPanic s => SubPanic s
  | FOutOfFuel s => SubOutOfFuel s
  end.
Definition subscribe_model := subscribe_order Vld.ValidatorModel.id_order.
