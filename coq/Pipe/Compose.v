(** * Pipe/Compose.v — C03: ONE executable model of graphql.ParseAndValidate + graphql.Execute from
    the BYTES of the request text, composed of the stage models of the properties that own them.
    No proofs in this file.

    Go (graphql/graphql.go, graphql/executor/executor.go)      here
    ---------------------------------------------------------  -----------------------------------
    parser.ParseDocument([]byte(query))                        [FrontEnd.parse_document_bytes]
                                                               (C06 parser model driven by the C07
                                                               scanner model)
    len(parseErrs) > 0: Response{Errors: syntax errors}        [PSyntax]
    validator.ValidateDocument(parsed, schema, features)       [ValidatorModel.validate_model_memo
                                                               repaired id_order] (C04) on
                                                               [Convert.vld_of_syn]
    len(validationErrs) > 0: Response{Errors: ...}             [PInvalid]
    executor.ExecuteRequest: GetOperation,                     [ArgModel.get_operation] on
                                                               [Convert.exe_of_syn];
      coerceVariableValues on the RAW variable values          [ArgModel.coerce_request_vars] =
                                                               C05's [coerce_variable_values];
      executeQuery / Mutation / SubscriptionEvent, field       [ArgModel.run fixed] (C01 x C05:
      arguments coerced by coerceArgumentValues                [coerce_argument_values]) with
                                                               [default_fuel]
    Response{Data: &data, Errors: errs}                        [PExecuted data errs]

    What C01's totality theorem assumes of the executor's input and an earlier stage is meant to
    establish is CHECKED here at run time, so that the composed model is total without those
    assumptions and the gap is visible as an outcome of its own:
      [doc_positions_okb]: selection nodes have pairwise distinct positions, below 2^24 / 2^32
                           (the parser; C06_parse_bytes_pos_injective gives the first half);
      [doc_ok]:            what validation guarantees, as an execution over types (C04 has not yet
                           proved that an accepted document satisfies it).
    A failure is [PContractBroken]; the correspondence check reports it as an oracle failure.
    The check is C01's [doc_ok_nodirs]: [doc_ok] without the requirement that every @skip/@include
    condition has a boolean value among the coerced variables — a validated request can violate that
    one (a nullable variable with a default, given null); the executor then leaves the selection
    out and reports an error, and C01's dirs-free theorems cover it.  A failing CoerceVariableValues, an undetermined operation: [PExecuted None [e]]
    (no data, that one error), as ExecuteRequest answers. *)
From Coq Require Import List NArith ZArith Bool.
From ApiFu Require Import Base.Sexp.
From ApiFu Require Syn.Ast Syn.ParserModel Syn.FrontEnd.
From ApiFu Require Vld.Ast Vld.ValidatorModel.
From ApiFu Require Val.Values ExeA.ArgData ExeA.ArgArgs ExeA.ArgModel ExeA.ArgSpec ExeA.ArgHyps.
From ApiFu Require Import Pipe.Convert.
Import ListNotations.

Inductive stage_id := StParse | StValidate | StCoerce | StExecute.
Inductive contract := CPositions | CDocOk.

Inductive presult :=
| PSyntax (e : Syn.Ast.pos) (es : list Syn.Ast.pos)             (* Response{Errors}: syntax errors *)
| PInvalid (e : Vld.Ast.verror) (es : list Vld.Ast.verror)      (* Response{Errors}: validation errors *)
| PExecuted (data : option ExeA.ArgData.json) (errs : list ExeA.ArgData.gerror)
| PContractBroken (c : contract)
| PPanic (s : stage_id)
| POutOfFuel (s : stage_id).

(** ** the front half: graphql.ParseAndValidate *)
Inductive front_result :=
| FSyntax (e : Syn.Ast.pos) (es : list Syn.Ast.pos)
| FInvalid (e : Vld.Ast.verror) (es : list Vld.Ast.verror)
| FAccepted (d : Syn.Ast.document)
| FPanic (s : stage_id)
| FOutOfFuel (s : stage_id).

(** [pi]: the order in which Go's [range] visits the entries of the validator's maps (any
    permutation; the theorems quantify over it, the check runs [id_order]) *)
Definition validate_doc (pi : Vld.ValidatorModel.order) (VS : Vld.Ast.schema) (F : Vld.Ast.features) (d : Syn.Ast.document) : Vld.Ast.outcome :=
  Vld.ValidatorModel.validate_model_memo Vld.ValidatorModel.repaired pi VS F (vld_of_syn d).

Definition parse_and_validate_order (pi : Vld.ValidatorModel.order) (VS : Vld.Ast.schema) (F : Vld.Ast.features) (bs : bytes) : front_result :=
  match Syn.FrontEnd.parse_document_bytes bs with
  | Syn.ParserModel.OOF => FOutOfFuel StParse
  | Syn.ParserModel.Out _ (e :: es) => FSyntax e es
  | Syn.ParserModel.Out None [] => FPanic StParse                 (* "nil, no error": excluded by C06 *)
  | Syn.ParserModel.Out (Some d) [] =>
      match validate_doc pi VS F d with
      | Vld.Ast.Panic _ => FPanic StValidate
      | Vld.Ast.OutOfFuel => FOutOfFuel StValidate
      | Vld.Ast.Done (e :: es) => FInvalid e es
      | Vld.Ast.Done [] => FAccepted d
      end
  end.

Definition parse_and_validate_bytes := parse_and_validate_order Vld.ValidatorModel.id_order.

(** ** the back half: executor.ExecuteRequest on the accepted document *)
Definition of_run (r : ExeA.ArgModel.run_result) : presult :=
  match r with
  | ExeA.ArgModel.Done d errs => PExecuted d errs
  | ExeA.ArgModel.Panic => PPanic StExecute
  | ExeA.ArgModel.OutOfFuel => POutOfFuel StExecute
  end.

Definition execute_doc (ES : ExeA.ArgData.schema) (d : Syn.Ast.document) (opname : ExeA.ArgData.name)
           (raw : list (ExeA.ArgData.name * Val.Values.jval)) (W : ExeA.ArgData.outcome) : presult :=
  let R := exe_of_syn d in
  match ExeA.ArgModel.get_operation R opname with
  | ExeA.ArgModel.GOp o =>
      match ExeA.ArgModel.coerce_request_vars ES o raw with
      | Val.Values.Ok vv =>
          let D := ExeA.ArgData.doc_of R o vv in
          let E := ExeA.ArgArgs.env_of_vars vv in
          let fuel := ExeA.ArgModel.default_fuel D in
          if negb (ExeA.ArgHyps.doc_positions_okb D) then PContractBroken CPositions
          else if negb (ExeA.ArgSpec.doc_ok_nodirs ES D E fuel fuel) then PContractBroken CDocOk
          else of_run (ExeA.ArgModel.run ExeA.ArgModel.fixed ES D E fuel W)
      | Val.Values.Err =>
          (* CoerceVariableValues fails: no data, that one error *)
          of_run (ExeA.ArgModel.run_request ExeA.ArgModel.fixed ES R opname raw 0 W)
      | Val.Values.Panic => PPanic StCoerce
      end
  | _ => of_run (ExeA.ArgModel.run_request ExeA.ArgModel.fixed ES R opname raw 0 W)
  end.

(** ** graphql.Execute(&Request{Query: bs, Schema, Features, OperationName, VariableValues: raw, InitialValue}) *)
Definition pipeline_order (pi : Vld.ValidatorModel.order) (VS : Vld.Ast.schema) (F : Vld.Ast.features) (ES : ExeA.ArgData.schema)
           (bs : bytes) (opname : ExeA.ArgData.name) (raw : list (ExeA.ArgData.name * Val.Values.jval)) (W : ExeA.ArgData.outcome) : presult :=
  match parse_and_validate_order pi VS F bs with
  | FSyntax e es => PSyntax e es
  | FInvalid e es => PInvalid e es
  | FAccepted d => execute_doc ES d opname raw W
  | FPanic s => PPanic s
  | FOutOfFuel s => POutOfFuel s
  end.

Definition pipeline_model := pipeline_order Vld.ValidatorModel.id_order.

(** ** the response, as far as C03 speaks about it (PipelineModel.response) *)
Definition is_response (r : presult) : bool :=
  match r with PSyntax _ _ | PInvalid _ _ | PExecuted _ _ => true | _ => false end.

(** the property's clause: no (or null) data only together with errors *)
Definition data_or_errors_p (r : presult) : bool :=
  match r with
  | PSyntax _ _ | PInvalid _ _ => true                 (* no data, at least one error *)
  | PExecuted None errs => match errs with [] => false | _ => true end
  | PExecuted (Some _) _ => true
  | _ => false
  end.

(** every number in the data has a JSON form *)
Definition serialisable_p (r : presult) : bool :=
  match r with
  | PExecuted (Some j) _ => ExeA.ArgData.json_finite j
  | _ => true
  end.
