(** * Pipe/PositionsProofs.v — C03: the parser's half of C01's hypothesis [doc_positions_okb], carried
    across the conversion [Convert.exe_of_syn]: the selection nodes of every operation the executor
    can select from a parsed text (together with all fragment definitions) have pairwise distinct
    positions.  From C06_parse_bytes_pos_injective (for every byte string). *)
From Coq Require Import List NArith ZArith Bool Lia Permutation.
From ApiFu Require Import Base.Sexp.
From ApiFu Require Syn.Ast Syn.Printer Syn.ParserModel Syn.ParserProofs Syn.FrontEnd Syn.FrontEndProofs.
From ApiFu Require ExeA.ArgData ExeA.ArgModel ExeA.ArgHyps.
From ApiFu Require Import Pipe.Convert.
Import ListNotations.

(** ** the executor's view of the selections visits exactly the parser's position list *)
Lemma positions_go_flat_map (sels : list Syn.Ast.selection) :
  (fix go (l : list Syn.Ast.selection) : list Syn.Ast.pos :=
     match l with [] => [] | x :: r => Syn.Printer.positions_selection x ++ go r end) sels
  = flat_map Syn.Printer.positions_selection sels.
Proof. induction sels as [|x r IH]; [reflexivity|]. cbn [flat_map]. rewrite IH. reflexivity. Qed.

Lemma e_sel_pos s : ExeA.ArgData.sel_pos (e_sel s) = epos (Syn.Ast.selection_pos s).
Proof. destruct s; reflexivity. Qed.

Fixpoint sel_positions (s : Syn.Ast.selection) :
  map ExeA.ArgData.sel_pos (ExeA.ArgHyps.sub_sels (e_sel s)) = map epos (Syn.Printer.positions_selection s)
with ss_positions (ss : Syn.Ast.selset) :
  map ExeA.ArgData.sel_pos (flat_map ExeA.ArgHyps.sub_sels (e_ss ss)) = map epos (Syn.Printer.positions_selset ss).
Proof.
  - destruct s as [alias n args dirs [sub|]|n dirs e|cond dirs sub e].
    + cbn [e_sel ExeA.ArgHyps.sub_sels Syn.Printer.positions_selection map]. f_equal. apply ss_positions.
    + reflexivity.
    + reflexivity.
    + cbn [e_sel ExeA.ArgHyps.sub_sels Syn.Printer.positions_selection map]. f_equal. apply ss_positions.
  - destruct ss as [sels o c]. cbn [e_ss Syn.Printer.positions_selset].
    rewrite positions_go_flat_map.
    induction sels as [|x r IH]; [reflexivity|].
    cbn [map flat_map]. rewrite !map_app. rewrite IH. f_equal. apply sel_positions.
Qed.

(** ** positions of the fragment definitions of a document *)
Definition frag_positions (x : Syn.Ast.definition) : list Syn.Ast.pos :=
  match x with
  | Syn.Ast.DFrag _ _ _ _ sub => Syn.Printer.positions_selset sub
  | Syn.Ast.DOp _ _ _ _ _ => []
  end.

Lemma frags_positions d :
  map ExeA.ArgData.sel_pos
      (flat_map (fun f => flat_map ExeA.ArgHyps.sub_sels (ExeA.ArgData.fr_sels f)) (e_frags d))
  = map epos (flat_map frag_positions d).
Proof.
  induction d as [|x d IH]; [reflexivity|].
  unfold e_frags in *. cbn [flat_map]. destruct x as [ot n vars dirs sub|kw n cond dirs sub].
  - cbn [app frag_positions]. exact IH.
  - cbn [flat_map app frag_positions ExeA.ArgData.fr_sels]. rewrite ?app_nil_r, !map_app, IH.
    f_equal. apply ss_positions.
Qed.

Lemma frag_positions_subseq d :
  Syn.ParserProofs.subseq (flat_map frag_positions d) (Syn.Printer.positions_document d).
Proof.
  unfold Syn.Printer.positions_document. induction d as [|x d IH]; [constructor|].
  cbn [flat_map]. apply Syn.ParserProofs.subseq_app; [|exact IH].
  destruct x; [apply Syn.ParserProofs.subseq_nil_l|apply Syn.ParserProofs.subseq_refl].
Qed.

(** ** the operation GetOperation selects is one of the document's *)
Lemma get_operation_loop_in ops opname ret o :
  ExeA.ArgModel.get_operation_loop ops opname ret = ExeA.ArgModel.GOp o -> In o ops \/ ret = Some o.
Proof.
  revert ret. induction ops as [|x ops IH]; intros ret H; cbn [ExeA.ArgModel.get_operation_loop] in H.
  - destruct ret; inversion H. right; reflexivity.
  - destruct (ExeA.ArgModel.op_matches opname x).
    + destruct ret; [discriminate|]. destruct (IH _ H) as [Hi|Hr].
      * left; right; exact Hi.
      * inversion Hr; subst. left; left; reflexivity.
    + destruct (IH _ H) as [Hi|Hr]; [left; right; exact Hi|right; exact Hr].
Qed.

Lemma selected_operation d opname o :
  ExeA.ArgModel.get_operation (exe_of_syn d) opname = ExeA.ArgModel.GOp o ->
  exists d1 d2 ot n vars dirs sub,
    d = d1 ++ Syn.Ast.DOp ot n vars dirs sub :: d2 /\ ExeA.ArgData.o_sels o = e_ss sub.
Proof.
  unfold ExeA.ArgModel.get_operation. intro H. apply get_operation_loop_in in H.
  destruct H as [H|H]; [|discriminate].
  cbn [exe_of_syn ExeA.ArgData.r_ops] in H. unfold e_ops in H. apply in_flat_map in H.
  destruct H as (x & Hx & Ho). destruct x as [ot n vars dirs sub|kw n cond dirs sub]; [|destruct Ho].
  destruct Ho as [Ho|[]]. apply in_split in Hx. destruct Hx as (d1 & d2 & Hd).
  exists d1, d2, ot, n, vars, dirs, sub. split; [exact Hd|]. subst o. reflexivity.
Qed.

(** ** NoDup is carried to the executor's list *)
Lemma epos_inj a b : epos a = epos b -> a = b.
Proof. destruct a, b. unfold epos. cbn. intro H. inversion H. reflexivity. Qed.

Lemma NoDup_map_epos l : NoDup l -> NoDup (map epos l).
Proof.
  induction 1 as [|x l Hx Hn IH]; [constructor|]. cbn [map]. constructor; [|exact IH].
  intro Hi. apply in_map_iff in Hi. destruct Hi as (y & Hy & Hin). apply epos_inj in Hy. subst y. exact (Hx Hin).
Qed.

Lemma pos_eqb_eq a b : ExeA.ArgData.pos_eqb a b = true <-> a = b.
Proof.
  unfold ExeA.ArgData.pos_eqb. destruct a as [l1 c1], b as [l2 c2]. cbn. rewrite andb_true_iff, !N.eqb_eq.
  split; [intros [-> ->]; reflexivity|intro H; inversion H; auto].
Qed.

Lemma nodup_posb_complete l : NoDup l -> ExeA.ArgHyps.nodup_posb l = true.
Proof.
  induction 1 as [|x l Hx Hn IH]; [reflexivity|]. cbn [ExeA.ArgHyps.nodup_posb]. rewrite IH, andb_true_r.
  apply negb_true_iff. destruct (existsb (ExeA.ArgData.pos_eqb x) l) eqn:E; [|reflexivity].
  apply existsb_exists in E. destruct E as (y & Hy & He). apply pos_eqb_eq in He. subst y. contradiction.
Qed.

Theorem parsed_positions_distinct bs d es opname o vv :
  Syn.FrontEnd.parse_document_bytes bs = Syn.ParserModel.Out (Some d) es ->
  ExeA.ArgModel.get_operation (exe_of_syn d) opname = ExeA.ArgModel.GOp o ->
  ExeA.ArgHyps.nodup_posb
    (map ExeA.ArgData.sel_pos (ExeA.ArgHyps.all_sels (ExeA.ArgData.doc_of (exe_of_syn d) o vv))) = true.
Proof.
  intros Hp Hg. apply nodup_posb_complete.
  pose proof (Syn.FrontEndProofs.parse_bytes_pos_injective bs d es Hp) as Hn.
  destruct (selected_operation d opname o Hg) as (d1 & d2 & ot & n & vars & dirs & sub & Hd & Hs).
  unfold ExeA.ArgHyps.all_sels. cbn [ExeA.ArgData.doc_of ExeA.ArgData.op_sels ExeA.ArgData.frags exe_of_syn ExeA.ArgData.r_frags].
  rewrite map_app, Hs, ss_positions, frags_positions, <- map_app. apply NoDup_map_epos.
  (* positions of the operation, then of the fragments: a sub-multiset of the document's *)
  subst d. rewrite flat_map_app. cbn [flat_map frag_positions app].
  unfold Syn.Printer.positions_document in Hn. rewrite flat_map_app in Hn. cbn [flat_map Syn.Printer.positions_definition] in Hn.
  assert (Hperm : Permutation
                    (flat_map Syn.Printer.positions_definition d1 ++
                     Syn.Printer.positions_selset sub ++ flat_map Syn.Printer.positions_definition d2)
                    (Syn.Printer.positions_selset sub ++
                     flat_map Syn.Printer.positions_definition d1 ++ flat_map Syn.Printer.positions_definition d2))
    by apply Permutation_app_swap_app.
  eapply Syn.ParserProofs.subseq_NoDup; [|eapply Permutation_NoDup; [exact Hperm|exact Hn]].
  apply Syn.ParserProofs.subseq_app; [apply Syn.ParserProofs.subseq_refl|].
  apply Syn.ParserProofs.subseq_app; apply frag_positions_subseq.
Qed.
