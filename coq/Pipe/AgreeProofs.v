(** * Pipe/AgreeProofs.v — C03: what [schemas_agree VS ES] (SchemaAgree.v) carries from the validator's
    encoding of the schema to the executor's and back: type conditions that apply, possible object
    types, field definitions and their types. *)
From Coq Require Import List NArith ZArith Bool Lia.
From ApiFu Require Import Base.Sexp.
From ApiFu Require Vld.Ast Vld.TypeInfoModel Vld.ValidSpec Vld.ProofsCommon Vld.Hyps.
From ApiFu Require Val.Values ExeA.ArgData ExeA.ArgArgs ExeA.ArgSpec.
From ApiFu Require Import Pipe.SchemaAgree Pipe.CondsProofs.
Import ListNotations.

Lemma mem_agree k l : ExeA.ArgData.mem k l = Vld.Ast.mem k l.
Proof. induction l as [|x l IH]; [reflexivity|]. cbn. rewrite IH. reflexivity. Qed.

Lemma mem_in k l : Vld.Ast.mem k l = true -> In k l.
Proof.
  unfold Vld.Ast.mem. rewrite existsb_exists. intros (x & Hx & He). apply bytes_eqb_eq in He. subst. exact Hx.
Qed.
Lemma in_mem k l : In k l -> Vld.Ast.mem k l = true.
Proof. intro H. unfold Vld.Ast.mem. rewrite existsb_exists. exists k. split; [exact H|apply bytes_eqb_refl]. Qed.

Lemma names_agree_eq a : forall b, names_agree a b = true -> a = b.
Proof.
  induction a as [|x a IH]; intros [|y b]; cbn; try discriminate; [reflexivity|].
  intro H. apply andb_true_iff in H as [H1 H2]. apply bytes_eqb_eq in H1. rewrite (IH b H2), H1. reflexivity.
Qed.

Lemma vld_assoc_in {X} k (l : list (Vld.Ast.name * X)) v : Vld.Ast.assoc k l = Some v -> In (k, v) l.
Proof.
  induction l as [|[k' v'] l IH]; cbn [Vld.Ast.assoc]; [discriminate|].
  destruct (Vld.Ast.name_eqb k k') eqn:E.
  - intro H. inversion H; subst. apply bytes_eqb_eq in E. subst. left; reflexivity.
  - intro H. right. apply IH. exact H.
Qed.
Lemma vld_assoc_nodup {X} (l : list (Vld.Ast.name * X)) : NoDup (map fst l) -> forall k v, In (k, v) l -> Vld.Ast.assoc k l = Some v.
Proof.
  induction l as [|[k' v'] l IH]; intros Hnd k v Hin; [destruct Hin|]. cbn [map fst] in Hnd. inversion Hnd as [|x r Hx Hr]; subst.
  cbn [Vld.Ast.assoc]. destruct Hin as [Heq|Hin].
  - inversion Heq; subst. unfold Vld.Ast.name_eqb. rewrite bytes_eqb_refl. reflexivity.
  - destruct (Vld.Ast.name_eqb k k') eqn:E; [|exact (IH Hr k v Hin)].
    exfalso. apply bytes_eqb_eq in E. subst k'. apply Hx. apply in_map_iff. exists (k, v). auto.
Qed.
Lemma exe_assoc_nodup {X} (l : list (ExeA.ArgData.name * X)) : NoDup (map fst l) -> forall k v, In (k, v) l -> ExeA.ArgData.assoc k l = Some v.
Proof.
  induction l as [|[k' v'] l IH]; intros Hnd k v Hin; [destruct Hin|]. cbn [map fst] in Hnd. inversion Hnd as [|x r Hx Hr]; subst.
  cbn [ExeA.ArgData.assoc]. destruct Hin as [Heq|Hin].
  - inversion Heq; subst. unfold ExeA.ArgData.name_eqb. rewrite bytes_eqb_refl. reflexivity.
  - destruct (ExeA.ArgData.name_eqb k k') eqn:E; [|exact (IH Hr k v Hin)].
    exfalso. apply bytes_eqb_eq in E. subst k'. apply Hx. apply in_map_iff. exists (k, v). auto.
Qed.
Lemma e_nodupb_NoDup l : e_nodupb l = true -> NoDup l.
Proof.
  induction l as [|x l IH]; cbn [e_nodupb]; intro H; [constructor|]. apply andb_true_iff in H as [H1 H2].
  constructor; [|exact (IH H2)]. intro Hin. rewrite mem_agree, (in_mem _ _ Hin) in H1. discriminate.
Qed.

Lemma sty_agree_base a : forall b, sty_agree a b = true -> Vld.Ast.unwrapped a = ExeA.ArgSpec.sty_base b.
Proof.
  induction a as [x|a IH|a IH]; intros [y|b|b]; cbn; try discriminate.
  - intro H. apply bytes_eqb_eq in H. exact H.
  - apply IH.
  - apply IH.
Qed.

Lemma subset_nil F : Vld.Ast.subset [] F = true.
Proof. reflexivity. Qed.

Section Agree.
  Variables (VS : Vld.Ast.schema) (F : Vld.Ast.features) (ES : ExeA.ArgData.schema).
  Hypothesis Hagree : schemas_agree VS ES = true.

  Lemma agree_types nt : In nt (ExeA.ArgData.types ES) -> type_agree VS ES nt = true.
  Proof.
    intro Hin. unfold schemas_agree in Hagree. repeat (apply andb_true_iff in Hagree as [Hagree ?]).
    rewrite forallb_forall in Hagree. exact (Hagree _ Hin).
  Qed.
  Lemma agree_lookup n nt : ExeA.ArgData.lookup_type ES n = Some nt -> type_agree VS ES (n, nt) = true.
  Proof. intro H. apply agree_types. unfold ExeA.ArgData.lookup_type in H. exact (exe_assoc_in _ _ _ H). Qed.
  Lemma agree_query : Vld.Ast.s_query VS = ExeA.ArgData.query ES.
  Proof.
    unfold schemas_agree in Hagree. repeat (apply andb_true_iff in Hagree as [Hagree ?]).
    apply bytes_eqb_eq. assumption.
  Qed.
  Lemma agree_mutation : opt_names_agree (Vld.Ast.s_mutation VS) (ExeA.ArgData.mutation ES) = true.
  Proof. unfold schemas_agree in Hagree. repeat (apply andb_true_iff in Hagree as [Hagree ?]). assumption. Qed.
  Lemma agree_subscription : opt_names_agree (Vld.Ast.s_subscription VS) (ExeA.ArgData.subscription ES) = true.
  Proof. unfold schemas_agree in Hagree. repeat (apply andb_true_iff in Hagree as [Hagree ?]). assumption. Qed.
  Lemma agree_meta n fd : Vld.Ast.assoc n (Vld.Ast.s_meta VS) = Some fd -> n = ExeA.ArgData.n_schema \/ n = ExeA.ArgData.n_type.
  Proof.
    intro H. apply vld_assoc_in in H.
    unfold schemas_agree in Hagree. apply andb_true_iff in Hagree as [_ Hm]. rewrite forallb_forall in Hm.
    specialize (Hm _ H). cbn [fst] in Hm. apply orb_true_iff in Hm as [Hm|Hm]; apply bytes_eqb_eq in Hm; auto.
  Qed.

  (** an executor-side type, seen from the validator's side *)
  Lemma agree_object n fs ifs :
    In (n, ExeA.ArgData.NObject fs ifs) (ExeA.ArgData.types ES) ->
    exists dv vfs, Vld.Ast.raw_type VS n = Some dv /\ Vld.Ast.t_req dv = [] /\ Vld.Ast.t_body dv = Vld.Ast.TObject vfs ifs /\
                   fields_agree (ExeA.ArgArgs.argdefs_of ES n) vfs fs = true.
  Proof.
    intro Hin. pose proof (agree_types _ Hin) as Ht. unfold type_agree in Ht. cbn [fst snd] in Ht.
    destruct (Vld.Ast.raw_type VS n) as [dv|]; [|discriminate]. apply andb_true_iff in Ht as [Hreq Ht].
    destruct (Vld.Ast.t_body dv) as [k|vs|defs|vfs vis|vfs|ms] eqn:Eb; try discriminate.
    apply andb_true_iff in Ht as [Hf Hn]. apply names_agree_eq in Hn. subst vis.
    exists dv, vfs. split; [reflexivity|]. split; [destruct (Vld.Ast.t_req dv); [reflexivity|discriminate]|]. auto.
  Qed.
  Lemma agree_interface n fs :
    In (n, ExeA.ArgData.NInterface fs) (ExeA.ArgData.types ES) ->
    exists dv vfs, Vld.Ast.raw_type VS n = Some dv /\ Vld.Ast.t_req dv = [] /\ Vld.Ast.t_body dv = Vld.Ast.TInterface vfs /\
                   iface_fields_agree vfs fs = true.
  Proof.
    intro Hin. pose proof (agree_types _ Hin) as Ht. unfold type_agree in Ht. cbn [fst snd] in Ht.
    destruct (Vld.Ast.raw_type VS n) as [dv|]; [|discriminate]. apply andb_true_iff in Ht as [Hreq Ht].
    destruct (Vld.Ast.t_body dv) as [k|vs|defs|vfs vis|vfs|ms] eqn:Eb; try discriminate.
    exists dv, vfs. split; [reflexivity|]. split; [destruct (Vld.Ast.t_req dv); [reflexivity|discriminate]|]. auto.
  Qed.
  Lemma agree_union n ms :
    In (n, ExeA.ArgData.NUnion ms) (ExeA.ArgData.types ES) ->
    exists dv, Vld.Ast.raw_type VS n = Some dv /\ Vld.Ast.t_req dv = [] /\ Vld.Ast.t_body dv = Vld.Ast.TUnion ms.
  Proof.
    intro Hin. pose proof (agree_types _ Hin) as Ht. unfold type_agree in Ht. cbn [fst snd] in Ht.
    destruct (Vld.Ast.raw_type VS n) as [dv|]; [|discriminate]. apply andb_true_iff in Ht as [Hreq Ht].
    destruct (Vld.Ast.t_body dv) as [k|vs|defs|vfs vis|vfs|ms'] eqn:Eb; try discriminate.
    apply names_agree_eq in Ht. subst ms'.
    exists dv. split; [reflexivity|]. split; [destruct (Vld.Ast.t_req dv); [reflexivity|discriminate]|]. exact Eb.
  Qed.

  Lemma named_of_raw n dv : Vld.Ast.raw_type VS n = Some dv -> Vld.Ast.t_req dv = [] -> Vld.Ast.named_type VS F n = Some (Vld.Ast.t_body dv).
  Proof. intros H Hr. unfold Vld.Ast.named_type. rewrite H, Hr. reflexivity. Qed.

  Lemma lookup_in n nt : ExeA.ArgData.lookup_type ES n = Some nt -> In (n, nt) (ExeA.ArgData.types ES).
  Proof. unfold ExeA.ArgData.lookup_type. apply exe_assoc_in. Qed.

  (** an object type of the executor's schema that declares interface [c] is a possible type of [c] *)
  Lemma object_possible_iface x fs ifs c dvc vfs :
    In (x, ExeA.ArgData.NObject fs ifs) (ExeA.ArgData.types ES) -> ExeA.ArgData.mem c ifs = true ->
    Vld.Ast.raw_type VS c = Some dvc -> Vld.Ast.t_body dvc = Vld.Ast.TInterface vfs ->
    In x (Vld.ValidSpec.possible VS F c).
  Proof.
    intros Hin Hm Hc Hb. destruct (agree_object x fs ifs Hin) as (dv & ovfs & Hr & Hreq & Hbody & _).
    unfold Vld.ValidSpec.possible, Vld.ValidSpec.parent_body, Vld.Ast.raw_body. rewrite Hc, Hb.
    apply in_flat_map. exists (x, dv). split; [exact (vld_assoc_in _ _ _ Hr)|].
    cbn [snd fst]. rewrite Hbody, Hreq. rewrite mem_agree in Hm. rewrite Hm. cbn. left. reflexivity.
  Qed.

  (** DoesFragmentTypeApply (executor) => visible type and possible type (validator) *)
  Lemma applies_possible ot c :
    ExeA.ArgSpec.s_applies ES ot c = true ->
    (exists b, Vld.Ast.named_type VS F c = Some b) /\ In ot (Vld.ValidSpec.possible VS F c).
  Proof.
    unfold ExeA.ArgSpec.s_applies. destruct (ExeA.ArgData.lookup_type ES c) as [[k|vs|fs ifs|fs|ms|]|] eqn:El; try discriminate; intro H.
    - apply bytes_eqb_eq in H. subst ot. destruct (agree_object c fs ifs (lookup_in _ _ El)) as (dv & vfs & Hr & Hreq & Hbody & _).
      split; [eexists; exact (named_of_raw c dv Hr Hreq)|].
      unfold Vld.ValidSpec.possible, Vld.ValidSpec.parent_body, Vld.Ast.raw_body. rewrite Hr, Hbody. left. reflexivity.
    - destruct (agree_interface c fs (lookup_in _ _ El)) as (dv & vfs & Hr & Hreq & Hbody & _).
      split; [eexists; exact (named_of_raw c dv Hr Hreq)|].
      destruct (ExeA.ArgData.lookup_type ES ot) as [[| |fs' ifs'| | |]|] eqn:Eo; try discriminate.
      exact (object_possible_iface ot fs' ifs' c dv vfs (lookup_in _ _ Eo) H Hr Hbody).
    - destruct (agree_union c ms (lookup_in _ _ El)) as (dv & Hr & Hreq & Hbody).
      split; [eexists; exact (named_of_raw c dv Hr Hreq)|].
      unfold Vld.ValidSpec.possible, Vld.ValidSpec.parent_body, Vld.Ast.raw_body. rewrite Hr, Hbody.
      rewrite mem_agree in H. exact (mem_in _ _ H).
  Qed.

  (** GetPossibleTypes: the executor's are the validator's *)
  Lemma s_possible_possible x c : In x (ExeA.ArgSpec.s_possible ES c) -> In x (Vld.ValidSpec.possible VS F c).
  Proof.
    unfold ExeA.ArgSpec.s_possible. destruct (ExeA.ArgData.lookup_type ES c) as [[k|vs|fs ifs|fs|ms|]|] eqn:El; try solve [intros []].
    - intros [<-|[]]. destruct (agree_object c fs ifs (lookup_in _ _ El)) as (dv & vfs & Hr & Hreq & Hbody & _).
      unfold Vld.ValidSpec.possible, Vld.ValidSpec.parent_body, Vld.Ast.raw_body. rewrite Hr, Hbody. left. reflexivity.
    - intro H. apply in_map_iff in H as ([x' nt] & Hx & Hf). cbn [fst] in Hx. subst x'. apply filter_In in Hf as [Hin Hm].
      cbn [snd] in Hm. destruct nt as [| |fs' ifs'| | |]; try discriminate.
      destruct (agree_interface c fs (lookup_in _ _ El)) as (dv & vfs & Hr & Hreq & Hbody & _).
      exact (object_possible_iface x fs' ifs' c dv vfs Hin Hm Hr Hbody).
    - intro H. destruct (agree_union c ms (lookup_in _ _ El)) as (dv & Hr & Hreq & Hbody).
      unfold Vld.ValidSpec.possible, Vld.ValidSpec.parent_body, Vld.Ast.raw_body. rewrite Hr, Hbody. exact H.
  Qed.

  (** ** fields *)
  Lemma fields_agree_fwd argdefs vfs fs n t :
    fields_agree argdefs vfs fs = true -> ExeA.ArgData.assoc n fs = Some t ->
    exists fd, Vld.Ast.assoc n vfs = Some fd /\ sty_agree (Vld.Ast.f_type fd) t = true /\ Vld.Ast.f_req fd = [].
  Proof.
    intros Hf Ha. unfold fields_agree in Hf. apply andb_true_iff in Hf as [Hf _]. apply andb_true_iff in Hf as [_ Hf].
    rewrite forallb_forall in Hf. specialize (Hf _ (exe_assoc_in _ _ _ Ha)). cbn [fst snd] in Hf.
    destruct (Vld.Ast.assoc n vfs) as [fd|]; [|discriminate]. exists fd. split; [reflexivity|].
    apply andb_true_iff in Hf as [Hf Hreq]. apply andb_true_iff in Hf as [Hty _].
    split; [exact Hty|]. destruct (Vld.Ast.f_req fd); [reflexivity|discriminate].
  Qed.
  Lemma fields_agree_bwd argdefs vfs fs n fd :
    fields_agree argdefs vfs fs = true -> Vld.Ast.assoc n vfs = Some fd -> exists t, ExeA.ArgData.assoc n fs = Some t.
  Proof.
    intros Hf Ha. unfold fields_agree in Hf. apply andb_true_iff in Hf as [_ Hf].
    rewrite forallb_forall in Hf. specialize (Hf _ (vld_assoc_in _ _ _ Ha)). cbn [fst] in Hf.
    destruct (ExeA.ArgData.assoc n fs) as [t|]; [eauto|discriminate].
  Qed.
  Lemma iface_agree_fwd vfs fs n t :
    iface_fields_agree vfs fs = true -> ExeA.ArgData.assoc n fs = Some t ->
    exists fd, Vld.Ast.assoc n vfs = Some fd /\ sty_agree (Vld.Ast.f_type fd) t = true /\ Vld.Ast.f_req fd = [].
  Proof.
    intros Hf Ha. unfold iface_fields_agree in Hf. apply andb_true_iff in Hf as [Hf _]. apply andb_true_iff in Hf as [_ Hf].
    rewrite forallb_forall in Hf. specialize (Hf _ (exe_assoc_in _ _ _ Ha)). cbn [fst snd] in Hf.
    destruct (Vld.Ast.assoc n vfs) as [fd|]; [|discriminate]. exists fd. split; [reflexivity|].
    apply andb_true_iff in Hf as [Hty Hreq].
    split; [exact Hty|]. destruct (Vld.Ast.f_req fd); [reflexivity|discriminate].
  Qed.
  Lemma iface_agree_bwd vfs fs n fd :
    iface_fields_agree vfs fs = true -> Vld.Ast.assoc n vfs = Some fd -> exists t, ExeA.ArgData.assoc n fs = Some t.
  Proof.
    intros Hf Ha. unfold iface_fields_agree in Hf. apply andb_true_iff in Hf as [_ Hf].
    rewrite forallb_forall in Hf. specialize (Hf _ (vld_assoc_in _ _ _ Ha)). cbn [fst] in Hf.
    destruct (ExeA.ArgData.assoc n fs) as [t|]; [eauto|discriminate].
  Qed.

  Lemma get_field_assoc vfs n fd : Vld.Ast.get_field F vfs n = Some fd -> Vld.Ast.assoc n vfs = Some fd.
  Proof. unfold Vld.Ast.get_field. destruct (Vld.Ast.assoc n vfs) as [f|]; [|discriminate]. destruct (Vld.Ast.subset (Vld.Ast.f_req f) F); [auto|discriminate]. Qed.
  Lemma assoc_get_field vfs n fd : Vld.Ast.assoc n vfs = Some fd -> Vld.Ast.f_req fd = [] -> Vld.Ast.get_field F vfs n = Some fd.
  Proof. intros H Hr. unfold Vld.Ast.get_field. rewrite H, Hr. reflexivity. Qed.

  (** a field the validator finds declared on an object type of the executor's schema: the executor
      finds it with an agreeing type, or it is one of the two meta-fields of the query root *)
  Lemma declared_on_object ot fs ifs n fd :
    ExeA.ArgData.lookup_type ES ot = Some (ExeA.ArgData.NObject fs ifs) ->
    Vld.ValidSpec.declared_field_of VS F ot n = Some fd ->
    (exists t, ExeA.ArgData.assoc n fs = Some t /\ sty_agree (Vld.Ast.f_type fd) t = true) \/
    (ExeA.ArgData.assoc n fs = None /\ ot = ExeA.ArgData.query ES /\ (n = ExeA.ArgData.n_schema \/ n = ExeA.ArgData.n_type)).
  Proof.
    intros El Hd. destruct (agree_object ot fs ifs (lookup_in _ _ El)) as (dv & vfs & Hr & Hreq & Hbody & Hf).
    unfold Vld.ValidSpec.declared_field_of, Vld.ValidSpec.parent_body, Vld.Ast.raw_body in Hd. rewrite Hr, Hbody in Hd.
    destruct (Vld.Ast.get_field F vfs n) as [fd'|] eqn:Eg.
    - inversion Hd; subst fd'. left. apply get_field_assoc in Eg.
      destruct (fields_agree_bwd _ _ _ _ _ Hf Eg) as (t & Ht). exists t. split; [exact Ht|].
      destruct (fields_agree_fwd _ _ _ _ _ Hf Ht) as (fd' & Hfd' & Hty & _). rewrite Eg in Hfd'. inversion Hfd'; subst. exact Hty.
    - right. destruct (Vld.Ast.name_eqb ot (Vld.Ast.s_query VS)) eqn:Eq; [|discriminate].
      apply bytes_eqb_eq in Eq. rewrite agree_query in Eq. split; [|split; [exact Eq|exact (agree_meta _ _ Hd)]].
      destruct (ExeA.ArgData.assoc n fs) as [t|] eqn:Et; [|reflexivity]. exfalso.
      destruct (fields_agree_fwd _ _ _ _ _ Hf Et) as (fd' & Hfd' & _ & Hrq). rewrite (assoc_get_field _ _ _ Hfd' Hrq) in Eg. discriminate.
  Qed.
End Agree.

(** ** what [es_wf ES] gives *)
Section EsWf.
  Variable ES : ExeA.ArgData.schema.
  Hypothesis Hwf : es_wf ES = true.

  Lemma es_nodup : NoDup (map fst (ExeA.ArgData.types ES)).
  Proof.
    unfold es_wf in Hwf. repeat (apply andb_true_iff in Hwf as [Hwf ?]). exact (e_nodupb_NoDup _ Hwf).
  Qed.
  Lemma es_in_lookup n nt : In (n, nt) (ExeA.ArgData.types ES) -> ExeA.ArgData.lookup_type ES n = Some nt.
  Proof. apply (exe_assoc_nodup _ es_nodup). Qed.
  Lemma es_types nt : In nt (ExeA.ArgData.types ES) ->
    match snd nt with
    | ExeA.ArgData.NObject fs ifs => forallb (output_field ES) fs && forallb (covariant_with ES fs) ifs
    | ExeA.ArgData.NInterface fs => forallb (output_field ES) fs
    | ExeA.ArgData.NUnion ms => forallb (is_object ES) ms
    | _ => true
    end = true.
  Proof.
    intro Hin. unfold es_wf in Hwf. repeat (apply andb_true_iff in Hwf as [Hwf ?]).
    match goal with H : forallb _ (ExeA.ArgData.types ES) = true |- _ => rewrite forallb_forall in H; exact (H _ Hin) end.
  Qed.
  Lemma es_query_object : is_object ES (ExeA.ArgData.query ES) = true.
  Proof. unfold es_wf in Hwf. repeat (apply andb_true_iff in Hwf as [Hwf ?]). assumption. Qed.
  Lemma es_mutation_object m : ExeA.ArgData.mutation ES = Some m -> is_object ES m = true.
  Proof. intro Hm. unfold es_wf in Hwf. repeat (apply andb_true_iff in Hwf as [Hwf ?]). rewrite Hm in *. assumption. Qed.
  Lemma es_subscription_object m : ExeA.ArgData.subscription ES = Some m -> is_object ES m = true.
  Proof. intro Hm. unfold es_wf in Hwf. repeat (apply andb_true_iff in Hwf as [Hwf ?]). rewrite Hm in *. assumption. Qed.

  Lemma es_output ot fs ifs n t :
    ExeA.ArgData.lookup_type ES ot = Some (ExeA.ArgData.NObject fs ifs) -> ExeA.ArgData.assoc n fs = Some t ->
    match ExeA.ArgData.lookup_type ES (ExeA.ArgSpec.sty_base t) with Some ExeA.ArgData.NInput | None => False | _ => True end.
  Proof.
    intros El Ha. pose proof (es_types _ (exe_assoc_in _ _ _ El)) as H. cbn [snd] in H. apply andb_true_iff in H as [H _].
    rewrite forallb_forall in H. specialize (H _ (exe_assoc_in _ _ _ Ha)). unfold output_field in H. cbn [snd] in H.
    destruct (ExeA.ArgData.lookup_type ES (ExeA.ArgSpec.sty_base t)) as [[| | | | |]|]; try exact I; discriminate.
  Qed.

  Lemma es_covariant ot fs ifs i :
    ExeA.ArgData.lookup_type ES ot = Some (ExeA.ArgData.NObject fs ifs) -> ExeA.ArgData.mem i ifs = true ->
    exists eifs, ExeA.ArgData.lookup_type ES i = Some (ExeA.ArgData.NInterface eifs) /\
      forall n ti, ExeA.ArgData.assoc n eifs = Some ti ->
        exists t, ExeA.ArgData.assoc n fs = Some t /\
                  forall x, In x (ExeA.ArgSpec.s_possible ES (ExeA.ArgSpec.sty_base t)) -> In x (ExeA.ArgSpec.s_possible ES (ExeA.ArgSpec.sty_base ti)).
  Proof.
    intros El Hm. pose proof (es_types _ (exe_assoc_in _ _ _ El)) as H. cbn [snd] in H. apply andb_true_iff in H as [_ H].
    rewrite forallb_forall in H. rewrite mem_agree in Hm. specialize (H _ (mem_in _ _ Hm)). unfold covariant_with in H.
    destruct (ExeA.ArgData.lookup_type ES i) as [[| | |eifs| |]|]; try discriminate. exists eifs. split; [reflexivity|].
    intros n ti Ha. rewrite forallb_forall in H. specialize (H _ (exe_assoc_in _ _ _ Ha)). cbn [fst snd] in H.
    destruct (ExeA.ArgData.assoc n fs) as [t|]; [|discriminate]. exists t. split; [reflexivity|].
    intros x Hx. rewrite forallb_forall in H. specialize (H x Hx). rewrite mem_agree in H. exact (mem_in _ _ H).
  Qed.

  Lemma es_possible_object x c : In x (ExeA.ArgSpec.s_possible ES c) -> is_object ES x = true.
  Proof.
    unfold ExeA.ArgSpec.s_possible. destruct (ExeA.ArgData.lookup_type ES c) as [[k|vs|fs ifs|fs|ms|]|] eqn:El; try solve [intros []].
    - intros [<-|[]]. unfold is_object. rewrite El. reflexivity.
    - intro H. apply in_map_iff in H as ([x' nt] & Hx & Hf). cbn [fst] in Hx. subst x'. apply filter_In in Hf as [Hin Hm].
      cbn [snd] in Hm. destruct nt as [| |fs' ifs'| | |]; try discriminate.
      unfold is_object. rewrite (es_in_lookup _ _ Hin). reflexivity.
    - intro H. pose proof (es_types _ (exe_assoc_in _ _ _ El)) as Hu. cbn [snd] in Hu. rewrite forallb_forall in Hu. exact (Hu _ H).
  Qed.
End EsWf.
