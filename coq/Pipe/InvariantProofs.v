(** * Pipe/InvariantProofs.v — C03: the open premise, restated as the n-free invariant Q of
    C01_doc_ok_acyclic and split into the two lemmas that are missing.

    With [accepted_acyclic] (AcyclicProofs.v), [accepted_conds_ok] (CondsProofs.v), [accepted_root_type]
    (TypingProofs.v) and [args_total_closed], C01_doc_ok_acyclic gives: a text the front half accepts
    satisfies [doc_ok] — with the very fuel and level bound the composed model evaluates — as soon
    as there is a predicate [Q ot sels] ("[sels] is a validated selection list for an object of type
    [ot]") that holds of the root selections and satisfies:
      [fields_defined_on]  (the POSSIBLE-OBJECT-TYPE step): for [Q ot sels], CollectFields(ot, sels)
                           is defined and the first field node of every group is __typename, a
                           meta-field of the query root, or a field DEFINED ON [ot] whose type is
                           an output type;
      [merge_sound]        (MERGE SOUNDNESS, rule 5.3.2): for a group of a composite field type the
                           MERGED sub-selections of all its field nodes satisfy [Q] again, for
                           every possible object type of the FIRST node's field type.
    These are the two lemmas C04 has to deliver (over the execution encoding of an accepted
    document): [validate_establishes_invariant] asks for nothing else. *)
From Coq Require Import List NArith ZArith Bool Lia.
From ApiFu Require Import Base.Sexp.
From ApiFu Require Syn.Ast Vld.Ast Vld.ValidatorModel Vld.ProofsCommon.
From ApiFu Require Val.Values ExeA.ArgData ExeA.ArgArgs ExeA.ArgModel ExeA.ArgSpec ExeA.ArgHyps ExeA.ArgAcyclicProofs.
From ApiFu Require Import Pipe.Convert Pipe.Compose Pipe.SchemaAgree Pipe.ComposeProofs Pipe.CondsProofs Pipe.TypingProofs
     Pipe.CostCompose Pipe.AcyclicProofs.
Import ListNotations.

Section Invariant.
  Variables (ES : ExeA.ArgData.schema) (D : ExeA.ArgData.document) (E : ExeA.ArgData.env).
  Variable Q : ExeA.ArgData.name -> list ExeA.ArgData.selection -> Prop.
  Let fuel := ExeA.ArgModel.default_fuel D.

  (** the first field node of a group is __typename, a meta-field, or defined on [ot] with an
      output type *)
  Definition group_defined (ot : ExeA.ArgData.name) (kf : ExeA.ArgData.name * list ExeA.ArgData.fnode) : Prop :=
    match snd kf with
    | [] => False
    | f :: _ =>
        match ExeA.ArgSpec.s_field_kind ES ot (ExeA.ArgData.fn_name f) with
        | ExeA.ArgSpec.SFTypename | ExeA.ArgSpec.SFMeta => True
        | ExeA.ArgSpec.SFUndefined => False
        | ExeA.ArgSpec.SFType t =>
            match ExeA.ArgData.lookup_type ES (ExeA.ArgSpec.sty_base t) with
            | Some ExeA.ArgData.NInput | None => False
            | _ => True
            end
        end
    end.

  Definition fields_defined_on : Prop :=
    forall ot sels, Q ot sels ->
      exists groups, ExeA.ArgSpec.s_collect ES D E fuel ot sels = Some groups /\ Forall (group_defined ot) groups.

  Definition merge_sound : Prop :=
    forall ot sels groups kf f more t,
      Q ot sels -> ExeA.ArgSpec.s_collect ES D E fuel ot sels = Some groups -> In kf groups ->
      snd kf = f :: more -> ExeA.ArgSpec.s_field_kind ES ot (ExeA.ArgData.fn_name f) = ExeA.ArgSpec.SFType t ->
      match ExeA.ArgData.lookup_type ES (ExeA.ArgSpec.sty_base t) with
      | Some (ExeA.ArgData.NObject _ _) | Some (ExeA.ArgData.NInterface _) | Some (ExeA.ArgData.NUnion _) =>
          forall ot', In ot' (ExeA.ArgSpec.s_possible ES (ExeA.ArgSpec.sty_base t)) ->
                      Q ot' (ExeA.ArgSpec.s_merge_selection_sets (snd kf))
      | _ => True
      end.

  (** the two lemmas give the step C01_doc_ok_acyclic asks of Q (argument coercion is total on
      closed schemas: C03_argument_coercion_never_unsupported) *)
  Lemma invariant_step :
    cost_schema_accepted ES = true -> fields_defined_on -> merge_sound ->
    forall ot sels, Q ot sels ->
      exists groups, ExeA.ArgSpec.s_collect ES D E fuel ot sels = Some groups /\
                     Forall (ExeA.ArgHyps.group_local ES D Q ot) groups.
  Proof.
    intros Hs Hdef Hmerge ot sels HQ. destruct (Hdef ot sels HQ) as (groups & Hc & Hg).
    exists groups. split; [exact Hc|]. rewrite Forall_forall in *. intros kf Hin.
    specialize (Hg kf Hin). unfold group_defined in Hg. unfold ExeA.ArgHyps.group_local.
    destruct (snd kf) as [|f more] eqn:Ek; [exact Hg|].
    destruct (ExeA.ArgSpec.s_field_kind ES ot (ExeA.ArgData.fn_name f)) as [| |t|] eqn:Ef; try exact Hg.
    split; [apply args_total_closed; exact Hs|].
    pose proof (Hmerge ot sels groups kf f more t HQ Hc Hin Ek Ef) as Hm. rewrite Ek in Hm.
    destruct (ExeA.ArgData.lookup_type ES (ExeA.ArgSpec.sty_base t)) as [[k|vs|fs ifs|fs|ms|]|]; try exact I; try exact Hm; exact Hg.
  Qed.
End Invariant.

(** ** the open premise *)
Definition validate_establishes_invariant pi VS F ES : Prop :=
  forall bs d opname o vv rt,
    parse_and_validate_order pi VS F bs = FAccepted d ->
    ExeA.ArgModel.get_operation (exe_of_syn d) opname = ExeA.ArgModel.GOp o ->
    let D := ExeA.ArgData.doc_of (exe_of_syn d) o vv in
    let E := ExeA.ArgArgs.env_of_vars vv in
    ExeA.ArgSpec.s_root_type ES (ExeA.ArgData.op_kind D) = Some rt ->
    exists Q, Q rt (ExeA.ArgData.op_sels D) /\ fields_defined_on ES D E Q /\ merge_sound ES D E Q.

Theorem doc_ok_from_invariant pi VS F ES :
  Vld.ProofsCommon.order_ok pi -> schemas_agree VS ES = true -> cost_schema_accepted ES = true ->
  validate_establishes_invariant pi VS F ES -> validate_establishes_doc_ok pi VS F ES.
Proof.
  intros Hpi Ha Hs Hinv bs d opname o vv Hacc Hg D E. subst D E.
  destruct (accepted_root_type pi VS F ES bs d opname o vv Hpi Ha Hacc Hg) as (rt & Hr).
  destruct (Hinv bs d opname o vv rt Hacc Hg Hr) as (Q & HQ & Hdef & Hmerge).
  apply (ExeA.ArgAcyclicProofs.doc_ok_nodirs_acyclic ES _ _ _ Q rt).
  - exact (accepted_acyclic pi VS F bs d o vv Hpi Hacc).
  - exact (accepted_conds_gen pi VS F ES bs d opname o vv _ Hpi Ha Hacc Hg).
  - exact Hr.
  - exact (invariant_step ES _ _ Q Hs Hdef Hmerge).
  - exact HQ.
Qed.

Theorem pipeline_response_if_invariant pi VS F ES bs opname raw W :
  Vld.ProofsCommon.order_ok pi ->
  schema_accepted ES = true -> cost_schema_accepted ES = true -> schemas_agree VS ES = true ->
  validate_establishes_invariant pi VS F ES -> text_positions_small bs ->
  is_response (pipeline_order pi VS F ES bs opname raw W) = true.
Proof.
  intros Hpi Hn Hs Ha Hinv Hp.
  apply (pipeline_response_if_obligations pi Hpi VS F ES bs opname raw W Hn); try assumption.
  apply doc_ok_from_invariant; assumption.
Qed.

(** ** the premise is exactly as strong as needed: [sels_ok] itself is such a Q (so the premise
    holds of every request on which the composed model's dynamic [doc_ok] check passes, and it is
    satisfiable: Examples/C03.v) *)
Section Converse.
  Variables (ES : ExeA.ArgData.schema) (D : ExeA.ArgData.document) (E : ExeA.ArgData.env).
  Let fuel := ExeA.ArgModel.default_fuel D.
  Definition Q_sels_ok (ot : ExeA.ArgData.name) (sels : list ExeA.ArgData.selection) : Prop :=
    exists n, ExeA.ArgSpec.sels_ok ES D E fuel n ot sels = true.

  Lemma sels_ok_fields_defined : fields_defined_on ES D E Q_sels_ok.
  Proof.
    intros ot sels [n Hn]. destruct n as [|n']; [discriminate|]. cbn [ExeA.ArgSpec.sels_ok] in Hn.
    fold fuel in Hn. destruct (ExeA.ArgSpec.s_collect ES D E fuel ot sels) as [groups|] eqn:Ec; [|discriminate].
    exists groups. split; [exact Ec|]. rewrite Forall_forall. rewrite forallb_forall in Hn.
    intros kf Hin. specialize (Hn kf Hin). unfold ExeA.ArgSpec.group_ok_with in Hn. unfold group_defined.
    destruct (snd kf) as [|f more]; [discriminate|].
    destruct (ExeA.ArgSpec.s_field_kind ES ot (ExeA.ArgData.fn_name f)) as [| |t|]; try exact I; try discriminate.
    apply andb_true_iff in Hn as [_ Hn]. unfold ExeA.ArgSpec.type_ok_with in Hn.
    destruct (ExeA.ArgData.lookup_type ES (ExeA.ArgSpec.sty_base t)) as [[k|vs|fs ifs|fs|ms|]|]; try exact I; discriminate.
  Qed.

  Lemma sels_ok_merge_sound : merge_sound ES D E Q_sels_ok.
  Proof.
    intros ot sels groups kf f more t [n Hn] Hc Hin Ek Ef. destruct n as [|n']; [discriminate|].
    cbn [ExeA.ArgSpec.sels_ok] in Hn. fold fuel in Hn. change (ExeA.ArgSpec.s_collect ES D E fuel ot sels = Some groups) in Hc.
    rewrite Hc in Hn. rewrite forallb_forall in Hn.
    specialize (Hn kf Hin). unfold ExeA.ArgSpec.group_ok_with in Hn. rewrite Ek, Ef in Hn.
    apply andb_true_iff in Hn as [_ Hn]. unfold ExeA.ArgSpec.type_ok_with in Hn.
    destruct (ExeA.ArgData.lookup_type ES (ExeA.ArgSpec.sty_base t)) as [[k|vs|fs ifs|fs|ms|]|]; try exact I;
      rewrite forallb_forall in Hn; intros ot' Hot'; exists n'; rewrite Ek; exact (Hn ot' Hot').
  Qed.
End Converse.

Theorem invariant_from_doc_ok ES D E n rt :
  ExeA.ArgSpec.s_root_type ES (ExeA.ArgData.op_kind D) = Some rt ->
  ExeA.ArgSpec.doc_ok_nodirs ES D E (ExeA.ArgModel.default_fuel D) n = true ->
  exists Q, Q rt (ExeA.ArgData.op_sels D) /\ fields_defined_on ES D E Q /\ merge_sound ES D E Q.
Proof.
  intros Hr Hd. unfold ExeA.ArgSpec.doc_ok_nodirs in Hd. apply andb_true_iff in Hd as [_ Hd]. rewrite Hr in Hd.
  exists (Q_sels_ok ES D E). split; [exists n; exact Hd|]. split; [apply sels_ok_fields_defined|apply sels_ok_merge_sound].
Qed.
