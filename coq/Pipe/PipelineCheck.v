(** * Pipe/PipelineCheck.v — C03 correspondence: the hostile stream.
    case = (stream, api, query, vars, op, world, observed stage verdicts, observed outcome class,
            observed response summary).  Oracle: the outcome is a normal return whose response
    serialises and carries data or errors.  Model: the glue of graphql.go applied to the observed
    stage verdicts must predict the observed response. *)
From Coq Require Import List NArith ZArith Bool String Ascii.
From ApiFu Require Import Base.Sexp Pipe.PipelineModel.
Import ListNotations.
Open Scope string_scope.
Open Scope N_scope.

Fixpoint string_of_bytes (b : bytes) : string :=
  match b with
  | [] => EmptyString
  | c :: r => String (ascii_of_N c) (string_of_bytes r)
  end.

(** the panic site: the detail up to the first ':' (function name of the first api-fu frame) *)
Fixpoint upto_colon (b : bytes) : bytes :=
  match b with
  | [] => []
  | c :: r => if N.eqb c 58 then [] else c :: upto_colon r
  end.

(** keys are symbols of the exchange format: keep letters, digits, '_' '.' ':' '-' *)
Definition key_char (c : N) : N :=
  if ((48 <=? c) && (c <=? 58)) || ((65 <=? c) && (c <=? 90)) || ((97 <=? c) && (c <=? 122))
     || (c =? 95) || (c =? 46) || (c =? 45) then c else 95.

Definition dec_count (name : string) (l : list sexp) : option (option (stage nat)) :=
  match field name l with
  | None => Some None
  | Some [x] => if is_sym "crashed" x then Some (Some Crashed)
                else match as_nat x with Some n => Some (Some (Returned n)) | None => None end
  | _ => None
  end.

Definition dec_exec (l : list sexp) : option (option exec_out) :=
  match field "exec" l with
  | None => Some None
  | Some [x] => if is_sym "crashed" x then Some (Some Crashed) else None
  | Some [b; n] => match as_bool b, as_nat n with
                   | Some bb, Some nn => Some (Some (Returned (bb, nn)))
                   | _, _ => None
                   end
  | _ => None
  end.

Definition dec_sub (l : list sexp) : option (option subscribe_out) :=
  match field "subscribe" l with
  | None => Some None
  | Some [x] => if is_sym "crashed" x then Some (Some Crashed)
                else match as_bool x with Some b => Some (Some (Returned b)) | None => None end
  | _ => None
  end.

Definition dec_resp (l : list sexp) : option (option response) :=
  match field "resp" l with
  | Some [x] => if is_sym "none" x then Some None else None
  | Some [h; d; n] => match as_bool h, as_bool d, as_nat n with
                      | Some hb, Some db, Some nn => Some (Some {| has_data := hb; data_null := db; nerrors := nn |})
                      | _, _, _ => None
                      end
  | _ => None
  end.

Definition resp_eqb (a b : response) : bool :=
  Bool.eqb (has_data a) (has_data b) && Bool.eqb (data_null a) (data_null b) && Nat.eqb (nerrors a) (nerrors b).

(** the stage verdicts come from a second run of the stages: a rejected document is rejected in
    both runs, but the NUMBER of validation errors is not a function of the document (it depends on
    the order in which Go ranges over the validator's maps: C04, "order-sensitive"); for a
    validation rejection only "no data, at least one error" is compared *)
Definition resp_agree (validation_rejected : bool) (a b : response) : bool :=
  if validation_rejected then
    Bool.eqb (has_data a) (has_data b) && Bool.eqb (data_null a) (data_null b)
    && negb (Nat.eqb (nerrors a) 0) && negb (Nat.eqb (nerrors b) 0)
  else resp_eqb a b.

Definition of_outcome (o : outcome) : sexp :=
  match o with
  | Crash => tag "crash" []
  | Resp r => tag "resp" [of_bool (has_data r); of_bool (data_null r); of_nat (nerrors r)]
  end.

(** a missing stage verdict is legitimate exactly when the glue does not consult it *)
Definition stages_consistent (api : string) (p : option parse_out) (v : option validate_out)
           (e : option exec_out) (s : option subscribe_out) : bool :=
  match p with
  | None => false
  | Some (Returned O) =>
      match v with
      | None => false
      | Some (Returned O) =>
          if String.eqb api "execute" then match e with Some _ => true | None => false end
          else if String.eqb api "subscribe" then match s with Some _ => true | None => false end
          else true
      | Some _ => true
      end
  | Some _ => true
  end.

Definition get {A} (d : A) (o : option A) : A := match o with Some x => x | None => d end.

Definition judge_glue (stream api : string) (st : list sexp) (robs : option response) : sexp :=
  if String.eqb api "serve" then v_ok [stream; api]
  else
    match dec_count "parse" st, dec_count "validate" st, dec_exec st, dec_sub st with
    | Some p, Some v, Some e, Some s =>
        if negb (stages_consistent api p v e s) then v_bad "stages-inconsistent"
        else
          let p' := get (Returned 0%nat) p in
          let v' := get (Returned 0%nat) v in
          let predicted :=
              if String.eqb api "execute" then execute p' v' (get Crashed e)
              else if String.eqb api "subscribe" then subscribe p' v' (get Crashed s)
              else match parse_and_validate p' v' with
                   | Crashed => Crash
                   | Returned O => Resp {| has_data := true; data_null := false; nerrors := 0 |}
                   | Returned n => Resp {| has_data := false; data_null := true; nerrors := n |}
                   end in
          match predicted, robs with
          | Resp r1, Some r2 =>
              if resp_agree (match p', v' with Returned O, Returned (S _) => true | _, _ => false end) r1 r2 then
                v_ok ([stream; api] ++
                      (if has_data r2 then ["executed"; "nontrivial"] else
                         match p' with Returned O => ["validation-rejected"; "nontrivial"] | _ => ["syntax-rejected"] end))
              else v_mismatch "glue" [of_outcome predicted]
          | _, _ => v_mismatch "glue-crash" [of_outcome predicted]
          end
    | _, _, _, _ => v_bad "stages"
    end.

(** the twin oracle of the promise-delivery cases: [(twin (async data n) (sync data n'))] — the same
    resolver answers (value and error) handed over through a ResolvePromise and returned directly
    must give the same data (compared as serialised text) and errors in exactly the same cases.
    (The NUMBER of errors may legitimately depend on the order in which promises are fulfilled.) *)
Definition twin_agrees (l : list sexp) : option bool :=
  match field "twin" l with
  | None => Some true
  | Some tw =>
      match field "async" tw, field "sync" tw with
      | Some [SStr da; SZ na], Some [SStr ds; SZ ns] =>
          Some (bytes_eqb da ds && Bool.eqb (Z.eqb na 0) (Z.eqb ns 0))
      | _, _ => None
      end
  end.

Definition check_glue (c : sexp) : sexp :=
  match tagged "case" c with
  | None => v_bad "shape"
  | Some l =>
      match field1 "stream" l, field1 "api" l, field "stages" l, field "outcome" l with
      | Some (SSym stream), Some (SSym api), Some st, Some [SSym cls; SStr detail] =>
          (* --- oracle: normal return, serialisable, data or errors *)
          if negb (String.eqb cls "ok" || String.eqb cls "errors") then
            let key := if String.eqb cls "panic" then "panic:" ++ string_of_bytes (map key_char (upto_colon detail))
                       else if String.eqb cls "timeout" then "timeout:" ++ stream ++ ":" ++ api    (* which family, which entry point *)
                       else cls in
            v_oracle_fail key [SStr detail]
          else
          match dec_resp l with
          | None => v_bad "resp"
          | Some robs =>
              let bad := match robs with Some r => negb (data_or_errors r) | None => false end in
              if bad then v_oracle_fail "nodata-noerrors" []
              else if match twin_agrees l with Some false => true | _ => false end
              then v_oracle_fail "promise-delivery-changes-response" (match field "twin" l with Some tw => tw | None => [] end)
              else if match twin_agrees l with None => true | _ => false end then v_bad "twin"
              else if match field1 "expect" l with Some x => is_sym "refused" x | None => false end
                      && match dec_count "parse" st with Some (Some (Returned O)) => true | _ => false end
              then (* generator intent: nested far beyond the parser's recursion limit *)
                v_oracle_fail "too-deep-document-not-refused" []
              else judge_glue stream api st robs
          end
      | _, _, _, _ => v_bad "fields"
      end
  end.
