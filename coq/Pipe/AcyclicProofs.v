(** * Pipe/AcyclicProofs.v — C03: acyclicity, transported.  A text the composed front half ACCEPTS
    has no fragment that reaches itself in the executor's encoding ([ArgHyps.acyclic_frags], the
    hypothesis of C01_doc_ok_acyclic / C01_acyclic_levels), for every selectable operation and all
    variable values: C04's silent cycle rule (5.5.2.2 in the Spec's formulation:
    spreads_silent_5_5_2_2, spec_reachable_from) on [vld_of_syn d], carried across the two
    conversions.  With it the level / fuel part of C01's [doc_ok] is discharged for accepted
    texts: [doc_ok] holds with the bound the check evaluates as soon as an n-free invariant [Q]
    ("validated selection set for parent type ot") is supplied. *)
From Coq Require Import List NArith ZArith Bool Lia.
From ApiFu Require Import Base.Sexp.
From ApiFu Require Syn.Ast Syn.ParserModel Syn.FrontEnd.
From ApiFu Require Vld.Ast Vld.ValidatorModel Vld.ValidSpec Vld.ProofsCommon Vld.ProofsFragDecl Vld.ProofsSpecReach
     Vld.ValidatorProofs Vld.MemoEquiv.
From ApiFu Require Val.Values ExeA.ArgData ExeA.ArgArgs ExeA.ArgModel ExeA.ArgSpec ExeA.ArgHyps ExeA.ArgCollectProofs ExeA.ArgFuelProofs
     ExeA.ArgAcyclicProofs.
From ApiFu Require Import Pipe.Convert Pipe.Compose Pipe.SchemaAgree Pipe.PositionsProofs Pipe.FieldPositions Pipe.ComposeProofs
     Pipe.CondsProofs Pipe.TypingProofs.
Import ListNotations.

(** ** the fragment names a parsed selection spreads, at any depth *)
Fixpoint syn_spreads_sel (s : Syn.Ast.selection) : list bytes :=
  match s with
  | Syn.Ast.SField _ _ _ _ (Some ss) => syn_spreads_ss ss
  | Syn.Ast.SField _ _ _ _ None => []
  | Syn.Ast.SSpread n _ _ => [Syn.Ast.id_name n]
  | Syn.Ast.SInline _ _ ss _ => syn_spreads_ss ss
  end
with syn_spreads_ss (ss : Syn.Ast.selset) : list bytes :=
  match ss with
  | Syn.Ast.SelSet sels _ _ =>
      (fix go (l : list Syn.Ast.selection) : list bytes :=
         match l with [] => [] | x :: r => syn_spreads_sel x ++ go r end) sels
  end.

Lemma syn_spreads_go sels :
  (fix go (l : list Syn.Ast.selection) : list bytes :=
     match l with [] => [] | x :: r => syn_spreads_sel x ++ go r end) sels
  = flat_map syn_spreads_sel sels.
Proof. induction sels as [|x r IH]; [reflexivity|]. cbn [flat_map]. rewrite IH. reflexivity. Qed.

Definition e_spread (t : ExeA.ArgData.selection) : list ExeA.ArgData.name :=
  match t with ExeA.ArgData.SSpread n _ _ => [n] | _ => [] end.
Definition v_spread (s : Vld.Ast.selection) : list Vld.Ast.name :=
  match s with Vld.Ast.SSpread m _ _ _ => [m] | _ => [] end.

(** the executor's view ... *)
Fixpoint exe_spreads_sel (s : Syn.Ast.selection) :
  flat_map e_spread (ExeA.ArgHyps.sub_sels (e_sel s)) = syn_spreads_sel s
with exe_spreads_ss (ss : Syn.Ast.selset) :
  flat_map e_spread (flat_map ExeA.ArgHyps.sub_sels (e_ss ss)) = syn_spreads_ss ss.
Proof.
  - destruct s as [alias n args dirs [sub|]|n dirs e|cond dirs sub e];
      cbn [e_sel ExeA.ArgHyps.sub_sels flat_map e_spread syn_spreads_sel app].
    + apply exe_spreads_ss.
    + reflexivity.
    + reflexivity.
    + apply exe_spreads_ss.
  - destruct ss as [sels o c]. cbn [e_ss syn_spreads_ss]. rewrite syn_spreads_go.
    induction sels as [|x r IH]; [reflexivity|].
    cbn [map flat_map]. rewrite flat_map_app, IH, exe_spreads_sel. reflexivity.
Qed.

Lemma exe_spread_names ss : ExeA.ArgHyps.spread_names (e_ss ss) = syn_spreads_ss ss.
Proof.
  unfold ExeA.ArgHyps.spread_names. rewrite <- exe_spreads_ss.
  rewrite (flat_map_flat_map e_spread ExeA.ArgHyps.sub_sels). reflexivity.
Qed.

(** ... and the validator's *)
Fixpoint vld_spreads_sel (s : Syn.Ast.selection) :
  flat_map v_spread (Vld.ValidSpec.sels_sel (v_sel s)) = syn_spreads_sel s
with vld_spreads_ss (ss : Syn.Ast.selset) :
  flat_map v_spread (Vld.ValidSpec.sels_ss (v_ss ss)) = syn_spreads_ss ss.
Proof.
  - destruct s as [alias n args dirs [sub|]|n dirs e|cond dirs sub e];
      cbn [v_sel Vld.ValidSpec.sels_sel flat_map v_spread syn_spreads_sel app].
    + apply vld_spreads_ss.
    + reflexivity.
    + reflexivity.
    + apply vld_spreads_ss.
  - destruct ss as [sels o c]. cbn [v_ss Vld.ValidSpec.sels_ss syn_spreads_ss]. rewrite syn_spreads_go.
    induction sels as [|x r IH]; [reflexivity|].
    cbn [map flat_map]. rewrite flat_map_app, IH, vld_spreads_sel. reflexivity.
Qed.

(** ** fragment definitions on both sides *)
Lemma e_frags_in d fr :
  In fr (e_frags d) ->
  exists kw n cond dirs sub, In (Syn.Ast.DFrag kw n cond dirs sub) d /\
    ExeA.ArgData.fr_name fr = Syn.Ast.id_name n /\ ExeA.ArgData.fr_sels fr = e_ss sub.
Proof.
  unfold e_frags. intro H. apply in_flat_map in H as (x & Hx & Hf).
  destruct x as [ot n vars dirs sub|kw n cond dirs sub]; [destruct Hf|].
  destruct Hf as [<-|[]]. exists kw, n, cond, dirs, sub. auto.
Qed.

Lemma frag_first_unique D X kw np c dirs sub :
  NoDup (Vld.Ast.frag_names D) -> In (Vld.Ast.DFrag kw X np c dirs sub) D ->
  Vld.Ast.frag_first D X = Some (Vld.Ast.DFrag kw X np c dirs sub).
Proof.
  induction D as [|d0 D IH]; intros Hnd Hin; [destruct Hin|].
  cbn [Vld.Ast.frag_first]. destruct d0 as [ot n vars dirs0 sub0|kw0 n0 np0 c0 dirs0 sub0].
  - destruct Hin as [Hin|Hin]; [discriminate|]. apply IH; [exact Hnd|exact Hin].
  - unfold Vld.Ast.frag_names in Hnd. cbn [flat_map app] in Hnd. inversion Hnd as [|x l Hx Hl]; subst.
    destruct Hin as [Hin|Hin].
    + inversion Hin; subst. unfold Vld.Ast.name_eqb. rewrite bytes_eqb_refl. reflexivity.
    + destruct (Vld.Ast.name_eqb X n0) eqn:E.
      * exfalso. apply bytes_eqb_eq in E. subst n0. apply Hx.
        unfold Vld.Ast.frag_names. apply in_flat_map. eexists. split; [exact Hin|left; reflexivity].
      * apply IH; assumption.
Qed.

(** an edge of the executor's spread graph is an edge of the Spec's *)
Lemma exe_edge_spec d o vv X frX Y :
  NoDup (Vld.Ast.frag_names (vld_of_syn d)) ->
  ExeA.ArgSpec.s_fragment (ExeA.ArgData.doc_of (exe_of_syn d) o vv) X = Some frX ->
  In Y (ExeA.ArgHyps.spread_names (ExeA.ArgData.fr_sels frX)) ->
  In Y (Vld.ValidSpec.spreads_of (vld_of_syn d) X).
Proof.
  intros Hnd Hf HY. rewrite <- ExeA.ArgCollectProofs.find_frag_eq in Hf.
  pose proof (ExeA.ArgCollectProofs.find_frag_in _ _ _ Hf) as Hin.
  pose proof (ExeA.ArgFuelProofs.find_frag_name _ _ _ Hf) as Hname.
  cbn [ExeA.ArgData.doc_of ExeA.ArgData.frags exe_of_syn ExeA.ArgData.r_frags] in Hin.
  destruct (e_frags_in d frX Hin) as (kw & n & cond & dirs & sub & Hd & Hn & Hs).
  rewrite Hs, exe_spread_names in HY. rewrite Hn in Hname. subst X.
  unfold Vld.ValidSpec.spreads_of, Vld.ValidSpec.fragment.
  assert (Hv : In (v_def (Syn.Ast.DFrag kw n cond dirs sub)) (vld_of_syn d)) by (unfold vld_of_syn; apply in_map; exact Hd).
  cbn [v_def] in Hv. rewrite (frag_first_unique _ _ _ _ _ _ _ Hnd Hv). cbn [Vld.Ast.def_sub].
  fold (flat_map v_spread (Vld.ValidSpec.sels_ss (v_ss sub))). rewrite vld_spreads_ss. exact HY.
Qed.

(** a path of the executor's spread graph is a path of the Spec's *)
Lemma chain_plus d o vv :
  NoDup (Vld.Ast.frag_names (vld_of_syn d)) ->
  forall l X frX, ExeA.ArgSpec.s_fragment (ExeA.ArgData.doc_of (exe_of_syn d) o vv) X = Some frX ->
  ExeA.ArgHyps.chain (ExeA.ArgData.doc_of (exe_of_syn d) o vv) (ExeA.ArgData.fr_sels frX) l ->
  forall G, In G l -> Vld.ProofsSpecReach.plus (Vld.ValidSpec.spreads_of (vld_of_syn d)) X G.
Proof.
  intros Hnd. induction l as [|F0 l IH]; intros X frX Hf Hc G HG; [destruct HG|].
  inversion Hc as [|sels F fr0 l' HF Hf0 Hc0]; subst.
  pose proof (exe_edge_spec d o vv X frX F0 Hnd Hf HF) as Hstep.
  destruct HG as [<-|HG].
  - apply Vld.ProofsSpecReach.plus_one. exact Hstep.
  - eapply Vld.ProofsSpecReach.plus_left; [exact Hstep|]. exact (IH F0 fr0 Hf0 Hc0 G HG).
Qed.

Theorem accepted_acyclic pi VS F bs d o vv :
  Vld.ProofsCommon.order_ok pi ->
  parse_and_validate_order pi VS F bs = FAccepted d ->
  ExeA.ArgHyps.acyclic_frags (ExeA.ArgData.doc_of (exe_of_syn d) o vv).
Proof.
  intros Hpi Hacc.
  destruct (front_cases pi Hpi VS F bs) as [(e & es & t & H & _)|[(d' & e & es & H & _)|(d' & H & Hp & Hv)]];
    rewrite Hacc in H; try discriminate. inversion H; subst d'. clear H.
  unfold validate_doc in Hv.
  apply (Vld.MemoEquiv.validate_memo_iff_parsed pi VS F (vld_of_syn d) Hpi (parsed_field_positions_distinct bs d [] Hp)) in Hv.
  apply Vld.ValidatorProofs.validate_model_nil in Hv. apply Vld.ValidatorProofs.all_rules_nil in Hv.
  destruct Hv as (_ & _ & _ & (Hdecl & Hspread) & _).
  apply (Vld.ProofsFragDecl.rule_fragment_declarations_iff pi Hpi) in Hdecl.
  unfold Vld.ProofsFragDecl.valid_5_5_1 in Hdecl.
  apply andb_true_iff in Hdecl as [Hdecl _]. apply andb_true_iff in Hdecl as [Hdecl _]. apply andb_true_iff in Hdecl as [H511 _].
  pose proof (Vld.ProofsSpecReach.spreads_silent_5_5_2_2 pi VS F (vld_of_syn d) Hpi H511 Hspread) as H552.
  assert (Hnd : NoDup (Vld.Ast.frag_names (vld_of_syn d))) by (apply (proj1 (Vld.ProofsCommon.nodupb_NoDup _)); exact H511).
  intros X frX l Hf Hc HX.
  pose proof (chain_plus d o vv Hnd l X frX Hf Hc X HX) as Hplus.
  apply Vld.ProofsSpecReach.spec_reachable_from in Hplus.
  unfold Vld.ValidSpec.valid_5_5_2_2 in H552. rewrite forallb_forall in H552.
  assert (HXn : In X (Vld.Ast.frag_names (vld_of_syn d))).
  { rewrite <- ExeA.ArgCollectProofs.find_frag_eq in Hf.
    pose proof (ExeA.ArgCollectProofs.find_frag_in _ _ _ Hf) as Hin.
    pose proof (ExeA.ArgFuelProofs.find_frag_name _ _ _ Hf) as Hname.
    cbn [ExeA.ArgData.doc_of ExeA.ArgData.frags exe_of_syn ExeA.ArgData.r_frags] in Hin.
    destruct (e_frags_in d frX Hin) as (kw & n & cond & dirs & sub & Hd & Hn & _).
    unfold Vld.Ast.frag_names. apply in_flat_map. exists (v_def (Syn.Ast.DFrag kw n cond dirs sub)).
    split; [unfold vld_of_syn; apply in_map; exact Hd|]. cbn [v_def]. left. congruence. }
  specialize (H552 X HXn). apply negb_true_iff in H552.
  apply (proj1 (Vld.ProofsCommon.mem_false _ _)) in H552. exact (H552 Hplus).
Qed.
