(** * Pipe/SubscribeProofs.v — C03: graphql.Subscribe from bytes never crashes: no stage of
    [SubscribeCompose.subscribe_order] panics or runs out of fuel, and its outcome is syntax errors,
    validation errors, exactly one error, or the source resolver's value.
    Chains C03_front_never_panics, C05's no-panic theorems (variables, arguments), the type-condition
    theorem of CondsProofs.v with C01's [collect_sim] (collectFields of the model = CollectFields of
    the reference, which never reaches "unexpected fragment type") and C01_collect_fuel_sufficient. *)
From Coq Require Import List NArith ZArith Bool Lia.
From ApiFu Require Import Base.Sexp.
From ApiFu Require Syn.Ast Vld.Ast Vld.ValidatorModel Vld.ProofsCommon.
From ApiFu Require Val.Values Val.CoerceModel Val.CoerceSpec Val.CoerceTotal.
From ApiFu Require ExeA.ArgData ExeA.ArgArgs ExeA.ArgModel ExeA.ArgSpec ExeA.ArgHyps ExeA.ArgCollectProofs ExeA.ArgFuelProofs.
From ApiFu Require Import Pipe.Convert Pipe.Compose Pipe.SchemaAgree Pipe.ComposeProofs Pipe.CondsProofs Pipe.TypingProofs
     Pipe.CostCompose Pipe.SubscribeCompose.
Import ListNotations.

Definition sub_settled (r : sub_result) : Prop :=
  match r with SubPanic _ | SubOutOfFuel _ => False | _ => True end.

Lemma subscribe_op_settled ES R o vv W :
  cost_schema_accepted ES = true ->
  ExeA.ArgSpec.conds_gen ES (ExeA.ArgData.doc_of R o vv) (ExeA.ArgArgs.env_of_vars vv) false = true ->
  sub_settled (subscribe_op ES R o vv W).
Proof.
  intros Hs Hconds. unfold subscribe_op.
  set (D := ExeA.ArgData.doc_of R o vv) in *. set (E := ExeA.ArgArgs.env_of_vars vv) in *.
  destruct (ExeA.ArgData.o_kind o); try exact I.
  destruct (ExeA.ArgData.subscription ES) as [st|]; [|exact I].
  destruct (ExeA.ArgData.lookup_type ES st) as [[k|vs|fs ifs|fs|ms|]|]; try exact I.
  assert (Hdepth : (ExeA.ArgModel.sels_depth (ExeA.ArgData.o_sels o) <= ExeA.ArgModel.doc_depth D)%nat).
  { unfold ExeA.ArgModel.doc_depth, D. cbn [ExeA.ArgData.doc_of ExeA.ArgData.op_sels]. lia. }
  pose proof (ExeA.ArgFuelProofs.collect_fuel_sufficient ES D E st (ExeA.ArgData.o_sels o) [] Hdepth) as Hfuel.
  destruct (ExeA.ArgSpec.s_collect_flat ES D E (ExeA.ArgModel.default_fuel D) st (ExeA.ArgData.o_sels o) []) as [[v flat]|] eqn:Ef;
    [|contradiction].
  assert (Hok : forallb (ExeA.ArgSpec.sel_conds_gen ES E false) (ExeA.ArgData.o_sels o) = true).
  { pose proof Hconds as H0. unfold ExeA.ArgSpec.conds_gen in H0. apply andb_true_iff in H0 as [H _]. exact H. }
  destruct (ExeA.ArgCollectProofs.collect_sim ES D E false Hconds (ExeA.ArgModel.default_fuel D) st (ExeA.ArgData.o_sels o) [] [] v flat Hok Ef)
    as [Hc _].
  rewrite Hc. destruct (ExeA.ArgCollectProofs.append_flat flat []) as [|x [|y r]]; try exact I.
  destruct (sub_field ES st (ExeA.ArgData.fn_name (ExeA.ArgModel.g_first x))); [|exact I].
  pose proof (args_total_closed ES D st (ExeA.ArgModel.g_first x) Hs) as Ha. unfold ExeA.ArgSpec.args_total in Ha.
  destruct (ExeA.ArgArgs.coerce_field_args ES D st (ExeA.ArgModel.g_first x)) as [A| |]; try exact I; [|discriminate].
  destruct (source_outcome W (ExeA.ArgArgs.field_key (ExeA.ArgData.fn_name (ExeA.ArgModel.g_first x)) A)) as [[| | | | |]|]; exact I.
Qed.

Theorem subscribe_never_crashes pi VS F ES bs opname raw W :
  Vld.ProofsCommon.order_ok pi ->
  schema_accepted ES = true -> cost_schema_accepted ES = true -> schemas_agree VS ES = true ->
  sub_settled (subscribe_order pi VS F ES bs opname raw W).
Proof.
  intros Hpi Hn Hs Ha. unfold subscribe_order.
  destruct (front_cases pi Hpi VS F bs) as [(e & es & t & H & _)|[(d & e & es & H & _)|(d & H & _)]]; rewrite H; try exact I.
  unfold subscribe_doc.
  destruct (ExeA.ArgModel.get_operation (exe_of_syn d) opname) as [o|p|] eqn:Hg; try exact I.
  destruct (ExeA.ArgModel.coerce_request_vars ES o raw) as [vv| |] eqn:Hv; try exact I.
  - apply subscribe_op_settled; [exact Hs|].
    exact (accepted_conds_gen pi VS F ES bs d opname o vv _ Hpi Ha H Hg).
  - apply andb_true_iff in Hn as [_ HC]. unfold ExeA.ArgModel.coerce_request_vars in Hv.
    exact (Val.CoerceTotal.variable_values_no_panic _ _ HC _ _ _ Hv).
Qed.
