(** * Pipe/CondsProofs.v — C03: one half of the open obligation [validate_establishes_doc_ok], proved.

    [doc_ok ES D E fuel n = conds_ok ES D E && (typing of the collected fields: sels_ok)].
    Here: a text that [parse_and_validate_order] ACCEPTS satisfies [conds_ok], for every operation
    the executor can select, every variable environment under which the @skip/@include
    conditions have boolean values, and schemas [VS], [ES] that agree ([schemas_agree]):
    every type condition — of a fragment definition or of an inline fragment, at any depth —
    names a composite type.  Hence [ExecModel.type_applies] never answers [ApPanic]: the executor's
    panic("unexpected fragment type") (doesFragmentTypeApply, executor.go) is unreachable after
    validation.  From C04's rule theorem for 5.5.1 (fragment declarations: type conditions exist
    and are composite), carried across [vld_of_syn] / [exe_of_syn] and [schemas_agree]. *)
From Coq Require Import List NArith ZArith Bool Lia.
From ApiFu Require Import Base.Sexp.
From ApiFu Require Syn.Ast Syn.ParserModel Syn.FrontEnd.
From ApiFu Require Vld.Ast Vld.ValidatorModel Vld.ValidSpec Vld.ProofsCommon Vld.ProofsFragDecl Vld.ValidatorProofs Vld.TypeInfoPure Vld.MemoEquiv.
From ApiFu Require Val.Values ExeA.ArgData ExeA.ArgArgs ExeA.ArgModel ExeA.ArgSpec ExeA.ArgHyps.
From ApiFu Require Import Pipe.Convert Pipe.Compose Pipe.SchemaAgree Pipe.PositionsProofs Pipe.FieldPositions Pipe.ComposeProofs.
Import ListNotations.

(** ** the inline type conditions of a parsed selection, at any depth *)
Fixpoint syn_conds_sel (s : Syn.Ast.selection) : list bytes :=
  match s with
  | Syn.Ast.SField _ _ _ _ (Some ss) => syn_conds_ss ss
  | Syn.Ast.SField _ _ _ _ None => []
  | Syn.Ast.SSpread _ _ _ => []
  | Syn.Ast.SInline cond _ ss _ =>
      match cond with Some c => [Syn.Ast.id_name c] | None => [] end ++ syn_conds_ss ss
  end
with syn_conds_ss (ss : Syn.Ast.selset) : list bytes :=
  match ss with
  | Syn.Ast.SelSet sels _ _ =>
      (fix go (l : list Syn.Ast.selection) : list bytes :=
         match l with [] => [] | x :: r => syn_conds_sel x ++ go r end) sels
  end.

Lemma syn_conds_go sels :
  (fix go (l : list Syn.Ast.selection) : list bytes :=
     match l with [] => [] | x :: r => syn_conds_sel x ++ go r end) sels
  = flat_map syn_conds_sel sels.
Proof. induction sels as [|x r IH]; [reflexivity|]. cbn [flat_map]. rewrite IH. reflexivity. Qed.

Definition vld_inline_cond (s : Vld.Ast.selection) : list Vld.Ast.name :=
  match s with Vld.Ast.SInline (Some (c, _)) _ _ _ => [c] | _ => [] end.

(** the validator's view lists exactly them *)
Fixpoint vld_conds_sel (s : Syn.Ast.selection) :
  flat_map vld_inline_cond (Vld.ValidSpec.sels_sel (v_sel s)) = syn_conds_sel s
with vld_conds_ss (ss : Syn.Ast.selset) :
  flat_map vld_inline_cond (Vld.ValidSpec.sels_ss (v_ss ss)) = syn_conds_ss ss.
Proof.
  - destruct s as [alias n args dirs [sub|]|n dirs e|cond dirs sub e].
    + cbn [v_sel Vld.ValidSpec.sels_sel flat_map vld_inline_cond syn_conds_sel app]. apply vld_conds_ss.
    + reflexivity.
    + reflexivity.
    + cbn [v_sel Vld.ValidSpec.sels_sel flat_map syn_conds_sel]. rewrite vld_conds_ss.
      destruct cond as [c|]; reflexivity.
  - destruct ss as [sels o c]. cbn [v_ss Vld.ValidSpec.sels_ss syn_conds_ss]. rewrite syn_conds_go.
    induction sels as [|x r IH]; [reflexivity|].
    cbn [map flat_map]. rewrite flat_map_app, IH, vld_conds_sel. reflexivity.
Qed.

(** ... and the executor's [sel_conds_ok] asks [cond_ok] of exactly them (and [dirs_ok] of every
    selection) *)
Fixpoint exe_conds_sel ES E (s : Syn.Ast.selection) :
  Forall (fun c => ExeA.ArgSpec.cond_ok ES c = true) (syn_conds_sel s) ->
  forallb (ExeA.ArgSpec.dirs_ok E) (ExeA.ArgHyps.sub_sels (e_sel s)) = true ->
  ExeA.ArgSpec.sel_conds_ok ES E (e_sel s) = true
with exe_conds_ss ES E (ss : Syn.Ast.selset) :
  Forall (fun c => ExeA.ArgSpec.cond_ok ES c = true) (syn_conds_ss ss) ->
  forallb (ExeA.ArgSpec.dirs_ok E) (flat_map ExeA.ArgHyps.sub_sels (e_ss ss)) = true ->
  forallb (ExeA.ArgSpec.sel_conds_ok ES E) (e_ss ss) = true.
Proof.
  - destruct s as [alias n args dirs [sub|]|n dirs e|cond dirs sub e]; intros Hc Hd.
    + cbn [e_sel ExeA.ArgHyps.sub_sels forallb] in Hd. apply andb_true_iff in Hd as [Hd1 Hd2].
      cbn [e_sel ExeA.ArgSpec.sel_conds_ok]. rewrite Hd1. cbn [andb].
      apply exe_conds_ss; assumption.
    + cbn [e_sel ExeA.ArgHyps.sub_sels forallb] in Hd. apply andb_true_iff in Hd as [Hd1 _].
      cbn [e_sel ExeA.ArgSpec.sel_conds_ok]. rewrite Hd1. reflexivity.
    + cbn [e_sel ExeA.ArgHyps.sub_sels forallb] in Hd. apply andb_true_iff in Hd as [Hd1 _].
      cbn [e_sel ExeA.ArgSpec.sel_conds_ok]. rewrite Hd1. reflexivity.
    + cbn [e_sel ExeA.ArgHyps.sub_sels forallb] in Hd. apply andb_true_iff in Hd as [Hd1 Hd2].
      cbn [e_sel ExeA.ArgSpec.sel_conds_ok]. rewrite Hd1. cbn [andb].
      cbn [syn_conds_sel] in Hc. apply Forall_app in Hc as [Hc1 Hc2].
      apply andb_true_iff. split.
      * destruct cond as [c|]; [|reflexivity]. cbn [option_map]. inversion Hc1; assumption.
      * apply exe_conds_ss; assumption.
  - destruct ss as [sels o c]. cbn [e_ss syn_conds_ss]. rewrite syn_conds_go.
    induction sels as [|x r IH]; intros Hc Hd; [reflexivity|].
    cbn [map flat_map forallb] in *. apply Forall_app in Hc as [Hc1 Hc2].
    rewrite forallb_app in Hd. apply andb_true_iff in Hd as [Hd1 Hd2].
    apply andb_true_iff. split; [apply exe_conds_sel; assumption|apply IH; assumption].
Qed.

(** the same without the directive conjunct ([sel_conds_gen false]): no hypothesis on the variables *)
Fixpoint exe_condsg_sel ES E (s : Syn.Ast.selection) :
  Forall (fun c => ExeA.ArgSpec.cond_ok ES c = true) (syn_conds_sel s) ->
  ExeA.ArgSpec.sel_conds_gen ES E false (e_sel s) = true
with exe_condsg_ss ES E (ss : Syn.Ast.selset) :
  Forall (fun c => ExeA.ArgSpec.cond_ok ES c = true) (syn_conds_ss ss) ->
  forallb (ExeA.ArgSpec.sel_conds_gen ES E false) (e_ss ss) = true.
Proof.
  - destruct s as [alias n args dirs [sub|]|n dirs e|cond dirs sub e]; intros Hc.
    + cbn [e_sel ExeA.ArgSpec.sel_conds_gen andb]. apply exe_condsg_ss; assumption.
    + reflexivity.
    + reflexivity.
    + cbn [e_sel ExeA.ArgSpec.sel_conds_gen andb].
      cbn [syn_conds_sel] in Hc. apply Forall_app in Hc as [Hc1 Hc2].
      apply andb_true_iff. split.
      * destruct cond as [c|]; [|reflexivity]. cbn [option_map]. inversion Hc1; assumption.
      * apply exe_condsg_ss; assumption.
  - destruct ss as [sels o c]. cbn [e_ss syn_conds_ss]. rewrite syn_conds_go.
    induction sels as [|x r IH]; intros Hc; [reflexivity|].
    cbn [map flat_map forallb] in *. apply Forall_app in Hc as [Hc1 Hc2].
    apply andb_true_iff. split; [apply exe_condsg_sel; assumption|apply IH; assumption].
Qed.

(** ** agreement of the encodings carries "composite" over *)
Lemma exe_assoc_in {A} k (l : list (ExeA.ArgData.name * A)) v :
  ExeA.ArgData.assoc k l = Some v -> In (k, v) l.
Proof.
  induction l as [|[k' v'] l IH]; cbn [ExeA.ArgData.assoc]; [discriminate|].
  destruct (ExeA.ArgData.name_eqb k k') eqn:E.
  - intro H. inversion H; subst. apply bytes_eqb_eq in E. subst. left; reflexivity.
  - intro H. right. apply IH. exact H.
Qed.

Lemma cond_ok_of_agree VS F ES c b :
  schemas_agree VS ES = true ->
  Vld.ValidSpec.type_of VS F c = Some b -> Vld.Ast.is_composite_body b = true ->
  ExeA.ArgSpec.cond_ok ES c = true.
Proof.
  intros Ha Ht Hb. unfold ExeA.ArgSpec.cond_ok.
  destruct (ExeA.ArgData.lookup_type ES c) as [t|] eqn:El; [|reflexivity].
  unfold ExeA.ArgData.lookup_type in El. apply exe_assoc_in in El.
  unfold schemas_agree in Ha. repeat (apply andb_true_iff in Ha as [Ha ?]).
  rewrite forallb_forall in Ha. specialize (Ha _ El). unfold type_agree in Ha. cbn [fst snd] in Ha.
  unfold Vld.ValidSpec.type_of, Vld.Ast.named_type in Ht.
  destruct (Vld.Ast.raw_type VS c) as [d|]; [|discriminate].
  destruct (Vld.Ast.subset (Vld.Ast.t_req d) F); [|discriminate]. inversion Ht; subst b.
  apply andb_true_iff in Ha as [_ Ha].
  destruct (Vld.Ast.t_body d), t; try discriminate; reflexivity.
Qed.

(** ** what acceptance gives: every type condition of the document is a visible composite type *)
Lemma accepted_type_conditions pi VS F d :
  Vld.ProofsCommon.order_ok pi ->
  Vld.MemoEquiv.doc_field_positions_distinct (vld_of_syn d) ->
  validate_doc pi VS F d = Vld.Ast.Done [] ->
  Forall (fun c => exists b, Vld.ValidSpec.type_of VS F c = Some b /\ Vld.Ast.is_composite_body b = true)
         (Vld.ValidSpec.type_conditions (vld_of_syn d)).
Proof.
  intros Hpi Hpos Hv. unfold validate_doc in Hv.
  apply (Vld.MemoEquiv.validate_memo_iff_parsed pi VS F (vld_of_syn d) Hpi Hpos) in Hv.
  apply Vld.ValidatorProofs.validate_model_nil in Hv. apply Vld.ValidatorProofs.all_rules_nil in Hv.
  destruct Hv as (_ & _ & _ & (Hf & _) & _).
  apply (Vld.ProofsFragDecl.rule_fragment_declarations_iff pi Hpi) in Hf.
  unfold Vld.ProofsFragDecl.valid_5_5_1 in Hf.
  apply andb_true_iff in Hf as [Hf _]. apply andb_true_iff in Hf as [Hf H3]. apply andb_true_iff in Hf as [_ H2].
  unfold Vld.ValidSpec.valid_5_5_1_2 in H2. unfold Vld.ValidSpec.valid_5_5_1_3 in H3.
  rewrite forallb_forall in H2, H3. apply Forall_forall. intros c Hc.
  specialize (H2 c Hc). specialize (H3 c Hc).
  destruct (Vld.ValidSpec.type_of VS F c) as [b|]; [|discriminate]. exists b. auto.
Qed.

(** the type conditions of the validator's document, in terms of the parsed one *)
Definition syn_def_conds (x : Syn.Ast.definition) : list bytes :=
  match x with
  | Syn.Ast.DOp _ _ _ _ sub => syn_conds_ss sub
  | Syn.Ast.DFrag _ _ cond _ sub => Syn.Ast.id_name cond :: syn_conds_ss sub
  end.

Lemma flat_map_flat_map {A B C} (f : B -> list C) (g : A -> list B) l :
  flat_map f (flat_map g l) = flat_map (fun x => flat_map f (g x)) l.
Proof. induction l as [|x l IH]; [reflexivity|]. cbn [flat_map]. rewrite flat_map_app, IH. reflexivity. Qed.

Lemma inline_conds_fold l :
  flat_map (fun s => match s with Vld.Ast.SInline (Some (c, _)) _ _ _ => [c] | _ => [] end) l
  = flat_map vld_inline_cond l.
Proof. reflexivity. Qed.

Lemma type_conditions_incl d x c :
  In x d -> In c (syn_def_conds x) -> In c (Vld.ValidSpec.type_conditions (vld_of_syn d)).
Proof.
  intros Hx Hc. unfold Vld.ValidSpec.type_conditions. apply in_or_app.
  destruct x as [ot n vars dirs sub|kw n cond dirs sub]; cbn [syn_def_conds] in Hc.
  - right. unfold Vld.ValidSpec.all_sels. rewrite inline_conds_fold, flat_map_flat_map.
    apply in_flat_map. exists (v_def (Syn.Ast.DOp ot n vars dirs sub)). split.
    + unfold vld_of_syn. apply in_map. exact Hx.
    + cbn [v_def Vld.Ast.def_sub]. rewrite vld_conds_ss. exact Hc.
  - destruct Hc as [Hc|Hc].
    + left. apply in_flat_map. exists (v_def (Syn.Ast.DFrag kw n cond dirs sub)). split.
      * unfold vld_of_syn. apply in_map. exact Hx.
      * cbn [v_def v_named]. left. exact Hc.
    + right. unfold Vld.ValidSpec.all_sels. rewrite inline_conds_fold, flat_map_flat_map.
      apply in_flat_map. exists (v_def (Syn.Ast.DFrag kw n cond dirs sub)). split.
      * unfold vld_of_syn. apply in_map. exact Hx.
      * cbn [v_def Vld.Ast.def_sub]. rewrite vld_conds_ss. exact Hc.
Qed.

(** ** the fragment definitions, then the whole document of the selected operation *)
Lemma frags_conds_ok ES E d :
  (forall x, In x d -> Forall (fun c => ExeA.ArgSpec.cond_ok ES c = true) (syn_def_conds x)) ->
  forallb (ExeA.ArgSpec.dirs_ok E)
          (flat_map (fun f => flat_map ExeA.ArgHyps.sub_sels (ExeA.ArgData.fr_sels f)) (e_frags d)) = true ->
  forallb (fun f => ExeA.ArgSpec.cond_ok ES (ExeA.ArgData.fr_cond f)
                    && forallb (ExeA.ArgSpec.sel_conds_ok ES E) (ExeA.ArgData.fr_sels f)) (e_frags d) = true.
Proof.
  induction d as [|x d IH]; intros Hc Hd; [reflexivity|].
  unfold e_frags in *. cbn [flat_map] in *.
  destruct x as [ot n vars dirs sub|kw n cond dirs sub].
  - cbn [app] in *. apply IH; [intros y Hy; apply Hc; right; exact Hy|exact Hd].
  - cbn [app flat_map forallb ExeA.ArgData.fr_sels ExeA.ArgData.fr_cond] in *.
    rewrite forallb_app in Hd. apply andb_true_iff in Hd as [Hd1 Hd2].
    pose proof (Hc _ (or_introl eq_refl)) as Hx. cbn [syn_def_conds] in Hx. inversion Hx as [|c0 l0 Hc0 Hl0]; subst.
    rewrite Hc0. cbn [andb]. rewrite (exe_conds_ss ES E sub Hl0 Hd1). cbn [andb].
    apply IH; [intros y Hy; apply Hc; right; exact Hy|exact Hd2].
Qed.

Theorem accepted_conds_ok pi VS F ES bs d opname o vv E :
  Vld.ProofsCommon.order_ok pi -> schemas_agree VS ES = true ->
  parse_and_validate_order pi VS F bs = FAccepted d ->
  ExeA.ArgModel.get_operation (exe_of_syn d) opname = ExeA.ArgModel.GOp o ->
  ExeA.ArgHyps.dirs_evaluable (ExeA.ArgData.doc_of (exe_of_syn d) o vv) E = true ->
  ExeA.ArgSpec.conds_ok ES (ExeA.ArgData.doc_of (exe_of_syn d) o vv) E = true.
Proof.
  intros Hpi Ha Hacc Hg Hev.
  assert (Hparse : Syn.FrontEnd.parse_document_bytes bs = Syn.ParserModel.Out (Some d) []).
  { destruct (front_cases pi Hpi VS F bs) as [(e & es & t & H & _)|[(d' & e & es & H & _)|(d' & H & Hp & _)]];
      rewrite Hacc in H; try discriminate. inversion H; subst d'. exact Hp. }
  assert (Hv : validate_doc pi VS F d = Vld.Ast.Done []).
  { destruct (front_cases pi Hpi VS F bs) as [(e & es & t & H & _)|[(d' & e & es & H & _)|(d' & H & _ & Hv)]];
      rewrite Hacc in H; try discriminate. inversion H; subst d'. exact Hv. }
  pose proof (accepted_type_conditions pi VS F d Hpi (parsed_field_positions_distinct bs d [] Hparse) Hv) as Htc. rewrite Forall_forall in Htc.
  assert (Hok : forall x, In x d -> Forall (fun c => ExeA.ArgSpec.cond_ok ES c = true) (syn_def_conds x)).
  { intros x Hx. apply Forall_forall. intros c Hc.
    destruct (Htc c (type_conditions_incl d x c Hx Hc)) as (b & Hb & Hcomp).
    exact (cond_ok_of_agree VS F ES c b Ha Hb Hcomp). }
  destruct (selected_operation d opname o Hg) as (d1 & d2 & ot & n & vars & dirs & sub & Hd & Hs).
  unfold ExeA.ArgHyps.dirs_evaluable, ExeA.ArgHyps.all_sels in Hev.
  cbn [ExeA.ArgData.doc_of ExeA.ArgData.op_sels ExeA.ArgData.frags exe_of_syn ExeA.ArgData.r_frags] in Hev.
  rewrite forallb_app in Hev. apply andb_true_iff in Hev as [Hev1 Hev2].
  unfold ExeA.ArgSpec.conds_ok.
  cbn [ExeA.ArgData.doc_of ExeA.ArgData.op_sels ExeA.ArgData.frags exe_of_syn ExeA.ArgData.r_frags].
  apply andb_true_iff. split.
  - rewrite Hs in *. apply exe_conds_ss; [|exact Hev1].
    assert (Hin : In (Syn.Ast.DOp ot n vars dirs sub) d) by (subst d; apply in_or_app; right; left; reflexivity).
    exact (Hok _ Hin).
  - apply frags_conds_ok; assumption.
Qed.

Lemma frags_condsg_ok ES E d :
  (forall x, In x d -> Forall (fun c => ExeA.ArgSpec.cond_ok ES c = true) (syn_def_conds x)) ->
  forallb (fun f => ExeA.ArgSpec.cond_ok ES (ExeA.ArgData.fr_cond f)
                    && forallb (ExeA.ArgSpec.sel_conds_gen ES E false) (ExeA.ArgData.fr_sels f)) (e_frags d) = true.
Proof.
  induction d as [|x d IH]; intros Hc; [reflexivity|].
  unfold e_frags in *. cbn [flat_map] in *.
  destruct x as [ot n vars dirs sub|kw n cond dirs sub].
  - cbn [app] in *. apply IH. intros y Hy; apply Hc; right; exact Hy.
  - cbn [app flat_map forallb ExeA.ArgData.fr_sels ExeA.ArgData.fr_cond] in *.
    pose proof (Hc _ (or_introl eq_refl)) as Hx. cbn [syn_def_conds] in Hx. inversion Hx as [|c0 l0 Hc0 Hl0]; subst.
    rewrite Hc0. cbn [andb]. rewrite (exe_condsg_ss ES E sub Hl0). cbn [andb].
    apply IH. intros y Hy; apply Hc; right; exact Hy.
Qed.

(** the type conditions alone, for ALL variable values: C01's [conds_gen _ _ _ false] *)
Theorem accepted_conds_gen pi VS F ES bs d opname o vv E :
  Vld.ProofsCommon.order_ok pi -> schemas_agree VS ES = true ->
  parse_and_validate_order pi VS F bs = FAccepted d ->
  ExeA.ArgModel.get_operation (exe_of_syn d) opname = ExeA.ArgModel.GOp o ->
  ExeA.ArgSpec.conds_gen ES (ExeA.ArgData.doc_of (exe_of_syn d) o vv) E false = true.
Proof.
  intros Hpi Ha Hacc Hg.
  assert (Hparse : Syn.FrontEnd.parse_document_bytes bs = Syn.ParserModel.Out (Some d) []).
  { destruct (front_cases pi Hpi VS F bs) as [(e & es & t & H & _)|[(d' & e & es & H & _)|(d' & H & Hp & _)]];
      rewrite Hacc in H; try discriminate. inversion H; subst d'. exact Hp. }
  assert (Hv : validate_doc pi VS F d = Vld.Ast.Done []).
  { destruct (front_cases pi Hpi VS F bs) as [(e & es & t & H & _)|[(d' & e & es & H & _)|(d' & H & _ & Hv)]];
      rewrite Hacc in H; try discriminate. inversion H; subst d'. exact Hv. }
  pose proof (accepted_type_conditions pi VS F d Hpi (parsed_field_positions_distinct bs d [] Hparse) Hv) as Htc. rewrite Forall_forall in Htc.
  assert (Hok : forall x, In x d -> Forall (fun c => ExeA.ArgSpec.cond_ok ES c = true) (syn_def_conds x)).
  { intros x Hx. apply Forall_forall. intros c Hc.
    destruct (Htc c (type_conditions_incl d x c Hx Hc)) as (b & Hb & Hcomp).
    exact (cond_ok_of_agree VS F ES c b Ha Hb Hcomp). }
  destruct (selected_operation d opname o Hg) as (d1 & d2 & ot & n & vars & dirs & sub & Hd & Hs).
  unfold ExeA.ArgSpec.conds_gen.
  cbn [ExeA.ArgData.doc_of ExeA.ArgData.op_sels ExeA.ArgData.frags exe_of_syn ExeA.ArgData.r_frags].
  apply andb_true_iff. split.
  - rewrite Hs in *. apply exe_condsg_ss.
    assert (Hin : In (Syn.Ast.DOp ot n vars dirs sub) d) by (subst d; apply in_or_app; right; left; reflexivity).
    exact (Hok _ Hin).
  - apply frags_condsg_ok; assumption.
Qed.

(** [cond_ok] is exactly "doesFragmentTypeApply does not panic" *)
Lemma cond_ok_no_panic ES c ot :
  ExeA.ArgSpec.cond_ok ES c = true -> ExeA.ArgModel.type_applies ES ot c <> ExeA.ArgModel.ApPanic.
Proof.
  unfold ExeA.ArgSpec.cond_ok, ExeA.ArgModel.type_applies.
  destruct (ExeA.ArgData.lookup_type ES c) as [[k|vs|fs ifs|fs|ms|]|]; try discriminate; intros _.
  - destruct (ExeA.ArgData.name_eqb ot c); discriminate.
  - destruct (ExeA.ArgData.lookup_type ES ot) as [[| |fs' ifs'| | |]|]; try discriminate.
    destruct (ExeA.ArgData.mem c ifs'); discriminate.
  - destruct (ExeA.ArgData.mem ot ms); discriminate.
Qed.

(** ** the open obligation, reduced: what is left of [doc_ok] is the typing of the collected fields *)
Definition doc_typed ES (D : ExeA.ArgData.document) E : bool :=
  match ExeA.ArgSpec.s_root_type ES (ExeA.ArgData.op_kind D) with
  | Some rt => ExeA.ArgSpec.sels_ok ES D E (ExeA.ArgModel.default_fuel D) (ExeA.ArgModel.default_fuel D) rt (ExeA.ArgData.op_sels D)
  | None => false
  end.

Definition validate_establishes_typing pi VS F ES : Prop :=
  forall bs d opname o vv,
    parse_and_validate_order pi VS F bs = FAccepted d ->
    ExeA.ArgModel.get_operation (exe_of_syn d) opname = ExeA.ArgModel.GOp o ->
    let D := ExeA.ArgData.doc_of (exe_of_syn d) o vv in
    let E := ExeA.ArgArgs.env_of_vars vv in
    doc_typed ES D E = true.

Theorem doc_ok_from_typing pi VS F ES :
  Vld.ProofsCommon.order_ok pi -> schemas_agree VS ES = true ->
  validate_establishes_typing pi VS F ES -> validate_establishes_doc_ok pi VS F ES.
Proof.
  intros Hpi Ha Ht bs d opname o vv Hacc Hg D E. subst D E.
  unfold ExeA.ArgSpec.doc_ok_nodirs. rewrite (accepted_conds_gen pi VS F ES bs d opname o vv _ Hpi Ha Hacc Hg).
  cbn [andb]. exact (Ht bs d opname o vv Hacc Hg).
Qed.

Theorem pipeline_response_if_typing pi VS F ES bs opname raw W :
  Vld.ProofsCommon.order_ok pi ->
  schema_accepted ES = true -> schemas_agree VS ES = true ->
  validate_establishes_typing pi VS F ES -> text_positions_small bs ->
  is_response (pipeline_order pi VS F ES bs opname raw W) = true.
Proof.
  intros Hpi Hn Ha Ht Hp.
  apply (pipeline_response_if_obligations pi Hpi VS F ES bs opname raw W Hn); try assumption.
  apply doc_ok_from_typing; assumption.
Qed.
