(** * Pipe/PipelineProofs.v — C03 glue: if no stage crashes and the executor returns nil data only
    together with an error, every response carries data or errors. *)
From Coq Require Import List NArith Bool Lia.
From ApiFu Require Import Pipe.PipelineModel.
Import ListNotations.

(** the executor's contract used here (proved for the executor model in C01: the epilogue of
    ExecuteRequest returns nil data only when it appends the propagated error) *)
Definition exec_contract (e : exec_out) : Prop :=
  match e with Returned (true, O) => False | _ => True end.

Definition no_crash {A} (s : stage A) : Prop := match s with Crashed => False | _ => True end.

Theorem execute_total p v e :
  no_crash p -> no_crash v -> no_crash e -> exists r, execute p v e = Resp r.
Proof.
  destruct p as [[|n]|]; destruct v as [m|]; destruct e as [[isnil k]|]; simpl; intros; try contradiction;
    try (eexists; reflexivity).
  all: destruct m; eexists; reflexivity.
Qed.

Theorem execute_data_or_errors p v e r :
  exec_contract e -> execute p v e = Resp r -> data_or_errors r = true.
Proof.
  unfold execute, parse_and_validate.
  destruct p as [[|n]|]; try discriminate.
  - destruct v as [[|m]|]; try discriminate.
    + destruct e as [[isnil k]|]; try discriminate.
      intros Hc H. inversion H; subst; clear H. unfold data_or_errors; simpl.
      destruct isnil; [|reflexivity]. destruct k; [contradiction|reflexivity].
    + intros _ H. inversion H; reflexivity.
  - intros _ H. inversion H; reflexivity.
Qed.

Theorem subscribe_total p v s :
  no_crash p -> no_crash v -> no_crash s -> exists r, subscribe p v s = Resp r.
Proof.
  destruct p as [[|n]|]; destruct v as [m|]; destruct s as [[|]|]; simpl; intros; try contradiction;
    try (eexists; reflexivity).
  all: destruct m; eexists; reflexivity.
Qed.

Theorem subscribe_data_or_errors p v s r :
  subscribe p v s = Resp r -> data_or_errors r = true.
Proof.
  unfold subscribe, parse_and_validate.
  destruct p as [[|n]|]; try discriminate.
  - destruct v as [[|m]|]; try discriminate.
    + destruct s as [[|]|]; try discriminate; intro H; inversion H; reflexivity.
    + intro H; inversion H; reflexivity.
  - intro H; inversion H; reflexivity.
Qed.

(** parse errors win over validation: a syntactically invalid text is never validated/executed *)
Theorem parse_errors_alone n v e :
  execute (Returned (S n)) v e = Resp {| has_data := false; data_null := true; nerrors := S n |}.
Proof. reflexivity. Qed.
