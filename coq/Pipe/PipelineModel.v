(** * Pipe/PipelineModel.v — the glue of graphql.go (C03): ParseAndValidate / Execute / Subscribe
    as functions of the verdicts of their stages.  The stages themselves (scanner, parser,
    validator, coercion, executor) are modelled and proved total in C07, C06, C04, C05 and C01;
    this file transcribes how graphql.go assembles a Response from what they return. No proofs. *)
From Coq Require Import List NArith Bool.
Import ListNotations.

(** what a stage returned: a list of errors (only its length matters here), or it panicked /
    did not return within the watchdog (only ever *observed*; the stage theorems exclude it) *)
Inductive stage (A : Type) := Returned (a : A) | Crashed.
Arguments Returned {A} a.
Arguments Crashed {A}.

(** parser.ParseDocument: number of syntax errors (0 = a document was produced) *)
Definition parse_out := stage nat.
(** validator.ValidateDocument (+ additional rules): number of validation errors *)
Definition validate_out := stage nat.
(** executor.ExecuteRequest: (data is nil, number of errors) *)
Definition exec_out := stage (bool * nat).
(** executor.Subscribe: error or not *)
Definition subscribe_out := stage bool.

(** graphql.Response as far as C03 speaks about it *)
Record response := { has_data : bool;      (* Response.Data != nil (the pointer) *)
                     data_null : bool;     (* *Response.Data == nil *)
                     nerrors : nat }.

Inductive outcome := Resp (r : response) | Crash.

(** graphql.ParseAndValidate (graphql.go:289-321): parse errors are returned alone; otherwise
    the validation errors; a nil error list means the document is returned *)
Definition parse_and_validate (p : parse_out) (v : validate_out) : stage nat :=
  match p with
  | Crashed => Crashed
  | Returned (S n) => Returned (S n)
  | Returned O => match v with Crashed => Crashed | Returned n => Returned n end
  end.

(** graphql.Execute (graphql.go:358-383) *)
Definition execute (p : parse_out) (v : validate_out) (e : exec_out) : outcome :=
  match parse_and_validate p v with
  | Crashed => Crash
  | Returned (S n) => Resp {| has_data := false; data_null := true; nerrors := S n |}
  | Returned O =>
      match e with
      | Crashed => Crash
      | Returned (isnil, n) => Resp {| has_data := true; data_null := isnil; nerrors := n |}
      end
  end.

(** graphql.Subscribe (graphql.go:336-354) seen as a response: errors only, or success *)
Definition subscribe (p : parse_out) (v : validate_out) (s : subscribe_out) : outcome :=
  match parse_and_validate p v with
  | Crashed => Crash
  | Returned (S n) => Resp {| has_data := false; data_null := true; nerrors := S n |}
  | Returned O =>
      match s with
      | Crashed => Crash
      | Returned true => Resp {| has_data := false; data_null := true; nerrors := 1 |}
      | Returned false => Resp {| has_data := true; data_null := false; nerrors := 0 |}
      end
  end.

(** the property's clause on a response *)
Definition data_or_errors (r : response) : bool :=
  if negb (has_data r) || data_null r then negb (Nat.eqb (nerrors r) 0) else true.
