(** * Pipe/TextBound.v — C03: the size half of C01's [doc_positions_okb] (the memo key of collectFields
    stores a selection's line in 24 and its column in 32 bits) is a bound on the LENGTH of the text:
    every token of a text of n bytes starts on a line and in a column of at most n + 1.
    The line bound is C07's ([inside_text]: a line of the text); the column bound is proved here by
    the same route ([LexProgress.steps_preserve]): column + bytes left <= n + 1 in every state the
    scanner reaches.  Selection positions are token positions (C06's [recorded_layout]). *)
From Coq Require Import List NArith ZArith Bool Lia.
From ApiFu Require Import Base.Sexp.
From ApiFu Require Lex.LexModel Lex.LexProgress.
From ApiFu Require Syn.Ast Syn.Printer Syn.ParserBase Syn.ParserModel Syn.ParserProofs Syn.FrontEnd Syn.FrontEndSpec Syn.FrontEndProofs.
From ApiFu Require ExeA.ArgData ExeA.ArgModel ExeA.ArgHyps.
From ApiFu Require Import Pipe.Convert Pipe.PositionsProofs Pipe.Compose Pipe.ComposeProofs.
Import ListNotations.

Local Open Scope Z_scope.

(** ** the column never exceeds 1 + the number of bytes consumed *)
Definition col_inv (N : Z) (st : Lex.LexModel.state) : Prop :=
  Syn.FrontEndProofs.good st /\ Lex.LexModel.s_col st + Z.of_nat (length (Lex.LexModel.s_rest st)) <= N.

Lemma col_inv_steps N m st st' : Lex.LexProgress.steps m st st' -> col_inv N st -> col_inv N st'.
Proof.
  apply (Lex.LexProgress.steps_preserve (col_inv N)).
  - intros s (G & H) Hd. split; [apply Syn.FrontEndProofs.consume_rune_pos; exact G|].
    pose proof (Lex.LexProgress.consume_length s Hd) as Hl. destruct G as [_ Gc].
    unfold Lex.LexModel.consume_rune in *. cbv zeta in *. cbn [Lex.LexModel.s_col Lex.LexModel.s_rest] in *.
    match goal with |- context [if ?b then _ else _] => destruct b end; lia.
  - intros s H. exact H.
Qed.

Lemma col_inv_init bs : col_inv (1 + Z.of_nat (length bs)) (Lex.LexModel.init bs).
Proof.
  unfold col_inv, Syn.FrontEndProofs.good, Lex.LexModel.init.
  cbn [Lex.LexModel.s_line Lex.LexModel.s_col Lex.LexModel.s_rest]. lia.
Qed.

Lemma stream_cols N st ts ep ee : Syn.FrontEndProofs.stream_rel st ts ep ee -> col_inv N st ->
  Forall (fun p => Z.of_N (Syn.Ast.col p) <= N) (Syn.ParserProofs.token_positions ts).
Proof.
  induction 1 as [st st' l K1 D1 Hl|st st0 st' t l ts ep ee K1 T1 Hk Hl R IH]; intro I; [constructor|].
  pose proof (col_inv_steps _ _ _ _ K1 I) as I0.
  pose proof (col_inv_steps _ _ _ _ (Lex.LexProgress.ta_steps _ _ _ T1) I0) as I'.
  unfold Syn.ParserProofs.token_positions. cbn [map Syn.ParserModel.st_tok]. constructor; [|exact (IH I')].
  unfold Syn.FrontEnd.ptoken_of. cbn [Syn.Ast.tp].
  rewrite (Lex.LexProgress.ta_col _ _ _ T1). unfold Syn.FrontEnd.pos_of. cbn [Syn.Ast.col].
  destruct I0 as ([_ Gc] & Hc). rewrite Z2N.id by lia. lia.
Qed.

Lemma line_terminators_le bs : Syn.FrontEnd.line_terminators bs <= Z.of_nat (length bs).
Proof.
  induction bs as [|c t IH]; [cbn; lia|]. cbn [Syn.FrontEnd.line_terminators length].
  match goal with |- context [if ?b then _ else _] => destruct b end; lia.
Qed.

(** ** every token of a text of n bytes starts at line <= n + 1, column <= n + 1 *)
Theorem token_positions_bounded bs r :
  Syn.FrontEnd.front_end bs = Some r ->
  Forall (fun p => (Syn.Ast.line p <= 1 + N.of_nat (length bs))%N /\ (Syn.Ast.col p <= 1 + N.of_nat (length bs))%N)
         (Syn.ParserProofs.token_positions (Syn.FrontEnd.f_toks r)).
Proof.
  intro Hr. destruct (Syn.FrontEndProofs.front_end_ok bs) as (r' & lts & es & H1 & H2 & _).
  rewrite Hr in H1. inversion H1; subst r'. clear H1.
  destruct (Syn.FrontEndProofs.stream_inside _ _ _ _ _ H2 (Syn.FrontEndProofs.Inv_init bs)) as (A & _ & _).
  pose proof (stream_cols _ _ _ _ _ H2 (col_inv_init bs)) as C.
  rewrite Forall_forall in *. intros p Hp. specialize (A p Hp). specialize (C p Hp).
  destruct A as [[_ Al] _]. pose proof (line_terminators_le bs). pose proof (Syn.FrontEndProofs.line_terminators_nonneg bs).
  split; lia.
Qed.

(** ... hence every selection of a parsed text *)
Theorem parsed_positions_bounded bs d es :
  Syn.FrontEnd.parse_document_bytes bs = Syn.ParserModel.Out (Some d) es ->
  Forall (fun p => (Syn.Ast.line p <= 1 + N.of_nat (length bs))%N /\ (Syn.Ast.col p <= 1 + N.of_nat (length bs))%N)
         (Syn.Printer.positions_document d).
Proof.
  unfold Syn.FrontEnd.parse_document_bytes. destruct (Syn.FrontEnd.front_end bs) as [r|] eqn:Hr; [|discriminate]. intro H.
  destruct (Syn.ParserProofs.parse_document_tree _ _ _ _ _ H) as (L & _).
  apply Syn.ParserProofs.recorded_layout in L.
  pose proof (token_positions_bounded bs r Hr) as B. unfold Syn.ParserProofs.token_positions in B. rewrite <- map_map in B.
  rewrite Forall_forall in *. intros p Hp. apply B.
  eapply Syn.ParserProofs.subseq_in; [|exact Hp].
  eapply Syn.ParserProofs.subseq_trans; [apply Syn.ParserProofs.positions_document_subseq|exact L].
Qed.

Local Close Scope Z_scope.

(** ** the hypothesis [text_positions_small] is a length bound *)
Definition text_short (bs : bytes) : Prop := (N.of_nat (length bs) < 16777215)%N.     (* 2^24 - 1 *)

Theorem short_text_positions_small bs : text_short bs -> text_positions_small bs.
Proof.
  intros Hshort d es o opname vv Hp Hg.
  pose proof (parsed_positions_bounded bs d es Hp) as B. rewrite Forall_forall in B.
  destruct (selected_operation d opname o Hg) as (d1 & d2 & ot & n & vars & dirs & sub & Hd & Hs).
  apply forallb_forall. intros s Hin. unfold ExeA.ArgHyps.pos_smallb.
  assert (Hpos : In (ExeA.ArgData.sel_pos s)
                    (map epos (Syn.Printer.positions_selset sub ++ flat_map frag_positions d))).
  { apply (in_map ExeA.ArgData.sel_pos) in Hin. revert Hin. unfold ExeA.ArgHyps.all_sels.
    cbn [ExeA.ArgData.doc_of ExeA.ArgData.op_sels ExeA.ArgData.frags exe_of_syn ExeA.ArgData.r_frags].
    rewrite map_app, Hs, ss_positions, frags_positions, <- map_app. exact (fun h => h). }
  apply in_map_iff in Hpos as (p & Hep & Hp'). rewrite <- Hep.
  assert (Hdoc : In p (Syn.Printer.positions_document d)).
  { apply in_app_or in Hp' as [Hp'|Hp'].
    - subst d. unfold Syn.Printer.positions_document. rewrite flat_map_app. apply in_or_app. right.
      cbn [flat_map Syn.Printer.positions_definition]. apply in_or_app. left. exact Hp'.
    - exact (Syn.ParserProofs.subseq_in _ _ _ (frag_positions_subseq d) Hp'). }
  destruct (B p Hdoc) as [Hl Hc]. unfold text_short in Hshort. unfold epos. cbn [ExeA.ArgData.line ExeA.ArgData.col].
  apply andb_true_iff. split; apply N.ltb_lt; lia.
Qed.
