(** * Pipe/Convert.v — C03: the structural conversions between the stage models' encodings of one
    parsed document.  No proofs in this file.

    The parser model (C06, Syn/Ast.v) produces the tree of graphql/ast/ast.go node for node, with
    every position field.  The validator model (C04, Vld/Ast.v) reads the same tree with the slots
    validator.TypeInfo fills (all empty on entry); the executor model (C01, Exe/ExecData.v) reads
    what executor.go reads of it: selections with their [Position()], @skip/@include conditions,
    the operations and the fragment definitions.  Each conversion follows, field by field, the Go
    encoder of the property that owns the target encoding (harness/cmd/c04/astsexp.go [docS];
    harness/cmd/c01/main.go [docSexp]), which reads the REAL parser's tree; here the source is the
    parser MODEL's tree, so the composition runs from bytes inside Coq. *)
From Coq Require Import List NArith Bool String.
From ApiFu Require Import Base.Sexp.
From ApiFu Require Syn.Ast Vld.Ast Exe.ExecData.
Import ListNotations.

(** ** Syn -> Vld *)
Definition vpos (p : Syn.Ast.pos) : Vld.Ast.pos := (Syn.Ast.line p, Syn.Ast.col p).

Definition v_named (i : Syn.Ast.ident) : Vld.Ast.name * Vld.Ast.pos :=
  (Syn.Ast.id_name i, vpos (Syn.Ast.id_pos i)).

Fixpoint v_value (v : Syn.Ast.value) : Vld.Ast.value :=
  match v with
  | Syn.Ast.VVar x =>
      Vld.Ast.VVar Vld.Ast.no_vann (Syn.Ast.id_name (Syn.Ast.var_name x)) (vpos (Syn.Ast.var_dollar x))
                   (vpos (Syn.Ast.id_pos (Syn.Ast.var_name x)))
  | Syn.Ast.VInt lit p => Vld.Ast.VInt Vld.Ast.no_vann lit (vpos p)
  | Syn.Ast.VFloat lit p => Vld.Ast.VFloat Vld.Ast.no_vann lit (vpos p)
  | Syn.Ast.VString s p => Vld.Ast.VString Vld.Ast.no_vann s (vpos p)
  | Syn.Ast.VBool b p => Vld.Ast.VBool Vld.Ast.no_vann b (vpos p)
  | Syn.Ast.VNull p => Vld.Ast.VNull Vld.Ast.no_vann (vpos p)
  | Syn.Ast.VEnum n p => Vld.Ast.VEnum Vld.Ast.no_vann n (vpos p)
  | Syn.Ast.VList vs o _ => Vld.Ast.VList Vld.Ast.no_vann (map v_value vs) (vpos o)
  | Syn.Ast.VObject fs o _ =>
      Vld.Ast.VObject Vld.Ast.no_vann
        (map (fun f : Syn.Ast.ident * Syn.Ast.value =>
                (Syn.Ast.id_name (fst f), vpos (Syn.Ast.id_pos (fst f)), v_value (snd f))) fs)
        (vpos o)
  end.

Fixpoint v_ty (t : Syn.Ast.ty) : Vld.Ast.ty :=
  match t with
  | Syn.Ast.TNamed n => Vld.Ast.TNamed (Syn.Ast.id_name n) (vpos (Syn.Ast.id_pos n))
  | Syn.Ast.TList t' o _ => Vld.Ast.TList (v_ty t') (vpos o)
  | Syn.Ast.TNonNull t' => Vld.Ast.TNonNull (v_ty t')
  end.

Definition v_arg (a : Syn.Ast.argument) : Vld.Ast.argument :=
  {| Vld.Ast.a_name := Syn.Ast.id_name (Syn.Ast.arg_name a);
     Vld.Ast.a_pos := vpos (Syn.Ast.id_pos (Syn.Ast.arg_name a));
     Vld.Ast.a_value := v_value (Syn.Ast.arg_value a) |}.

Definition v_dir (d : Syn.Ast.directive) : Vld.Ast.directive :=
  {| Vld.Ast.d_name := Syn.Ast.id_name (Syn.Ast.dir_name d);
     Vld.Ast.d_npos := vpos (Syn.Ast.id_pos (Syn.Ast.dir_name d));
     Vld.Ast.d_at := vpos (Syn.Ast.dir_at d);
     Vld.Ast.d_args := map v_arg (Syn.Ast.dir_args d) |}.

Fixpoint v_sel (s : Syn.Ast.selection) : Vld.Ast.selection :=
  match s with
  | Syn.Ast.SField alias n args dirs sub =>
      Vld.Ast.SField None (option_map v_named alias) (Syn.Ast.id_name n) (vpos (Syn.Ast.id_pos n))
                     (map v_arg args) (map v_dir dirs)
                     (match sub with Some ss => Some (v_ss ss) | None => None end)
  | Syn.Ast.SSpread n dirs e =>
      Vld.Ast.SSpread (Syn.Ast.id_name n) (vpos (Syn.Ast.id_pos n)) (map v_dir dirs) (vpos e)
  | Syn.Ast.SInline cond dirs sub e =>
      Vld.Ast.SInline (option_map v_named cond) (map v_dir dirs) (v_ss sub) (vpos e)
  end
with v_ss (ss : Syn.Ast.selset) : Vld.Ast.selset :=
  match ss with
  | Syn.Ast.SelSet sels o _ => Vld.Ast.SelSet None (map v_sel sels) (vpos o)
  end.

Definition v_vardef (vd : Syn.Ast.vardef) : Vld.Ast.vardef :=
  let x := Syn.Ast.vd_var vd in
  {| Vld.Ast.vd_ann := None;
     Vld.Ast.vd_name := Syn.Ast.id_name (Syn.Ast.var_name x);
     Vld.Ast.vd_dollar := vpos (Syn.Ast.var_dollar x);
     Vld.Ast.vd_npos := vpos (Syn.Ast.id_pos (Syn.Ast.var_name x));
     Vld.Ast.vd_type := v_ty (Syn.Ast.vd_type vd);
     Vld.Ast.vd_default := option_map v_value (Syn.Ast.vd_default vd) |}.

Definition v_def (d : Syn.Ast.definition) : Vld.Ast.definition :=
  match d with
  | Syn.Ast.DOp ot n vars dirs sub =>
      Vld.Ast.DOp (option_map (fun o => (Syn.Ast.ot_value o, vpos (Syn.Ast.ot_pos o))) ot)
                  (option_map v_named n) (map v_vardef vars) (map v_dir dirs) (v_ss sub)
  | Syn.Ast.DFrag kw n cond dirs sub =>
      Vld.Ast.DFrag (vpos kw) (Syn.Ast.id_name n) (vpos (Syn.Ast.id_pos n)) (v_named cond)
                    (map v_dir dirs) (v_ss sub)
  end.

Definition vld_of_syn (d : Syn.Ast.document) : Vld.Ast.document := map v_def d.

(** ** Syn -> Exe *)
Definition epos (p : Syn.Ast.pos) : Exe.ExecData.pos :=
  {| Exe.ExecData.line := Syn.Ast.line p; Exe.ExecData.col := Syn.Ast.col p |}.

Definition n_skip : bytes := Eval compute in Syn.Ast.bs "skip"%string.
Definition n_include : bytes := Eval compute in Syn.Ast.bs "include"%string.
Definition n_if : bytes := Eval compute in Syn.Ast.bs "if"%string.

(** a @skip / @include with exactly the argument [if:] holding a boolean literal or a variable is
    what the executor's FieldCollectionFilter evaluates; every other directive is of no concern to
    it (c01's [dirsSexp]) *)
Definition e_dir (d : Syn.Ast.directive) : Exe.ExecData.directive :=
  let n := Syn.Ast.id_name (Syn.Ast.dir_name d) in
  let mk (c : Exe.ExecData.cond) (vp : Syn.Ast.pos) :=
    if bytes_eqb n n_skip then Exe.ExecData.DSkip c (epos (Syn.Ast.dir_at d)) (epos vp)
    else Exe.ExecData.DInclude c (epos (Syn.Ast.dir_at d)) (epos vp) in
  if bytes_eqb n n_skip || bytes_eqb n n_include then
    match Syn.Ast.dir_args d with
    | [a] =>
        if bytes_eqb (Syn.Ast.id_name (Syn.Ast.arg_name a)) n_if then
          match Syn.Ast.arg_value a with
          | Syn.Ast.VBool b p => mk (Exe.ExecData.CLit b) p
          | Syn.Ast.VVar x =>
              mk (Exe.ExecData.CVar (Syn.Ast.id_name (Syn.Ast.var_name x))) (Syn.Ast.var_dollar x)
          | _ => Exe.ExecData.DOther
          end
        else Exe.ExecData.DOther
    | _ => Exe.ExecData.DOther
    end
  else Exe.ExecData.DOther.

Fixpoint e_sel (s : Syn.Ast.selection) : Exe.ExecData.selection :=
  match s with
  | Syn.Ast.SField alias n _ dirs sub =>
      Exe.ExecData.SField (option_map Syn.Ast.id_name alias) (Syn.Ast.id_name n)
                          (epos (Syn.Ast.selection_pos s)) (map e_dir dirs)
                          (match sub with Some ss => e_ss ss | None => [] end)
  | Syn.Ast.SSpread n dirs e => Exe.ExecData.SSpread (Syn.Ast.id_name n) (epos e) (map e_dir dirs)
  | Syn.Ast.SInline cond dirs sub e =>
      Exe.ExecData.SInline (option_map Syn.Ast.id_name cond) (epos e) (map e_dir dirs) (e_ss sub)
  end
with e_ss (ss : Syn.Ast.selset) : list Exe.ExecData.selection :=
  match ss with
  | Syn.Ast.SelSet sels _ _ => map e_sel sels
  end.

(** OperationDefinition.OperationType: nil or "query" / "mutation" / "subscription" (the parser
    accepts no other keyword there) *)
Definition e_kind (ot : option Syn.Ast.optype) : Exe.ExecData.opkind :=
  match ot with
  | None => Exe.ExecData.OpQuery
  | Some o => if bytes_eqb (Syn.Ast.ot_value o) Syn.Ast.b_mutation then Exe.ExecData.OpMutation
              else if bytes_eqb (Syn.Ast.ot_value o) Syn.Ast.b_subscription then Exe.ExecData.OpSubscription
              else Exe.ExecData.OpQuery
  end.

Definition e_ops (d : Syn.Ast.document) : list Exe.ExecData.operation :=
  flat_map (fun x => match x with
                     | Syn.Ast.DOp ot n _ _ sub =>
                         [ {| Exe.ExecData.o_name := option_map Syn.Ast.id_name n;
                              Exe.ExecData.o_kind := e_kind ot;
                              Exe.ExecData.o_pos := epos (Syn.Ast.definition_pos x);
                              Exe.ExecData.o_sels := e_ss sub |} ]
                     | Syn.Ast.DFrag _ _ _ _ _ => []
                     end) d.

Definition e_frags (d : Syn.Ast.document) : list Exe.ExecData.fragdef :=
  flat_map (fun x => match x with
                     | Syn.Ast.DFrag _ n cond _ sub =>
                         [ {| Exe.ExecData.fr_name := Syn.Ast.id_name n;
                              Exe.ExecData.fr_cond := Syn.Ast.id_name cond;
                              Exe.ExecData.fr_sels := e_ss sub |} ]
                     | Syn.Ast.DOp _ _ _ _ _ => []
                     end) d.

Definition exe_of_syn (d : Syn.Ast.document) : Exe.ExecData.request_doc :=
  {| Exe.ExecData.r_ops := e_ops d; Exe.ExecData.r_frags := e_frags d |}.
