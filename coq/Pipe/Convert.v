(** * Pipe/Convert.v — C03: the structural conversions between the stage models' encodings of one
    parsed document.  No proofs in this file.

    The parser model (C06, Syn/Ast.v) produces the tree of graphql/ast/ast.go node for node, with
    every position field.  The validator model (C04, Vld/Ast.v) reads the same tree with the slots
    validator.TypeInfo fills (all empty on entry); the executor model (C01, ExeA/ArgData.v) reads
    what executor.go reads of it: selections with their [Position()], @skip/@include conditions,
    the operations with their variable definitions, the fragment definitions, and the arguments
    of every field node as literals of C05's input-coercion model (Val/Values.v [lit]: an IntValue
    as the integer its text denotes, a FloatValue as m * 10^k).  Each conversion follows, field by field, the Go
    encoder of the property that owns the target encoding (harness/cmd/c04/astsexp.go [docS];
    harness/cmd/c01/main.go [docSexp]), which reads the REAL parser's tree; here the source is the
    parser MODEL's tree, so the composition runs from bytes inside Coq. *)
From Coq Require Import List NArith ZArith Bool String.
From ApiFu Require Import Base.Sexp.
From ApiFu Require Syn.Ast Vld.Ast ExeA.ArgData Val.Values.
Import ListNotations.

(** ** Syn -> Vld *)
Definition vpos (p : Syn.Ast.pos) : Vld.Ast.pos := (Syn.Ast.line p, Syn.Ast.col p).

Definition v_named (i : Syn.Ast.ident) : Vld.Ast.name * Vld.Ast.pos :=
  (Syn.Ast.id_name i, vpos (Syn.Ast.id_pos i)).

Fixpoint v_value (v : Syn.Ast.value) : Vld.Ast.value :=
  match v with
  | Syn.Ast.VVar x =>
      Vld.Ast.VVar Vld.Ast.no_vann (Syn.Ast.id_name (Syn.Ast.var_name x)) (vpos (Syn.Ast.var_dollar x))
                   (vpos (Syn.Ast.id_pos (Syn.Ast.var_name x)))
  | Syn.Ast.VInt lit p => Vld.Ast.VInt Vld.Ast.no_vann lit (vpos p)
  | Syn.Ast.VFloat lit p => Vld.Ast.VFloat Vld.Ast.no_vann lit (vpos p)
  | Syn.Ast.VString s p => Vld.Ast.VString Vld.Ast.no_vann s (vpos p)
  | Syn.Ast.VBool b p => Vld.Ast.VBool Vld.Ast.no_vann b (vpos p)
  | Syn.Ast.VNull p => Vld.Ast.VNull Vld.Ast.no_vann (vpos p)
  | Syn.Ast.VEnum n p => Vld.Ast.VEnum Vld.Ast.no_vann n (vpos p)
  | Syn.Ast.VList vs o _ => Vld.Ast.VList Vld.Ast.no_vann (map v_value vs) (vpos o)
  | Syn.Ast.VObject fs o _ =>
      Vld.Ast.VObject Vld.Ast.no_vann
        (map (fun f : Syn.Ast.ident * Syn.Ast.value =>
                (Syn.Ast.id_name (fst f), vpos (Syn.Ast.id_pos (fst f)), v_value (snd f))) fs)
        (vpos o)
  end.

Fixpoint v_ty (t : Syn.Ast.ty) : Vld.Ast.ty :=
  match t with
  | Syn.Ast.TNamed n => Vld.Ast.TNamed (Syn.Ast.id_name n) (vpos (Syn.Ast.id_pos n))
  | Syn.Ast.TList t' o _ => Vld.Ast.TList (v_ty t') (vpos o)
  | Syn.Ast.TNonNull t' => Vld.Ast.TNonNull (v_ty t')
  end.

Definition v_arg (a : Syn.Ast.argument) : Vld.Ast.argument :=
  {| Vld.Ast.a_name := Syn.Ast.id_name (Syn.Ast.arg_name a);
     Vld.Ast.a_pos := vpos (Syn.Ast.id_pos (Syn.Ast.arg_name a));
     Vld.Ast.a_value := v_value (Syn.Ast.arg_value a) |}.

Definition v_dir (d : Syn.Ast.directive) : Vld.Ast.directive :=
  {| Vld.Ast.d_name := Syn.Ast.id_name (Syn.Ast.dir_name d);
     Vld.Ast.d_npos := vpos (Syn.Ast.id_pos (Syn.Ast.dir_name d));
     Vld.Ast.d_at := vpos (Syn.Ast.dir_at d);
     Vld.Ast.d_args := map v_arg (Syn.Ast.dir_args d) |}.

Fixpoint v_sel (s : Syn.Ast.selection) : Vld.Ast.selection :=
  match s with
  | Syn.Ast.SField alias n args dirs sub =>
      Vld.Ast.SField None (option_map v_named alias) (Syn.Ast.id_name n) (vpos (Syn.Ast.id_pos n))
                     (map v_arg args) (map v_dir dirs)
                     (match sub with Some ss => Some (v_ss ss) | None => None end)
  | Syn.Ast.SSpread n dirs e =>
      Vld.Ast.SSpread (Syn.Ast.id_name n) (vpos (Syn.Ast.id_pos n)) (map v_dir dirs) (vpos e)
  | Syn.Ast.SInline cond dirs sub e =>
      Vld.Ast.SInline (option_map v_named cond) (map v_dir dirs) (v_ss sub) (vpos e)
  end
with v_ss (ss : Syn.Ast.selset) : Vld.Ast.selset :=
  match ss with
  | Syn.Ast.SelSet sels o _ => Vld.Ast.SelSet None (map v_sel sels) (vpos o)
  end.

Definition v_vardef (vd : Syn.Ast.vardef) : Vld.Ast.vardef :=
  let x := Syn.Ast.vd_var vd in
  {| Vld.Ast.vd_ann := None;
     Vld.Ast.vd_name := Syn.Ast.id_name (Syn.Ast.var_name x);
     Vld.Ast.vd_dollar := vpos (Syn.Ast.var_dollar x);
     Vld.Ast.vd_npos := vpos (Syn.Ast.id_pos (Syn.Ast.var_name x));
     Vld.Ast.vd_type := v_ty (Syn.Ast.vd_type vd);
     Vld.Ast.vd_default := option_map v_value (Syn.Ast.vd_default vd) |}.

Definition v_def (d : Syn.Ast.definition) : Vld.Ast.definition :=
  match d with
  | Syn.Ast.DOp ot n vars dirs sub =>
      Vld.Ast.DOp (option_map (fun o => (Syn.Ast.ot_value o, vpos (Syn.Ast.ot_pos o))) ot)
                  (option_map v_named n) (map v_vardef vars) (map v_dir dirs) (v_ss sub)
  | Syn.Ast.DFrag kw n cond dirs sub =>
      Vld.Ast.DFrag (vpos kw) (Syn.Ast.id_name n) (vpos (Syn.Ast.id_pos n)) (v_named cond)
                    (map v_dir dirs) (v_ss sub)
  end.

Definition vld_of_syn (d : Syn.Ast.document) : Vld.Ast.document := map v_def d.

(** ** Syn -> Exe *)
Definition epos (p : Syn.Ast.pos) : ExeA.ArgData.pos :=
  {| ExeA.ArgData.line := Syn.Ast.line p; ExeA.ArgData.col := Syn.Ast.col p |}.

Definition n_skip : bytes := Eval compute in Syn.Ast.bs "skip"%string.
Definition n_include : bytes := Eval compute in Syn.Ast.bs "include"%string.
Definition n_if : bytes := Eval compute in Syn.Ast.bs "if"%string.

(** a @skip / @include with exactly the argument [if:] holding a boolean literal or a variable is
    what the executor's FieldCollectionFilter evaluates; every other directive is of no concern to
    it (c01's [dirsSexp]) *)
Definition e_dir (d : Syn.Ast.directive) : ExeA.ArgData.directive :=
  let n := Syn.Ast.id_name (Syn.Ast.dir_name d) in
  let mk (c : ExeA.ArgData.cond) (vp : Syn.Ast.pos) :=
    if bytes_eqb n n_skip then ExeA.ArgData.DSkip c (epos (Syn.Ast.dir_at d)) (epos vp)
    else ExeA.ArgData.DInclude c (epos (Syn.Ast.dir_at d)) (epos vp) in
  if bytes_eqb n n_skip || bytes_eqb n n_include then
    match Syn.Ast.dir_args d with
    | [a] =>
        if bytes_eqb (Syn.Ast.id_name (Syn.Ast.arg_name a)) n_if then
          match Syn.Ast.arg_value a with
          | Syn.Ast.VBool b p => mk (ExeA.ArgData.CLit b) p
          | Syn.Ast.VVar x =>
              mk (ExeA.ArgData.CVar (Syn.Ast.id_name (Syn.Ast.var_name x))) (Syn.Ast.var_dollar x)
          | _ => ExeA.ArgData.DOther
          end
        else ExeA.ArgData.DOther
    | _ => ExeA.ArgData.DOther
    end
  else ExeA.ArgData.DOther.

Fixpoint e_sel (s : Syn.Ast.selection) : ExeA.ArgData.selection :=
  match s with
  | Syn.Ast.SField alias n _ dirs sub =>
      ExeA.ArgData.SField (option_map Syn.Ast.id_name alias) (Syn.Ast.id_name n)
                          (epos (Syn.Ast.selection_pos s)) (map e_dir dirs)
                          (match sub with Some ss => e_ss ss | None => [] end)
  | Syn.Ast.SSpread n dirs e => ExeA.ArgData.SSpread (Syn.Ast.id_name n) (epos e) (map e_dir dirs)
  | Syn.Ast.SInline cond dirs sub e =>
      ExeA.ArgData.SInline (option_map Syn.Ast.id_name cond) (epos e) (map e_dir dirs) (e_ss sub)
  end
with e_ss (ss : Syn.Ast.selset) : list ExeA.ArgData.selection :=
  match ss with
  | Syn.Ast.SelSet sels _ _ => map e_sel sels
  end.

(** ** literals, types and variable definitions in C05's encoding (harness/cmd/c01/args.go
    [astValueSexp], [astTypeSexp]) *)
Definition is_digit (c : N) : bool := (48 <=? c)%N && (c <=? 57)%N.
Fixpoint digits_acc (b : bytes) (acc : Z) : Z :=
  match b with
  | [] => acc
  | c :: r => if is_digit c then digits_acc r (acc * 10 + Z.of_N (c - 48))%Z else digits_acc r acc
  end.
(** big.Int.SetString(text, 10) / strconv.Atoi on the texts the scanner produces: an optional sign,
    then digits *)
Definition parse_int (b : bytes) : Z :=
  match b with
  | 45%N :: r => Z.opp (digits_acc r 0)
  | 43%N :: r => digits_acc r 0
  | _ => digits_acc b 0
  end.
Fixpoint split_at (p : N -> bool) (b : bytes) : bytes * option bytes :=
  match b with
  | [] => ([], None)
  | c :: r => if p c then ([], Some r)
              else let (x, y) := split_at p r in (c :: x, y)
  end.
(** decimal text -> (m, k), the value m * 10^k *)
Definition parse_decimal (b : bytes) : Z * Z :=
  let (mant, ex) := split_at (fun c => (c =? 101)%N || (c =? 69)%N) b in
  let e := match ex with Some x => parse_int x | None => 0%Z end in
  let (ip, fp) := split_at (fun c => (c =? 46)%N) mant in
  match fp with
  | Some f => (parse_int (List.app ip f), (e - Z.of_nat (List.length f))%Z)
  | None => (parse_int ip, e)
  end.

Fixpoint l_value (v : Syn.Ast.value) : Val.Values.lit :=
  match v with
  | Syn.Ast.VVar x => Val.Values.LVar (Syn.Ast.id_name (Syn.Ast.var_name x))
  | Syn.Ast.VInt t _ => Val.Values.LInt (parse_int t)
  | Syn.Ast.VFloat t _ => let (m, k) := parse_decimal t in Val.Values.LFloat m k
  | Syn.Ast.VString x _ => Val.Values.LString x
  | Syn.Ast.VBool b _ => Val.Values.LBool b
  | Syn.Ast.VNull _ => Val.Values.LNull
  | Syn.Ast.VEnum n _ => Val.Values.LEnum n
  | Syn.Ast.VList vs _ _ => Val.Values.LList (map l_value vs)
  | Syn.Ast.VObject fs _ _ =>
      Val.Values.LObject (map (fun f : Syn.Ast.ident * Syn.Ast.value => (Syn.Ast.id_name (fst f), l_value (snd f))) fs)
  end.

Fixpoint l_ty (t : Syn.Ast.ty) : Val.Values.sty :=
  match t with
  | Syn.Ast.TNamed n => Val.Values.StNamed (Syn.Ast.id_name n)
  | Syn.Ast.TList t' _ _ => Val.Values.StList (l_ty t')
  | Syn.Ast.TNonNull t' => Val.Values.StNonNull (l_ty t')
  end.

Definition e_vardef (vd : Syn.Ast.vardef) : Val.Values.vardef * ExeA.ArgData.pos :=
  ({| Val.Values.vd_name := Syn.Ast.id_name (Syn.Ast.var_name (Syn.Ast.vd_var vd));
      Val.Values.vd_type := l_ty (Syn.Ast.vd_type vd);
      Val.Values.vd_default := option_map l_value (Syn.Ast.vd_default vd) |},
   epos (Syn.Ast.var_dollar (Syn.Ast.vd_var vd))).

(** field.Arguments of every field node that has some, by the node's [Position()] *)
Fixpoint a_sel (s : Syn.Ast.selection) : list (ExeA.ArgData.pos * list (ExeA.ArgData.name * Val.Values.lit)) :=
  match s with
  | Syn.Ast.SField _ _ args _ sub =>
      match args with
      | [] => []
      | _ => [(epos (Syn.Ast.selection_pos s),
               map (fun a => (Syn.Ast.id_name (Syn.Ast.arg_name a), l_value (Syn.Ast.arg_value a))) args)]
      end ++ match sub with Some ss => a_ss ss | None => [] end
  | Syn.Ast.SSpread _ _ _ => []
  | Syn.Ast.SInline _ _ sub _ => a_ss sub
  end
with a_ss (ss : Syn.Ast.selset) : list (ExeA.ArgData.pos * list (ExeA.ArgData.name * Val.Values.lit)) :=
  match ss with
  | Syn.Ast.SelSet sels _ _ => flat_map a_sel sels
  end.

Definition e_args (d : Syn.Ast.document) : list (ExeA.ArgData.pos * list (ExeA.ArgData.name * Val.Values.lit)) :=
  flat_map (fun x => match x with
                     | Syn.Ast.DOp _ _ _ _ sub => a_ss sub
                     | Syn.Ast.DFrag _ _ _ _ sub => a_ss sub
                     end) d.

(** OperationDefinition.OperationType: nil or "query" / "mutation" / "subscription" (the parser
    accepts no other keyword there) *)
Definition e_kind (ot : option Syn.Ast.optype) : ExeA.ArgData.opkind :=
  match ot with
  | None => ExeA.ArgData.OpQuery
  | Some o => if bytes_eqb (Syn.Ast.ot_value o) Syn.Ast.b_mutation then ExeA.ArgData.OpMutation
              else if bytes_eqb (Syn.Ast.ot_value o) Syn.Ast.b_subscription then ExeA.ArgData.OpSubscription
              else ExeA.ArgData.OpQuery
  end.

Definition e_ops (d : Syn.Ast.document) : list ExeA.ArgData.operation :=
  flat_map (fun x => match x with
                     | Syn.Ast.DOp ot n vars _ sub =>
                         [ {| ExeA.ArgData.o_name := option_map Syn.Ast.id_name n;
                              ExeA.ArgData.o_kind := e_kind ot;
                              ExeA.ArgData.o_pos := epos (Syn.Ast.definition_pos x);
                              ExeA.ArgData.o_sels := e_ss sub;
                              ExeA.ArgData.o_vardefs := map e_vardef vars |} ]
                     | Syn.Ast.DFrag _ _ _ _ _ => []
                     end) d.

Definition e_frags (d : Syn.Ast.document) : list ExeA.ArgData.fragdef :=
  flat_map (fun x => match x with
                     | Syn.Ast.DFrag _ n cond _ sub =>
                         [ {| ExeA.ArgData.fr_name := Syn.Ast.id_name n;
                              ExeA.ArgData.fr_cond := Syn.Ast.id_name cond;
                              ExeA.ArgData.fr_sels := e_ss sub |} ]
                     | Syn.Ast.DOp _ _ _ _ _ => []
                     end) d.

Definition exe_of_syn (d : Syn.Ast.document) : ExeA.ArgData.request_doc :=
  {| ExeA.ArgData.r_ops := e_ops d; ExeA.ArgData.r_frags := e_frags d; ExeA.ArgData.r_args := e_args d |}.
