(** * Pipe/CostCompose.v — C03: the cost rule inside the composition.
    graphql.ParseAndValidate(query, schema, features, ValidateCost(opname, variables, max, &actual,
    defaultCost)) from the BYTES: the front half of the composed model (Compose.v), then C14's
    [validate_cost_request] (validate_cost.go with C05's variable and argument coercion) on the
    document as validator.TypeInfo annotates it.  No proofs in this file.

    The cost rule walks the parsed document with TypeInfo.FieldDefinitions at hand.  Here the
    annotated document is C04's [pti_doc] of [vld_of_syn d] (C04_type_info_total: that is what
    NewTypeInfo computes); [c_ops] / [c_frs] turn it into C14's request encoding: a field selection
    with a definition carries the argument definitions of that field (from the executor-side schema
    encoding [ES], which has the default VALUES; [schemas_agree] ties it to [VS]) and its argument
    literals as C05 literals; nodes that are neither fields nor spreads are [AOther] (they only push
    and pop the multiplier).  The fields of the introspection schema have the cost function
    FieldResolverCost(0); list-typed fields of the composed stream's schemas have {Resolver 2,
    Multiplier 3}; no other field has a cost function ([af_cost = None]: the default cost).

    ValidateDocument runs every rule and then filters: secondary errors are dropped when there is a
    primary one.  So the request is rejected iff the standard rules or the cost rule report
    anything; [*actual] is written iff the cost rule reports no secondary error. *)
From Coq Require Import List NArith ZArith Bool.
From ApiFu Require Import Base.Sexp.
From ApiFu Require Syn.Ast Vld.Ast Vld.TypeInfoModel Vld.TypeInfoPure Vld.ValidatorModel.
From ApiFu Require Val.Values Val.CoerceModel Val.CoerceSpec Cost.CostModel Cost.CostArgs.
From ApiFu Require ExeA.ArgData ExeA.ArgArgs.
From ApiFu Require Import Pipe.Convert Pipe.Compose.
Import ListNotations.

(** ** C04's encoding of literals and types -> C05's *)
Fixpoint l_of_vld (v : Vld.Ast.value) : Val.Values.lit :=
  match v with
  | Vld.Ast.VVar _ n _ _ => Val.Values.LVar n
  | Vld.Ast.VInt _ t _ => Val.Values.LInt (parse_int t)
  | Vld.Ast.VFloat _ t _ => let (m, k) := parse_decimal t in Val.Values.LFloat m k
  | Vld.Ast.VString _ s _ => Val.Values.LString s
  | Vld.Ast.VBool _ b _ => Val.Values.LBool b
  | Vld.Ast.VNull _ _ => Val.Values.LNull
  | Vld.Ast.VEnum _ n _ => Val.Values.LEnum n
  | Vld.Ast.VList _ vs _ => Val.Values.LList (map l_of_vld vs)
  | Vld.Ast.VObject _ fs _ =>
      Val.Values.LObject (map (fun f : Vld.Ast.name * Vld.Ast.pos * Vld.Ast.value => (fst (fst f), l_of_vld (snd f))) fs)
  end.

Fixpoint sty_of_vld_ty (t : Vld.Ast.ty) : Val.Values.sty :=
  match t with
  | Vld.Ast.TNamed n _ => Val.Values.StNamed n
  | Vld.Ast.TList t' _ => Val.Values.StList (sty_of_vld_ty t')
  | Vld.Ast.TNonNull t' => Val.Values.StNonNull (sty_of_vld_ty t')
  end.

Definition c_vardef (vd : Vld.Ast.vardef) : Val.Values.vardef :=
  {| Val.Values.vd_name := Vld.Ast.vd_name vd;
     Val.Values.vd_type := sty_of_vld_ty (Vld.Ast.vd_type vd);
     Val.Values.vd_default := option_map l_of_vld (Vld.Ast.vd_default vd) |}.

(** ** the annotated document as the cost rule's request *)
Definition cnode := Cost.CostArgs.anode unit.

Section Request.
  Variable ES : ExeA.ArgData.schema.

  (** every field of the introspection schema (the meta-fields __schema / __type and the fields of
      the "__" types; schema/introspection/introspection.go) has Cost: FieldResolverCost(0) *)
  Definition introspection_field (parent : option Vld.Ast.name) (n : Vld.Ast.name) : bool :=
    bytes_eqb n ExeA.ArgData.n_schema || bytes_eqb n ExeA.ArgData.n_type
    || match parent with Some (95%N :: 95%N :: _) => true | _ => false end.
  Definition zero_cost : unit -> Cost.CostArgs.amap -> option (Cost.CostModel.fcost unit) :=
    fun _ _ => Some {| Cost.CostModel.fc_r := 0%Z; Cost.CostModel.fc_m := 0%Z; Cost.CostModel.fc_ctx := None |}.

  (** the cost functions of the schemas of the composed stream (harness/cmd/c03/exe/api.go [Build]):
      a field whose type is a list, under any non-null wrapper, costs 2 and multiplies by 3 *)
  Definition field_type_of (T n : ExeA.ArgData.name) : option ExeA.ArgData.sty :=
    match ExeA.ArgData.lookup_type ES T with
    | Some (ExeA.ArgData.NObject fs _) => ExeA.ArgData.assoc n fs
    | Some (ExeA.ArgData.NInterface fs) => ExeA.ArgData.assoc n fs
    | _ => None
    end.
  Definition is_list_sty (t : ExeA.ArgData.sty) : bool :=
    match t with
    | ExeA.ArgData.StList _ | ExeA.ArgData.StNonNull (ExeA.ArgData.StList _) => true
    | _ => false
    end.
  Definition list_field (parent : option Vld.Ast.name) (n : Vld.Ast.name) : bool :=
    match parent with
    | Some T => match field_type_of T n with Some t => is_list_sty t | None => false end
    | None => false
    end.
  Definition list_cost : unit -> Cost.CostArgs.amap -> option (Cost.CostModel.fcost unit) :=
    fun _ _ => Some {| Cost.CostModel.fc_r := 2%Z; Cost.CostModel.fc_m := 3%Z; Cost.CostModel.fc_ctx := None |}.
  Definition cost_function (parent : option Vld.Ast.name) (n : Vld.Ast.name)
    : option (unit -> Cost.CostArgs.amap -> option (Cost.CostModel.fcost unit)) :=
    if introspection_field parent n then Some zero_cost
    else if list_field parent n then Some list_cost else None.

  Fixpoint c_sel (parent : option Vld.Ast.name) (s : Vld.Ast.selection) : cnode :=
    match s with
    | Vld.Ast.SField a _ n _ args _ sub =>
        Cost.CostArgs.ANode
          (match a with
           | Some _ =>
               Cost.CostArgs.AField
                 {| Cost.CostArgs.af_name := n;
                    Cost.CostArgs.af_argdefs := match parent with
                                                | Some T => ExeA.ArgArgs.argdefs_of ES T n
                                                | None => []
                                                end;
                    Cost.CostArgs.af_args := map (fun x => (Vld.Ast.a_name x, l_of_vld (Vld.Ast.a_value x))) args;
                    Cost.CostArgs.af_cost := cost_function parent n |}
           | None => Cost.CostArgs.ANoDef (bytes_eqb n ExeA.ArgData.n_typename)
           end)
          (match sub with Some ss => [c_ss ss] | None => [] end)
    | Vld.Ast.SSpread n _ _ _ => Cost.CostArgs.ANode (Cost.CostArgs.ASpread n) []
    | Vld.Ast.SInline _ _ ss _ => Cost.CostArgs.ANode Cost.CostArgs.AOther [c_ss ss]
    end
  with c_ss (ss : Vld.Ast.selset) : cnode :=
    match ss with
    | Vld.Ast.SelSet a sels _ => Cost.CostArgs.ANode Cost.CostArgs.AOther (map (c_sel a) sels)
    end.

  Definition c_ops (A : Vld.Ast.document) : list (Cost.CostArgs.aop unit) :=
    flat_map (fun d => match d with
                       | Vld.Ast.DOp _ nm vars _ sub =>
                           [ {| Cost.CostArgs.ao_name := option_map fst nm;
                                Cost.CostArgs.ao_vardefs := map c_vardef vars;
                                Cost.CostArgs.ao_body := Cost.CostArgs.ANode Cost.CostArgs.AOther [c_ss sub] |} ]
                       | Vld.Ast.DFrag _ _ _ _ _ _ => []
                       end) A.

  Definition c_frs (A : Vld.Ast.document) : list (bytes * cnode) :=
    flat_map (fun d => match d with
                       | Vld.Ast.DFrag _ n _ _ _ sub => [ (n, Cost.CostArgs.ANode Cost.CostArgs.AOther [c_ss sub]) ]
                       | Vld.Ast.DOp _ _ _ _ _ => []
                       end) A.
End Request.

(** FieldCost{Resolver: r}: the default cost the harness configures *)
Definition default_cost (r : Z) : Cost.CostModel.fcost unit :=
  {| Cost.CostModel.fc_r := r; Cost.CostModel.fc_m := 0%Z; Cost.CostModel.fc_ctx := None |}.

Definition cost_of_document (VS : Vld.Ast.schema) (F : Vld.Ast.features) (ES : ExeA.ArgData.schema)
           (d : Syn.Ast.document) (opname : bytes) (raw : list (Val.Values.name * Val.Values.jval))
           (r max : Z) : Cost.CostModel.outcome :=
  let A := Vld.TypeInfoPure.pti_doc (Vld.ValidatorModel.q_unwrap_obj Vld.ValidatorModel.repaired) VS F (vld_of_syn d) in
  let frs := c_frs ES A in
  Cost.CostArgs.validate_cost_request unit (ExeA.ArgData.s_inputs ES) (ExeA.ArgArgs.dt_oracle ES) true
    (S (List.length frs)) (default_cost r) tt (c_ops ES A) frs opname raw max.

(** ** ParseAndValidate with the cost rule *)
Inductive cost_front :=
| CSyntax                       (* syntax errors *)
| CInvalid                      (* validation errors (of the standard rules, of the cost rule, or both) *)
| CAccepted (actual : Z)        (* no error; [*actual] *)
| CCrashed.                     (* a stage of the model panicked or ran out of fuel *)

Definition parse_validate_cost (pi : Vld.ValidatorModel.order) (VS : Vld.Ast.schema) (F : Vld.Ast.features)
           (ES : ExeA.ArgData.schema) (bs : bytes) (opname : bytes)
           (raw : list (Val.Values.name * Val.Values.jval)) (r max : Z) : cost_front :=
  match parse_and_validate_order pi VS F bs with
  | FSyntax _ _ => CSyntax
  | FInvalid _ _ => CInvalid
  | FAccepted d =>
      match cost_of_document VS F ES d opname raw r max with
      | Cost.CostModel.Done actual false => CAccepted actual
      | Cost.CostModel.Done _ true => CInvalid
      | Cost.CostModel.Secondary _ => CInvalid
      | Cost.CostModel.RPanic | Cost.CostModel.ROutOfFuel => CCrashed
      end
  | FPanic _ | FOutOfFuel _ => CCrashed
  end.

(** ** the schema hypotheses of the cost rule's totality: the input types and the argument types of
    every field are closed (every named type they mention is defined: schema.New) *)
Definition argdefs_closed (ES : ExeA.ArgData.schema) : bool :=
  forallb (fun tf : ExeA.ArgData.name * list (ExeA.ArgData.name * ExeA.ArgData.argdefs) =>
             forallb (fun fd : ExeA.ArgData.name * ExeA.ArgData.argdefs =>
                        forallb (fun ad : ExeA.ArgData.name * Val.Values.in_def =>
                                   Val.CoerceSpec.sty_closed (ExeA.ArgData.s_inputs ES) (Val.Values.in_type (snd ad)))
                                (snd fd))
                     (snd tf))
          (ExeA.ArgData.s_argdefs ES).


Definition cost_schema_accepted (ES : ExeA.ArgData.schema) : bool :=
  Val.CoerceSpec.env_closed (ExeA.ArgData.s_inputs ES) && argdefs_closed ES.

