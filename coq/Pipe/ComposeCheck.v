(** * Pipe/ComposeCheck.v — C03 correspondence, top level.  Cases of the "composed" stream carry the
    request text, both schema encodings, the verdict of variable coercion, the resolver-outcome
    world and what graphql.Execute answered: the composed model (Pipe/Compose.v) is run on the BYTES
    and must predict the response — outcome class; syntax-error locations in order; validation-error
    locations as a multiset (C04's equivalence); data exactly and execution errors as a multiset
    keyed by (path, locations) (C01's equivalence).  Oracle on every case: normal return, the
    response serialises, data or errors; and the stage-contract checks of the composed model hold.
    Every other stream goes to the glue check (Pipe/PipelineCheck.v).  Executable only. *)
From Coq Require Import List NArith ZArith Bool String Ascii.
From ApiFu Require Import Base.Sexp Pipe.PipelineModel Pipe.PipelineCheck Pipe.Convert Pipe.Compose Pipe.SchemaAgree Pipe.CostCompose Pipe.SubscribeCompose.
From ApiFu Require Val.Values Val.CoerceSpec.
From ApiFu Require Syn.Ast Syn.ParserModel Syn.FrontEnd Vld.Ast Vld.Inspect Vld.TypeInfoModel Vld.ValidatorModel Vld.Decode Vld.ValidatorCheck Vld.Hyps ExeA.ArgArgs ExeA.ArgData ExeA.ArgModel ExeA.ArgHyps ExeA.ArgDecode ExeA.ArgCheck.
Import ListNotations.
Open Scope string_scope.

(** ** decoding *)
Definition dec_loc_list (s : sexp) : option (list Vld.Ast.pos) := as_list_of Vld.Decode.dec_pos s.

Inductive seen :=
| SeenNone
| SeenSyntax (errs : list (list Vld.Ast.pos))
| SeenInvalid (errs : list (list Vld.Ast.pos))
| SeenExecuted (o : ExeA.ArgDecode.observed).

Definition dec_seen (s : sexp) : option seen :=
  match untag s with
  | Some (t, args) =>
      if String.eqb t "none" then Some SeenNone
      else if String.eqb t "syntax" then option_map SeenSyntax (map_opt dec_loc_list args)
      else if String.eqb t "invalid" then option_map SeenInvalid (map_opt dec_loc_list args)
      else if String.eqb t "executed" then
        match args with [o] => option_map SeenExecuted (ExeA.ArgDecode.dec_obs o) | _ => None end
      else None
  | None => None
  end.

(** ** comparison *)
Definition syn_locs (es : list Syn.Ast.pos) : list Vld.Ast.pos := map vpos es.

Definition one_each (errs : list (list Vld.Ast.pos)) : option (list Vld.Ast.pos) :=
  map_opt (fun l : list Vld.Ast.pos => match l with [p] => Some p | _ => None end) errs.

Definition of_vpos (p : Vld.Ast.pos) : sexp := SL [of_N (fst p); of_N (snd p)].

Definition of_presult (r : presult) : sexp :=
  match r with
  | PSyntax e es => tag "syntax" (map of_vpos (syn_locs (e :: es)))
  | PInvalid e es => tag "invalid" (map (fun x => SL (map of_vpos (Vld.Ast.e_locs x))) (e :: es))
  | PExecuted d errs => tag "executed" [ExeA.ArgCheck.of_run (ExeA.ArgModel.Done d errs)]
  | PContractBroken CPositions => tag "contract-broken" [SSym "positions"]
  | PContractBroken CDocOk => tag "contract-broken" [SSym "doc-ok"]
  | PPanic _ => tag "panic" []
  | POutOfFuel _ => tag "out-of-fuel" []
  end.

(** the locations of the validation errors are compared only when they do not depend on the order
    in which Go ranges over the validator's maps (C04's [stable]: the model under [id_order] and
    under [rev_order] reports the same multiset) *)
Definition invalid_locs (o : Vld.Ast.outcome) : list Vld.Ast.pos :=
  match o with
  | Vld.Ast.Done errs => Vld.ValidatorCheck.sort_pos (flat_map Vld.Ast.e_locs errs)
  | _ => []
  end.
Definition locations_stable (VS : Vld.Ast.schema) (F : Vld.Ast.features) (bs : bytes) : bool :=
  match Syn.FrontEnd.parse_document_bytes bs with
  | Syn.ParserModel.Out (Some d) [] =>
      Vld.ValidatorCheck.pos_list_eqb (invalid_locs (validate_doc Vld.ValidatorModel.id_order VS F d))
                                      (invalid_locs (validate_doc Vld.ValidatorModel.rev_order VS F d))
  | _ => true
  end.

Definition has_errors (o : ExeA.ArgDecode.observed) : bool :=
  match o with ExeA.ArgDecode.ObsDone _ (_ :: _) => true | _ => false end.

(** asynchronous resolvers (kinds "async"): C02 — the data is the synchronous executor's whatever
    the schedule; WHICH errors are reported may differ (the synchronous executor stops a selection
    set at the first failing non-null field, the asynchronous one has started the others; when the
    root is nulled, errors of fields still outstanding are not collected), so of the errors only
    "some / none" is compared *)
Definition agrees_async (m : ExeA.ArgModel.run_result) (o : ExeA.ArgDecode.observed) : bool :=
  match m, o with
  | ExeA.ArgModel.Done d es, ExeA.ArgDecode.ObsDone d' es' =>
      ExeA.ArgCheck.data_agrees d d' && Bool.eqb (match es with [] => true | _ => false end) (match es' with [] => true | _ => false end)
      && match d with Some j => ExeA.ArgDecode.marshals j | None => true end
  | _, _ => false
  end.

(** the request has a @skip/@include whose condition has no boolean value among the coerced
    variables (a nullable variable with a default, given null): covered by C01's dirs-free theorems;
    counted as a class *)
Definition request_unevaluable (ES : ExeA.ArgData.schema) (bs opname : bytes)
           (raw : list (ExeA.ArgData.name * Val.Values.jval)) : bool :=
  match Syn.FrontEnd.parse_document_bytes bs with
  | Syn.ParserModel.Out (Some d) [] =>
      match ExeA.ArgModel.get_operation (exe_of_syn d) opname with
      | ExeA.ArgModel.GOp o =>
          match ExeA.ArgModel.coerce_request_vars ES o raw with
          | Val.Values.Ok vv =>
              negb (ExeA.ArgHyps.dirs_evaluable (ExeA.ArgData.doc_of (exe_of_syn d) o vv) (ExeA.ArgArgs.env_of_vars vv))
          | _ => false
          end
      | _ => false
      end
  | _ => false
  end.

(** the decidable hypotheses of C04's theorems about the schema (as C04's check evaluates them) and
    about the positions of the parsed document *)
Definition vschema_hypotheses (VS : Vld.Ast.schema) : bool :=
  Vld.Hyps.schema_ok VS && Vld.Hyps.schema_args_ok VS && Vld.Hyps.schema_impls_ok VS
  && Vld.Hyps.schema_defaults_ok VS && Vld.Hyps.schema_ifaces_ok VS.
Definition parsed_positions_ok (bs : bytes) : bool :=
  match Syn.FrontEnd.parse_document_bytes bs with
  | Syn.ParserModel.Out (Some d) [] => Vld.Hyps.doc_positions_ok (vld_of_syn d)
  | _ => true
  end.

Definition judge_composed (async : bool) (kind : string) (VS : Vld.Ast.schema) (F : Vld.Ast.features) (ES : ExeA.ArgData.schema)
           (bs : bytes) (opname : bytes) (raw : list (ExeA.ArgData.name * Val.Values.jval)) (W : ExeA.ArgData.outcome) (obs : seen) : sexp :=
  let m := pipeline_model VS F ES bs opname raw W in
  let mism (what : string) := v_mismatch what [of_presult m] in
  let cls (l : list string) := v_ok (["composed"; String.append "composed-" kind] ++ l) in
  match m with
  | PContractBroken CPositions => v_oracle_fail "stage-contract-broken:parser-positions" []
  | PContractBroken CDocOk => v_oracle_fail "stage-contract-broken:validated-document-not-doc-ok" []
  | PPanic _ | POutOfFuel _ => mism "composed-model-crashed"
  | PSyntax e es =>
      match obs with
      | SeenSyntax errs =>
          match one_each errs with
          | Some ls => if Vld.ValidatorCheck.pos_list_eqb ls (syn_locs (e :: es)) then cls ["composed-syntax-rejected"]
                       else mism "composed-syntax-locations"
          | None => mism "composed-syntax-locations"
          end
      | _ => mism "composed-class"
      end
  | PInvalid e es =>
      match obs with
      | SeenInvalid ((_ :: _) as errs) =>
          if negb (locations_stable VS F bs) then cls ["composed-validation-rejected"; "order-sensitive-locations"; "nontrivial"]
          else if Vld.ValidatorCheck.pos_list_eqb (Vld.ValidatorCheck.sort_pos (List.concat errs))
                                                  (Vld.ValidatorCheck.sort_pos (flat_map Vld.Ast.e_locs (e :: es)))
          then cls ["composed-validation-rejected"; "nontrivial"]
          else mism "composed-validation-locations"
      | _ => mism "composed-class"
      end
  | PExecuted d errs =>
      match obs with
      | SeenExecuted o =>
          if (if async then agrees_async (ExeA.ArgModel.Done d errs) o else ExeA.ArgCheck.agrees (ExeA.ArgModel.Done d errs) o) then
            cls (List.app (if async then ["composed-async"] else [])
                (List.app (if request_unevaluable ES bs opname raw then ["composed-directive-not-evaluable"] else [])
                   ((match d with Some _ => "composed-executed-data" | None => "composed-executed-null-data" end)
                    :: (if has_errors o then ["composed-execution-errors"] else []) ++ ["nontrivial"])))
          else mism "composed-response"
      | _ => mism "composed-class"
      end
  end.

Definition add_classes (verdict : sexp) (cls : list string) : sexp :=
  match verdict with
  | SL (SSym t :: rest) => if String.eqb t "ok" then SL (SSym t :: rest ++ map SSym cls) else verdict
  | _ => verdict
  end.

(** ** the cost rule on the same request: [(cost (max M) (res R) (obs syntax | invalid | (accepted N)))] is
    what graphql.ParseAndValidate with ValidateCost(opname, variables, M, &actual, FieldCost{Resolver: R})
    answered; [CostCompose.parse_validate_cost] must predict the class and [*actual] *)
Definition judge_cost (VS : Vld.Ast.schema) (F : Vld.Ast.features) (ES : ExeA.ArgData.schema)
           (bs opname : bytes) (raw : list (ExeA.ArgData.name * Val.Values.jval)) (co : list sexp) (verdict : sexp) : sexp :=
  match tagged "ok" verdict with
  | None => verdict
  | Some _ =>
      match field1 "max" co, field1 "res" co, field1 "obs" co with
      | Some (SZ mx), Some (SZ rs), Some ob =>
          let m := parse_validate_cost Vld.ValidatorModel.id_order VS F ES bs opname raw rs mx in
          let accepted_by_rules := match parse_and_validate_bytes VS F bs with FAccepted _ => true | _ => false end in
          let show := match m with
                      | CSyntax => tag "syntax" [] | CInvalid => tag "invalid" []
                      | CAccepted a => tag "accepted" [SZ a] | CCrashed => tag "crashed" []
                      end in
          match m, untag ob with
          | CSyntax, Some (t, []) => if String.eqb t "syntax" then add_classes verdict ["cost-syntax-rejected"] else v_mismatch "cost-class" [show]
          | CInvalid, Some (t, []) =>
              if String.eqb t "invalid" then
                add_classes verdict (if accepted_by_rules then ["cost-rule-rejected"] else ["cost-validation-rejected"])
              else v_mismatch "cost-class" [show]
          | CAccepted a, Some (t, [SZ a']) =>
              if String.eqb t "accepted" then
                if Z.eqb a a' then add_classes verdict ["cost-accepted"] else v_mismatch "cost-actual" [show]
              else v_mismatch "cost-class" [show]
          | CCrashed, _ => v_mismatch "cost-model-crashed" [show]
          | _, Some (t, _) =>
              if String.eqb t "panic" || String.eqb t "timeout" then v_oracle_fail (String.append "cost-rule-" t) [ob]
              else v_mismatch "cost-class" [show]
          | _, None => v_bad "cost-observed"
          end
      | _, _, _ => v_bad "cost-fields"
      end
  end.

(** ** graphql.Subscribe on the same request: [(subscribe (obs syntax | invalid | (error n path) | source))] *)
Definition of_pathc (c : ExeA.ArgData.pathc) : sexp :=
  match c with ExeA.ArgData.PKey k => SStr k | ExeA.ArgData.PIdx i => of_N i end.
Fixpoint path_eqb (a b : ExeA.ArgData.rpath) : bool :=
  match a, b with
  | [], [] => true
  | x :: a', y :: b' => ExeA.ArgData.pathc_eqb x y && path_eqb a' b'
  | _, _ => false
  end.

Definition judge_subscribe (VS : Vld.Ast.schema) (F : Vld.Ast.features) (ES : ExeA.ArgData.schema)
           (bs opname : bytes) (raw : list (ExeA.ArgData.name * Val.Values.jval)) (W : ExeA.ArgData.outcome)
           (so : list sexp) (verdict : sexp) : sexp :=
  match tagged "ok" verdict with
  | None => verdict
  | Some _ =>
      match field1 "obs" so with
      | Some ob =>
          match untag ob with
          | Some (t, args) =>
              if String.eqb t "skipped" then verdict
              else if String.eqb t "panic" || String.eqb t "timeout" then v_oracle_fail (String.append "subscribe-" t) [ob]
              else
                let m := subscribe_model VS F ES bs opname raw W in
                let show := match m with
                            | SubSyntax _ _ => tag "syntax" [] | SubInvalid _ _ => tag "invalid" []
                            | SubError p => tag "error" [of_list of_pathc p] | SubSource _ => tag "source" []
                            | SubPanic _ => tag "panic" [] | SubOutOfFuel _ => tag "out-of-fuel" []
                            end in
                match m, args with
                | SubSyntax _ _, [] => if String.eqb t "syntax" then add_classes verdict ["subscribe-syntax-rejected"] else v_mismatch "subscribe-class" [show]
                | SubInvalid _ _, [] => if String.eqb t "invalid" then add_classes verdict ["subscribe-validation-rejected"] else v_mismatch "subscribe-class" [show]
                | SubSource _, [] => if String.eqb t "source" then add_classes verdict ["subscribe-source"] else v_mismatch "subscribe-class" [show]
                | SubError p, [SZ n; SL ps] =>
                    if String.eqb t "error" && Z.eqb n 1 then
                      match map_opt ExeA.ArgDecode.dec_pathc ps with
                      | Some p' => if path_eqb p p' then
                                     add_classes verdict [match p with [] => "subscribe-refused" | _ => "subscribe-resolver-error" end]
                                   else v_mismatch "subscribe-error-path" [show]
                      | None => v_bad "subscribe-path"
                      end
                    else v_mismatch "subscribe-class" [show]
                | SubPanic _, _ | SubOutOfFuel _, _ => v_mismatch "subscribe-model-crashed" [show]
                | _, _ => v_mismatch "subscribe-class" [show]
                end
          | None => v_bad "subscribe-observed"
          end
      | None => v_bad "subscribe-fields"
      end
  end.

Definition check_composed (l : list sexp) : sexp :=
  match field1 "kind" l, field1 "query" l, field1 "op" l, field1 "features" l, field1 "vschema" l,
        field1 "eschema" l, field1 "rawvars" l, field1 "world" l, field1 "observed" l, field "outcome" l with
  | Some (SSym kind), Some (SStr bs), Some (SStr op), Some fs, Some vs, Some es, Some co, Some w, Some ob,
    Some [SSym cls; SStr detail] =>
      (* --- oracle: normal return, serialisable, data or errors (as for every stream) *)
      if negb (String.eqb cls "ok" || String.eqb cls "errors") then
        let key := if String.eqb cls "panic" then "panic:" ++ string_of_bytes (map key_char (upto_colon detail)) else cls in
        v_oracle_fail key [SStr detail]
      else
      match dec_resp l with
      | None => v_bad "resp"
      | Some robs =>
          if match robs with Some r => negb (data_or_errors r) | None => false end
          then v_oracle_fail "nodata-noerrors" []
          else
            match as_list_of as_bytes fs, Vld.Decode.dec_schema vs, ExeA.ArgDecode.dec_schema es,
                  ExeA.ArgDecode.dec_raw co, ExeA.ArgDecode.dec_outcome w, dec_seen ob with
            | Some F, Some VS, Some ES, Some raw, Some W, Some obs =>
                if negb (ExeA.ArgHyps.type_names_okb ES && cost_schema_accepted ES) then v_bad "schema-hypotheses-do-not-hold"
                else if negb (schemas_agree VS ES) then v_bad "schema-encodings-disagree"
                else if negb (es_wf ES) then v_bad "eschema-not-well-formed"
                else if negb (vschema_hypotheses VS) then v_bad "vschema-hypotheses-do-not-hold"
                else if negb (parsed_positions_ok bs) then v_oracle_fail "stage-contract-broken:parser-positions-not-distinct" []
                else
                  let v := judge_composed (match field1 "async" l with Some a => match as_bool a with Some b => b | None => false end | None => false end) kind VS F ES bs op raw W obs in
                  let v1 := match field "cost" l with
                            | Some co => judge_cost VS F ES bs op raw co v
                            | None => v
                            end in
                  match field "subscribe" l with
                  | Some so => judge_subscribe VS F ES bs op raw W so v1
                  | None => v1
                  end
            | None, _, _, _, _, _ => v_bad "features"
            | _, None, _, _, _, _ => v_bad "vschema"
            | _, _, None, _, _, _ => v_bad "eschema"
            | _, _, _, None, _, _ => v_bad "rawvars"
            | _, _, _, _, None, _ => v_bad "world"
            | _, _, _, _, _, None => v_bad "observed"
            end
      end
  | _, _, _, _, _, _, _, _, _, _ => v_bad "composed-fields"
  end.

(** ** the front half on the hostile stream.  Cases of the other streams whose validation is the
    plain one carry [(front (vschema ..) (vdep names) (plocs ..) (vlocs ..))]: the hostile schema in
    the validator model's encoding and what parser.ParseDocument / validator.ValidateDocument
    reported.  [parse_and_validate_bytes] is run on the bytes of the text and must predict it:
    syntax-error locations in order, validation-error locations as a multiset.
    Envelope: the scalars listed under [vdep] accept literals depending on their value (DateTime,
    LongInt), which the validator model cannot express; a document with a literal at such a type is
    left out ([front-outside-envelope]). *)
Definition literal_at (names : list bytes) (VS : Vld.Ast.schema) (F : Vld.Ast.features) (D : Vld.Ast.document) : bool :=
  match Vld.TypeInfoModel.type_info (Vld.ValidatorModel.q_unwrap_obj Vld.ValidatorModel.repaired) VS F D with
  | Some A =>
      existsb (fun nd => match nd with
                         | Vld.Inspect.NValue v =>
                             negb (Vld.Ast.is_var v) &&
                             match Vld.Ast.va_expected (Vld.Ast.v_ann v) with
                             | Some t => Vld.Ast.mem (Vld.Ast.unwrapped t) names
                             | None => false
                             end
                         | _ => false
                         end) (Vld.Inspect.tree_nodes (Vld.Inspect.tree_doc A))
  | None => false
  end.

Definition of_front (r : front_result) : sexp :=
  match r with
  | FSyntax e es => tag "syntax" (map of_vpos (syn_locs (e :: es)))
  | FInvalid e es => tag "invalid" (map (fun x => SL (map of_vpos (Vld.Ast.e_locs x))) (e :: es))
  | FAccepted _ => tag "accepted" []
  | FPanic _ => tag "panic" []
  | FOutOfFuel _ => tag "out-of-fuel" []
  end.


Definition judge_front (bs : bytes) (fr : list sexp) (glue : sexp) : sexp :=
  match tagged "ok" glue with
  | None => glue                                   (* an oracle failure or glue mismatch comes first *)
  | Some _ =>
      match field1 "vschema" fr, field1 "vdep" fr, field1 "plocs" fr, field1 "vlocs" fr with
      | Some vs, Some vd, Some pl, Some vl =>
          match Vld.Decode.dec_schema vs, as_list_of as_bytes vd, dec_loc_list pl, as_list_of dec_loc_list vl with
          | Some VS, Some names, Some plocs, Some vlocs =>
              let m := parse_and_validate_bytes VS [] bs in
              let outside :=
                  match Syn.FrontEnd.parse_document_bytes bs with
                  | Syn.ParserModel.Out (Some d) [] => literal_at names VS [] (vld_of_syn d)
                  | _ => false
                  end in
              if outside then add_classes glue ["front-outside-envelope"]
              else
                match m with
                | FSyntax e es =>
                    if Vld.ValidatorCheck.pos_list_eqb plocs (syn_locs (e :: es)) then add_classes glue ["front-syntax-rejected"]
                    else v_mismatch "front-syntax" [of_front m]
                | FInvalid e es =>
                    match plocs, vlocs with
                    | [], _ :: _ =>
                        if negb (locations_stable VS [] bs) then add_classes glue ["front-validation-rejected"; "order-sensitive-locations"]
                        else if Vld.ValidatorCheck.pos_list_eqb (Vld.ValidatorCheck.sort_pos (List.concat vlocs))
                                                           (Vld.ValidatorCheck.sort_pos (flat_map Vld.Ast.e_locs (e :: es)))
                        then add_classes glue ["front-validation-rejected"]
                        else v_mismatch "front-validation-locations" [of_front m]
                    | _, _ => v_mismatch "front-class" [of_front m]
                    end
                | FAccepted _ =>
                    match plocs, vlocs with
                    | [], [] => add_classes glue ["front-accepted"]
                    | _, _ => v_mismatch "front-class" [of_front m]
                    end
                | _ => v_mismatch "front-model-crashed" [of_front m]
                end
          | _, _, _, _ => v_bad "front-decode"
          end
      | _, _, _, _ => v_bad "front-fields"
      end
  end.

Definition check (c : sexp) : sexp :=
  match tagged "case" c with
  | None => v_bad "shape"
  | Some l =>
      match field1 "stream" l with
      | Some (SSym stream) =>
          if String.eqb stream "composed" then check_composed l
          else
            match field "front" l, field1 "query" l with
            | Some fr, Some (SStr bs) => judge_front bs fr (check_glue c)
            | _, _ => check_glue c
            end
      | _ => v_bad "fields"
      end
  end.
