(** * Pipe/FieldPositions.v — C03: the positions hypothesis of C04's memo theorems, discharged for
    parsed texts.  The validator's memo (validate_fields.go, the two sets of checked pairs) identifies
    a pair of fields by their positions; C04's [validate_model_memo] is equivalent to the plain model
    and deterministic when the field selections of the document have pairwise distinct positions
    ([doc_field_positions_distinct], C04_memo_equiv_parsed).  For the document [vld_of_syn d] of a
    parsed text this follows from C06_parse_bytes_pos_injective. *)
From Coq Require Import List NArith Bool Permutation.
From ApiFu Require Import Base.Sexp.
From ApiFu Require Syn.Ast Syn.Printer Syn.ParserModel Syn.ParserProofs Syn.FrontEnd Syn.FrontEndProofs.
From ApiFu Require Vld.Ast Vld.ProofsTotal Vld.ProofsDepth Vld.MemoEquiv.
From ApiFu Require Import Pipe.Convert.
Import ListNotations.

(** the field selections of a parsed selection, in document order *)
Fixpoint fieldpos_sel (s : Syn.Ast.selection) : list Syn.Ast.pos :=
  match s with
  | Syn.Ast.SField _ _ _ _ (Some ss) => Syn.Ast.selection_pos s :: fieldpos_ss ss
  | Syn.Ast.SField _ _ _ _ None => [Syn.Ast.selection_pos s]
  | Syn.Ast.SSpread _ _ _ => []
  | Syn.Ast.SInline _ _ ss _ => fieldpos_ss ss
  end
with fieldpos_ss (ss : Syn.Ast.selset) : list Syn.Ast.pos :=
  match ss with
  | Syn.Ast.SelSet sels _ _ =>
      (fix go (l : list Syn.Ast.selection) : list Syn.Ast.pos :=
         match l with [] => [] | x :: r => fieldpos_sel x ++ go r end) sels
  end.

Lemma fieldpos_go sels :
  (fix go (l : list Syn.Ast.selection) : list Syn.Ast.pos :=
     match l with [] => [] | x :: r => fieldpos_sel x ++ go r end) sels
  = flat_map fieldpos_sel sels.
Proof. induction sels as [|x r IH]; [reflexivity|]. cbn [flat_map]. rewrite IH. reflexivity. Qed.

Lemma positions_go sels :
  (fix go (l : list Syn.Ast.selection) : list Syn.Ast.pos :=
     match l with [] => [] | x :: r => Syn.Printer.positions_selection x ++ go r end) sels
  = flat_map Syn.Printer.positions_selection sels.
Proof. induction sels as [|x r IH]; [reflexivity|]. cbn [flat_map]. rewrite IH. reflexivity. Qed.

(** they are among the selection positions the parser keeps distinct *)
Fixpoint fieldpos_sel_subseq (s : Syn.Ast.selection) :
  Syn.ParserProofs.subseq (fieldpos_sel s) (Syn.Printer.positions_selection s)
with fieldpos_ss_subseq (ss : Syn.Ast.selset) :
  Syn.ParserProofs.subseq (fieldpos_ss ss) (Syn.Printer.positions_selset ss).
Proof.
  - destruct s as [alias n args dirs [sub|]|n dirs e|cond dirs sub e];
      cbn [fieldpos_sel Syn.Printer.positions_selection].
    + apply Syn.ParserProofs.sub_keep. apply fieldpos_ss_subseq.
    + apply Syn.ParserProofs.subseq_refl.
    + apply Syn.ParserProofs.subseq_nil_l.
    + apply Syn.ParserProofs.sub_skip. apply fieldpos_ss_subseq.
  - destruct ss as [sels o c]. cbn [fieldpos_ss Syn.Printer.positions_selset].
    rewrite fieldpos_go, positions_go.
    induction sels as [|x r IH]; [constructor|].
    cbn [flat_map]. apply Syn.ParserProofs.subseq_app; [apply fieldpos_sel_subseq|exact IH].
Qed.

(** the validator's list (selection set by selection set: the fields written directly in it) is a
    permutation of it *)
Definition own_pos (s : Syn.Ast.selection) : list Vld.Ast.pos :=
  match s with Syn.Ast.SField _ _ _ _ _ => [vpos (Syn.Ast.selection_pos s)] | _ => [] end.

Lemma v_sel_pos s : Vld.Ast.sel_pos (v_sel s) = vpos (Syn.Ast.selection_pos s).
Proof. destruct s as [[a|] n args dirs sub|n dirs e|cond dirs sub e]; reflexivity. Qed.

Lemma set_positions_own sels p :
  Vld.MemoEquiv.set_positions (Vld.Ast.SelSet None (map v_sel sels) p) = flat_map own_pos sels.
Proof.
  unfold Vld.MemoEquiv.set_positions. cbn [Vld.Ast.ss_sels].
  induction sels as [|x r IH]; [reflexivity|]. cbn [map filter flat_map].
  destruct x as [alias n args dirs sub|n dirs e|cond dirs sub e]; cbn [v_sel Vld.ProofsDepth.is_fieldb own_pos app map].
  - rewrite IH. f_equal. apply (v_sel_pos (Syn.Ast.SField alias n args dirs sub)).
  - exact IH.
  - exact IH.
Qed.

Lemma perm_shuffle {A} (hx dr sx sr : list A) :
  Permutation ((hx ++ dr) ++ (sx ++ sr)) ((hx ++ sx) ++ (dr ++ sr)).
Proof.
  rewrite <- !app_assoc. apply Permutation_app_head.
  rewrite !app_assoc. apply Permutation_app_tail. apply Permutation_app_comm.
Qed.

Fixpoint perm_sel (s : Syn.Ast.selection) :
  Permutation (own_pos s ++ flat_map Vld.MemoEquiv.set_positions (Vld.ProofsTotal.subs_sel (v_sel s)))
              (map vpos (fieldpos_sel s))
with perm_ss (ss : Syn.Ast.selset) :
  Permutation (flat_map Vld.MemoEquiv.set_positions (Vld.ProofsTotal.subs_ss (v_ss ss)))
              (map vpos (fieldpos_ss ss)).
Proof.
  - destruct s as [alias n args dirs [sub|]|n dirs e|cond dirs sub e];
      cbn [own_pos v_sel Vld.ProofsTotal.subs_sel fieldpos_sel map app flat_map].
    + apply perm_skip. apply perm_ss.
    + apply Permutation_refl.
    + apply Permutation_refl.
    + apply perm_ss.
  - destruct ss as [sels o c]. cbn [v_ss fieldpos_ss]. rewrite fieldpos_go.
    rewrite Vld.ProofsTotal.subs_ss_eq. cbn [flat_map]. rewrite set_positions_own.
    induction sels as [|x r IH]; [apply Permutation_refl|].
    cbn [map flat_map]. rewrite flat_map_app, map_app.
    eapply Permutation_trans; [apply perm_shuffle|].
    apply Permutation_app; [apply perm_sel|exact IH].
Qed.

Definition fieldpos_def (x : Syn.Ast.definition) : list Syn.Ast.pos :=
  match x with
  | Syn.Ast.DOp _ _ _ _ sub => fieldpos_ss sub
  | Syn.Ast.DFrag _ _ _ _ sub => fieldpos_ss sub
  end.

Lemma field_positions_perm d :
  Permutation (Vld.MemoEquiv.field_positions (vld_of_syn d)) (map vpos (flat_map fieldpos_def d)).
Proof.
  unfold Vld.MemoEquiv.field_positions, Vld.ProofsTotal.all_subs, vld_of_syn.
  induction d as [|x d IH]; [apply Permutation_refl|].
  cbn [map flat_map]. rewrite flat_map_app, map_app. apply Permutation_app; [|exact IH].
  destruct x as [ot n vars dirs sub|kw n cond dirs sub]; cbn [v_def Vld.Ast.def_sub fieldpos_def]; apply perm_ss.
Qed.

Lemma fieldpos_document_subseq d :
  Syn.ParserProofs.subseq (flat_map fieldpos_def d) (Syn.Printer.positions_document d).
Proof.
  unfold Syn.Printer.positions_document. induction d as [|x d IH]; [constructor|].
  cbn [flat_map]. apply Syn.ParserProofs.subseq_app; [|exact IH].
  destruct x; apply fieldpos_ss_subseq.
Qed.

Lemma vpos_inj a b : vpos a = vpos b -> a = b.
Proof. destruct a, b. unfold vpos. cbn. intro H. inversion H. reflexivity. Qed.

Lemma NoDup_map_vpos l : NoDup l -> NoDup (map vpos l).
Proof.
  induction 1 as [|x l Hx Hn IH]; [constructor|]. cbn [map]. constructor; [|exact IH].
  intro Hi. apply in_map_iff in Hi. destruct Hi as (y & Hy & Hin). apply vpos_inj in Hy. subst y. exact (Hx Hin).
Qed.

Theorem parsed_field_positions_distinct bs d es :
  Syn.FrontEnd.parse_document_bytes bs = Syn.ParserModel.Out (Some d) es ->
  Vld.MemoEquiv.doc_field_positions_distinct (vld_of_syn d).
Proof.
  intro Hp. unfold Vld.MemoEquiv.doc_field_positions_distinct.
  eapply Permutation_NoDup; [apply Permutation_sym, field_positions_perm|].
  apply NoDup_map_vpos. eapply Syn.ParserProofs.subseq_NoDup; [apply fieldpos_document_subseq|].
  exact (Syn.FrontEndProofs.parse_bytes_pos_injective bs d es Hp).
Qed.
