(** * Pipe/SchemaAgree.v — C03: when the validator's and the executor's encoding describe ONE schema
    (boolean, evaluated by the correspondence check on every composed case; hypothesis of the
    theorems that carry a validation guarantee over to the executor).  No proofs in this file. *)
From Coq Require Import List NArith Bool.
From ApiFu Require Import Base.Sexp.
From ApiFu Require Vld.Ast ExeA.ArgData ExeA.ArgArgs ExeA.ArgSpec Val.Values.
Import ListNotations.

(** same output types under the same names, same root types, the same arguments (names and
    types) on every field; the executor encoding has no directives and no feature gates *)
Fixpoint sty_agree_in (a : Vld.Ast.sty) (b : Val.Values.sty) : bool :=
  match a, b with
  | Vld.Ast.StNamed x, Val.Values.StNamed y => bytes_eqb x y
  | Vld.Ast.StList x, Val.Values.StList y => sty_agree_in x y
  | Vld.Ast.StNonNull x, Val.Values.StNonNull y => sty_agree_in x y
  | _, _ => false
  end.

Definition args_agree (va : list (Vld.Ast.name * Vld.Ast.input_def)) (ea : ExeA.ArgData.argdefs) : bool :=
  Nat.eqb (List.length va) (List.length ea) &&
  forallb (fun a : ExeA.ArgData.name * Val.Values.in_def =>
             match Vld.Ast.assoc (fst a) va with
             | Some d => sty_agree_in (Vld.Ast.in_type d) (Val.Values.in_type (snd a))
             | None => false
             end) ea.
Fixpoint sty_agree (a : Vld.Ast.sty) (b : ExeA.ArgData.sty) : bool :=
  match a, b with
  | Vld.Ast.StNamed x, ExeA.ArgData.StNamed y => bytes_eqb x y
  | Vld.Ast.StList x, ExeA.ArgData.StList y => sty_agree x y
  | Vld.Ast.StNonNull x, ExeA.ArgData.StNonNull y => sty_agree x y
  | _, _ => false
  end.

Fixpoint names_agree (a b : list bytes) : bool :=
  match a, b with
  | [], [] => true
  | x :: a', y :: b' => bytes_eqb x y && names_agree a' b'
  | _, _ => false
  end.

Definition fields_agree (argdefs_of : ExeA.ArgData.name -> ExeA.ArgData.argdefs)
           (vf : list (Vld.Ast.name * Vld.Ast.field_def)) (ef : list (ExeA.ArgData.name * ExeA.ArgData.sty)) : bool :=
  Nat.eqb (List.length vf) (List.length ef) &&
  forallb (fun f : ExeA.ArgData.name * ExeA.ArgData.sty =>
             match Vld.Ast.assoc (fst f) vf with
             | Some d => sty_agree (Vld.Ast.f_type d) (snd f)
                         && args_agree (Vld.Ast.f_args d) (argdefs_of (fst f))
                         && match Vld.Ast.f_req d with [] => true | _ => false end
             | None => false
             end) ef
  && forallb (fun f : Vld.Ast.name * Vld.Ast.field_def =>
                match ExeA.ArgData.assoc (fst f) ef with Some _ => true | None => false end) vf.

(** an interface's fields: names and types (argument definitions are kept per object type) *)
Definition iface_fields_agree (vf : list (Vld.Ast.name * Vld.Ast.field_def)) (ef : list (ExeA.ArgData.name * ExeA.ArgData.sty)) : bool :=
  Nat.eqb (List.length vf) (List.length ef) &&
  forallb (fun f : ExeA.ArgData.name * ExeA.ArgData.sty =>
             match Vld.Ast.assoc (fst f) vf with
             | Some d => sty_agree (Vld.Ast.f_type d) (snd f)
                         && match Vld.Ast.f_req d with [] => true | _ => false end
             | None => false
             end) ef
  && forallb (fun f : Vld.Ast.name * Vld.Ast.field_def =>
                match ExeA.ArgData.assoc (fst f) ef with Some _ => true | None => false end) vf.

Definition scalar_agree (v : Vld.Ast.scalar) (e : ExeA.ArgData.scalar_kind) : bool :=
  match v, e with
  | Vld.Ast.SInt, ExeA.ArgData.KInt | Vld.Ast.SFloat, ExeA.ArgData.KFloat | Vld.Ast.SString, ExeA.ArgData.KString
  | Vld.Ast.SBoolean, ExeA.ArgData.KBoolean | Vld.Ast.SID, ExeA.ArgData.KID => true
  | _, _ => false
  end.

Definition type_agree (VS : Vld.Ast.schema) (ES : ExeA.ArgData.schema) (nt : ExeA.ArgData.name * ExeA.ArgData.named_type) : bool :=
  match Vld.Ast.raw_type VS (fst nt) with
  | None => false
  | Some d =>
      match Vld.Ast.t_req d with [] => true | _ => false end &&
      match Vld.Ast.t_body d, snd nt with
      | Vld.Ast.TScalar k, ExeA.ArgData.NScalar k' => scalar_agree k k'
      | Vld.Ast.TEnum vs, ExeA.ArgData.NEnum vs' =>
          Nat.eqb (List.length vs) (List.length vs') && forallb (fun v => Vld.Ast.mem (fst v) vs) vs'
      | Vld.Ast.TObject fs is, ExeA.ArgData.NObject fs' is' =>
          fields_agree (ExeA.ArgArgs.argdefs_of ES (fst nt)) fs fs' && names_agree is is'
      | Vld.Ast.TInterface fs, ExeA.ArgData.NInterface fs' => iface_fields_agree fs fs'
      | Vld.Ast.TUnion ms, ExeA.ArgData.NUnion ms' => names_agree ms ms'
      | Vld.Ast.TInput _, ExeA.ArgData.NInput => true
      | _, _ => false
      end
  end.

Definition is_introspection (n : bytes) : bool :=
  match n with 95%N :: 95%N :: _ => true | _ => false end.

Definition opt_names_agree (a b : option bytes) : bool :=
  match a, b with
  | None, None => true
  | Some x, Some y => bytes_eqb x y
  | _, _ => false
  end.

Definition schemas_agree (VS : Vld.Ast.schema) (ES : ExeA.ArgData.schema) : bool :=
  forallb (type_agree VS ES) (ExeA.ArgData.types ES)
  && forallb (fun nd : Vld.Ast.name * Vld.Ast.type_def =>
                is_introspection (fst nd)
                || match ExeA.ArgData.lookup_type ES (fst nd) with Some _ => true | None => false end)
             (Vld.Ast.s_types VS)
  && bytes_eqb (Vld.Ast.s_query VS) (ExeA.ArgData.query ES)
  && opt_names_agree (Vld.Ast.s_mutation VS) (ExeA.ArgData.mutation ES)
  && opt_names_agree (Vld.Ast.s_subscription VS) (ExeA.ArgData.subscription ES)
  && forallb (fun nf : Vld.Ast.name * Vld.Ast.field_def =>
                bytes_eqb (fst nf) ExeA.ArgData.n_schema || bytes_eqb (fst nf) ExeA.ArgData.n_type) (Vld.Ast.s_meta VS).

(** ** well-formedness of the executor's encoding of the schema, as schema.New guarantees it
    (decidable; evaluated by the correspondence check on every composed case):
    type names are the keys of a map; the members of a union and the root types are object types;
    the type of every field is an output type of the schema; and an object type's field is
    covariant with the field of every interface it declares (ObjectType.satisfyInterface:
    isSubTypeOf), in the form used here: every possible object type of the object's field type is a
    possible object type of the interface's field type. *)
Definition is_object (ES : ExeA.ArgData.schema) (n : ExeA.ArgData.name) : bool :=
  match ExeA.ArgData.lookup_type ES n with Some (ExeA.ArgData.NObject _ _) => true | _ => false end.
Definition output_field (ES : ExeA.ArgData.schema) (f : ExeA.ArgData.name * ExeA.ArgData.sty) : bool :=
  match ExeA.ArgData.lookup_type ES (ExeA.ArgSpec.sty_base (snd f)) with
  | Some ExeA.ArgData.NInput | None => false
  | Some _ => true
  end.
Fixpoint e_nodupb (l : list ExeA.ArgData.name) : bool :=
  match l with [] => true | x :: r => negb (ExeA.ArgData.mem x r) && e_nodupb r end.
Definition covariant_with (ES : ExeA.ArgData.schema) (fs : list (ExeA.ArgData.name * ExeA.ArgData.sty)) (i : ExeA.ArgData.name) : bool :=
  match ExeA.ArgData.lookup_type ES i with
  | Some (ExeA.ArgData.NInterface ifs) =>
      forallb (fun nf : ExeA.ArgData.name * ExeA.ArgData.sty =>
                 match ExeA.ArgData.assoc (fst nf) fs with
                 | Some t => forallb (fun x => ExeA.ArgData.mem x (ExeA.ArgSpec.s_possible ES (ExeA.ArgSpec.sty_base (snd nf)))) (ExeA.ArgSpec.s_possible ES (ExeA.ArgSpec.sty_base t))
                 | None => false
                 end) ifs
  | _ => false
  end.
Definition es_wf (ES : ExeA.ArgData.schema) : bool :=
  e_nodupb (map fst (ExeA.ArgData.types ES))
  && forallb (fun nt : ExeA.ArgData.name * ExeA.ArgData.named_type =>
                match snd nt with
                | ExeA.ArgData.NObject fs ifs => forallb (output_field ES) fs && forallb (covariant_with ES fs) ifs
                | ExeA.ArgData.NInterface fs => forallb (output_field ES) fs
                | ExeA.ArgData.NUnion ms => forallb (is_object ES) ms
                | _ => true
                end) (ExeA.ArgData.types ES)
  && is_object ES (ExeA.ArgData.query ES)
  && match ExeA.ArgData.mutation ES with Some m => is_object ES m | None => true end
  && match ExeA.ArgData.subscription ES with Some m => is_object ES m | None => true end.

