(** * Pipe/SchemaAgree.v — C03: when the validator's and the executor's encoding describe ONE schema
    (boolean, evaluated by the correspondence check on every composed case; hypothesis of the
    theorems that carry a validation guarantee over to the executor).  No proofs in this file. *)
From Coq Require Import List NArith Bool.
From ApiFu Require Import Base.Sexp.
From ApiFu Require Vld.Ast Exe.ExecData.
Import ListNotations.

(** same output types under the same names, same root types (the executor encoding has no input
    objects, arguments, directives, feature gates) *)
Fixpoint sty_agree (a : Vld.Ast.sty) (b : Exe.ExecData.sty) : bool :=
  match a, b with
  | Vld.Ast.StNamed x, Exe.ExecData.StNamed y => bytes_eqb x y
  | Vld.Ast.StList x, Exe.ExecData.StList y => sty_agree x y
  | Vld.Ast.StNonNull x, Exe.ExecData.StNonNull y => sty_agree x y
  | _, _ => false
  end.

Fixpoint names_agree (a b : list bytes) : bool :=
  match a, b with
  | [], [] => true
  | x :: a', y :: b' => bytes_eqb x y && names_agree a' b'
  | _, _ => false
  end.

Definition fields_agree (vf : list (Vld.Ast.name * Vld.Ast.field_def)) (ef : list (Exe.ExecData.name * Exe.ExecData.sty)) : bool :=
  Nat.eqb (List.length vf) (List.length ef) &&
  forallb (fun f : Exe.ExecData.name * Exe.ExecData.sty =>
             match Vld.Ast.assoc (fst f) vf with
             | Some d => sty_agree (Vld.Ast.f_type d) (snd f)
                         && match Vld.Ast.f_args d with [] => true | _ => false end
                         && match Vld.Ast.f_req d with [] => true | _ => false end
             | None => false
             end) ef.

Definition scalar_agree (v : Vld.Ast.scalar) (e : Exe.ExecData.scalar_kind) : bool :=
  match v, e with
  | Vld.Ast.SInt, Exe.ExecData.KInt | Vld.Ast.SFloat, Exe.ExecData.KFloat | Vld.Ast.SString, Exe.ExecData.KString
  | Vld.Ast.SBoolean, Exe.ExecData.KBoolean | Vld.Ast.SID, Exe.ExecData.KID => true
  | _, _ => false
  end.

Definition type_agree (VS : Vld.Ast.schema) (nt : Exe.ExecData.name * Exe.ExecData.named_type) : bool :=
  match Vld.Ast.raw_type VS (fst nt) with
  | None => false
  | Some d =>
      match Vld.Ast.t_req d with [] => true | _ => false end &&
      match Vld.Ast.t_body d, snd nt with
      | Vld.Ast.TScalar k, Exe.ExecData.NScalar k' => scalar_agree k k'
      | Vld.Ast.TEnum vs, Exe.ExecData.NEnum vs' =>
          Nat.eqb (List.length vs) (List.length vs') && forallb (fun v => Vld.Ast.mem (fst v) vs) vs'
      | Vld.Ast.TObject fs is, Exe.ExecData.NObject fs' is' => fields_agree fs fs' && names_agree is is'
      | Vld.Ast.TInterface fs, Exe.ExecData.NInterface fs' => fields_agree fs fs'
      | Vld.Ast.TUnion ms, Exe.ExecData.NUnion ms' => names_agree ms ms'
      | Vld.Ast.TInput _, Exe.ExecData.NInput => true
      | _, _ => false
      end
  end.

Definition is_introspection (n : bytes) : bool :=
  match n with 95%N :: 95%N :: _ => true | _ => false end.

Definition opt_names_agree (a b : option bytes) : bool :=
  match a, b with
  | None, None => true
  | Some x, Some y => bytes_eqb x y
  | _, _ => false
  end.

Definition schemas_agree (VS : Vld.Ast.schema) (ES : Exe.ExecData.schema) : bool :=
  forallb (type_agree VS) (Exe.ExecData.types ES)
  && forallb (fun nd : Vld.Ast.name * Vld.Ast.type_def =>
                is_introspection (fst nd)
                || match Exe.ExecData.lookup_type ES (fst nd) with Some _ => true | None => false end)
             (Vld.Ast.s_types VS)
  && bytes_eqb (Vld.Ast.s_query VS) (Exe.ExecData.query ES)
  && opt_names_agree (Vld.Ast.s_mutation VS) (Exe.ExecData.mutation ES)
  && opt_names_agree (Vld.Ast.s_subscription VS) (Exe.ExecData.subscription ES).

