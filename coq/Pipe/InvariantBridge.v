(** * Pipe/InvariantBridge.v — C03: [validate_establishes_invariant] PROVED.
    A text accepted by the composed front half yields, for every selectable operation and all
    variable values, the invariant Q of C01_doc_ok_nodirs_acyclic: Q := [MergeBridge.Qv].
    From C04: fields defined (5.3.1, [memo_accepted_valid]), defined on every possible object type
    ([defined_on_possible]), merge soundness of the validator as it is, with the memo
    ([memo_accepted_merge_sound]), fragment names unique (5.5.1.1), root type (valid_root); from
    C06/C07: the selection sets of a parsed text open at distinct positions (SetPositions.v), its
    fields sit at distinct positions (FieldPositions.v).
    Hypotheses on the schema, all decidable and evaluated by the check on every composed case:
    [schemas_agree VS ES], [es_wf ES], C04's [schema_ok], [schema_impls_ok], [schema_ifaces_ok]. *)
From Coq Require Import List NArith ZArith Bool Lia.
From ApiFu Require Import Base.Sexp.
From ApiFu Require Syn.Ast Syn.ParserModel Syn.FrontEnd Vld.Ast Vld.TypeInfoPure Vld.ValidSpec Vld.ValidatorModel Vld.ProofsCommon
     Vld.ProofsMergeSound Vld.ProofsSubscription Vld.ProofsFragDecl Vld.ValidatorProofs Vld.MemoEquiv Vld.MemoTransfer Vld.Hyps.
From ApiFu Require Val.Values ExeA.ArgData ExeA.ArgArgs ExeA.ArgModel ExeA.ArgSpec ExeA.ArgHyps.
From ApiFu Require Import Pipe.Convert Pipe.Compose Pipe.SchemaAgree Pipe.PositionsProofs Pipe.FieldPositions Pipe.SetPositions
     Pipe.ComposeProofs Pipe.CondsProofs Pipe.TypingProofs Pipe.CostCompose Pipe.AcyclicProofs Pipe.InvariantProofs Pipe.MergeBridge.
Import ListNotations.

Definition vschema_wf (VS : Vld.Ast.schema) : bool :=
  Vld.Hyps.schema_ok VS && Vld.Hyps.schema_impls_ok VS && Vld.Hyps.schema_ifaces_ok VS.

Theorem validate_establishes_invariant_proved pi VS F ES :
  Vld.ProofsCommon.order_ok pi -> schemas_agree VS ES = true -> es_wf ES = true -> vschema_wf VS = true ->
  validate_establishes_invariant pi VS F ES.
Proof.
  intros Hpi Ha Hwf Hvs bs d opname o vv rt Hacc Hg D E Hrt.
  unfold vschema_wf in Hvs. apply andb_true_iff in Hvs as [Hvs Hifaces]. apply andb_true_iff in Hvs as [Hok Himpls].
  destruct (front_cases pi Hpi VS F bs) as [(e & es & t & H & _)|[(d' & e & es & H & _)|(d' & H & Hp & Hv)]];
    rewrite Hacc in H; try discriminate. inversion H; subst d'. clear H.
  unfold validate_doc in Hv.
  pose proof (parsed_field_positions_distinct bs d [] Hp) as Hfpos.
  pose proof (parsed_set_positions_distinct bs d [] Hp) as Hspos.
  destruct (selected_operation_kind d opname o Hg) as (ot & n & vars & dirs & sub & Hin & Hk & Hosel).
  (* what acceptance gives *)
  destruct (Vld.MemoTransfer.memo_accepted_valid pi VS F (vld_of_syn d) Hpi Hok Hv) as (_ & _ & Hroot & _ & _ & Hfd & _).
  pose proof (Vld.ProofsMergeSound.memo_accepted_merge_sound pi VS F (vld_of_syn d) Hpi Hfpos Hv) as Hmerge.
  assert (Hnd : NoDup (Vld.Ast.frag_names (vld_of_syn d))).
  { pose proof Hv as Hv'. apply (Vld.MemoEquiv.validate_memo_iff_parsed pi VS F (vld_of_syn d) Hpi Hfpos) in Hv'.
    apply Vld.ValidatorProofs.validate_model_nil in Hv'. apply Vld.ValidatorProofs.all_rules_nil in Hv'.
    destruct Hv' as (_ & _ & _ & (Hdecl & _) & _).
    apply (Vld.ProofsFragDecl.rule_fragment_declarations_iff pi Hpi) in Hdecl.
    unfold Vld.ProofsFragDecl.valid_5_5_1 in Hdecl.
    apply andb_true_iff in Hdecl as [Hdecl _]. apply andb_true_iff in Hdecl as [Hdecl _]. apply andb_true_iff in Hdecl as [H511 _].
    apply (proj1 (Vld.ProofsCommon.nodupb_NoDup _)). exact H511. }
  pose proof (Vld.ProofsSubscription.sets_distinct_pti true VS F (vld_of_syn d) Hspos) as Hsets.
  (* the root type of the selected operation *)
  unfold Vld.ValidSpec.valid_root in Hroot. rewrite forallb_forall in Hroot.
  specialize (Hroot (v_def (Syn.Ast.DOp ot n vars dirs sub)) (in_map v_def _ _ Hin)). cbn [v_def] in Hroot.
  destruct (Vld.ValidSpec.root_type VS (option_map (fun o0 => (Syn.Ast.ot_value o0, vpos (Syn.Ast.ot_pos o0))) ot)) as [r|] eqn:Er;
    [|discriminate].
  unfold D in Hrt. cbn [ExeA.ArgData.doc_of ExeA.ArgData.op_kind] in Hrt. rewrite Hk in Hrt.
  exists (Qv VS F ES d ot sub). split; [|split].
  - unfold D. cbn [ExeA.ArgData.doc_of ExeA.ArgData.op_sels]. rewrite Hosel.
    exact (Qv_root VS F ES d ot n vars dirs sub Hin Ha Hwf r rt Er Hrt).
  - exact (Qv_fields_defined VS F ES d o vv ot n vars dirs sub Hin Hosel Ha Hnd Himpls Hifaces Hfd Hwf).
  - exact (Qv_merge_sound VS F ES d o vv ot n vars dirs sub Hin Ha Hnd Himpls Hfd Hwf Hsets Hmerge).
Qed.

(** hence: a text the front half accepts satisfies C01's [doc_ok_nodirs] with the fuel and level
    bound the composed model evaluates — the [PContractBroken CDocOk] outcome is unreachable ... *)
Theorem validate_establishes_doc_ok_proved pi VS F ES :
  Vld.ProofsCommon.order_ok pi -> schemas_agree VS ES = true -> cost_schema_accepted ES = true ->
  es_wf ES = true -> vschema_wf VS = true ->
  validate_establishes_doc_ok pi VS F ES.
Proof.
  intros Hpi Ha Hs Hwf Hvs. apply doc_ok_from_invariant; try assumption.
  apply validate_establishes_invariant_proved; assumption.
Qed.

(** ... and every request whose text keeps positions below line 2^24 / column 2^32 gets a response *)
Theorem pipeline_response pi VS F ES bs opname raw W :
  Vld.ProofsCommon.order_ok pi ->
  schema_accepted ES = true -> cost_schema_accepted ES = true -> schemas_agree VS ES = true ->
  es_wf ES = true -> vschema_wf VS = true -> text_positions_small bs ->
  is_response (pipeline_order pi VS F ES bs opname raw W) = true.
Proof.
  intros Hpi Hn Hs Ha Hwf Hvs Hp.
  apply (pipeline_response_if_invariant pi VS F ES bs opname raw W Hpi Hn Hs Ha); [|exact Hp].
  apply validate_establishes_invariant_proved; assumption.
Qed.
