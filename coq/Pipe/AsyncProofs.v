(** * Pipe/AsyncProofs.v — C03: asynchronous resolvers inside the composition.
    Whenever the composed model executes a request (outcome [PExecuted d errs] on the checked
    branch), then for EVERY choice of resolvers answering through promises and EVERY fair idle
    handler the asynchronous executor model of C02 (Fut/ExecAsync.v: executor.go + future.go)
    finishes — never stuck, within the stated rounds — with the same data, and its response
    conforms to the plan (an error for every visible failure-null).  From
    C02_every_schedule_yields_ExecuteRequest_response through the composition: the hypotheses of
    that theorem are the dynamic contract checks of the composed model. *)
From Coq Require Import List NArith ZArith Bool Lia.
From ApiFu Require Import Base.Sexp.
From ApiFu Require Syn.Ast Vld.Ast Vld.ValidatorModel Vld.ProofsCommon.
From ApiFu Require Val.Values ExeA.ArgData ExeA.ArgArgs ExeA.ArgModel ExeA.ArgSpec ExeA.ArgHyps ExeA.ArgDirProofs.
From ApiFu Require Fut.Plan Fut.Future Fut.ExecAsync Fut.AsyncRun Fut.FutSpec Fut.FutProofs Fut.BridgeC01 Fut.BridgeCompose.
From ApiFu Require Import Pipe.Convert Pipe.Compose Pipe.ComposeProofs.
Import ListNotations.

(** [doc_ok_nodirs] and evaluable directives give C01's full [doc_ok] (C02's bridge theorem is stated
    under [doc_ok]) *)
Lemma sel_conds_strengthen S E : forall s,
  ExeA.ArgSpec.sel_conds_gen S E false s = true ->
  (forall t, In t (ExeA.ArgHyps.sub_sels s) -> ExeA.ArgSpec.dirs_ok E t = true) ->
  ExeA.ArgSpec.sel_conds_ok S E s = true.
Proof.
  intro s. induction s as [a n p d sub IH|n p d|tc p d sub IH] using ExeA.ArgDirProofs.selection_ind_dir;
    cbn [ExeA.ArgSpec.sel_conds_gen ExeA.ArgSpec.sel_conds_ok andb]; intros H Hd;
    rewrite (Hd _ (or_introl eq_refl)); cbn [andb]; try reflexivity.
  - rewrite forallb_forall in H |- *. rewrite Forall_forall in IH. intros x Hx. apply (IH x Hx (H x Hx)).
    intros t Ht. apply Hd. right. apply in_flat_map. exists x. split; assumption.
  - apply andb_true_iff in H as [Hc H]. rewrite Hc. cbn [andb].
    rewrite forallb_forall in H |- *. rewrite Forall_forall in IH. intros x Hx. apply (IH x Hx (H x Hx)).
    intros t Ht. apply Hd. right. apply in_flat_map. exists x. split; assumption.
Qed.

Lemma doc_ok_of_nodirs S D E fuel n :
  ExeA.ArgSpec.doc_ok_nodirs S D E fuel n = true -> ExeA.ArgHyps.dirs_evaluable D E = true ->
  ExeA.ArgSpec.doc_ok S D E fuel n = true.
Proof.
  unfold ExeA.ArgSpec.doc_ok_nodirs, ExeA.ArgSpec.doc_ok. intros H Hev. apply andb_true_iff in H as [Hc Ht].
  rewrite Ht, andb_true_r. unfold ExeA.ArgSpec.conds_gen in Hc. apply andb_true_iff in Hc as [H1 H2].
  unfold ExeA.ArgHyps.dirs_evaluable, ExeA.ArgHyps.all_sels in Hev. rewrite forallb_forall in Hev.
  unfold ExeA.ArgSpec.conds_ok. apply andb_true_iff. split.
  - rewrite forallb_forall in H1 |- *. intros x Hx. apply sel_conds_strengthen; [exact (H1 x Hx)|].
    intros t Ht'. apply Hev. apply in_or_app. left. apply in_flat_map. exists x. split; assumption.
  - rewrite forallb_forall in H2 |- *. intros f Hf. specialize (H2 f Hf). apply andb_true_iff in H2 as [Hcf H2].
    rewrite Hcf. cbn [andb]. rewrite forallb_forall in H2 |- *. intros x Hx. apply sel_conds_strengthen; [exact (H2 x Hx)|].
    intros t Ht'. apply Hev. apply in_or_app. right. apply in_flat_map. exists f. split; [exact Hf|].
    apply in_flat_map. exists x. split; assumption.
Qed.

(** what [PExecuted] on an accepted document with a selected operation and coerced variables means:
    the dynamic checks passed and the synchronous executor model returned *)
Lemma execute_doc_executed ES d opname raw W o vv data errs :
  ExeA.ArgModel.get_operation (exe_of_syn d) opname = ExeA.ArgModel.GOp o ->
  ExeA.ArgModel.coerce_request_vars ES o raw = Val.Values.Ok vv ->
  execute_doc ES d opname raw W = PExecuted data errs ->
  let D := ExeA.ArgData.doc_of (exe_of_syn d) o vv in
  let E := ExeA.ArgArgs.env_of_vars vv in
  ExeA.ArgHyps.doc_positions_okb D = true /\
  ExeA.ArgSpec.doc_ok_nodirs ES D E (ExeA.ArgModel.default_fuel D) (ExeA.ArgModel.default_fuel D) = true /\
  ExeA.ArgModel.run ExeA.ArgModel.fixed ES D E (ExeA.ArgModel.default_fuel D) W = ExeA.ArgModel.Done data errs.
Proof.
  intros Hg Hv. unfold execute_doc. rewrite Hg, Hv. cbv zeta.
  destruct (ExeA.ArgHyps.doc_positions_okb (ExeA.ArgData.doc_of (exe_of_syn d) o vv)); cbn [negb]; [|discriminate].
  destruct (ExeA.ArgSpec.doc_ok_nodirs ES (ExeA.ArgData.doc_of (exe_of_syn d) o vv) (ExeA.ArgArgs.env_of_vars vv)
              (ExeA.ArgModel.default_fuel (ExeA.ArgData.doc_of (exe_of_syn d) o vv))
              (ExeA.ArgModel.default_fuel (ExeA.ArgData.doc_of (exe_of_syn d) o vv))); cbn [negb]; [|discriminate].
  destruct (ExeA.ArgModel.run ExeA.ArgModel.fixed ES (ExeA.ArgData.doc_of (exe_of_syn d) o vv) (ExeA.ArgArgs.env_of_vars vv)
              (ExeA.ArgModel.default_fuel (ExeA.ArgData.doc_of (exe_of_syn d) o vv)) W) as [d0 e0| |]; cbn [of_run]; try discriminate.
  intro H. inversion H; subst. auto.
Qed.

Theorem async_pipeline_total pi VS F ES bs opname raw W d o vv data errs
        (code : ExeA.ArgData.json -> Z) md root sigma fuelr jfuel :
  schema_accepted ES = true ->
  parse_and_validate_order pi VS F bs = FAccepted d ->
  ExeA.ArgModel.get_operation (exe_of_syn d) opname = ExeA.ArgModel.GOp o ->
  ExeA.ArgModel.coerce_request_vars ES o raw = Val.Values.Ok vv ->
  pipeline_order pi VS F ES bs opname raw W = PExecuted data errs ->
  let D := ExeA.ArgData.doc_of (exe_of_syn d) o vv in
  let E := ExeA.ArgArgs.env_of_vars vv in
  ExeA.ArgHyps.dirs_evaluable D E = true ->
  Fut.FutSpec.same_outcomes root (Fut.BridgeC01.plan_of code ES D E (ExeA.ArgModel.default_fuel D) W) ->
  Fut.AsyncRun.fair sigma -> (Fut.Plan.count_async root <= fuelr)%nat -> (Fut.FutProofs.resp_depth root < jfuel)%nat ->
  exists r, Fut.ExecAsync.run Fut.ExecAsync.fixed_flags sigma md fuelr jfuel root = Fut.ExecAsync.Done r /\
            Fut.ExecAsync.r_data r = Fut.BridgeC01.tr_data code data /\
            Fut.FutSpec.conforms root (Fut.ExecAsync.r_data r) (Fut.ExecAsync.r_errors r).
Proof.
  intros Hs Hacc Hg Hv Hp D E Hev Hsame Hfair Hf Hj.
  unfold pipeline_order in Hp. rewrite Hacc in Hp.
  destruct (execute_doc_executed ES d opname raw W o vv data errs Hg Hv Hp) as (Hpos & Hdoc & Hrun).
  apply andb_true_iff in Hs as [Hn _].
  destruct (Fut.BridgeCompose.schedule_yields_reference_response code ES D E _ _ W data errs md root sigma fuelr jfuel
              Hn Hpos (doc_ok_of_nodirs _ _ _ _ _ Hdoc Hev) Hrun Hsame Hfair Hf Hj) as (r & Hr & Hd & _ & Hc).
  exists r. auto.
Qed.
