(** * Pipe/AsyncProofs.v — C03: asynchronous resolvers inside the composition.
    Whenever the composed model executes a request (outcome [PExecuted d errs] on the checked
    branch), then for EVERY choice of resolvers answering through promises and EVERY fair idle
    handler the asynchronous executor model of C02 (Fut/ExecAsync.v: executor.go + future.go)
    finishes — never stuck, within the stated rounds — with the same data, and its response
    conforms to the plan (an error for every visible failure-null).  From
    C02_every_schedule_yields_ExecuteRequest_response through the composition: the hypotheses of
    that theorem are the dynamic contract checks of the composed model. *)
From Coq Require Import List NArith ZArith Bool Lia.
From ApiFu Require Import Base.Sexp.
From ApiFu Require Syn.Ast Vld.Ast Vld.ValidatorModel Vld.ProofsCommon.
From ApiFu Require Val.Values ExeA.ArgData ExeA.ArgArgs ExeA.ArgModel ExeA.ArgSpec ExeA.ArgHyps.
From ApiFu Require Fut.Plan Fut.Future Fut.ExecAsync Fut.AsyncRun Fut.FutSpec Fut.FutProofs Fut.BridgeC01 Fut.BridgeCompose.
From ApiFu Require Import Pipe.Convert Pipe.Compose Pipe.ComposeProofs.
Import ListNotations.

(** what [PExecuted] on an accepted document with a selected operation and coerced variables means:
    the three dynamic checks passed and the synchronous executor model returned *)
Lemma execute_doc_executed ES d opname raw W o vv data errs :
  ExeA.ArgModel.get_operation (exe_of_syn d) opname = ExeA.ArgModel.GOp o ->
  ExeA.ArgModel.coerce_request_vars ES o raw = Val.Values.Ok vv ->
  execute_doc ES d opname raw W = PExecuted data errs ->
  let D := ExeA.ArgData.doc_of (exe_of_syn d) o vv in
  let E := ExeA.ArgArgs.env_of_vars vv in
  ExeA.ArgHyps.doc_positions_okb D = true /\
  ExeA.ArgSpec.doc_ok ES D E (ExeA.ArgModel.default_fuel D) (ExeA.ArgModel.default_fuel D) = true /\
  ExeA.ArgModel.run ExeA.ArgModel.fixed ES D E (ExeA.ArgModel.default_fuel D) W = ExeA.ArgModel.Done data errs.
Proof.
  intros Hg Hv. unfold execute_doc. rewrite Hg, Hv. cbv zeta.
  destruct (ExeA.ArgHyps.doc_positions_okb (ExeA.ArgData.doc_of (exe_of_syn d) o vv)); cbn [negb]; [|discriminate].
  destruct (ExeA.ArgHyps.dirs_evaluable (ExeA.ArgData.doc_of (exe_of_syn d) o vv) (ExeA.ArgArgs.env_of_vars vv)); cbn [negb]; [|discriminate].
  destruct (ExeA.ArgSpec.doc_ok ES (ExeA.ArgData.doc_of (exe_of_syn d) o vv) (ExeA.ArgArgs.env_of_vars vv)
              (ExeA.ArgModel.default_fuel (ExeA.ArgData.doc_of (exe_of_syn d) o vv))
              (ExeA.ArgModel.default_fuel (ExeA.ArgData.doc_of (exe_of_syn d) o vv))); cbn [negb]; [|discriminate].
  destruct (ExeA.ArgModel.run ExeA.ArgModel.fixed ES (ExeA.ArgData.doc_of (exe_of_syn d) o vv) (ExeA.ArgArgs.env_of_vars vv)
              (ExeA.ArgModel.default_fuel (ExeA.ArgData.doc_of (exe_of_syn d) o vv)) W) as [d0 e0| |]; cbn [of_run]; try discriminate.
  intro H. inversion H; subst. auto.
Qed.

Theorem async_pipeline_total pi VS F ES bs opname raw W d o vv data errs
        (code : ExeA.ArgData.json -> Z) md root sigma fuelr jfuel :
  schema_accepted ES = true ->
  parse_and_validate_order pi VS F bs = FAccepted d ->
  ExeA.ArgModel.get_operation (exe_of_syn d) opname = ExeA.ArgModel.GOp o ->
  ExeA.ArgModel.coerce_request_vars ES o raw = Val.Values.Ok vv ->
  pipeline_order pi VS F ES bs opname raw W = PExecuted data errs ->
  let D := ExeA.ArgData.doc_of (exe_of_syn d) o vv in
  let E := ExeA.ArgArgs.env_of_vars vv in
  Fut.FutSpec.same_outcomes root (Fut.BridgeC01.plan_of code ES D E (ExeA.ArgModel.default_fuel D) W) ->
  Fut.AsyncRun.fair sigma -> (Fut.Plan.count_async root <= fuelr)%nat -> (Fut.FutProofs.resp_depth root < jfuel)%nat ->
  exists r, Fut.ExecAsync.run Fut.ExecAsync.fixed_flags sigma md fuelr jfuel root = Fut.ExecAsync.Done r /\
            Fut.ExecAsync.r_data r = Fut.BridgeC01.tr_data code data /\
            Fut.FutSpec.conforms root (Fut.ExecAsync.r_data r) (Fut.ExecAsync.r_errors r).
Proof.
  intros Hs Hacc Hg Hv Hp D E Hsame Hfair Hf Hj.
  unfold pipeline_order in Hp. rewrite Hacc in Hp.
  destruct (execute_doc_executed ES d opname raw W o vv data errs Hg Hv Hp) as (Hpos & Hdoc & Hrun).
  apply andb_true_iff in Hs as [Hn _].
  destruct (Fut.BridgeCompose.schedule_yields_reference_response code ES D E _ _ W data errs md root sigma fuelr jfuel
              Hn Hpos Hdoc Hrun Hsame Hfair Hf Hj) as (r & Hr & Hd & _ & Hc).
  exists r. auto.
Qed.
