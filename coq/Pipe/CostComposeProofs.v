(** * Pipe/CostComposeProofs.v — C03: ParseAndValidate WITH the cost rule, from bytes, never crashes:
    no stage of [CostCompose.parse_validate_cost] panics or runs out of fuel, for every byte
    string, operation name, raw variable values, default cost, limit, map order and schema whose
    input types and argument types are closed (schema.New).
    Chains C03_front_never_panics, C05's no-panic theorems for variable and argument coercion,
    C14_request_never_out_of_fuel and the stack invariant of Pipe/CostNoPanic.v. *)
From Coq Require Import List NArith ZArith Bool Lia.
From ApiFu Require Import Base.Sexp.
From ApiFu Require Syn.Ast Vld.Ast Vld.TypeInfoPure Vld.ValidatorModel Vld.ProofsCommon.
From ApiFu Require Val.Values Val.CoerceModel Val.CoerceSpec Val.CoerceTotal.
From ApiFu Require Cost.CostModel Cost.CostProofs Cost.CostArgs Cost.CostArgsProofs.
From ApiFu Require ExeA.ArgData ExeA.ArgArgs.
From ApiFu Require Import Pipe.Convert Pipe.Compose Pipe.ComposeProofs Pipe.CondsProofs Pipe.CostCompose Pipe.CostNoPanic.
Import ListNotations.

(** ** compiled requests are calm *)
Section Compile.
  Variable C : Type.
  Variable E : Val.Values.env.
  Variable dt : bytes -> option bytes.
  Hypothesis HC : Val.CoerceSpec.env_closed E = true.

  Definition afield_ok (f : Cost.CostArgs.afield C) : Prop :=
    (forall ad, In ad (Cost.CostArgs.af_argdefs f) -> Val.CoerceSpec.sty_closed E (Val.Values.in_type (snd ad)) = true) /\
    match Cost.CostArgs.af_cost f with Some g => forall ctx m, g ctx m <> None | None => True end.
  Definition akind_ok (k : Cost.CostArgs.akind C) : Prop :=
    match k with Cost.CostArgs.AField f => afield_ok f | _ => True end.
  Inductive anode_ok : Cost.CostArgs.anode C -> Prop :=
  | anode_ok_node k kids : akind_ok k -> Forall anode_ok kids -> anode_ok (Cost.CostArgs.ANode k kids).

  Section AnodeInd.
    Variable P : Cost.CostArgs.anode C -> Prop.
    Hypothesis HNode : forall k kids, Forall P kids -> P (Cost.CostArgs.ANode k kids).
    Fixpoint anode_ind' (n : Cost.CostArgs.anode C) : P n :=
      match n with
      | Cost.CostArgs.ANode k kids =>
          HNode k kids
            ((fix go (l : list (Cost.CostArgs.anode C)) : Forall P l :=
                match l with
                | [] => Forall_nil P
                | x :: rest => Forall_cons x (anode_ind' x) (go rest)
                end) kids)
      end.
  End AnodeInd.

  Lemma compile_calm vv : forall n, anode_ok n -> calm C (Cost.CostArgs.compile C E dt vv n).
  Proof.
    intro n. induction n as [k kids IH] using anode_ind'. intro H.
    inversion H as [k' kids' Hk Hkids]; subst k' kids'. cbn [Cost.CostArgs.compile]. constructor.
    - destruct k as [f| | |]; cbn [kind_calm]; try exact I.
      unfold Cost.CostArgs.compile_field.
      destruct (Val.CoerceModel.coerce_argument_values Val.CoerceModel.all_fixed E dt
                  (Cost.CostArgs.af_argdefs f) (Cost.CostArgs.af_args f) vv) as [m| |] eqn:Ec.
      + destruct Hk as [_ Hg]. destruct (Cost.CostArgs.af_cost f) as [g|]; cbn [kind_calm]; [intro ctx; apply Hg|exact I].
      + exact I.
      + exfalso. destruct Hk as [Hcl _].
        exact (Val.CoerceTotal.argument_values_no_panic E dt HC _ _ _ vv Hcl Ec).
    - clear Hk H. induction IH as [|x l Hx Hl IHl]; [constructor|].
      inversion Hkids as [|x' l' Hox Hol]; subst x' l'. cbn [map]. constructor; [apply Hx; exact Hox|apply IHl; exact Hol].
  Qed.
End Compile.

(** ** the request built from the annotated document is fine when the argument types are closed *)
Lemma argdefs_of_closed ES T n ad :
  argdefs_closed ES = true -> In ad (ExeA.ArgArgs.argdefs_of ES T n) ->
  Val.CoerceSpec.sty_closed (ExeA.ArgData.s_inputs ES) (Val.Values.in_type (snd ad)) = true.
Proof.
  intros Hc Hin. unfold ExeA.ArgArgs.argdefs_of in Hin.
  destruct (ExeA.ArgData.assoc T (ExeA.ArgData.s_argdefs ES)) as [fs|] eqn:E1; [|destruct Hin].
  destruct (ExeA.ArgData.assoc n fs) as [ds|] eqn:E2; [|destruct Hin].
  apply exe_assoc_in in E1. apply exe_assoc_in in E2.
  unfold argdefs_closed in Hc. rewrite forallb_forall in Hc. specialize (Hc _ E1). cbn [snd] in Hc.
  rewrite forallb_forall in Hc. specialize (Hc _ E2). cbn [snd] in Hc.
  rewrite forallb_forall in Hc. exact (Hc _ Hin).
Qed.

Section RequestOk.
  Variable ES : ExeA.ArgData.schema.
  Hypothesis Hcl : argdefs_closed ES = true.
  Let E := ExeA.ArgData.s_inputs ES.

  Fixpoint c_sel_ok (parent : option Vld.Ast.name) (s : Vld.Ast.selection) : anode_ok unit E (c_sel ES parent s)
  with c_ss_ok (ss : Vld.Ast.selset) : anode_ok unit E (c_ss ES ss).
  Proof.
    - destruct s as [a alias n npos args dirs sub|n npos dirs ell|cond dirs sub ell]; cbn [c_sel].
      + constructor.
        * destruct a as [def|]; cbn [akind_ok]; [|exact I]. split.
          -- cbn [Cost.CostArgs.af_argdefs]. destruct parent as [T|]; [|intros ad []].
             intros ad Hin. exact (argdefs_of_closed ES T n ad Hcl Hin).
          -- cbn [Cost.CostArgs.af_cost]. unfold cost_function.
             destruct (introspection_field parent n); [intros ctx m; unfold zero_cost; discriminate|].
             destruct (list_field ES parent n); [intros ctx m; unfold list_cost; discriminate|exact I].
        * destruct sub as [ss|]; [|constructor]. constructor; [apply c_ss_ok|constructor].
      + constructor; [exact I|constructor].
      + constructor; [exact I|]. constructor; [apply c_ss_ok|constructor].
    - destruct ss as [a sels p]. cbn [c_ss]. constructor; [exact I|].
      induction sels as [|x r IH]; [constructor|]. cbn [map]. constructor; [apply c_sel_ok|exact IH].
  Qed.

  Lemma c_ops_ok A : Forall (fun o => anode_ok unit E (Cost.CostArgs.ao_body o)) (c_ops ES A).
  Proof.
    unfold c_ops. induction A as [|d A IH]; [constructor|]. cbn [flat_map].
    destruct d as [ot nm vars dirs sub|kw n npos cond dirs sub]; cbn [app]; [|exact IH].
    constructor; [|exact IH]. cbn [Cost.CostArgs.ao_body]. constructor; [exact I|]. constructor; [apply c_ss_ok|constructor].
  Qed.

  Lemma c_frs_ok A : Forall (fun p => anode_ok unit E (snd p)) (c_frs ES A).
  Proof.
    unfold c_frs. induction A as [|d A IH]; [constructor|]. cbn [flat_map].
    destruct d as [ot nm vars dirs sub|kw n npos cond dirs sub]; cbn [app]; [exact IH|].
    constructor; [|exact IH]. cbn [snd]. constructor; [exact I|]. constructor; [apply c_ss_ok|constructor].
  Qed.
End RequestOk.

Lemma Forall_map_impl {X Y} (f : X -> Y) (P : X -> Prop) (Q : Y -> Prop) l :
  (forall x, P x -> Q (f x)) -> Forall P l -> Forall Q (map f l).
Proof. intros H HP. induction HP as [|x r Hx Hr IH]; [constructor|]. cbn [map]. constructor; [apply H; exact Hx|exact IH]. Qed.

(** ** the cost rule on a request never panics and never runs out of its fuel *)
Theorem cost_of_document_settled VS F ES d opname raw r max :
  cost_schema_accepted ES = true ->
  match cost_of_document VS F ES d opname raw r max with
  | Cost.CostModel.RPanic | Cost.CostModel.ROutOfFuel => False
  | _ => True
  end.
Proof.
  intro Hs. apply andb_true_iff in Hs as [HC Hcl].
  unfold cost_of_document.
  set (A := Vld.TypeInfoPure.pti_doc (Vld.ValidatorModel.q_unwrap_obj Vld.ValidatorModel.repaired) VS F (vld_of_syn d)).
  set (E := ExeA.ArgData.s_inputs ES). set (dt := ExeA.ArgArgs.dt_oracle ES).
  pose proof (Cost.CostArgsProofs.request_never_out_of_fuel unit E dt true (S (length (c_frs ES A))) (default_cost r) tt
                (c_ops ES A) (c_frs ES A) opname raw max (Nat.lt_succ_diag_r _)) as Hfuel.
  assert (Hpanic : Cost.CostArgs.validate_cost_request unit E dt true (S (length (c_frs ES A))) (default_cost r) tt
                     (c_ops ES A) (c_frs ES A) opname raw max <> Cost.CostModel.RPanic).
  { unfold Cost.CostArgs.validate_cost_request.
    assert (Hcalm : forall vv,
               Forall (calm unit) (map snd (map (fun o => (Cost.CostArgs.ao_name o, Cost.CostArgs.compile unit E dt vv (Cost.CostArgs.ao_body o))) (c_ops ES A))) /\
               Forall (calm unit) (map snd (map (fun p => (fst p, Cost.CostArgs.compile unit E dt vv (snd p))) (c_frs ES A)))).
    { intro vv. split.
      - rewrite map_map. cbn [snd].
        apply (Forall_map_impl _ (fun o => anode_ok unit E (Cost.CostArgs.ao_body o))); [|exact (c_ops_ok ES Hcl A)].
        intros o Ho. apply compile_calm; assumption.
      - rewrite map_map. cbn [snd].
        apply (Forall_map_impl _ (fun p => anode_ok unit E (snd p))); [|exact (c_frs_ok ES Hcl A)].
        intros o Ho. apply compile_calm; assumption. }
    destruct (Cost.CostArgs.request_variables unit E dt (c_ops ES A) opname raw) as [vv| |] eqn:Ev.
    - destruct (Hcalm vv) as [H1 H2]. apply validate_cost_no_panic; assumption.
    - destruct (Hcalm []) as [H1 H2]. apply validate_cost_no_panic; assumption.
    - exfalso. unfold Cost.CostArgs.request_variables in Ev.
      destruct (Cost.CostArgs.chosen_vardefs unit (c_ops ES A) opname) as [defs|]; [|discriminate].
      exact (Val.CoerceTotal.variable_values_no_panic E dt HC _ _ _ Ev). }
  destruct (Cost.CostArgs.validate_cost_request unit E dt true (S (length (c_frs ES A))) (default_cost r) tt
              (c_ops ES A) (c_frs ES A) opname raw max); try exact I; contradiction.
Qed.

Theorem parse_validate_cost_never_crashes pi VS F ES bs opname raw r max :
  Vld.ProofsCommon.order_ok pi -> cost_schema_accepted ES = true ->
  parse_validate_cost pi VS F ES bs opname raw r max <> CCrashed.
Proof.
  intros Hpi Hs. unfold parse_validate_cost.
  pose proof (front_never_panics pi Hpi VS F bs) as Hf.
  destruct (parse_and_validate_order pi VS F bs) as [e es|e es|d|s|s]; try discriminate; try contradiction.
  pose proof (cost_of_document_settled VS F ES d opname raw r max Hs) as Hc.
  destruct (cost_of_document VS F ES d opname raw r max) as [actual [|]|errs| |]; try discriminate; contradiction.
Qed.
