(** * Pipe/SetPositions.v — C03: the other positional hypothesis of C04's theorems about
    addFieldSelections ([doc_set_positions_distinct]: the selection sets of the document open at
    pairwise distinct positions — the validator identifies a selection set by where it opens),
    discharged for parsed texts: the opening braces are tokens of the text the tree records
    (C06's [recorded_layout]), and distinct tokens start at distinct positions
    (C07's scanner facts, [front_end_total]). *)
From Coq Require Import List NArith Bool.
From ApiFu Require Import Base.Sexp.
From ApiFu Require Syn.Ast Syn.Printer Syn.ParserBase Syn.ParserModel Syn.ParserProofs Syn.FrontEnd Syn.FrontEndSpec Syn.FrontEndProofs.
From ApiFu Require Vld.Ast Vld.ProofsTotal Vld.ProofsSubscription.
From ApiFu Require Import Pipe.Convert Pipe.FieldPositions.
Import ListNotations.

(** where the selection sets of a parsed selection open, in document order *)
Fixpoint setpos_sel (s : Syn.Ast.selection) : list Syn.Ast.pos :=
  match s with
  | Syn.Ast.SField _ _ _ _ (Some ss) => setpos_ss ss
  | Syn.Ast.SField _ _ _ _ None => []
  | Syn.Ast.SSpread _ _ _ => []
  | Syn.Ast.SInline _ _ ss _ => setpos_ss ss
  end
with setpos_ss (ss : Syn.Ast.selset) : list Syn.Ast.pos :=
  match ss with
  | Syn.Ast.SelSet sels o _ =>
      o :: (fix go (l : list Syn.Ast.selection) : list Syn.Ast.pos :=
              match l with [] => [] | x :: r => setpos_sel x ++ go r end) sels
  end.

Lemma setpos_ss_eq sels o c : setpos_ss (Syn.Ast.SelSet sels o c) = o :: flat_map setpos_sel sels.
Proof. reflexivity. Qed.

Lemma setpos_subseq :
  (forall x, Syn.ParserProofs.subseq (setpos_sel x) (Syn.ParserProofs.recorded (Syn.Printer.tokens_selection x))) /\
  (forall ss, Syn.ParserProofs.subseq (setpos_ss ss) (Syn.ParserProofs.recorded (Syn.Printer.tokens_selset ss))).
Proof.
  apply Syn.ParserBase.selection_ind'.
  - intros alias n args dirs. cbn [setpos_sel]. apply Syn.ParserProofs.subseq_nil_l.
  - intros alias n args dirs ss IH. cbn [setpos_sel Syn.Printer.tokens_selection].
    rewrite !Syn.ParserProofs.recorded_app. apply Syn.ParserProofs.subseq_skip_l.
    change (Syn.Printer.e_ident n :: Syn.Printer.tokens_arguments args ++ Syn.Printer.tokens_directives dirs ++ Syn.Printer.tokens_selset ss)
      with ([Syn.Printer.e_ident n] ++ Syn.Printer.tokens_arguments args ++ Syn.Printer.tokens_directives dirs ++ Syn.Printer.tokens_selset ss).
    rewrite !Syn.ParserProofs.recorded_app. repeat apply Syn.ParserProofs.subseq_skip_l. exact IH.
  - intros n dirs e. cbn [setpos_sel]. apply Syn.ParserProofs.subseq_nil_l.
  - intros cond dirs ss e IH. cbn [setpos_sel Syn.Printer.tokens_selection].
    change (Syn.Printer.e_punct Syn.Ast.b_ellipsis e :: Syn.Printer.tokens_opt_type_condition cond ++ Syn.Printer.tokens_directives dirs ++ Syn.Printer.tokens_selset ss)
      with ([Syn.Printer.e_punct Syn.Ast.b_ellipsis e] ++ Syn.Printer.tokens_opt_type_condition cond ++ Syn.Printer.tokens_directives dirs ++ Syn.Printer.tokens_selset ss).
    rewrite !Syn.ParserProofs.recorded_app. repeat apply Syn.ParserProofs.subseq_skip_l. exact IH.
  - intros sels o c IH. rewrite setpos_ss_eq, Syn.ParserBase.tokens_selset_eq.
    change (Syn.ParserProofs.recorded (Syn.Printer.e_punct Syn.Ast.b_lbrace o :: ?r))
      with (o :: Syn.ParserProofs.recorded (flat_map Syn.Printer.tokens_selection sels ++ [Syn.Printer.e_punct Syn.Ast.b_rbrace c])).
    apply Syn.ParserProofs.sub_keep. rewrite Syn.ParserProofs.recorded_app.
    rewrite <- (app_nil_r (flat_map setpos_sel sels)). apply Syn.ParserProofs.subseq_app; [|apply Syn.ParserProofs.subseq_nil_l].
    induction IH as [|x l Hx _ IHl]; cbn [flat_map]; [constructor|].
    rewrite Syn.ParserProofs.recorded_app. apply Syn.ParserProofs.subseq_app; assumption.
Qed.

Definition setpos_def (x : Syn.Ast.definition) : list Syn.Ast.pos :=
  match x with
  | Syn.Ast.DOp _ _ _ _ sub => setpos_ss sub
  | Syn.Ast.DFrag _ _ _ _ sub => setpos_ss sub
  end.

Lemma setpos_definition_subseq x :
  Syn.ParserProofs.subseq (setpos_def x) (Syn.ParserProofs.recorded (Syn.Printer.tokens_definition x)).
Proof.
  destruct setpos_subseq as [_ Hss].
  destruct x as [ot n vars dirs sub|kw n cond dirs sub]; cbn [setpos_def Syn.Printer.tokens_definition].
  - rewrite !Syn.ParserProofs.recorded_app. repeat apply Syn.ParserProofs.subseq_skip_l. apply Hss.
  - change (Syn.Printer.e_name Syn.Ast.b_fragment kw :: Syn.Printer.e_ident n :: Syn.Printer.tokens_type_condition cond ++ Syn.Printer.tokens_directives dirs ++ Syn.Printer.tokens_selset sub)
      with ([Syn.Printer.e_name Syn.Ast.b_fragment kw; Syn.Printer.e_ident n] ++ Syn.Printer.tokens_type_condition cond ++ Syn.Printer.tokens_directives dirs ++ Syn.Printer.tokens_selset sub).
    rewrite !Syn.ParserProofs.recorded_app. repeat apply Syn.ParserProofs.subseq_skip_l. apply Hss.
Qed.

Lemma setpos_document_subseq d :
  Syn.ParserProofs.subseq (flat_map setpos_def d) (Syn.ParserProofs.recorded (Syn.Printer.tokens_document d)).
Proof.
  unfold Syn.Printer.tokens_document. induction d as [|x d IH]; cbn [flat_map]; [constructor|].
  rewrite Syn.ParserProofs.recorded_app. apply Syn.ParserProofs.subseq_app; [apply setpos_definition_subseq|exact IH].
Qed.

(** the validator's list of selection sets, in the same order *)
Fixpoint subs_pos_sel (s : Syn.Ast.selection) :
  map Vld.Ast.ss_pos (Vld.ProofsTotal.subs_sel (v_sel s)) = map vpos (setpos_sel s)
with subs_pos_ss (ss : Syn.Ast.selset) :
  map Vld.Ast.ss_pos (Vld.ProofsTotal.subs_ss (v_ss ss)) = map vpos (setpos_ss ss).
Proof.
  - destruct s as [alias n args dirs [sub|]|n dirs e|cond dirs sub e]; cbn [v_sel Vld.ProofsTotal.subs_sel setpos_sel map].
    + apply subs_pos_ss.
    + reflexivity.
    + reflexivity.
    + apply subs_pos_ss.
  - destruct ss as [sels o c]. cbn [v_ss]. rewrite Vld.ProofsTotal.subs_ss_eq, setpos_ss_eq. cbn [map Vld.Ast.ss_pos]. f_equal.
    induction sels as [|x r IH]; [reflexivity|]. cbn [map flat_map]. rewrite !map_app, IH. f_equal. apply subs_pos_sel.
Qed.

Lemma all_subs_pos d : map Vld.Ast.ss_pos (Vld.ProofsTotal.all_subs (vld_of_syn d)) = map vpos (flat_map setpos_def d).
Proof.
  unfold Vld.ProofsTotal.all_subs, vld_of_syn. induction d as [|x d IH]; [reflexivity|].
  cbn [map flat_map]. rewrite !map_app, IH. f_equal.
  destruct x as [ot n vars dirs sub|kw n cond dirs sub]; cbn [v_def Vld.Ast.def_sub setpos_def]; apply subs_pos_ss.
Qed.

Theorem parsed_set_positions_distinct bs d es :
  Syn.FrontEnd.parse_document_bytes bs = Syn.ParserModel.Out (Some d) es ->
  Vld.ProofsSubscription.doc_set_positions_distinct (vld_of_syn d).
Proof.
  unfold Syn.FrontEnd.parse_document_bytes. destruct (Syn.FrontEndProofs.front_end_total bs) as (r & Hr & Ff). rewrite Hr. intro H.
  unfold Vld.ProofsSubscription.doc_set_positions_distinct. rewrite all_subs_pos. apply NoDup_map_vpos.
  destruct (Syn.ParserProofs.parse_document_tree _ _ _ _ _ H) as (L & _).
  apply Syn.ParserProofs.recorded_layout in L.
  pose proof (Syn.FrontEndSpec.ff_nodup _ _ Ff) as Hn. unfold Syn.ParserProofs.token_positions in Hn. rewrite <- map_map in Hn.
  eapply Syn.ParserProofs.subseq_NoDup; [|exact Hn]. eapply Syn.ParserProofs.subseq_trans; [apply setpos_document_subseq|exact L].
Qed.
