(** * ExeA/ArgShapeProofs.v — every error the execution algorithm raises belongs to a field
    instance of the execution: its path is the response path of that field (continued by list
    indices for errors inside a list value), its locations are the position of the first field
    node that selected the field, or of all of them when the resolver failed (C01, exec_error_shape). *)
From Coq Require Import List NArith ZArith Bool Lia.
From ApiFu Require Import Base.Sexp ExeA.ArgData ExeA.ArgArgs ExeA.ArgSpec ExeA.ArgBaseProofs ExeA.ArgSpecProofs.
Import ListNotations.

Lemma errs_all_in xs mk e : In e (errs_of (s_all xs mk)) -> exists x, In x xs /\ In e (errs_of x).
Proof.
  unfold s_all, errs_of. destruct (vals_of xs); cbn [so_caught so_thrown]; intro H.
  - rewrite app_nil_r in H. apply in_flat_map in H as [x [Hx H]]. exists x. split; [exact Hx|apply in_or_app; left; exact H].
  - apply in_app_or in H as [H|H]; apply in_flat_map in H as [x [Hx H]]; exists x; (split; [exact Hx|]);
      apply in_or_app; [left|right]; exact H.
Qed.

Lemma errs_position_in t p x e : In e (errs_of (s_position t p x)) -> In e (errs_of x).
Proof.
  destruct t; cbn [s_position]; try (intro H; exact H); unfold s_catch; destruct (so_val x); try (intro H; exact H);
    unfold errs_of; cbn [so_caught so_thrown]; rewrite app_nil_r; intro H; exact H.
Qed.

Section ShapeProofs.
  Variables (S : schema) (D : document) (E : env) (fuel : nat).

  Definition own_first (path : rpath) (fields : list fnode) (e : gerror) : Prop :=
    exists idxs, e_path e = path ++ map PIdx idxs /\ e_locs e = first_loc fields.

  Definition below (o : outcome) (ty : sty) (fields : list fnode) (path : rpath) (e : gerror) : Prop :=
    exists idxs o' ot' p fields',
      reaches o idxs o' /\ s_object_type S (sty_base ty) o' = Some ot' /\
      field_instance S D E fuel ot' o' (s_merge_selection_sets fields) (path ++ map PIdx idxs) p fields' /\
      error_shaped e p fields'.

  (** CompleteValue on the value [o] *)
  Definition shaped_completer (s : scompleter) (o : outcome) : Prop :=
    forall ty fields path e, In e (errs_of (s ty fields path)) ->
                             own_first path fields e \/ below o ty fields path e.

  (** ExecuteField whose resolver outcome is [oo] *)
  Definition shaped_field (s : scompleter) (oo : option outcome) : Prop :=
    forall ty fields path e, In e (errs_of (s ty fields path)) ->
      (e_path e = path /\ e_locs e = map fn_pos fields) \/
      match oo with
      | Some o' => own_first path fields e \/ below o' ty fields path e
      | None => False
      end.

  Lemma own_first_shaped path fields e : own_first path fields e -> error_shaped e path fields.
  Proof. intros [idxs [H1 H2]]. exists idxs. split; [exact H1|left; exact H2]. Qed.

  Lemma selection_set_shaped children o ot sels path e :
    (forall n, shaped_field (children n) (outcome_field o n)) ->
    In e (errs_of (s_selection_set S D E fuel children ot sels path)) ->
    exists p fields', field_instance S D E fuel ot o sels path p fields' /\ error_shaped e p fields'.
  Proof.
    intros Hch He. unfold s_selection_set, s_selection_set_raw in He.
    destruct (s_collect S D E fuel ot sels) as [groups|] eqn:Ec; [|destruct He].
    cbv zeta in He. apply errs_all_in in He as [x [Hx He]].
    apply in_map_iff in Hx as [[k x'] [Hk Hx]]. cbn [snd] in Hk. subst x'.
    apply in_flat_map in Hx as [[key fields] [Hg Hx]].
    unfold s_entry in Hx. cbn [fst snd] in Hx. destruct fields as [|f more]; [destruct Hx|].
    destruct (s_field_kind S ot (fn_name f)) as [| |t|] eqn:Ek; cbn in Hx; try (destruct Hx; fail).
    - destruct Hx as [Hx|[]]. inversion Hx; subst. destruct He.
    - destruct Hx as [Hx|[]]. inversion Hx; subst. destruct He.
    - destruct Hx as [Hx|[]]. inversion Hx; subst k x. clear Hx.
      apply errs_position_in in He.
      assert (Hargerr : In e (errs_of (s_throw (field_error (path ++ [PKey key]) (f :: more)))) ->
                        exists p fields', field_instance S D E fuel ot o sels path p fields' /\ error_shaped e p fields').
      { intros [<-|[]]. exists (path ++ [PKey key]), (f :: more). split; [eapply fi_here; eassumption|].
        exists []. cbn [map]. rewrite app_nil_r. split; [reflexivity|left; reflexivity]. }
      unfold s_with_args in He.
      destruct (coerce_field_args S D ot f) as [A| |] eqn:Eco; [|apply Hargerr; exact He|apply Hargerr; exact He].
      clear Hargerr.
      assert (Ekey : resolver_key S D ot f = field_key (fn_name f) A) by (unfold resolver_key; rewrite Eco; reflexivity).
      destruct (Hch (field_key (fn_name f) A) t (f :: more) (path ++ [PKey key]) e He) as [[Hp Hl]|Hrest].
      + exists (path ++ [PKey key]), (f :: more). split; [eapply fi_here; eassumption|].
        exists []. cbn [map]. rewrite app_nil_r. split; [exact Hp|right; split; [reflexivity|exact Hl]].
      + rewrite <- Ekey in Hrest. destruct (outcome_field o (resolver_key S D ot f)) as [o1|] eqn:Eo; [|destruct Hrest].
        destruct Hrest as [Hown|[idxs [o' [ot' [p [fields' [Hr [Ht [Hfi Hsh]]]]]]]]].
        * exists (path ++ [PKey key]), (f :: more). split; [eapply fi_here; eassumption|].
          apply own_first_shaped. exact Hown.
        * exists p, fields'. split; [|exact Hsh].
          eapply fi_below; try eassumption. rewrite <- app_assoc in Hfi. exact Hfi.
  Qed.

  Lemma items_shaped t fields path items l :
    Forall2 shaped_completer items l ->
    forall i e, In e (flat_map errs_of (s_items t fields path items i)) ->
      exists k c ok, nth_error l k = Some ok /\ shaped_completer c ok /\
                     In e (errs_of (c t fields (path ++ [PIdx (i + N.of_nat k)]))).
  Proof.
    intro H2. induction H2 as [|c ok items l Hc _ IH]; intros i e He; [destruct He|].
    cbn [s_items flat_map] in He. apply in_app_or in He as [He|He].
    - apply errs_position_in in He. exists 0%nat, c, ok. split; [reflexivity|]. split; [exact Hc|].
      cbn [N.of_nat]. rewrite N.add_0_r. exact He.
    - destruct (IH (i + 1)%N e He) as [k [c' [ok' [H1 [H3 H4]]]]].
      exists (Datatypes.S k), c', ok'. split; [exact H1|]. split; [exact H3|].
      replace (i + N.of_nat (Datatypes.S k))%N with (i + 1 + N.of_nat k)%N by lia. exact H4.
  Qed.

  Lemma shaped_view sv o :
    sv_tag sv = match o with OObj t _ => Some t | _ => None end ->
    match sv_items sv with
    | Some items => exists l, o = OList l /\ Forall2 shaped_completer items l
    | None => True
    end ->
    (forall n, shaped_field (sv_field sv n) (outcome_field o n)) ->
    shaped_completer (s_complete_view S D E fuel sv) o.
  Proof.
    intros Htag Hitems Hch ty. induction ty as [nm|t IH|t IH]; intros fields path e He.
    - (* named *)
      cbn [s_complete_view] in He. destruct (sv_null sv); [destruct He|].
      assert (Hthrow : In e (errs_of (s_throw (field_error path fields))) -> own_first path fields e).
      { intros [<-|[]]. exists []. cbn. rewrite app_nil_r. split; reflexivity. }
      assert (Hobj : forall ot, s_object_type S nm o = Some ot ->
                 In e (errs_of (s_selection_set S D E fuel (sv_field sv) ot (s_merge_selection_sets fields) path)) ->
                 below o (StNamed nm) fields path e).
      { intros ot Hot Hin. destruct (selection_set_shaped _ o ot _ path e Hch Hin) as [p [fields' [Hfi Hsh]]].
        exists [], o, ot, p, fields'. cbn [map sty_base]. rewrite app_nil_r.
        split; [constructor|]. split; [exact Hot|]. split; assumption. }
      unfold s_object_type in Hobj.
      destruct (lookup_type S nm) as [[k|vals|fs ifs|fs|ms|]|] eqn:El; try (left; apply Hthrow; exact He).
      + destruct (coerce_scalar true k (sv_leaf sv)); [destruct He|left; apply Hthrow; exact He].
      + destruct (coerce_enum vals (sv_leaf sv)); [destruct He|left; apply Hthrow; exact He].
      + right. apply (Hobj nm); [reflexivity|exact He].
      + rewrite Htag in He. destruct (s_resolve_abstract S nm (match o with OObj t _ => Some t | _ => None end)) as [ot|] eqn:Er;
          [|left; apply Hthrow; exact He].
        right. apply (Hobj ot); [reflexivity|exact He].
      + rewrite Htag in He. destruct (s_resolve_abstract S nm (match o with OObj t _ => Some t | _ => None end)) as [ot|] eqn:Er;
          [|left; apply Hthrow; exact He].
        right. apply (Hobj ot); [reflexivity|exact He].
    - (* list *)
      cbn [s_complete_view] in He. destruct (sv_null sv); [destruct He|].
      destruct (sv_items sv) as [items|].
      + destruct Hitems as [l [-> H2]].
        apply errs_all_in in He as [x [Hx He]].
        assert (He' : In e (flat_map errs_of (s_items t fields path items 0%N))).
        { apply in_flat_map. exists x. split; assumption. }
        destruct (items_shaped t fields path items l H2 0%N e He') as [k [c [ok [Hk [Hc Hin]]]]].
        cbn [N.add] in Hin.
        destruct (Hc t fields _ e Hin) as [[idxs [Hp Hl]]|[idxs [o' [ot' [p [fields' [Hr [Ht [Hfi Hsh]]]]]]]]].
        * left. exists (N.of_nat k :: idxs). cbn [map]. rewrite Hp, <- app_assoc. split; [reflexivity|exact Hl].
        * right. exists (N.of_nat k :: idxs), o', ot', p, fields'. split; [|split; [exact Ht|split; [|exact Hsh]]].
          -- econstructor; [rewrite Nnat.Nat2N.id; exact Hk|exact Hr].
          -- cbn [map]. rewrite <- app_assoc in Hfi. exact Hfi.
      + left. destruct He as [<-|[]]. exists []. cbn. rewrite app_nil_r. split; reflexivity.
    - (* non-null *)
      cbn [s_complete_view] in He. fold (s_complete_view S D E fuel sv) in He.
      assert (Hsame : In e (errs_of (s_complete_view S D E fuel sv t fields path)) ->
                      own_first path fields e \/ below o (StNonNull t) fields path e).
      { intro H. destruct (IH fields path e H) as [H1|H1]; [left; exact H1|right; exact H1]. }
      destruct (so_val (s_complete_view S D E fuel sv t fields path)) as [[| | | | | | |]|]; try (apply Hsame; exact He).
      unfold errs_of in He. cbn [so_caught so_thrown] in He. apply in_app_or in He as [He|He].
      + apply Hsame. unfold errs_of. apply in_or_app. left. exact He.
      + left. destruct He as [<-|[]]. exists []. cbn. rewrite app_nil_r. split; reflexivity.
  Qed.

  Lemma shaped_field_resolver_error oo : shaped_field s_resolver_error oo.
  Proof. intros ty fields path e [<-|[]]. left. split; reflexivity. Qed.

  Lemma shaped_field_of fs :
    Forall (fun nf => shaped_completer (s_complete S D E fuel (snd nf)) (snd nf)) fs ->
    forall n, shaped_field (s_field_of (map (fun p => (fst p, s_resolve S D E fuel (snd p))) fs) n) (assoc n fs).
  Proof.
    intros H n. unfold s_field_of. induction H as [|[k o'] fs Ho _ IH]; cbn [map assoc fst snd].
    - apply shaped_field_resolver_error.
    - destruct (name_eqb n k); [|exact IH]. cbn [snd] in Ho.
      destruct o' as [| | |g|l|tg ofs]; cbn [s_resolve]; try (intros ty fields path e He; right; apply Ho; exact He).
      apply shaped_field_resolver_error.
  Qed.

  Lemma s_complete_unfold' o :
    s_complete S D E fuel o =
    s_complete_view S D E fuel
      {| sv_null := is_nil o;
         sv_leaf := leaf_of o;
         sv_items := match o with OList l => Some (map (s_complete S D E fuel) l) | _ => None end;
         sv_tag := match o with OObj t _ => Some t | _ => None end;
         sv_field := match o with
                     | OObj _ fs => s_field_of (map (fun p => (fst p, s_resolve S D E fuel (snd p))) fs)
                     | _ => fun _ => s_resolver_error
                     end |}.
  Proof.
    destruct o as [| | |g|l|t fs]; try reflexivity.
    cbn [s_complete]. do 3 f_equal. apply map_ext. intros [n o']. reflexivity.
  Qed.

  Lemma shaped_s_complete o : shaped_completer (s_complete S D E fuel o) o.
  Proof.
    induction o as [| | |g|l IH|t fs IH] using outcome_ind'; rewrite s_complete_unfold'; apply shaped_view;
      cbn [sv_tag sv_items sv_field outcome_field]; try reflexivity; try exact I;
        try (intro n; apply shaped_field_resolver_error).
    - exists l. split; [reflexivity|]. induction IH as [|x l Hx _ IHl]; cbn [map]; constructor; assumption.
    - apply shaped_field_of. exact IH.
  Qed.

  Lemma shaped_children W n : shaped_field (s_children_of S D E fuel W n) (outcome_field W n).
  Proof.
    destruct W as [| | |g|l|t fs]; cbn [s_children_of outcome_field]; try apply shaped_field_resolver_error.
    apply shaped_field_of. rewrite Forall_forall. intros x _. apply shaped_s_complete.
  Qed.

  (** every error of the reference response belongs to a field instance of the execution *)
  Theorem spec_error_shape W rt e :
    s_root_type S (op_kind D) = Some rt ->
    In e (all_errors (exec_spec S D E fuel W)) ->
    exists p fields, field_instance S D E fuel rt W (op_sels D) [] p fields /\ error_shaped e p fields.
  Proof.
    intros Hrt He. unfold exec_spec in He. rewrite Hrt in He.
    apply (selection_set_shaped (s_children_of S D E fuel W) W rt (op_sels D) [] e (shaped_children W)).
    destruct (so_val (s_selection_set S D E fuel (s_children_of S D E fuel W) rt (op_sels D) []));
      cbn [all_errors] in He; unfold errs_of; [apply in_or_app; left; exact He|exact He].
  Qed.
End ShapeProofs.

From ApiFu Require Import ExeA.ArgModel ExeA.ArgHyps ExeA.ArgProofs.

(** the executor's errors *)
Theorem exec_error_shape S D E fuel n W d errs rt e :
  type_names_okb S = true -> doc_positions_okb D = true -> doc_ok S D E fuel n = true ->
  run fixed S D E fuel W = Done d errs ->
  s_root_type S (op_kind D) = Some rt -> In e errs ->
  exists p fields, field_instance S D E fuel rt W (op_sels D) [] p fields /\ error_shaped e p fields.
Proof.
  intros Hn Hp Hd Hr Hrt He. apply (spec_error_shape S D E fuel W rt e Hrt).
  apply (subseq_incl _ _ (exec_errors_subseq S D E fuel Hn Hp n Hd W d errs Hr)). exact He.
Qed.
