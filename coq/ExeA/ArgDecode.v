(** * ExeA/ArgDecode.v — decoding of C01 case lines (s-expressions) into model inputs and of the
    observed response; canonical form of response values.  Executable only. *)
From Coq Require Import List NArith ZArith Bool String.
From ApiFu Require Import Base.Sexp ExeA.ArgData.
From ApiFu Require Val.Values Val.CoerceCheck.
Import ListNotations.
Open Scope string_scope.

Definition dec_pos (s : sexp) : option pos :=
  match s with
  | SL [a; b] => match as_N a, as_N b with
                 | Some l, Some c => Some {| line := l; col := c |}
                 | _, _ => None
                 end
  | _ => None
  end.

Definition dec_dyadic (s : sexp) : option dyadic :=
  match s with
  | SSym t => if String.eqb t "nan" then Some NaN else if String.eqb t "pinf" then Some PInf
              else if String.eqb t "ninf" then Some NInf else None
  | SL [SSym t; SZ m; SZ e] => if String.eqb t "fin" then Some (Fin m e) else None
  | _ => None
  end.

Definition dec_ikind (t : string) : option ikind :=
  if String.eqb t "i8" then Some I8 else if String.eqb t "u8" then Some U8
  else if String.eqb t "i16" then Some I16 else if String.eqb t "u16" then Some U16
  else if String.eqb t "i32" then Some I32 else if String.eqb t "u32" then Some U32
  else if String.eqb t "i64" then Some I64 else if String.eqb t "u64" then Some U64
  else if String.eqb t "int" then Some IInt else if String.eqb t "uint" then Some IUint
  else None.

Definition dec_gval (s : sexp) : option gval :=
  match s with
  | SL [SSym t] => if String.eqb t "other" then Some GOther else None
  | SL [SSym t; x] =>
      if String.eqb t "bool" then option_map GBool (as_bool x)
      else if String.eqb t "f32" then option_map GF32 (dec_dyadic x)
      else if String.eqb t "f64" then option_map GF64 (dec_dyadic x)
      else if String.eqb t "str" then option_map GString (as_bytes x)
      else None
  | SL [SSym t; SSym k; SZ z] =>
      if String.eqb t "int" then option_map (fun k' => GInt k' z) (dec_ikind k) else None
  | SL [SSym t; SSym k; SL [SSym b; neg; SZ hi; SZ lo]] =>
      (* integers of 18 or more digits: +-(hi * 2^32 + lo) *)
      if String.eqb t "int" && String.eqb b "big" then
        match dec_ikind k, as_bool neg with
        | Some k', Some n => let a := (hi * 4294967296 + lo)%Z in Some (GInt k' (if n then Z.opp a else a))
        | _, _ => None
        end
      else None
  | _ => None
  end.

Fixpoint dec_sty (s : sexp) : option sty :=
  match s with
  | SStr b => Some (StNamed b)
  | SL [SSym t; x] =>
      if String.eqb t "list" then option_map StList (dec_sty x)
      else if String.eqb t "nn" then option_map StNonNull (dec_sty x)
      else None
  | _ => None
  end.

Definition dec_kind (t : string) : option scalar_kind :=
  if String.eqb t "int" then Some KInt else if String.eqb t "float" then Some KFloat
  else if String.eqb t "string" then Some KString else if String.eqb t "boolean" then Some KBoolean
  else if String.eqb t "id" then Some KID else None.

Definition dec_named {A} (f : sexp -> option A) (s : sexp) : option (name * A) :=
  match s with
  | SL [SStr n; x] => option_map (fun y => (n, y)) (f x)
  | _ => None
  end.

Definition dec_typedef (s : sexp) : option named_type :=
  match untag s with
  | Some (t, args) =>
      if String.eqb t "scalar" then
        match args with [SSym k] => option_map NScalar (dec_kind k) | _ => None end
      else if String.eqb t "enum" then option_map NEnum (map_opt (dec_named dec_gval) args)
      else if String.eqb t "object" then
        match args with
        | [SL fs; SL ifs] =>
            match map_opt (dec_named dec_sty) fs, map_opt as_bytes ifs with
            | Some a, Some b => Some (NObject a b)
            | _, _ => None
            end
        | _ => None
        end
      else if String.eqb t "interface" then
        match args with
        | [SL fs] => option_map NInterface (map_opt (dec_named dec_sty) fs)
        | _ => None
        end
      else if String.eqb t "union" then option_map NUnion (map_opt as_bytes args)
      else if String.eqb t "input" then Some NInput
      else None
  | None => None
  end.

(** input types and argument definitions in C05's encoding (Val/CoerceCheck.v):
    (inputs ("Name" tdef)...)   (argdefs ("ObjectType" ("field" ("arg" type default)...)...)...) *)
Definition dec_field_argdefs (s : sexp) : option (name * argdefs) :=
  match s with
  | SL (SStr f :: ds) => option_map (fun l => (f, l)) (map_opt CoerceCheck.dec_indef ds)
  | _ => None
  end.
Definition dec_type_argdefs (s : sexp) : option (name * list (name * argdefs)) :=
  match s with
  | SL (SStr ot :: fs) => option_map (fun l => (ot, l)) (map_opt dec_field_argdefs fs)
  | _ => None
  end.

Definition dec_schema (s : sexp) : option schema :=
  match tagged "schema" s with
  | Some [SL ts; SStr q; m; sb] =>
      match map_opt (dec_named dec_typedef) ts, as_option as_bytes m, as_option as_bytes sb with
      | Some tys, Some mu, Some su =>
          Some {| types := tys; query := q; mutation := mu; subscription := su; s_inputs := []; s_dt := []; s_argdefs := [] |}
      | _, _, _ => None
      end
  | Some [SL ts; SStr q; m; sb; ins; ads] =>
      match map_opt (dec_named dec_typedef) ts, as_option as_bytes m, as_option as_bytes sb,
            tagged "inputs" ins, tagged "argdefs" ads with
      | Some tys, Some mu, Some su, Some il, Some al =>
          match map_opt CoerceCheck.dec_env_entry il, map_opt dec_type_argdefs al with
          | Some ie, Some ad =>
              Some {| types := tys; query := q; mutation := mu; subscription := su; s_inputs := ie; s_dt := [];
                      s_argdefs := ad |}
          | _, _ => None
          end
      | _, _, _, _, _ => None
      end
  | Some [SL ts; SStr q; m; sb; ins; ads; dts] =>
      match map_opt (dec_named dec_typedef) ts, as_option as_bytes m, as_option as_bytes sb,
            tagged "inputs" ins, tagged "argdefs" ads, tagged "dt" dts with
      | Some tys, Some mu, Some su, Some il, Some al, Some dl =>
          match map_opt CoerceCheck.dec_env_entry il, map_opt dec_type_argdefs al, map_opt CoerceCheck.dec_dt_entry dl with
          | Some ie, Some ad, Some dt =>
              Some {| types := tys; query := q; mutation := mu; subscription := su; s_inputs := ie; s_dt := dt;
                      s_argdefs := ad |}
          | _, _, _ => None
          end
      | _, _, _, _, _, _ => None
      end
  | _ => None
  end.

Definition dec_cond (s : sexp) : option cond :=
  match s with
  | SL [SSym t; x] =>
      if String.eqb t "lit" then option_map CLit (as_bool x)
      else if String.eqb t "var" then option_map CVar (as_bytes x)
      else None
  | _ => None
  end.

Definition dec_dir (s : sexp) : option directive :=
  match s with
  | SL [SSym t] => if String.eqb t "other" then Some DOther else None
  | SL [SSym t; c; dp; vp] =>
      match dec_cond c, dec_pos dp, dec_pos vp with
      | Some c', Some dp', Some vp' =>
          if String.eqb t "skip" then Some (DSkip c' dp' vp')
          else if String.eqb t "include" then Some (DInclude c' dp' vp')
          else None
      | _, _, _ => None
      end
  | _ => None
  end.

Fixpoint dec_sel (s : sexp) : option selection :=
  let dec_sels :=
    fix go (l : list sexp) : option (list selection) :=
      match l with
      | [] => Some []
      | x :: r => match dec_sel x, go r with
                  | Some a, Some b => Some (a :: b)
                  | _, _ => None
                  end
      end in
  match s with
  | SL [SSym t; al; SStr n; p; SL ds; SL subs] =>
      if String.eqb t "field" then
        match as_option as_bytes al, dec_pos p, map_opt dec_dir ds, dec_sels subs with
        | Some a, Some p', Some ds', Some subs' => Some (SField a n p' ds' subs')
        | _, _, _, _ => None
        end
      else None
  | SL [SSym t; SStr n; p; SL ds] =>
      if String.eqb t "spread" then
        match dec_pos p, map_opt dec_dir ds with
        | Some p', Some ds' => Some (SSpread n p' ds')
        | _, _ => None
        end
      else None
  | SL [SSym t; tc; p; SL ds; SL subs] =>
      if String.eqb t "inline" then
        match as_option as_bytes tc, dec_pos p, map_opt dec_dir ds, dec_sels subs with
        | Some c, Some p', Some ds', Some subs' => Some (SInline c p' ds' subs')
        | _, _, _, _ => None
        end
      else None
  | _ => None
  end.

Definition dec_frag (s : sexp) : option fragdef :=
  match s with
  | SL [SStr n; SStr c; SL sels] =>
      option_map (fun l => {| fr_name := n; fr_cond := c; fr_sels := l |}) (map_opt dec_sel sels)
  | _ => None
  end.

Definition dec_opkind (t : string) : option opkind :=
  if String.eqb t "query" then Some OpQuery else if String.eqb t "mutation" then Some OpMutation
  else if String.eqb t "subscription" then Some OpSubscription else None.

Definition dec_doc (s : sexp) : option document :=
  match tagged "doc" s with
  | Some [SSym k; p; SL sels; SL fs] =>
      match dec_opkind k, dec_pos p, map_opt dec_sel sels, map_opt dec_frag fs with
      | Some k', Some p', Some sels', Some fs' =>
          Some {| op_kind := k'; op_pos := p'; op_sels := sels'; frags := fs'; d_args := []; d_vars := [] |}
      | _, _, _, _ => None
      end
  | _ => None
  end.

(** the whole request document and Request.OperationName:
    (request "opname" ((op (some "A")|(none) kind (l c) (sel ...)) ...) (frag ...));
    the older form (doc kind pos sels frags) is one anonymous operation and no operation name *)
Definition dec_vardef_pos (s : sexp) : option (Values.vardef * pos) :=
  match s with
  | SL [d; p] => match CoerceCheck.dec_vardef d, dec_pos p with
                 | Some d', Some p' => Some (d', p')
                 | _, _ => None
                 end
  | _ => None
  end.
Definition dec_node_args (s : sexp) : option (pos * list (name * Values.lit)) :=
  match s with
  | SL (p :: args) =>
      match dec_pos p, map_opt (fun a => match a with
                                         | SL [SStr n; l] => option_map (fun l' => (n, l')) (CoerceCheck.dec_lit l)
                                         | _ => None
                                         end) args with
      | Some p', Some args' => Some (p', args')
      | _, _ => None
      end
  | _ => None
  end.

Definition dec_op (s : sexp) : option operation :=
  match tagged "op" s with
  | Some [n; SSym k; p; SL sels] =>
      match as_option as_bytes n, dec_opkind k, dec_pos p, map_opt dec_sel sels with
      | Some n', Some k', Some p', Some sels' =>
          Some {| o_name := n'; o_kind := k'; o_pos := p'; o_sels := sels'; o_vardefs := [] |}
      | _, _, _, _ => None
      end
  | Some [n; SSym k; p; SL sels; SL vds] =>
      match as_option as_bytes n, dec_opkind k, dec_pos p, map_opt dec_sel sels, map_opt dec_vardef_pos vds with
      | Some n', Some k', Some p', Some sels', Some vds' =>
          Some {| o_name := n'; o_kind := k'; o_pos := p'; o_sels := sels'; o_vardefs := vds' |}
      | _, _, _, _, _ => None
      end
  | _ => None
  end.

Definition dec_request (s : sexp) : option (request_doc * name) :=
  match tagged "request" s with
  | Some [SStr opname; SL ops; SL fs] =>
      match map_opt dec_op ops, map_opt dec_frag fs with
      | Some ops', Some fs' => Some ({| r_ops := ops'; r_frags := fs'; r_args := [] |}, opname)
      | _, _ => None
      end
  | Some [SStr opname; SL ops; SL fs; SL args] =>
      match map_opt dec_op ops, map_opt dec_frag fs, map_opt dec_node_args args with
      | Some ops', Some fs', Some args' => Some ({| r_ops := ops'; r_frags := fs'; r_args := args' |}, opname)
      | _, _, _ => None
      end
  | _ =>
      match dec_doc s with
      | Some D => Some ({| r_ops := [{| o_name := None; o_kind := op_kind D; o_pos := op_pos D; o_sels := op_sels D;
                                        o_vardefs := [] |}];
                           r_frags := frags D; r_args := [] |}, [])
      | None => None
      end
  end.

(** Request.VariableValues: (vars ("name" jval)...) *)
Definition dec_raw (s : sexp) : option (list (name * Values.jval)) :=
  match tagged "vars" s with
  | Some l => map_opt (fun a => match a with
                                | SL [SStr n; j] => option_map (fun j' => (n, j')) (CoerceCheck.dec_jval j)
                                | _ => None
                                end) l
  | None => None
  end.

Definition dec_env (s : sexp) : option env :=
  match s with
  | SL l => map_opt (dec_named (fun x => if is_sym "null" x then Some None else option_map Some (as_bool x))) l
  | _ => None
  end.

Fixpoint dec_outcome (s : sexp) : option outcome :=
  match s with
  | SSym t => if String.eqb t "nil" then Some ONil else if String.eqb t "tnil" then Some OTypedNil
              else if String.eqb t "err" then Some OErr else None
  | SL (SSym t :: args) =>
      if String.eqb t "leaf" then
        match args with [g] => option_map OLeaf (dec_gval g) | _ => None end
      else if String.eqb t "list" then
        option_map OList
          ((fix go (l : list sexp) : option (list outcome) :=
              match l with
              | [] => Some []
              | x :: r => match dec_outcome x, go r with
                          | Some a, Some b => Some (a :: b)
                          | _, _ => None
                          end
              end) args)
      else if String.eqb t "obj" then
        match args with
        | SStr tg :: fs =>
            option_map (OObj tg)
              ((fix go (l : list sexp) : option (list (name * outcome)) :=
                  match l with
                  | [] => Some []
                  | SL [SStr n; x] :: r => match dec_outcome x, go r with
                                           | Some a, Some b => Some ((n, a) :: b)
                                           | _, _ => None
                                           end
                  | _ => None
                  end) fs)
        | _ => None
        end
      else None
  | _ => None
  end.

Fixpoint dec_json (s : sexp) : option json :=
  match s with
  | SSym t => if String.eqb t "null" then Some JNull else if String.eqb t "true" then Some (JBool true)
              else if String.eqb t "false" then Some (JBool false)
              else if String.eqb t "meta" then Some JMeta else None
  | SL (SSym t :: args) =>
      if String.eqb t "num" then
        match args with [SZ m; SZ e] => Some (JFloat (Fin m e)) | _ => None end
      else if String.eqb t "s" then
        match args with [SStr b] => Some (JStr b) | _ => None end
      else if String.eqb t "a" then
        option_map JArr
          ((fix go (l : list sexp) : option (list json) :=
              match l with
              | [] => Some []
              | x :: r => match dec_json x, go r with
                          | Some a, Some b => Some (a :: b)
                          | _, _ => None
                          end
              end) args)
      else if String.eqb t "o" then
        option_map JObj
          ((fix go (l : list sexp) : option (list (name * json)) :=
              match l with
              | [] => Some []
              | SL [SStr k; x] :: r => match dec_json x, go r with
                                       | Some a, Some b => Some ((k, a) :: b)
                                       | _, _ => None
                                       end
              | _ => None
              end) args)
      else None
  | _ => None
  end.

Definition dec_pathc (s : sexp) : option pathc :=
  match s with
  | SStr k => Some (PKey k)
  | SZ z => if Z.ltb z 0 then None else Some (PIdx (Z.to_N z))
  | _ => None
  end.

Definition dec_error (s : sexp) : option gerror :=
  match s with
  | SL [SL p; SL ls] =>
      match map_opt dec_pathc p, map_opt dec_pos ls with
      | Some p', Some ls' => Some {| e_path := p'; e_locs := ls' |}
      | _, _ => None
      end
  | _ => None
  end.

(** what the harness saw *)
Inductive observed :=
| ObsDone (data : option json) (errs : list gerror)
| ObsMarshalError              (* the response could not be marshalled to JSON *)
| ObsPanic                     (* graphql.Execute panicked *)
| ObsRejected.                 (* ParseAndValidate refused the document *)

Definition dec_obs (s : sexp) : option observed :=
  match untag s with
  | Some (t, args) =>
      if String.eqb t "marshal-error" then Some ObsMarshalError
      else if String.eqb t "panic" then Some ObsPanic
      else if String.eqb t "rejected" then Some ObsRejected
      else if String.eqb t "obs" then
        match args with
        | [d; SL es] =>
            match as_option dec_json d, map_opt dec_error es with
            | Some d', Some es' => Some (ObsDone d' es')
            | _, _ => None
            end
        | _ => None
        end
      else None
  | None => None
  end.

(** ** canonical response values: every number as an odd mantissa times a power of two *)
Fixpoint strip_pos (p : positive) (e : Z) : positive * Z :=
  match p with
  | xO p' => strip_pos p' (e + 1)%Z
  | _ => (p, e)
  end.
Definition norm_dy (m e : Z) : dyadic :=
  match m with
  | Z0 => Fin 0 0
  | Zpos p => let (q, e') := strip_pos p e in Fin (Zpos q) e'
  | Zneg p => let (q, e') := strip_pos p e in Fin (Zneg q) e'
  end.

Fixpoint canon (j : json) : json :=
  match j with
  | JInt z => JFloat (norm_dy z 0)
  | JFloat (Fin m e) => JFloat (norm_dy m e)
  | JArr xs => JArr (map canon xs)
  | JObj kvs => JObj (map (fun kv => (fst kv, canon (snd kv))) kvs)
  | x => x
  end.

(** a response value that encoding/json accepts *)
Definition marshals (j : json) : bool := json_finite j.

Definition dyadic_eqb (a b : dyadic) : bool :=
  match a, b with
  | Fin m1 e1, Fin m2 e2 => Z.eqb m1 m2 && Z.eqb e1 e2
  | NaN, NaN | PInf, PInf | NInf, NInf => true
  | _, _ => false
  end.

Fixpoint json_eqb (a b : json) : bool :=
  match a, b with
  | JNull, JNull => true
  | JMeta, JMeta => true
  | JBool x, JBool y => Bool.eqb x y
  | JInt x, JInt y => Z.eqb x y
  | JFloat x, JFloat y => dyadic_eqb x y
  | JStr x, JStr y => bytes_eqb x y
  | JArr xs, JArr ys =>
      (fix go (xs ys : list json) : bool :=
         match xs, ys with
         | [], [] => true
         | x :: xs', y :: ys' => json_eqb x y && go xs' ys'
         | _, _ => false
         end) xs ys
  | JObj xs, JObj ys =>
      (fix go (xs ys : list (name * json)) : bool :=
         match xs, ys with
         | [], [] => true
         | (k, x) :: xs', (k', y) :: ys' => bytes_eqb k k' && json_eqb x y && go xs' ys'
         | _, _ => false
         end) xs ys
  | _, _ => false
  end.

(** the value of __schema / __type is not part of this property: wherever the reference has
    [JMeta] under a root key, the observed subtree is masked *)
Definition mask_meta (ref obs : json) : json :=
  match ref, obs with
  | JObj rs, JObj os =>
      JObj ((fix go (rs : list (name * json)) (os : list (name * json)) : list (name * json) :=
               match rs, os with
               | (_, JMeta) :: rs', (k, _) :: os' => (k, JMeta) :: go rs' os'
               | _ :: rs', o :: os' => o :: go rs' os'
               | _, os' => os'
               end) rs os)
  | _, _ => obs
  end.

(** multiset operations on error lists, keyed by (path, locations) *)
Fixpoint remove_one (e : gerror) (l : list gerror) : option (list gerror) :=
  match l with
  | [] => None
  | x :: r => if gerror_eqb e x then Some r
              else match remove_one e r with Some r' => Some (x :: r') | None => None end
  end.
Fixpoint sub_multiset (a b : list gerror) : bool :=
  match a with
  | [] => true
  | e :: a' => match remove_one e b with Some b' => sub_multiset a' b' | None => false end
  end.
Definition multiset_eqb (a b : list gerror) : bool :=
  Nat.eqb (List.length a) (List.length b) && sub_multiset a b.
