(** * ExeA/ArgLevelProofs.v — the level bound [n] of [sels_ok] / [doc_ok], without fragment cycles.

    [lv sels n]: the field nesting of [sels], with fragment spreads expanded, is at most [n]
    levels deep.  A derivation exists only when the expansion terminates, i.e. when no fragment
    reaches itself from the selections at hand ([levels] computes the number with explicit fuel
    and is sound for [lv]).  Every field node CollectFields can return for [sels] has
    sub-selections one level lower ([collected_lower]), hence so do the merged sub-selections of
    every group; this is the measure along which [sels_ok] recurses, and [sels_ok_intro] turns an
    n-free local typing invariant plus [lv] into [sels_ok]: what the lemma validate_ok_doc_ok of
    C04 needs in order to exhibit the [n] of [doc_ok]. *)
From Coq Require Import List NArith ZArith Bool Lia.
From ApiFu Require Import Base.Sexp ExeA.ArgData ExeA.ArgArgs ExeA.ArgModel ExeA.ArgSpec ExeA.ArgHyps
     ExeA.ArgBaseProofs ExeA.ArgCollectProofs ExeA.ArgSpecProofs ExeA.ArgDirProofs.
Import ListNotations.

Section Levels.
  Variables (S : schema) (D : document) (E : env).
  Local Notation lv := (lv D).

  Lemma lv_mono sels n : lv sels n -> forall m, (n <= m)%nat -> lv sels m.
  Proof.
    induction 1 as [n|a f p d sub r n _ IH1 _ IH2|tc p d sub r n _ IH1 _ IH2|f p d r n Hf _ IH|f p d fr r n Hf _ IH1 _ IH2];
      intros m Hm.
    - constructor.
    - destruct m as [|m]; [lia|]. constructor; [apply IH1; lia|apply IH2; lia].
    - constructor; [apply IH1|apply IH2]; exact Hm.
    - apply lv_spread_unknown; [exact Hf|apply IH; exact Hm].
    - eapply lv_spread; [exact Hf|apply IH1; exact Hm|apply IH2; exact Hm].
  Qed.

  Lemma lv_tail s r n : lv (s :: r) n -> lv r n.
  Proof.
    intro H. inversion H; subst; try assumption.
  Qed.

  Lemma lv_app a b n : lv a n -> lv b n -> lv (a ++ b) n.
  Proof.
    induction 1 as [n|x f p d sub r n H1 _ H2 IH|tc p d sub r n H1 _ H2 IH|f p d r n Hf H2 IH|f p d fr r n Hf H1 _ H2 IH];
      intro Hb; cbn [app].
    - exact Hb.
    - constructor; [exact H1|apply IH; exact Hb].
    - constructor; [exact H1|apply IH; exact Hb].
    - apply lv_spread_unknown; [exact Hf|apply IH; exact Hb].
    - eapply lv_spread; [exact Hf|exact H1|apply IH; exact Hb].
  Qed.

  (** every field node CollectFields returns has sub-selections one level lower *)
  Lemma collected_lower fuel : forall ot sels visited v flat n,
    lv sels n ->
    s_collect_flat S D E fuel ot sels visited = Some (v, flat) ->
    Forall (fun kf => exists m, n = Datatypes.S m /\ lv (fn_sub (snd kf)) m) flat.
  Proof.
    induction fuel as [|fuel IHf]; intros ot sels; induction sels as [|s rest IH]; intros visited v flat n Hlv Hc;
      rewrite s_collect_flat_eq in Hc; try (inversion Hc; constructor);
      cbv zeta in Hc; pose proof (lv_tail _ _ _ Hlv) as Hrest;
      (destruct (s_excluded E (sel_dirs s)); [exact (IH _ _ _ _ Hrest Hc)|]);
      destruct s as [a f p d sub|f p d|tc p d sub].
    - destruct (s_collect_flat S D E 0 ot rest visited) as [[v' l]|] eqn:Er; [|discriminate].
      inversion Hc; subst. constructor; [|exact (IH _ _ _ _ Hrest Er)].
      inversion Hlv; subst. eexists. split; [reflexivity|]. cbn [snd fn_sub]. assumption.
    - destruct (mem f visited); [exact (IH _ _ _ _ Hrest Hc)|].
      destruct (s_fragment D f) as [fr|]; [|exact (IH _ _ _ _ Hrest Hc)].
      destruct (s_applies S ot (fr_cond fr)); [discriminate|exact (IH _ _ _ _ Hrest Hc)].
    - destruct tc as [c|]; [|discriminate].
      destruct (s_applies S ot c); [discriminate|exact (IH _ _ _ _ Hrest Hc)].
    - destruct (s_collect_flat S D E (Datatypes.S fuel) ot rest visited) as [[v' l]|] eqn:Er; [|discriminate].
      inversion Hc; subst. constructor; [|exact (IH _ _ _ _ Hrest Er)].
      inversion Hlv; subst. eexists. split; [reflexivity|]. cbn [snd fn_sub]. assumption.
    - destruct (mem f visited); [exact (IH _ _ _ _ Hrest Hc)|].
      destruct (s_fragment D f) as [fr|] eqn:Ef; [|exact (IH _ _ _ _ Hrest Hc)].
      destruct (s_applies S ot (fr_cond fr)); [|exact (IH _ _ _ _ Hrest Hc)].
      destruct (s_collect_flat S D E fuel ot (fr_sels fr) (f :: visited)) as [[v0 l0]|] eqn:E0; [|discriminate].
      destruct (s_collect_flat S D E (Datatypes.S fuel) ot rest v0) as [[v1 l1]|] eqn:E1; [|discriminate].
      inversion Hc; subst. apply Forall_app. split; [|exact (IH _ _ _ _ Hrest E1)].
      inversion Hlv as [| | |f' p' d' r' n' Hu Hr|f' p' d' fr' r' n' Hf' Hb Hr]; subst; [congruence|].
      rewrite Ef in Hf'. inversion Hf'; subst fr'.
      exact (IHf _ _ _ _ _ _ Hb E0).
    - assert (Hsub : lv sub n) by (inversion Hlv; subst; assumption).
      assert (Hdo : forall v0 l0 v1 l1, s_collect_flat S D E fuel ot sub visited = Some (v0, l0) ->
                      s_collect_flat S D E (Datatypes.S fuel) ot rest v0 = Some (v1, l1) ->
                      Forall (fun kf => exists m, n = Datatypes.S m /\ lv (fn_sub (snd kf)) m) (l0 ++ l1)).
      { intros v0 l0 v1 l1 E0 E1. apply Forall_app. split; [eapply IHf; eassumption|exact (IH _ _ _ _ Hrest E1)]. }
      destruct tc as [c|].
      + destruct (s_applies S ot c); [|exact (IH _ _ _ _ Hrest Hc)].
        destruct (s_collect_flat S D E fuel ot sub visited) as [[v0 l0]|] eqn:E0; [|discriminate].
        destruct (s_collect_flat S D E (Datatypes.S fuel) ot rest v0) as [[v1 l1]|] eqn:E1; [|discriminate].
        inversion Hc; subst. exact (Hdo _ _ _ _ eq_refl E1).
      + destruct (s_collect_flat S D E fuel ot sub visited) as [[v0 l0]|] eqn:E0; [|discriminate].
        destruct (s_collect_flat S D E (Datatypes.S fuel) ot rest v0) as [[v1 l1]|] eqn:E1; [|discriminate].
        inversion Hc; subst. exact (Hdo _ _ _ _ eq_refl E1).
  Qed.
End Levels.

(** ** groups consist of collected nodes *)
Lemma sg_add_in k0 f0 : forall g k fs f,
  In (k, fs) (sg_add k0 f0 g) -> In f fs -> f = f0 \/ exists fs', In (k, fs') g /\ In f fs'.
Proof.
  induction g as [|[k' fs'] g IH]; intros k fs f Hin Hf; cbn [sg_add] in Hin.
  - destruct Hin as [Heq|[]]. inversion Heq; subst. destruct Hf as [<-|[]]. left. reflexivity.
  - destruct (name_eqb k0 k').
    + destruct Hin as [Heq|Hin].
      * inversion Heq; subst. apply in_app_or in Hf as [Hf|[<-|[]]]; [right; exists fs'; split; [left; reflexivity|exact Hf]|left; reflexivity].
      * right. exists fs. split; [right; exact Hin|exact Hf].
    + destruct Hin as [Heq|Hin].
      * inversion Heq; subst. right. exists fs. split; [left; reflexivity|exact Hf].
      * destruct (IH _ _ _ Hin Hf) as [->|[fs'' [H1 H2]]]; [left; reflexivity|right; exists fs''; split; [right; exact H1|exact H2]].
Qed.

Lemma group_fold_in flat : forall g k fs f,
  In (k, fs) (fold_left (fun acc kf => sg_add (fst kf) (snd kf) acc) flat g) -> In f fs ->
  (exists k', In (k', f) flat) \/ exists fs', In (k, fs') g /\ In f fs'.
Proof.
  induction flat as [|[k0 f0] flat IH]; intros g k fs f Hin Hf; cbn [fold_left] in Hin.
  - right. exists fs. split; assumption.
  - destruct (IH _ _ _ _ Hin Hf) as [[k' Hk]|[fs' [H1 H2]]].
    + left. exists k'. right. exact Hk.
    + cbn [fst snd] in H1. destruct (sg_add_in k0 f0 g k fs' f H1 H2) as [->|[fs'' [H3 H4]]].
      * left. exists k0. left. reflexivity.
      * right. exists fs''. split; assumption.
Qed.

Lemma s_group_in flat k fs f : In (k, fs) (s_group flat) -> In f fs -> exists k', In (k', f) flat.
Proof.
  intros Hin Hf. destruct (group_fold_in flat [] k fs f Hin Hf) as [H|[fs' [[] _]]]. exact H.
Qed.

Section Intro.
  Variables (S : schema) (D : document) (E : env) (fuel : nat).

  Lemma lv_merged fields m :
    Forall (fun f => lv D (fn_sub f) m) fields -> lv D (s_merge_selection_sets fields) m.
  Proof.
    unfold s_merge_selection_sets. induction 1 as [|f r Hf _ IH]; cbn [flat_map]; [constructor|].
    apply lv_app; assumption.
  Qed.

  (** the introduction rule: an invariant [Q] of (object type, selection list) that is n-free,
      guarantees collection and the local conditions, and is inherited by the merged
      sub-selections, yields [sels_ok] with the level bound given by [lv] *)
  Theorem sels_ok_intro (Q : name -> list selection -> Prop) :
    (forall ot sels, Q ot sels ->
       exists groups, s_collect S D E fuel ot sels = Some groups /\ Forall (group_local S D Q ot) groups) ->
    forall n ot sels, lv D sels n -> Q ot sels -> sels_ok S D E fuel (Datatypes.S n) ot sels = true.
  Proof.
    intros Hstep. induction n as [|n IH]; intros ot sels Hlv HQ;
      destruct (Hstep ot sels HQ) as [groups [Hc Hg]]; cbn [sels_ok]; rewrite Hc;
      unfold s_collect in Hc;
      destruct (s_collect_flat S D E fuel ot sels []) as [[v flat]|] eqn:Ef; try discriminate;
      inversion Hc; subst groups; clear Hc;
      pose proof (collected_lower S D E fuel ot sels [] v flat _ Hlv Ef) as Hlow;
      rewrite forallb_forall; intros [k fs] Hin;
      rewrite Forall_forall in Hg; specialize (Hg _ Hin);
      unfold group_local in Hg; unfold group_ok_with; cbn [snd fst] in *;
      (destruct fs as [|f fs']; [destruct Hg|]);
      (destruct (s_field_kind S ot (fn_name f)) as [| |t|]; try reflexivity; try (destruct Hg; fail));
      destruct Hg as [Ha Ht]; rewrite Ha; cbn [andb]; unfold type_ok_with;
      (destruct (lookup_type S (sty_base t)) as [[kk|vals|ofs ifs|ifs|ms|]|]; try reflexivity; try (destruct Ht; fail));
      rewrite forallb_forall; intros ot' Hot';
      (* a node of the group is a collected node: the level is positive *)
      (destruct (s_group_in flat k (f :: fs') f Hin (or_introl eq_refl)) as [k' Hk'];
       rewrite Forall_forall in Hlow; destruct (Hlow _ Hk') as [m [Hm _]]; cbn [snd] in Hm);
      try discriminate;
      inversion Hm; subst m;
      (apply IH; [|apply Ht; exact Hot']);
      apply lv_merged; rewrite Forall_forall; intros f1 Hf1;
      destruct (s_group_in flat k (f :: fs') f1 Hin Hf1) as [k1 Hk1];
      destruct (Hlow _ Hk1) as [m1 [Hm1 Hl1]]; cbn [snd] in Hm1, Hl1; inversion Hm1; subst m1; exact Hl1.
  Qed.
End Intro.

(** ** computing the number of levels: fragment spreads are expanded with fuel [k] ([None]: the
    fuel ran out — with [k] = the number of fragment definitions that happens exactly when a
    fragment reaches itself from the selections at hand) *)
Section Compute.
  Variable D : document.
  Local Notation levels_sel := (levels_sel D).
  Local Notation levels := (levels D).

  Lemma levels_sel_eq k s :
    levels_sel k s =
    match s with
    | SField _ _ _ _ sub => option_map Datatypes.S (levels k sub)
    | SInline _ _ _ sub => levels k sub
    | SSpread f _ _ =>
        match k with
        | O => None
        | Datatypes.S k' => match s_fragment D f with Some fr => levels k' (fr_sels fr) | None => Some 0%nat end
        end
    end.
  Proof. destruct k; destruct s; reflexivity. Qed.

  Lemma omax_some a b n : omax a b = Some n -> exists x y, a = Some x /\ b = Some y /\ n = Nat.max x y.
  Proof. destruct a as [x|], b as [y|]; try discriminate. intro H. inversion H. eauto. Qed.

  (** soundness: what [levels] computes is a level bound in the sense of [lv] *)
  Definition sel_sound (k : nat) (s : selection) : Prop :=
    forall n, levels_sel k s = Some n -> forall r m, (n <= m)%nat -> lv D r m -> lv D (s :: r) m.

  Lemma list_sound k sels : Forall (sel_sound k) sels -> forall n, levels k sels = Some n -> lv D sels n.
  Proof.
    induction 1 as [|s r Hs _ IH]; intros n H; [constructor|].
    unfold levels in H. cbn [fold_right] in H. apply omax_some in H as [x [y [Hx [Hy ->]]]].
    apply (Hs x Hx); [lia|]. eapply lv_mono; [apply IH; exact Hy|lia].
  Qed.

  Lemma sel_sound_all k :
    (forall k', k = Datatypes.S k' -> forall sels n, levels k' sels = Some n -> lv D sels n) ->
    forall s, sel_sound k s.
  Proof.
    intros Hprev s. induction s as [a f p d sub IH|f p d|tc p d sub IH] using selection_ind_dir;
      intros n H r m Hm Hr; rewrite levels_sel_eq in H.
    - destruct (levels k sub) as [n'|] eqn:El; [|discriminate]. cbn in H. inversion H; subst n.
      destruct m as [|m]; [lia|]. constructor; [|exact Hr].
      eapply lv_mono; [exact (list_sound k sub IH n' El)|lia].
    - destruct k as [|k']; [discriminate|].
      destruct (s_fragment D f) as [fr|] eqn:Ef.
      + eapply lv_spread; [exact Ef| |exact Hr]. eapply lv_mono; [exact (Hprev k' eq_refl _ _ H)|exact Hm].
      + apply lv_spread_unknown; [exact Ef|exact Hr].
    - constructor; [|exact Hr]. eapply lv_mono; [exact (list_sound k sub IH n H)|exact Hm].
  Qed.

  Theorem levels_sound : forall k sels n, levels k sels = Some n -> lv D sels n.
  Proof.
    induction k as [|k IHk]; intros sels n H.
    - apply (list_sound 0 sels); [|exact H]. rewrite Forall_forall. intros s _.
      apply sel_sound_all. intros k' Hk. discriminate.
    - apply (list_sound (Datatypes.S k) sels); [|exact H]. rewrite Forall_forall. intros s _.
      apply sel_sound_all. intros k' Hk. inversion Hk; subst k'. exact IHk.
  Qed.
End Compute.

(** ** the whole document: how the lemma validate_ok_doc_ok can exhibit the [n] of [doc_ok].
    From validation it needs (1) [conds_ok] and the root type, (2) an n-free invariant [Q] of
    (object type, selection list) that holds of the operation's selections on the root type,
    guarantees collection and the local conditions of every group, and is inherited by merged
    sub-selections (C04: "a validated selection set for parent type ot"), and (3) a level count
    [levels k (op_sels D) = Some n] — defined exactly when fragment expansion terminates.
    What is NOT proved here: that [levels (length (frags D)) sels] is [Some _] whenever no
    fragment reaches itself (C04_spreads_silent_acyclic; a pigeonhole argument over the fragment
    graph), and that the number is at most [default_fuel D]; the check evaluates both on every
    generated case that is doc_ok (classes levels-undefined — seen only for the hostile stream's
    cyclic fragments, never for a validated document — and levels-exceed-default-fuel — never seen). *)
Theorem doc_ok_intro S D E fuel (Q : name -> list selection -> Prop) rt k n :
  conds_ok S D E = true ->
  s_root_type S (op_kind D) = Some rt ->
  (forall ot sels, Q ot sels ->
     exists groups, s_collect S D E fuel ot sels = Some groups /\ Forall (group_local S D Q ot) groups) ->
  Q rt (op_sels D) ->
  levels D k (op_sels D) = Some n ->
  doc_ok S D E fuel (Datatypes.S n) = true.
Proof.
  intros Hc Hrt Hstep HQ Hl. unfold doc_ok. rewrite Hc, Hrt. cbn [andb].
  apply (sels_ok_intro S D E fuel Q Hstep); [exact (levels_sound D k _ _ Hl)|exact HQ].
Qed.
