(** * ExeA/ArgRequestProofs.v — GetOperation: the executor's loop selects exactly the operation the
    specification determines, and refuses the request otherwise (C01). *)
From Coq Require Import List NArith ZArith Bool.
From ApiFu Require Import Base.Sexp ExeA.ArgData ExeA.ArgArgs ExeA.ArgModel ExeA.ArgSpec.
From ApiFu Require Val.Values.
Import ListNotations.

(** the loop, characterised by the list of matching operations *)
Lemma get_operation_loop_filter opname : forall ops ret,
  get_operation_loop ops opname ret =
  match ret, filter (op_matches opname) ops with
  | None, [] => GNoMatch
  | None, [o] => GOp o
  | None, _ :: o2 :: _ => GMultiple (o_pos o2)
  | Some o, [] => GOp o
  | Some _, o2 :: _ => GMultiple (o_pos o2)
  end.
Proof.
  induction ops as [|o rest IH]; intro ret.
  - destruct ret; reflexivity.
  - cbn [get_operation_loop filter]. destruct (op_matches opname o).
    + destruct ret as [r|]; [reflexivity|]. rewrite IH. destruct (filter (op_matches opname) rest); reflexivity.
    + apply IH.
Qed.

Lemma filter_true {A} (l : list A) : filter (fun _ => true) l = l.
Proof. induction l as [|x r IH]; [reflexivity|]. cbn. rewrite IH. reflexivity. Qed.

Lemma matches_spec opname ops :
  filter (op_matches opname) ops =
  match opname_of opname with None => ops | Some n => filter (s_named n) ops end.
Proof.
  destruct opname as [|b r]; cbn [opname_of].
  - unfold op_matches. apply filter_true.
  - apply filter_ext. intro o. reflexivity.
Qed.

(** the executor selects [o] exactly when the specification determines [o] *)
Theorem get_operation_refines_spec R opname o :
  get_operation R opname = GOp o <-> s_get_operation R (opname_of opname) = Some o.
Proof.
  unfold get_operation. rewrite get_operation_loop_filter, matches_spec. unfold s_get_operation.
  destruct (opname_of opname) as [n|].
  - destruct (filter (s_named n) (r_ops R)) as [|o1 [|o2 l]]; split; intro H; try discriminate; inversion H; reflexivity.
  - destruct (r_ops R) as [|o1 [|o2 l]]; split; intro H; try discriminate; inversion H; reflexivity.
Qed.

(** ... and otherwise refuses the request with exactly one error and no data *)
Theorem get_operation_refuses R opname :
  s_get_operation R (opname_of opname) = None ->
  exists p, get_operation R opname = GMultiple p \/ get_operation R opname = GNoMatch.
Proof.
  unfold get_operation. rewrite get_operation_loop_filter, matches_spec. unfold s_get_operation.
  destruct (opname_of opname) as [n|].
  - destruct (filter (s_named n) (r_ops R)) as [|o1 [|o2 l]]; intro H; try discriminate;
      [exists {| line := 0; col := 0 |}; right; reflexivity|exists (o_pos o2); left; reflexivity].
  - destruct (r_ops R) as [|o1 [|o2 l]]; intro H; try discriminate;
      [exists {| line := 0; col := 0 |}; right; reflexivity|exists (o_pos o2); left; reflexivity].
Qed.

Section Request.
  Variables (M : mode) (S : schema) (R : request_doc) (opname : name)
            (raw : list (name * Values.jval)) (fuel : nat) (W : outcome).

  (** the request determines an operation and its variables coerce: it is executed as that
      operation with the coerced variables *)
  Theorem run_request_selected o vv :
    s_get_operation R (opname_of opname) = Some o ->
    coerce_request_vars S o raw = Values.Ok vv ->
    run_request M S R opname raw fuel W = run M S (doc_of R o vv) (env_of_vars vv) fuel W.
  Proof.
    intros H Hv. apply get_operation_refines_spec in H. unfold run_request. rewrite H, Hv. reflexivity.
  Qed.

  (** ... its variables do not coerce: no data, exactly one error, without path *)
  Theorem run_request_vars_refused o :
    s_get_operation R (opname_of opname) = Some o ->
    coerce_request_vars S o raw = Values.Err ->
    exists e, run_request M S R opname raw fuel W = Done None [e] /\ e_path e = [].
  Proof.
    intros H Hv. apply get_operation_refines_spec in H. unfold run_request. rewrite H, Hv.
    eexists. split; reflexivity.
  Qed.

  Theorem run_request_refused :
    s_get_operation R (opname_of opname) = None ->
    exists e, run_request M S R opname raw fuel W = Done None [e] /\ e_path e = [].
  Proof.
    intro H. destruct (get_operation_refuses R opname H) as [p [Hg|Hg]]; unfold run_request; rewrite Hg;
      eexists; split; reflexivity.
  Qed.
End Request.

(** whole requests never crash (for C03) *)
From ApiFu Require Import ExeA.ArgHyps ExeA.ArgProofs.
Theorem request_total S R opname raw n W :
  type_names_okb S = true ->
  (forall o, s_get_operation R (opname_of opname) = Some o ->
     coerce_request_vars S o raw <> Values.Panic /\
     forall vv, coerce_request_vars S o raw = Values.Ok vv ->
       doc_positions_okb (doc_of R o vv) = true /\
       doc_ok S (doc_of R o vv) (env_of_vars vv) (default_fuel (doc_of R o vv)) n = true) ->
  forall fuel, (forall o vv, s_get_operation R (opname_of opname) = Some o -> fuel = default_fuel (doc_of R o vv)) ->
  exists d errs, run_request fixed S R opname raw fuel W = Done d errs.
Proof.
  intros Hn Hsel fuel Hfuel.
  destruct (s_get_operation R (opname_of opname)) as [o|] eqn:Es.
  - destruct (Hsel o eq_refl) as [Hnp Hok].
    destruct (coerce_request_vars S o raw) as [vv| |] eqn:Ev.
    + rewrite (run_request_selected fixed S R opname raw fuel W o vv Es Ev).
      destruct (Hok vv eq_refl) as [Hp Hd]. rewrite (Hfuel o vv eq_refl).
      exact (exec_total S (doc_of R o vv) (env_of_vars vv) _ Hn Hp n Hd W).
    + destruct (run_request_vars_refused fixed S R opname raw fuel W o Es Ev) as [e [H _]]. rewrite H. eauto.
    + exfalso. apply Hnp. reflexivity.
  - destruct (run_request_refused fixed S R opname raw fuel W Es) as [e [H _]]. rewrite H. eauto.
Qed.
