(** * ExeA/ArgKeyOrder.v — "response keys in document order", as ONE recursive predicate over the
    whole data (C01).  Definitions only.

    [ordered t fields j]: [j] is a well-ordered value for a field of type [t] selected by the
    field nodes [fields]: null; or a list of well-ordered items; or a leaf; or, for a composite
    type, an object that is well-ordered for some possible object type [ot] of [t] and the MERGED
    sub-selections of [fields].
    [ordered_obj ot sels kvs]: the entries [kvs] of the object are, in this order, one per group
    of CollectFields(ot, sels) — the field nodes selected after fragment expansion and
    @skip/@include, grouped by response key in order of first appearance —, each under its
    group's response key ([ordered_entry]), and each value is well-ordered for the group's field
    type and field nodes (recursively; __typename is the object type's name). *)
From Coq Require Import List NArith ZArith Bool.
From ApiFu Require Import Base.Sexp ExeA.ArgData ExeA.ArgSpec.
Import ListNotations.

Section KeyOrder.
  Variables (S : schema) (D : document) (E : env) (fuel : nat).

  Definition is_leaf_type (n : name) : Prop :=
    match lookup_type S n with Some (NScalar _) | Some (NEnum _) => True | _ => False end.

  Inductive ordered : sty -> list fnode -> json -> Prop :=
  | OrdNull t fs : ordered t fs JNull
  | OrdNonNull t fs j : ordered t fs j -> ordered (StNonNull t) fs j
  | OrdList t fs js : Forall (ordered t fs) js -> ordered (StList t) fs (JArr js)
  | OrdLeaf n fs j : is_leaf_type n -> ordered (StNamed n) fs j
  | OrdObj n fs ot kvs :
      In ot (s_possible S n) -> ordered_obj ot (s_merge_selection_sets fs) kvs ->
      ordered (StNamed n) fs (JObj kvs)
  with ordered_obj : name -> list selection -> list (name * json) -> Prop :=
  | OrdSel ot sels visited flat kvs :
      s_collect_flat S D E fuel ot sels [] = Some (visited, flat) ->
      Forall2 (ordered_entry ot) (s_group flat) kvs ->
      ordered_obj ot sels kvs
  (** one group of field nodes (response key, nodes) and the entry it produces *)
  with ordered_entry : name -> name * list fnode -> name * json -> Prop :=
  | OrdField ot k f fs t j :
      s_field_kind S ot (fn_name f) = SFType t -> ordered t (f :: fs) j ->
      ordered_entry ot (k, f :: fs) (k, j)
  | OrdTypename ot k f fs :
      s_field_kind S ot (fn_name f) = SFTypename -> ordered_entry ot (k, f :: fs) (k, JStr ot)
  | OrdMeta ot k f fs j :
      s_field_kind S ot (fn_name f) = SFMeta -> ordered_entry ot (k, f :: fs) (k, j).

  (** what it says about the keys alone *)
  Definition keys_in_document_order (ot : name) (sels : list selection) (kvs : list (name * json)) : Prop :=
    exists visited flat, s_collect_flat S D E fuel ot sels [] = Some (visited, flat) /\
                         map fst kvs = first_occurrences (map fst flat) [].
End KeyOrder.
