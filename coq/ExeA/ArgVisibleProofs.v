(** * ExeA/ArgVisibleProofs.v — the failure nulls of the reference are nulls of its data: at the
    recorded position the value is null, and every error that explains it lies under that
    position (C01: "every null that a failure leaves visible in data"). *)
From Coq Require Import List NArith ZArith Bool Lia.
From ApiFu Require Import Base.Sexp ExeA.ArgData ExeA.ArgArgs ExeA.ArgSpec ExeA.ArgBaseProofs ExeA.ArgSpecProofs ExeA.ArgShapeProofs.
Import ListNotations.

Definition null_at (path : rpath) (j : json) (pc : rpath * list gerror) : Prop :=
  exists r, fst pc = path ++ r /\ json_at j r = Some JNull /\ Forall (under (fst pc)) (snd pc).

Definition nulls_visible (path : rpath) (x : sout) : Prop :=
  forall j, so_val x = Some j -> Forall (null_at path j) (so_nulls x).

Definition nv_completer (s : scompleter) : Prop := forall ty fields path, nulls_visible path (s ty fields path).

Lemma nv_ok p j : nulls_visible p (s_ok j).
Proof. intros j' _. constructor. Qed.
Lemma nv_throw p e : nulls_visible p (s_throw e).
Proof. intros j' H. discriminate. Qed.

Lemma nv_catch p x : swf p x -> nulls_visible p x -> nulls_visible p (s_catch p x).
Proof.
  intros Hw Hv. unfold s_catch. destruct (so_val x) eqn:Ev.
  - exact Hv.
  - intros j Hj. cbn in Hj. inversion Hj; subst. cbn [so_nulls]. constructor; [|constructor].
    exists []. cbn [fst snd]. rewrite app_nil_r. split; [reflexivity|]. split; [reflexivity|].
    pose proof (w_under _ _ Hw) as Hu. unfold errs_of in Hu. apply Forall_app in Hu as [_ Hu]. exact Hu.
Qed.

Lemma nv_position t p x : swf p x -> nulls_visible p x -> nulls_visible p (s_position t p x).
Proof. intros Hw Hv. destruct t; cbn [s_position]; try apply nv_catch; assumption. Qed.

Lemma vals_of_nth xs vs : vals_of xs = Some vs ->
  forall k x, nth_error xs k = Some x -> exists v, nth_error vs k = Some v /\ so_val x = Some v.
Proof.
  revert vs. induction xs as [|y xs IH]; intros vs H k x Hk; [destruct k; discriminate|].
  cbn [vals_of] in H. destruct (so_val y) eqn:Ey; [|discriminate]. destruct (vals_of xs) eqn:Er; [|discriminate].
  inversion H; subst. destruct k as [|k]; cbn [nth_error] in *.
  - inversion Hk; subst. eexists. split; [reflexivity|exact Ey].
  - eapply IH; [reflexivity|exact Hk].
Qed.

(** all parts of a list / a selection set, given how the parts are found in the composed value *)
Lemma nv_all p (lxs : list (pathc * sout)) mk :
  (forall vs k l x v r, nth_error lxs k = Some (l, x) -> nth_error vs k = Some v ->
                        length vs = length lxs -> json_at (mk vs) (l :: r) = json_at v r) ->
  Forall (fun lx => nulls_visible (p ++ [fst lx]) (snd lx)) lxs ->
  nulls_visible p (s_all (map snd lxs) mk).
Proof.
  intros Hlook Hch j Hj. unfold s_all in *. destruct (vals_of (map snd lxs)) as [vs|] eqn:Ev; [|discriminate].
  cbn [so_val so_nulls] in *. inversion Hj; subst j. clear Hj.
  rewrite Forall_forall. intros pc Hpc. apply in_flat_map in Hpc as [x [Hx Hpc]].
  apply In_nth_error in Hx as [k Hk]. rewrite nth_error_map in Hk.
  destruct (nth_error lxs k) as [[l x']|] eqn:Ek; [|discriminate]. cbn in Hk. inversion Hk; subst x'. clear Hk.
  assert (Hk' : nth_error (map snd lxs) k = Some x) by (rewrite nth_error_map, Ek; reflexivity).
  destruct (vals_of_nth _ _ Ev k x Hk') as [v [Hv Hxv]].
  rewrite Forall_forall in Hch. pose proof (Hch (l, x) (nth_error_In _ _ Ek) v Hxv) as Hn. cbn [fst snd] in Hn.
  rewrite Forall_forall in Hn. destruct (Hn pc Hpc) as [r [H1 [H2 H3]]].
  exists (l :: r). split; [rewrite H1, <- app_assoc; reflexivity|]. split; [|exact H3].
  rewrite (Hlook vs k l x v r Ek Hv); [exact H2|].
  apply vals_of_length in Ev. rewrite Ev, map_length. reflexivity.
Qed.

Lemma assoc_combine_nodup (keys : list name) (vs : list json) k key v :
  NoDup keys -> nth_error keys k = Some key -> nth_error vs k = Some v -> assoc key (combine keys vs) = Some v.
Proof.
  revert vs k. induction keys as [|x keys IH]; intros vs k Hnd Hk Hv; [destruct k; discriminate|].
  destruct vs as [|y vs]; [destruct k; discriminate|]. inversion Hnd; subst.
  destruct k as [|k]; cbn [nth_error combine assoc] in *.
  - inversion Hk; inversion Hv; subst. rewrite bytes_eqb_refl. reflexivity.
  - destruct (name_eqb key x) eqn:Ex.
    + apply bytes_eqb_eq in Ex. subst. exfalso. apply H1. eapply nth_error_In. exact Hk.
    + eapply IH; eassumption.
Qed.

Section Visible.
  Variables (S : schema) (D : document) (E : env) (fuel : nat).

  Lemma nv_with_args children ot :
    (forall n, nv_completer (children n)) -> forall n, nv_completer (s_with_args S D children ot n).
  Proof.
    intros Hch n ty fields path. unfold s_with_args.
    destruct fields as [|f fs]; [apply nv_throw|].
    destruct (coerce_field_args S D ot f); [apply Hch|apply nv_throw|apply nv_throw].
  Qed.

  Lemma nv_selection_set children ot sels path :
    (forall n, wf_completer (children n)) -> (forall n, nv_completer (children n)) ->
    nulls_visible path (s_selection_set S D E fuel children ot sels path).
  Proof.
    intros Hwf0 Hch0. unfold s_selection_set.
    pose proof (wf_with_args S D children ot Hwf0) as Hwf. pose proof (nv_with_args children ot Hch0) as Hch.
    revert Hwf Hch. generalize (s_with_args S D children ot). clear Hwf0 Hch0 children. intros children Hwf Hch.
    unfold s_selection_set_raw. destruct (s_collect S D E fuel ot sels) as [groups|] eqn:Ec;
      [|intros j Hj; discriminate].
    cbv zeta. set (entries := flat_map (s_entry S children ot path) groups).
    assert (Hnd : NoDup (map fst entries)).
    { apply entries_keys_nodup. unfold s_collect in Ec.
      destruct (s_collect_flat S D E fuel ot sels []) as [[v flat]|]; [|discriminate].
      inversion Ec; subst. apply s_group_nodup. }
    set (lxs := map (fun kx => (PKey (fst kx), snd kx)) entries).
    assert (Hsnd : map snd lxs = map snd entries) by (unfold lxs; rewrite map_map; reflexivity).
    rewrite <- Hsnd. apply nv_all.
    - intros vs k l x v r Hk Hv Hlen. unfold lxs in Hk. rewrite nth_error_map in Hk.
      destruct (nth_error entries k) as [[key x']|] eqn:Ek; [|discriminate]. cbn in Hk. inversion Hk; subst l x'.
      cbn [json_at]. rewrite (assoc_combine_nodup (map fst entries) vs k key v Hnd); [reflexivity| |exact Hv].
      rewrite nth_error_map, Ek. reflexivity.
    - unfold lxs. rewrite Forall_map. cbn [fst snd]. rewrite Forall_forall. intros kx Hkx.
      unfold entries in Hkx. apply in_flat_map in Hkx as [kf [_ Hkx]].
      unfold s_entry in Hkx. destruct (snd kf) as [|f fs]; [destruct Hkx|].
      destruct (s_field_kind S ot (fn_name f)); cbn in Hkx; try (destruct Hkx; fail).
      + destruct Hkx as [<-|[]]. apply nv_ok.
      + destruct Hkx as [<-|[]]. apply nv_ok.
      + destruct Hkx as [<-|[]]. cbn [fst snd]. apply nv_position; [apply Hwf|apply Hch].
  Qed.

  Lemma label_items_nth t fields path items : forall i k l x,
    nth_error (label_items t fields path items i) k = Some (l, x) -> l = PIdx (i + N.of_nat k).
  Proof.
    induction items as [|c r IH]; intros i k l x H; [destruct k; discriminate|].
    cbn [label_items] in H. destruct k as [|k]; cbn [nth_error] in H.
    - inversion H; subst. cbn. rewrite N.add_0_r. reflexivity.
    - apply IH in H. subst. f_equal. lia.
  Qed.

  Lemma nv_view (v : sview) :
    match sv_items v with Some items => Forall wf_completer items /\ Forall nv_completer items | None => True end ->
    (forall n, wf_completer (sv_field v n)) -> (forall n, nv_completer (sv_field v n)) ->
    nv_completer (s_complete_view S D E fuel v).
  Proof.
    intros Hitems Hwf Hfields ty. induction ty as [n|t IH|t IH]; intros fields path.
    - cbn [s_complete_view]. destruct (sv_null v); [apply nv_ok|].
      destruct (lookup_type S n) as [[k|vals|fs ifs|fs|ms|]|]; try apply nv_throw.
      + destruct (coerce_scalar true k (sv_leaf v)); [apply nv_ok|apply nv_throw].
      + destruct (coerce_enum vals (sv_leaf v)); [apply nv_ok|apply nv_throw].
      + apply nv_selection_set; assumption.
      + destruct (s_resolve_abstract S n (sv_tag v)); [apply nv_selection_set; assumption|apply nv_throw].
      + destruct (s_resolve_abstract S n (sv_tag v)); [apply nv_selection_set; assumption|apply nv_throw].
    - cbn [s_complete_view]. destruct (sv_null v); [apply nv_ok|].
      destruct (sv_items v) as [items|]; [|apply nv_throw]. destruct Hitems as [Hwi Hni].
      rewrite s_items_labels. apply nv_all.
      + intros vs k l x v' r Hk Hv Hlen. apply label_items_nth in Hk. subst l. cbn [json_at N.add].
        rewrite Nnat.Nat2N.id, Hv. reflexivity.
      + clear IH. generalize 0%N as i. induction items as [|c r IHr]; intro i; [constructor|].
        inversion Hwi; subst. inversion Hni; subst. cbn [label_items]. constructor; [|apply IHr; assumption].
        cbn [fst snd]. apply nv_position; [apply H1|apply H3].
    - cbn [s_complete_view]. fold (s_complete_view S D E fuel v). specialize (IH fields path).
      destruct (so_val (s_complete_view S D E fuel v t fields path)) as [[| | | | | | |]|] eqn:Ev; try exact IH.
      intros j Hj. discriminate.
  Qed.

  Lemma nv_resolver_error : nv_completer s_resolver_error.
  Proof. intros ty fields path. apply nv_throw. Qed.

  Lemma nv_field_of l : Forall (fun nc => nv_completer (snd nc)) l -> forall n, nv_completer (s_field_of l n).
  Proof.
    intros H n. unfold s_field_of. induction H as [|[k c] l Hc _ IH]; cbn [assoc]; [apply nv_resolver_error|].
    destruct (name_eqb n k); [exact Hc|exact IH].
  Qed.

  Lemma nv_s_resolve o : nv_completer (s_complete S D E fuel o) -> nv_completer (s_resolve S D E fuel o).
  Proof. intro H. destruct o; try exact H. apply nv_resolver_error. Qed.

  Lemma nv_s_complete o : nv_completer (s_complete S D E fuel o).
  Proof.
    induction o as [| | |g|l IH|t fs IH] using outcome_ind'; rewrite s_complete_unfold'; apply nv_view;
      cbn [sv_items sv_field]; try exact I;
        try (intro n; apply wf_resolver_error); try (intro n; apply nv_resolver_error).
    - split; rewrite Forall_map; [rewrite Forall_forall; intros x _; apply wf_s_complete|exact IH].
    - apply wf_field_of. rewrite Forall_map. rewrite Forall_forall. intros [n o'] _. cbn [snd]. apply wf_s_resolve.
    - apply nv_field_of. rewrite Forall_map. eapply Forall_impl; [|exact IH].
      intros [n o'] Ho. cbn [snd] in *. apply nv_s_resolve. exact Ho.
  Qed.

  Lemma nv_s_children_of o n : nv_completer (s_children_of S D E fuel o n).
  Proof.
    destruct o; cbn [s_children_of]; try apply nv_resolver_error.
    apply nv_field_of. rewrite Forall_map. rewrite Forall_forall. intros [k o'] _. cbn [snd].
    apply nv_s_resolve. apply nv_s_complete.
  Qed.

  (** the failure nulls of the reference response are nulls of its data *)
  Theorem failure_nulls_visible W p cands :
    In (p, cands) (failure_nulls (exec_spec S D E fuel W)) ->
    match data (exec_spec S D E fuel W) with
    | Some j => json_at j p = Some JNull
    | None => p = []
    end /\ Forall (under p) cands.
  Proof.
    unfold exec_spec. destruct (s_root_type S (op_kind D)) as [rt|].
    - pose proof (nv_selection_set (s_children_of S D E fuel W) rt (op_sels D) []
                                   (wf_s_children_of S D E fuel W) (nv_s_children_of W)) as Hv.
      pose proof (swf_selection_set S D E fuel (s_children_of S D E fuel W) rt (op_sels D) []
                                    (wf_s_children_of S D E fuel W)) as [Hw _].
      destruct (so_val (s_selection_set S D E fuel (s_children_of S D E fuel W) rt (op_sels D) [])) as [j|] eqn:Ev;
        cbn [data failure_nulls].
      + intro Hin. specialize (Hv j Ev). rewrite Forall_forall in Hv. destruct (Hv _ Hin) as [r [H1 [H2 H3]]].
        cbn [fst snd app] in *. subst r. split; assumption.
      + intros [Hin|[]]. inversion Hin; subst. split; [reflexivity|].
        pose proof (w_under _ _ Hw) as Hu. unfold errs_of in Hu. apply Forall_app in Hu as [_ Hu]. exact Hu.
    - cbn [data failure_nulls]. intros [Hin|[]]. inversion Hin; subst. split; [reflexivity|].
      constructor; [|constructor]. exists []. reflexivity.
  Qed.
End Visible.
