(** * ExeA/ArgData.v — data shared by the executor model and the execution spec (C01).

    Schema, executable document (already parsed, with the positions the parser assigned),
    resolver-outcome tree [W], response values, errors; and the result coercion of the built-in
    scalars (graphql/schema/builtins.go) and of enums (enum_type.go).  No proofs in this file. *)
From Coq Require Import List NArith ZArith Bool.
From ApiFu Require Import Base.Sexp.
From ApiFu Require Val.Values.
Import ListNotations.

Definition name := bytes.                       (* a GraphQL Name / a Go string, as its bytes *)
Definition name_eqb : name -> name -> bool := bytes_eqb.

Record pos := { line : N; col : N }.
Definition pos_eqb (a b : pos) : bool := N.eqb (line a) (line b) && N.eqb (col a) (col b).

Fixpoint assoc {A} (k : name) (l : list (name * A)) : option A :=
  match l with
  | [] => None
  | (k', v) :: r => if name_eqb k k' then Some v else assoc k r
  end.

Fixpoint mem (k : name) (l : list name) : bool :=
  match l with [] => false | x :: r => name_eqb k x || mem k r end.

(** ** Go-level leaf values, with the dynamic type that result coercion switches on *)
Inductive dyadic := Fin (m e : Z) | NaN | PInf | NInf.       (* m * 2^e *)
Inductive ikind := I8 | U8 | I16 | U16 | I32 | U32 | I64 | U64 | IInt | IUint.
Inductive gval :=
| GBool (b : bool)
| GInt (k : ikind) (z : Z)                    (* an integer of Go type k *)
| GF32 (d : dyadic) | GF64 (d : dyadic)       (* float32 / float64 *)
| GString (s : bytes)
| GOther.                                     (* non-nil pointer to a struct: only its kind matters *)

Definition ikind_eqb (a b : ikind) : bool :=
  match a, b with
  | I8, I8 | U8, U8 | I16, I16 | U16, U16 | I32, I32 | U32, U32 | I64, I64 | U64, U64
  | IInt, IInt | IUint, IUint => true
  | _, _ => false
  end.

(** value equality of dyadics (Go [==] on floats: NaN differs from everything, +0 = -0) *)
Definition dy_eqb (a b : dyadic) : bool :=
  match a, b with
  | Fin m1 e1, Fin m2 e2 =>
      if Z.leb e2 e1 then Z.eqb (Z.shiftl m1 (e1 - e2)) m2 else Z.eqb m1 (Z.shiftl m2 (e2 - e1))
  | PInf, PInf => true
  | NInf, NInf => true
  | _, _ => false
  end.

(** Go interface equality [def.Value == result] (enum_type.go:87): same dynamic type, equal value.
    Two [GOther] are distinct allocations. *)
Definition gval_eqb (a b : gval) : bool :=
  match a, b with
  | GBool x, GBool y => Bool.eqb x y
  | GInt k1 z1, GInt k2 z2 => ikind_eqb k1 k2 && Z.eqb z1 z2
  | GF32 x, GF32 y => dy_eqb x y
  | GF64 x, GF64 y => dy_eqb x y
  | GString x, GString y => bytes_eqb x y
  | _, _ => false
  end.

(** ** Schema *)
Inductive scalar_kind := KInt | KFloat | KString | KBoolean | KID.
Inductive sty := StNamed (n : name) | StList (t : sty) | StNonNull (t : sty).

Inductive named_type :=
| NScalar (k : scalar_kind)                                   (* result coercion of built-in k *)
| NEnum (vals : list (name * gval))
| NObject (fields : list (name * sty)) (ifaces : list name)
| NInterface (fields : list (name * sty))
| NUnion (members : list name)
| NInput.                                                     (* input object: not an output type *)

(** Field arguments use the input-coercion development of C05 (Val/Values.v): [Values.lit] AST
    literals, [Values.gval] coerced Go values, [Values.in_def] argument definitions, [Values.env]
    the input types (scalars, enums, input objects). *)
Definition argdefs := list (name * Values.in_def).
Record schema := { types : list (name * named_type);          (* registry *)
                   query : name; mutation : option name; subscription : option name;
                   s_inputs : Values.env;                       (* the input types, C05's view *)
                   s_dt : list (bytes * option bytes);
                   (* C05's oracle for package apifu's DateTime: what time.Time.UnmarshalText says of
                      each string offered to a DateTime position ([Some] canonical rendering / [None]
                      not an RFC 3339 time), computed by the harness with the Go standard library *)
                   s_argdefs : list (name * list (name * argdefs)) }.
                   (* FieldDefinition.Arguments, by object type and field name; absent: none *)

Definition lookup_type (S : schema) (n : name) : option named_type := assoc n (types S).

(** [Schema.InterfaceImplementations(i)]: the registered objects that list [i] *)
Definition impls_of (S : schema) (i : name) : list name :=
  flat_map (fun p => match snd p with
                     | NObject _ ifs => if mem i ifs then [fst p] else []
                     | _ => []
                     end) (types S).

(** ** Executable document *)
Inductive cond := CLit (b : bool) | CVar (v : name).           (* the [if:] argument *)
Inductive directive := DSkip (c : cond) (dp vp : pos) | DInclude (c : cond) (dp vp : pos) | DOther.
   (* [dp] is the directive's Position(), [vp] the Position() of its [if:] value *)

Inductive selection :=
| SField (alias : option name) (n : name) (p : pos) (dirs : list directive) (sub : list selection)
| SSpread (n : name) (p : pos) (dirs : list directive)
| SInline (tc : option name) (p : pos) (dirs : list directive) (sub : list selection).
   (* [p] is the node's Position(): alias or name token of a field, the ellipsis of a fragment *)

Inductive opkind := OpQuery | OpMutation | OpSubscription.
Record fragdef := { fr_name : name; fr_cond : name; fr_sels : list selection }.
Record document := { op_kind : opkind; op_pos : pos; op_sels : list selection;
                     frags : list fragdef;
                     d_args : list (pos * list (name * Values.lit));
                     (* ast.Field.Arguments of the field node at that position (nodes are
                        identified by their position, as in the executor's cache key); absent: none *)
                     d_vars : list (name * Values.gval) }.
                     (* executor.VariableValues: the coerced variables of this execution *)

Definition sel_pos (s : selection) : pos :=
  match s with SField _ _ p _ _ => p | SSpread _ p _ => p | SInline _ p _ _ => p end.
Definition sel_dirs (s : selection) : list directive :=
  match s with SField _ _ _ d _ => d | SSpread _ _ d => d | SInline _ _ d _ => d end.

(** a field node as the executor holds it (a pointer to ast.Field): name, Position(), sub-selections *)
Record fnode := { fn_name : name; fn_pos : pos; fn_sub : list selection }.

(** coerced variable values, as far as @skip/@include look at them: [Some b] a boolean, [None]
    an explicit null (possible for a nullable variable with a default); a variable that is not
    listed has no value *)
Definition env := list (name * option bool).

(** ** Resolver-outcome tree *)
Inductive outcome :=
| ONil                                   (* untyped nil *)
| OTypedNil                              (* nil pointer of some pointer type *)
| OErr                                   (* the resolver returns a non-nil error *)
| OLeaf (g : gval)
| OList (items : list outcome)           (* a Go slice *)
| OObj (tag : name) (fields : list (name * outcome)).
   (* an object value: [tag] drives IsTypeOf; the resolver of field f of this value answers with
      the outcome stored under f (a resolver error when there is none) *)

(** ** Results *)
Inductive json :=
| JNull | JBool (b : bool) | JInt (z : Z) | JFloat (d : dyadic) | JStr (s : bytes)
| JArr (xs : list json) | JObj (kvs : list (name * json))
| JMeta.                                 (* the (uninterpreted) value of __schema / __type *)

(** every Float in a response value is finite (so the value has a JSON form) *)
Fixpoint json_finite (j : json) : bool :=
  match j with
  | JFloat (Fin _ _) => true
  | JFloat _ => false
  | JArr xs => forallb json_finite xs
  | JObj kvs => forallb (fun kv => json_finite (snd kv)) kvs
  | _ => true
  end.

Inductive pathc := PKey (k : name) | PIdx (i : N).
Definition rpath := list pathc.
Record gerror := { e_path : rpath; e_locs : list pos }.

Definition pathc_eqb (a b : pathc) : bool :=
  match a, b with
  | PKey x, PKey y => name_eqb x y
  | PIdx x, PIdx y => N.eqb x y
  | _, _ => false
  end.
Fixpoint list_eqb {A} (f : A -> A -> bool) (a b : list A) : bool :=
  match a, b with
  | [], [] => true
  | x :: a', y :: b' => f x y && list_eqb f a' b'
  | _, _ => false
  end.
Definition gerror_eqb (a b : gerror) : bool :=
  list_eqb pathc_eqb (e_path a) (e_path b) && list_eqb pos_eqb (e_locs a) (e_locs b).

(** ** Result coercion of the built-in scalars (builtins.go) *)
Definition max_int32 : Z := 2147483647.
Definition min_int32 : Z := -2147483648.
Definition max_int64 : Z := 9223372036854775807.
Definition in_int32 (z : Z) : bool := Z.leb min_int32 z && Z.leb z max_int32.

(** [math.Trunc(v) == v && MinInt32 <= v <= MaxInt32] on an exact dyadic *)
Definition dy_to_int32 (d : dyadic) : option Z :=
  match d with
  | Fin m e =>
      if Z.eqb m 0 then Some 0%Z
      else if Z.leb 0 e then
        if Z.ltb 40 e then None
        else let v := Z.shiftl m e in if in_int32 v then Some v else None
      else
        let k := Z.opp e in
        if Z.eqb (Z.land m (Z.ones k)) 0 then
          let v := Z.shiftr m k in if in_int32 v then Some v else None
        else None
  | _ => None
  end.

(** the range of each Go integer type *)
Definition ikind_range (k : ikind) : Z * Z :=
  match k with
  | I8 => (-128, 127) | U8 => (0, 255) | I16 => (-32768, 32767) | U16 => (0, 65535)
  | I32 => (min_int32, max_int32) | U32 => (0, 4294967295)
  | I64 | IInt => (-9223372036854775808, max_int64)
  | U64 | IUint => (0, 18446744073709551615)
  end%Z.
Definition gval_wf (g : gval) : Prop :=
  match g with
  | GInt k z => (fst (ikind_range k) <= z <= snd (ikind_range k))%Z
  | _ => True
  end.

(** coerceInt *)
Definition coerce_int (g : gval) : option Z :=
  match g with
  | GBool b => Some (if b then 1 else 0)%Z
  | GInt k z =>
      match k with
      | I8 | U8 | I16 | U16 | I32 => Some z
      | U32 | U64 | IUint => if Z.leb z max_int32 then Some z else None
      | I64 | IInt => if in_int32 z then Some z else None
      end
  | GF32 d | GF64 d => dy_to_int32 d
  | GString _ | GOther => None
  end.

(** float64(z) for an integer z: round to nearest, ties to even, 53-bit significand *)
Definition round_f64 (z : Z) : dyadic :=
  let a := Z.abs z in
  if Z.ltb a 9007199254740992 then Fin z 0
  else
    let k := (Z.log2 a - 52)%Z in
    let q := Z.shiftr a k in
    let r := Z.land a (Z.ones k) in
    let half := Z.shiftl 1 (k - 1) in
    let q' := if Z.ltb half r then (q + 1)%Z
              else if Z.ltb r half then q
              else if Z.even q then q else (q + 1)%Z in
    Fin (if Z.ltb z 0 then Z.opp q' else q') k.

Definition dy_finite (d : dyadic) : bool := match d with Fin _ _ => true | _ => false end.

(** coerceFloat; [fix7 = false] is the code before the repair of defect 7 (non-finite accepted) *)
Definition coerce_float (fix7 : bool) (g : gval) : option dyadic :=
  match g with
  | GBool b => Some (Fin (if b then 1 else 0) 0)
  | GInt _ z => Some (round_f64 z)
  | GF32 d | GF64 d => if fix7 then (if dy_finite d then Some d else None) else Some d
  | GString _ | GOther => None
  end.

(** strconv.FormatInt(z, 10) *)
Fixpoint dec_digits (fuel : nat) (n : N) (acc : bytes) : bytes :=
  match fuel with
  | O => acc
  | S f => if N.ltb n 10 then (48 + n)%N :: acc
           else dec_digits f (N.div n 10) ((48 + N.modulo n 10)%N :: acc)
  end.
Definition dec_of_Z (z : Z) : bytes :=
  let n := Z.to_N (Z.abs z) in
  let ds := dec_digits (S (N.to_nat (N.size n))) n [] in
  if Z.ltb z 0 then 45%N :: ds else ds.

Definition coerce_id (g : gval) : option bytes :=
  match g with
  | GInt k z =>
      match k with
      | U64 | IUint => if Z.leb z max_int64 then Some (dec_of_Z z) else None
      | _ => Some (dec_of_Z z)
      end
  | GString s => Some s
  | _ => None
  end.

Definition coerce_scalar (fix7 : bool) (k : scalar_kind) (g : gval) : option json :=
  match k with
  | KInt => option_map JInt (coerce_int g)
  | KFloat => option_map JFloat (coerce_float fix7 g)
  | KString => match g with GString s => Some (JStr s) | _ => None end
  | KBoolean => match g with GBool b => Some (JBool b) | _ => None end
  | KID => option_map JStr (coerce_id g)
  end.

(** EnumType.CoerceResult: the name whose Go value equals the result *)
Fixpoint coerce_enum (vals : list (name * gval)) (g : gval) : option json :=
  match vals with
  | [] => None
  | (n, v) :: r => if gval_eqb v g then Some (JStr n) else coerce_enum r g
  end.

(** the Go value a completion step looks at: a leaf or something whose only relevant property is
    that no scalar/enum coercion accepts it (slices, object values, an error value inside a slice) *)
Definition leaf_of (o : outcome) : gval :=
  match o with OLeaf g => g | _ => GOther end.

(** isNil(result) *)
Definition is_nil (o : outcome) : bool :=
  match o with ONil | OTypedNil => true | _ => false end.

(** names used by the executor itself *)
Definition n_typename : name := [95;95;116;121;112;101;110;97;109;101]%N.      (* __typename *)
Definition n_schema : name := [95;95;115;99;104;101;109;97]%N.                  (* __schema *)
Definition n_type : name := [95;95;116;121;112;101]%N.                          (* __type *)

(** ** A whole executable document: several operations sharing the fragment definitions *)
Record operation := { o_name : option name; o_kind : opkind; o_pos : pos; o_sels : list selection;
                      o_vardefs : list (Values.vardef * pos) }.
                      (* VariableDefinitions, each with the Position() of its variable node *)
Record request_doc := { r_ops : list operation; r_frags : list fragdef;
                        r_args : list (pos * list (name * Values.lit)) }.
(** the document as one operation sees it, executed with the coerced variables [vv] *)
Definition doc_of (R : request_doc) (o : operation) (vv : list (name * Values.gval)) : document :=
  {| op_kind := o_kind o; op_pos := o_pos o; op_sels := o_sels o; frags := r_frags R;
     d_args := r_args R; d_vars := vv |}.
