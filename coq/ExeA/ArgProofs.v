(** * ExeA/ArgProofs.v — the C01 theorems about whole requests (stage 1: executor without memo) *)
From Coq Require Import List NArith ZArith Bool Lia.
From ApiFu Require Import Base.Sexp ExeA.ArgData ExeA.ArgArgs ExeA.ArgModel ExeA.ArgSpec
     ExeA.ArgBaseProofs ExeA.ArgCollectProofs ExeA.ArgSpecProofs ExeA.ArgDirProofs ExeA.ArgSimProofs.
Import ListNotations.

Section Top.
  Variables (M : mode) (S : schema) (D : document) (E : env) (fuel : nat).
  Hypothesis Hfix1 : fix1 M = true.
  Hypothesis Hfix7 : fix7 M = true.
  Hypothesis Hmemo : memo M = false.

  (** everything at once: for a well-typed document the executor finishes, and its response is
      related to the reference response *)
  (** [wd = true]: the document's directive conditions are all evaluable ([doc_ok]); [wd = false]:
      they need not be, but then the executor at hand must be silent about them ([report M =
      false]: a proof device, see [run_report_independent]) *)
  Theorem run_refines_spec_gen wd n W :
    (report M = true -> wd = true) ->
    conds_gen S D E wd = true ->
    match s_root_type S (op_kind D) with Some rt => sels_ok S D E fuel n rt (op_sels D) | None => false end = true ->
    exists errs,
      run M S D E fuel W = Done (data (exec_spec S D E fuel W)) errs /\
      subseq errs (all_errors (exec_spec S D E fuel W)) /\
      Forall (explained errs) (failure_nulls (exec_spec S D E fuel W)).
  Proof.
    intros Hb Hconds Hroot.
    unfold run, exec_spec. change (root_type S (op_kind D)) with (s_root_type S (op_kind D)).
    destruct (s_root_type S (op_kind D)) as [rt|]; [|discriminate].
    assert (Hcs : forallb (sel_conds_gen S E wd) (op_sels D) = true).
    { unfold conds_gen in Hconds. apply andb_true_iff in Hconds as [H _]. exact H. }
    pose proof (sim_selections M S D E fuel Hmemo wd Hconds Hb n
                               (children_of M S D E fuel W) (s_children_of S D E fuel W) rt (op_sels D) [] init_state
                               (children_sim M S D E fuel Hfix1 Hfix7 Hmemo wd Hconds Hb W)
                               (wf_s_children_of S D E fuel W) Hroot Hcs) as H.
    pose proof (swf_selection_set S D E fuel (s_children_of S D E fuel W) rt (op_sels D) []
                                  (wf_s_children_of S D E fuel W)) as [Hw _].
    set (x := s_selection_set S D E fuel (s_children_of S D E fuel W) rt (op_sels D) []) in *.
    destruct (exec_selections M S D E fuel (children_of M S D E fuel W) rt (op_sels D) [] init_state) as [r st].
    cbn [fst snd] in H. destruct H as [_ [new [He [Hs Hr]]]]. cbn [init_state st_errs app] in He.
    destruct r as [j|e| |]; try (destruct Hr; fail).
    - destruct Hr as [Hv Hn]. rewrite Hv. cbn [data all_errors failure_nulls].
      exists (st_errs st). rewrite He. split; [reflexivity|]. split; [exact Hs|exact Hn].
    - destruct Hr as [Hv Hin]. rewrite Hv. cbn [data all_errors failure_nulls].
      exists (st_errs st ++ [e]). rewrite He. split; [reflexivity|].
      split; [apply subseq_app; [exact Hs|apply subseq_single; exact Hin]|].
      constructor; [|constructor]. unfold explained. cbn [snd]. fold (count_in (so_thrown x) (new ++ [e])).
      rewrite count_in_app, (count_in_single _ _ Hin).
      rewrite count_in_zero; [reflexivity|].
      intros e' He' Hin'. pose proof (w_nodup _ _ Hw) as Hnd. unfold errs_of in Hnd. rewrite map_app in Hnd.
      apply (NoDup_app_disjoint _ _ (e_path e') Hnd); apply in_map; [apply (subseq_incl _ _ Hs); exact He'|exact Hin'].
  Qed.

  Theorem run_refines_spec n W :
    doc_ok S D E fuel n = true ->
    exists errs,
      run M S D E fuel W = Done (data (exec_spec S D E fuel W)) errs /\
      subseq errs (all_errors (exec_spec S D E fuel W)) /\
      Forall (explained errs) (failure_nulls (exec_spec S D E fuel W)).
  Proof.
    intro Hok. unfold doc_ok in Hok. apply andb_true_iff in Hok as [Hconds Hroot].
    apply (run_refines_spec_gen true n W (fun _ => eq_refl)); [|exact Hroot].
    rewrite conds_gen_true. exact Hconds.
  Qed.

  (** without the directive conjunct, for an executor that is silent about unevaluable directives *)
  Theorem run_silent_data n W :
    report M = false -> doc_ok_nodirs S D E fuel n = true ->
    exists errs, run M S D E fuel W = Done (data (exec_spec S D E fuel W)) errs.
  Proof.
    intros Hr Hok. unfold doc_ok_nodirs in Hok. apply andb_true_iff in Hok as [Hconds Hroot].
    assert (Hb : report M = true -> false = true) by (intro H; rewrite Hr in H; discriminate).
    destruct (run_refines_spec_gen false n W Hb Hconds Hroot) as [errs [H _]].
    exists errs. exact H.
  Qed.
End Top.

(** ** the executor as it is (memo cache on, both repairs in) *)
From ApiFu Require Import ExeA.ArgHyps ExeA.ArgDirProofs ExeA.ArgCacheProofs ExeA.ArgReportProofs.

Section Fixed.
  Variables (S : schema) (D : document) (E : env) (fuel : nat).
  Hypothesis Hnames : type_names_okb S = true.
  Hypothesis Hpos : doc_positions_okb D = true.

  (** stage 2: GroupedFieldSetCache never changes a response (no typing premise needed) *)
  Theorem collect_cache_transparent W : run fixed S D E fuel W = run fixed_nomemo S D E fuel W.
  Proof.
    destruct (doc_positions_okb_sound D Hpos) as [Hinj Hsmall].
    apply (run_memo_transparent fixed fixed_nomemo S D E fuel); try reflexivity; try assumption.
    apply type_names_okb_sound. exact Hnames.
  Qed.

  Variable n : nat.
  Hypothesis Hdoc : doc_ok S D E fuel n = true.

  Lemma fixed_refines W :
    exists errs,
      run fixed S D E fuel W = Done (data (exec_spec S D E fuel W)) errs /\
      subseq errs (all_errors (exec_spec S D E fuel W)) /\
      Forall (explained errs) (failure_nulls (exec_spec S D E fuel W)).
  Proof.
    rewrite (collect_cache_transparent W).
    apply (run_refines_spec fixed_nomemo S D E fuel eq_refl eq_refl eq_refl n W Hdoc).
  Qed.

  (** no panic, no fuel exhaustion *)
  Theorem exec_total W : exists d errs, run fixed S D E fuel W = Done d errs.
  Proof. destruct (fixed_refines W) as [errs [H _]]. eauto. Qed.

  Theorem exec_data_eq W d errs :
    run fixed S D E fuel W = Done d errs -> d = data (exec_spec S D E fuel W).
  Proof. destruct (fixed_refines W) as [errs' [H _]]. rewrite H. intro H'. inversion H'. reflexivity. Qed.

  (** the reported errors, in order, are a subsequence of the reference's errors *)
  Theorem exec_errors_subseq W d errs :
    run fixed S D E fuel W = Done d errs -> subseq errs (all_errors (exec_spec S D E fuel W)).
  Proof. destruct (fixed_refines W) as [errs' [H [Hs _]]]. rewrite H. intro H'. inversion H'; subst. exact Hs. Qed.

  Theorem exec_errors_sound W d errs :
    run fixed S D E fuel W = Done d errs -> sub_multiset_of errs (all_errors (exec_spec S D E fuel W)).
  Proof.
    intros H e. unfold count. apply subseq_filter_length. eapply exec_errors_subseq. exact H.
  Qed.

  Theorem exec_errors_complete W d errs :
    run fixed S D E fuel W = Done d errs ->
    Forall (explained errs) (failure_nulls (exec_spec S D E fuel W)).
  Proof. destruct (fixed_refines W) as [errs' [H [_ Hc]]]. rewrite H. intro H'. inversion H'; subst. exact Hc. Qed.

  (** *** the same without the directive conjunct of [doc_ok] (no statement about the errors):
      the cache is transparent; without the cache the result does not depend on what has been
      reported ([run_report_independent]); and the executor that is silent about unevaluable
      directives refines the reference under [doc_ok_nodirs] *)
  Lemma fixed_data_nodirs m W :
    doc_ok_nodirs S D E fuel m = true ->
    exists errs, run fixed S D E fuel W = Done (data (exec_spec S D E fuel W)) errs.
  Proof.
    intro Hd. rewrite (collect_cache_transparent W).
    destruct (run_silent_data silent_nomemo S D E fuel eq_refl eq_refl eq_refl m W eq_refl Hd) as [errs0 H0].
    pose proof (run_report_independent fixed_nomemo silent_nomemo S D E fuel eq_refl eq_refl eq_refl eq_refl W) as Hs.
    rewrite H0 in Hs. destruct (run fixed_nomemo S D E fuel W) as [d errs| |]; cbn in Hs; try (destruct Hs; fail).
    subst d. exists errs. reflexivity.
  Qed.

  Theorem exec_total_nodirs m W :
    doc_ok_nodirs S D E fuel m = true -> exists d errs, run fixed S D E fuel W = Done d errs.
  Proof. intro Hd. destruct (fixed_data_nodirs m W Hd) as [errs H]. eauto. Qed.

  Theorem exec_data_eq_nodirs m W d errs :
    doc_ok_nodirs S D E fuel m = true ->
    run fixed S D E fuel W = Done d errs -> d = data (exec_spec S D E fuel W).
  Proof. intros Hd H. destruct (fixed_data_nodirs m W Hd) as [errs' H']. rewrite H' in H. inversion H. reflexivity. Qed.

  Theorem exec_data_finite_nodirs m W j errs :
    doc_ok_nodirs S D E fuel m = true ->
    run fixed S D E fuel W = Done (Some j) errs -> json_finite j = true.
  Proof.
    intros Hd H. apply (exec_data_eq_nodirs m W _ _ Hd) in H. symmetry in H. eapply spec_data_finite. exact H.
  Qed.

  (** the repaired defect 7: data always has a JSON form *)
  Theorem exec_data_finite W j errs :
    run fixed S D E fuel W = Done (Some j) errs -> json_finite j = true.
  Proof.
    intro H. apply exec_data_eq in H. symmetry in H. eapply spec_data_finite. exact H.
  Qed.
End Fixed.

(** ** the two repaired defects, kept as witnesses: the code before each repair violates the property *)
Definition before_fix1 : mode := {| fix1 := false; fix7 := true; memo := true; fixd := true; fullkey := true; report := true |}.
Definition before_fix7 : mode := {| fix1 := true; fix7 := false; memo := true; fixd := true; fullkey := true; report := true |}.

Definition w_Q : name := [81]%N.
Definition w_Int : name := [73; 110; 116]%N.
Definition w_Float : name := [70; 108; 111; 97; 116]%N.
Definition w_f : name := [102]%N.
Definition w_schema : schema :=
  {| types := [(w_Int, NScalar KInt); (w_Float, NScalar KFloat);
               (w_Q, NObject [(w_f, StNonNull (StNamed w_Int)); (w_Float, StNamed w_Float)] [])];
     query := w_Q; mutation := None; subscription := None; s_inputs := []; s_dt := []; s_argdefs := [] |}.
(** {f}  with  f: Int!  whose resolver returns a string *)
Definition w_doc1 : document :=
  {| op_kind := OpQuery; op_pos := {| line := 1; col := 1 |};
     op_sels := [SField None w_f {| line := 1; col := 2 |} [] []]; frags := []; d_args := []; d_vars := [] |}.
Definition w_W1 : outcome := OObj w_Q [(w_f, OLeaf (GString [120]%N))].
(** {Float}  with  Float: Float  whose resolver returns NaN *)
Definition w_doc7 : document :=
  {| op_kind := OpQuery; op_pos := {| line := 1; col := 1 |};
     op_sels := [SField None w_Float {| line := 1; col := 2 |} [] []]; frags := []; d_args := []; d_vars := [] |}.
Definition w_W7 : outcome := OObj w_Q [(w_Float, OLeaf (GF64 NaN))].

Theorem exec_data_eq_refuted_before_fix1 :
  exists S D E fuel n W d errs,
    doc_ok S D E fuel n = true /\ type_names_okb S = true /\ doc_positions_okb D = true /\
    run before_fix1 S D E fuel W = Done d errs /\
    d <> data (exec_spec S D E fuel W) /\ errs = [].
Proof.
  exists w_schema, w_doc1, [], 2%nat, 2%nat, w_W1, (Some (JObj [(w_f, JNull)])), [].
  vm_compute. repeat split; try reflexivity. discriminate.
Qed.

Theorem exec_data_finite_refuted_before_fix7 :
  exists S D E fuel n W j errs,
    doc_ok S D E fuel n = true /\ type_names_okb S = true /\ doc_positions_okb D = true /\
    run before_fix7 S D E fuel W = Done (Some j) errs /\ json_finite j = false.
Proof.
  exists w_schema, w_doc7, [], 2%nat, 2%nat, w_W7, (JObj [(w_Float, JFloat NaN)]), [].
  vm_compute. repeat split; reflexivity.
Qed.

(** ** the memo cache is NOT transparent when a directive cannot be evaluated: collectFields reports
    the directive's error once per cache miss.  { l { a @include(if: $s) } }  with  l: [O]  of two
    objects and no value for $s: one error with the cache, two without. *)
Definition w_O : name := [79]%N.
Definition w_l : name := [108]%N.
Definition w_a : name := [97]%N.
Definition w_s : name := [115]%N.
Definition w_schema_l : schema :=
  {| types := [(w_Int, NScalar KInt);
               (w_Q, NObject [(w_l, StList (StNamed w_O))] []);
               (w_O, NObject [(w_a, StNamed w_Int)] [])];
     query := w_Q; mutation := None; subscription := None; s_inputs := []; s_dt := []; s_argdefs := [] |}.
Definition w_doc_l : document :=
  {| op_kind := OpQuery; op_pos := {| line := 1; col := 1 |};
     op_sels := [SField None w_l {| line := 1; col := 3 |} []
                   [SField None w_a {| line := 1; col := 7 |}
                      [DInclude (CVar w_s) {| line := 1; col := 9 |} {| line := 1; col := 22 |}] []]];
     frags := []; d_args := []; d_vars := [] |}.
Definition w_W_l : outcome :=
  OObj w_Q [(w_l, OList [OObj w_O [(w_a, OLeaf (GInt IInt 1))]; OObj w_O [(w_a, OLeaf (GInt IInt 1))]])].

(** before the repair (every traversal reports): one error with the cache, two without; after it:
    one, with and without *)
Definition before_fixd : mode := {| fix1 := true; fix7 := true; memo := true; fixd := false; fullkey := true; report := true |}.
Definition before_fixd_nomemo : mode := {| fix1 := true; fix7 := true; memo := false; fixd := false; fullkey := true; report := true |}.

Theorem collect_cache_transparent_refuted_before_fixd :
  exists S D E fuel W,
    type_names_okb S = true /\ doc_positions_okb D = true /\ dirs_evaluable D E = false /\
    exists d e, run before_fixd S D E fuel W = Done d [e] /\ run before_fixd_nomemo S D E fuel W = Done d [e; e] /\
                run fixed S D E fuel W = Done d [e] /\ run fixed_nomemo S D E fuel W = Done d [e].
Proof.
  exists w_schema_l, w_doc_l, [], 2%nat, w_W_l.
  repeat split; try (vm_compute; reflexivity).
  exists (Some (JObj [(w_l, JArr [JObj []; JObj []])])), {| e_path := []; e_locs := [{| line := 1; col := 9 |}] |}.
  vm_compute. repeat split; reflexivity.
Qed.

(** ** a memo key that keeps only (type, first selection, number of selections) is NOT transparent.
    { p: o { ...F o { s } }  q: o { ...F o { sn } } }   fragment F on O { o { __typename } }
    The node o of F merges with o{s} under p and with o{sn} under q: the merged sub-selection lists
    [__typename@F; s] and [__typename@F; sn] have the same type O, the same first node and the
    same length, so q.o is executed with the grouped field set cached for p.o. *)
Definition coarse_memo : mode := {| fix1 := true; fix7 := true; memo := true; fixd := true; fullkey := false; report := true |}.
Definition w_o : name := [111]%N.
Definition w_p : name := [112]%N.
Definition w_q : name := [113]%N.
Definition w_sn : name := [115; 110]%N.
Definition w_F : name := [70]%N.
Definition w_schema_k : schema :=
  {| types := [(w_Int, NScalar KInt);
               (w_Q, NObject [(w_o, StNamed w_O)] []);
               (w_O, NObject [(w_o, StNamed w_O); (w_s, StNamed w_Int); (w_sn, StNamed w_Int)] [])];
     query := w_Q; mutation := None; subscription := None; s_inputs := []; s_dt := []; s_argdefs := [] |}.
Definition w_at (l c : N) : pos := {| line := l; col := c |}.
Definition w_doc_k : document :=
  {| op_kind := OpQuery; op_pos := w_at 1 1;
     op_sels := [ SField (Some w_p) w_o (w_at 1 2) []
                    [SSpread w_F (w_at 1 8) []; SField None w_o (w_at 1 13) [] [SField None w_s (w_at 1 16) [] []]];
                  SField (Some w_q) w_o (w_at 1 20) []
                    [SSpread w_F (w_at 1 26) []; SField None w_o (w_at 1 31) [] [SField None w_sn (w_at 1 34) [] []]] ];
     frags := [ {| fr_name := w_F; fr_cond := w_O;
                   fr_sels := [SField None w_o (w_at 2 17) [] [SField None n_typename (w_at 2 20) [] []]] |} ];
     d_args := []; d_vars := [] |}.
Definition w_W_k : outcome :=
  OObj w_Q [(w_o, OObj w_O [(w_o, OObj w_O [(w_s, OLeaf (GInt IInt 1)); (w_sn, OLeaf (GInt IInt 2))])])].

Theorem collect_cache_transparent_refuted_coarse_key :
  exists S D E fuel n W,
    type_names_okb S = true /\ doc_positions_okb D = true /\ doc_ok S D E fuel n = true /\
    run coarse_memo S D E fuel W <> run fixed_nomemo S D E fuel W /\
    run fixed S D E fuel W = run fixed_nomemo S D E fuel W /\
    (* the two merged lists: different selections, same coarse key, different full key *)
    exists ot l1 l2, l1 <> l2 /\ coarse_key ot l1 = coarse_key ot l2 /\ cache_key ot l1 <> cache_key ot l2.
Proof.
  exists w_schema_k, w_doc_k, [], 4%nat, 4%nat, w_W_k.
  repeat split; try (vm_compute; reflexivity); try (vm_compute; discriminate).
  exists w_O, [SField None n_typename (w_at 2 20) [] []; SField None w_s (w_at 1 16) [] []],
         [SField None n_typename (w_at 2 20) [] []; SField None w_sn (w_at 1 34) [] []].
  repeat split; try (vm_compute; reflexivity); try (vm_compute; discriminate); discriminate.
Qed.

(** ** the level bound of [doc_ok]: [doc_depth D + 1] is not enough (nesting continues through
    fragment spreads), [default_fuel D] is, here:  { o { ...F } }  F on O { o { ...G } }  G on O { o { s } } *)
Definition w_G : name := [71]%N.
Definition w_doc_lv : document :=
  {| op_kind := OpQuery; op_pos := w_at 1 1;
     op_sels := [ SField None w_o (w_at 1 2) [] [SSpread w_F (w_at 1 6) []] ];
     frags := [ {| fr_name := w_F; fr_cond := w_O; fr_sels := [SField None w_o (w_at 2 17) [] [SSpread w_G (w_at 2 21) []]] |};
                {| fr_name := w_G; fr_cond := w_O; fr_sels := [SField None w_o (w_at 3 17) [] [SField None w_s (w_at 3 21) [] []]] |} ];
     d_args := []; d_vars := [] |}.

Theorem level_bound_depth_plus_one_refuted :
  exists S D E,
    doc_ok S D E (default_fuel D) (doc_depth D + 1) = false /\
    doc_ok S D E (default_fuel D) (default_fuel D) = true.
Proof. exists w_schema_k, w_doc_lv, []. vm_compute. split; reflexivity. Qed.
