(** * ExeA/ArgDirProofs.v — directives whose condition cannot be evaluated (C01).
    collectFieldsImpl appends an error for each of them ([collect_errs]); when every condition of
    the document has a boolean value there is none, and collectFields leaves the state alone. *)
From Coq Require Import List NArith ZArith Bool.
From ApiFu Require Import Base.Sexp ExeA.ArgData ExeA.ArgArgs ExeA.ArgModel ExeA.ArgSpec ExeA.ArgHyps ExeA.ArgBaseProofs ExeA.ArgCollectProofs.
Import ListNotations.

Lemma add_errs_nil st : add_errs [] st = st.
Proof. destruct st as [e c]. unfold add_errs. cbn. rewrite app_nil_r. reflexivity. Qed.

(** ** reporting the directive errors of one traversal *)
Lemma report_errs_nil once st : report_errs once [] st = st.
Proof. reflexivity. Qed.

Lemma report_errs_cons once e es st :
  report_errs once (e :: es) st =
  report_errs once es (if once && existsb (gerror_eqb e) (st_errs st) then st else add_err e st).
Proof. reflexivity. Qed.

Lemma report_cache once es : forall st, st_cache (report_errs once es st) = st_cache st.
Proof.
  induction es as [|e es IH]; intro st; [reflexivity|]. rewrite report_errs_cons, IH.
  destruct (once && existsb (gerror_eqb e) (st_errs st)); reflexivity.
Qed.

(** only the error list matters *)
Lemma report_errs_same once es : forall st1 st2,
  st_errs st1 = st_errs st2 -> st_errs (report_errs once es st1) = st_errs (report_errs once es st2).
Proof.
  induction es as [|e es IH]; intros st1 st2 H; [exact H|]. rewrite !report_errs_cons. apply IH.
  rewrite H. destruct (once && existsb (gerror_eqb e) (st_errs st2)); [exact H|]. cbn [add_err st_errs]. rewrite H. reflexivity.
Qed.

Lemma report_mono once es : forall st, incl (st_errs st) (st_errs (report_errs once es st)).
Proof.
  induction es as [|e es IH]; intro st; [apply incl_refl|]. rewrite report_errs_cons.
  eapply incl_tran; [|apply IH].
  destruct (once && existsb (gerror_eqb e) (st_errs st)); [apply incl_refl|]. cbn [add_err st_errs]. apply incl_appl, incl_refl.
Qed.

Lemma report_incl es : forall st, incl es (st_errs (report_errs true es st)).
Proof.
  induction es as [|e es IH]; intro st; [intros x []|]. rewrite report_errs_cons. intros x [<-|Hx]; [|exact (IH _ x Hx)].
  apply (report_mono true es). cbn [andb].
  destruct (existsb (gerror_eqb e) (st_errs st)) eqn:Ex.
  - apply existsb_exists in Ex as [y [Hy Hey]]. apply gerror_eqb_eq in Hey. subst y. exact Hy.
  - cbn [add_err st_errs]. apply in_or_app. right. left. reflexivity.
Qed.

Lemma report_all_in es : forall st, incl es (st_errs st) -> report_errs true es st = st.
Proof.
  induction es as [|e es IH]; intros st H; [reflexivity|]. rewrite report_errs_cons. cbn [andb].
  assert (Ex : existsb (gerror_eqb e) (st_errs st) = true).
  { apply existsb_exists. exists e. split; [apply H; left; reflexivity|apply gerror_eqb_eq; reflexivity]. }
  rewrite Ex. apply IH. intros x Hx. apply H. right. exact Hx.
Qed.

Section DirErrs.
  Variables (S : schema) (D : document) (E : env).

  Lemma collect_errs_eq fuel ot sels visited :
    collect_errs S D E fuel ot sels visited =
    match sels with
    | [] => (visited, [])
    | s :: rest =>
        if skipped E (sel_dirs s) then
          let r := collect_errs S D E fuel ot rest visited in (fst r, dirs_errors E (sel_dirs s) ++ snd r)
        else
          let descend (sub : list selection) (visited' : list name) :=
            match fuel with
            | O => (visited', [])
            | Datatypes.S fuel' =>
                let r1 := collect_errs S D E fuel' ot sub visited' in
                let r2 := collect_errs S D E fuel ot rest (fst r1) in (fst r2, snd r1 ++ snd r2)
            end in
          match s with
          | SField _ _ _ _ _ => collect_errs S D E fuel ot rest visited
          | SSpread n _ _ =>
              if mem n visited then collect_errs S D E fuel ot rest visited
              else
                let visited' := n :: visited in
                match find_frag n (frags D) with
                | None => collect_errs S D E fuel ot rest visited'
                | Some f =>
                    match type_applies S ot (fr_cond f) with
                    | ApNo => collect_errs S D E fuel ot rest visited'
                    | ApPanic => (visited', [])
                    | ApYes => descend (fr_sels f) visited'
                    end
                end
          | SInline tc _ _ sub =>
              match tc with
              | None => descend sub visited
              | Some c =>
                  match type_applies S ot c with
                  | ApNo => collect_errs S D E fuel ot rest visited
                  | ApPanic => (visited, [])
                  | ApYes => descend sub visited
                  end
              end
          end
    end.
  Proof. destruct fuel; destruct sels; reflexivity. Qed.

  (** a directive with a boolean condition reports nothing *)
  Lemma dir_ok_no_error d : dir_ok E d = true -> dir_errors E d = [].
  Proof.
    destruct d as [c dp vp|c dp vp|]; cbn; [| |reflexivity];
      (destruct c as [b|v]; cbn; [reflexivity|];
       destruct (assoc v E) as [[b|]|]; [reflexivity|discriminate|discriminate]).
  Qed.

  Lemma dirs_ok_no_errors s : dirs_ok E s = true -> dirs_errors E (sel_dirs s) = [].
  Proof.
    unfold dirs_ok, dirs_errors. induction (sel_dirs s) as [|d ds IH]; [reflexivity|].
    cbn [forallb flat_map]. intro H. apply andb_true_iff in H as [H1 H2].
    rewrite (dir_ok_no_error d H1), (IH H2). reflexivity.
  Qed.

  (** [P]: an invariant of the selections the traversal meets *)
  Variable P : selection -> Prop.
  Hypothesis P_dirs : forall s, P s -> dirs_ok E s = true.
  Hypothesis P_inline : forall tc p d sub, P (SInline tc p d sub) -> Forall P sub.
  Hypothesis P_frag : forall f, In f (frags D) -> Forall P (fr_sels f).

  Lemma collect_errs_nil fuel : forall ot sels visited,
    Forall P sels -> snd (collect_errs S D E fuel ot sels visited) = [].
  Proof.
    induction fuel as [|fuel IHf]; intros ot sels;
      induction sels as [|s rest IH]; intros visited HP;
      rewrite collect_errs_eq; try reflexivity;
      inversion HP as [|s' rest' Hs Hrest]; subst;
      cbv zeta;
      (destruct (skipped E (sel_dirs s));
       [cbn [snd]; rewrite (dirs_ok_no_errors s (P_dirs s Hs)), (IH _ Hrest); reflexivity|]);
      destruct s as [a n p ds sub|n p ds|tc p ds sub].
    - apply IH; exact Hrest.
    - destruct (mem n visited); [apply IH; exact Hrest|].
      destruct (find_frag n (frags D)) as [f|]; [|apply IH; exact Hrest].
      destruct (type_applies S ot (fr_cond f)); [reflexivity|apply IH; exact Hrest|reflexivity].
    - destruct tc as [c|]; [|reflexivity].
      destruct (type_applies S ot c); [reflexivity|apply IH; exact Hrest|reflexivity].
    - apply IH; exact Hrest.
    - destruct (mem n visited); [apply IH; exact Hrest|].
      destruct (find_frag n (frags D)) as [f|] eqn:Ef; [|apply IH; exact Hrest].
      destruct (type_applies S ot (fr_cond f)); [|apply IH; exact Hrest|reflexivity].
      cbn [snd]. rewrite (IHf ot (fr_sels f) _ (P_frag f (find_frag_in _ _ _ Ef))), (IH _ Hrest). reflexivity.
    - assert (Hsub : Forall P sub) by (eapply P_inline; exact Hs).
      destruct tc as [c|].
      + destruct (type_applies S ot c); [|apply IH; exact Hrest|reflexivity].
        cbn [snd]. rewrite (IHf ot sub _ Hsub), (IH _ Hrest). reflexivity.
      + cbn [snd]. rewrite (IHf ot sub _ Hsub), (IH _ Hrest). reflexivity.
  Qed.
End DirErrs.

(** the instance used by the simulation: [conds_ok] (part of [doc_ok]) makes every condition of the
    document evaluable *)
Lemma collect_errs_nil_conds S D E :
  conds_ok S D E = true ->
  forall fuel ot sels visited,
    forallb (sel_conds_ok S E) sels = true ->
    snd (collect_errs S D E fuel ot sels visited) = [].
Proof.
  intros Hconds fuel ot sels visited Hsels.
  apply (collect_errs_nil S D E (fun s => sel_conds_ok S E s = true)).
  - intros s Hs. destruct s; cbn [sel_conds_ok] in Hs; apply andb_true_iff in Hs as [H _]; exact H.
  - intros tc p d sub Hs. cbn [sel_conds_ok] in Hs. apply andb_true_iff in Hs as [_ Hs].
    apply andb_true_iff in Hs as [_ Hs]. rewrite forallb_forall in Hs. rewrite Forall_forall. exact Hs.
  - intros f Hf. unfold conds_ok in Hconds. apply andb_true_iff in Hconds as [_ H2].
    rewrite forallb_forall in H2. specialize (H2 f Hf). apply andb_true_iff in H2 as [_ H2].
    rewrite forallb_forall in H2. rewrite Forall_forall. exact H2.
  - rewrite forallb_forall in Hsels. rewrite Forall_forall. exact Hsels.
Qed.

(** [conds_ok] (hence [doc_ok]) implies [dirs_evaluable] *)
Lemma selection_ind_dir (P : selection -> Prop) :
  (forall a n p d sub, Forall P sub -> P (SField a n p d sub)) ->
  (forall n p d, P (SSpread n p d)) ->
  (forall tc p d sub, Forall P sub -> P (SInline tc p d sub)) ->
  forall s, P s.
Proof.
  intros H1 H2 H3. fix IH 1. intro s. destruct s as [a n p d sub|n p d|tc p d sub].
  - apply H1. induction sub as [|x r IHr]; constructor; [apply IH|exact IHr].
  - apply H2.
  - apply H3. induction sub as [|x r IHr]; constructor; [apply IH|exact IHr].
Qed.

Lemma sel_conds_ok_sub S E : forall s, sel_conds_ok S E s = true -> forall t, In t (sub_sels s) -> dirs_ok E t = true.
Proof.
  assert (Hlist : forall sub t,
             Forall (fun s => sel_conds_ok S E s = true -> forall t, In t (sub_sels s) -> dirs_ok E t = true) sub ->
             forallb (sel_conds_ok S E) sub = true -> In t (flat_map sub_sels sub) -> dirs_ok E t = true).
  { intros sub t HF. induction HF as [|x r Hx _ IHr]; intros Hf Hin; [destruct Hin|].
    cbn [forallb] in Hf. apply andb_true_iff in Hf as [Hx' Hr].
    cbn [flat_map] in Hin. apply in_app_or in Hin as [Hin|Hin]; [exact (Hx Hx' t Hin)|exact (IHr Hr Hin)]. }
  intro s. induction s as [a n p d sub IH|n p d|tc p d sub IH] using selection_ind_dir;
    intros Hs t Ht; cbn [sel_conds_ok] in Hs; apply andb_true_iff in Hs as [Hd Hs];
    cbn [sub_sels] in Ht; destruct Ht as [Ht|Ht]; try (subst t; exact Hd).
  - exact (Hlist sub t IH Hs Ht).
  - destruct Ht.
  - apply andb_true_iff in Hs as [_ Hs]. exact (Hlist sub t IH Hs Ht).
Qed.

Lemma conds_ok_dirs_evaluable S D E : conds_ok S D E = true -> dirs_evaluable D E = true.
Proof.
  intro H. unfold conds_ok in H. apply andb_true_iff in H as [H1 H2].
  unfold dirs_evaluable, all_sels. rewrite forallb_forall. intros t Ht.
  apply in_app_or in Ht as [Ht|Ht]; apply in_flat_map in Ht as [x [Hx Ht]].
  - rewrite forallb_forall in H1. exact (sel_conds_ok_sub S E x (H1 x Hx) t Ht).
  - rewrite forallb_forall in H2. specialize (H2 x Hx). apply andb_true_iff in H2 as [_ H2].
    apply in_flat_map in Ht as [y [Hy Ht]]. rewrite forallb_forall in H2.
    exact (sel_conds_ok_sub S E y (H2 y Hy) t Ht).
Qed.

Lemma doc_ok_dirs_evaluable S D E fuel n : doc_ok S D E fuel n = true -> dirs_evaluable D E = true.
Proof.
  intro H. unfold doc_ok in H. apply andb_true_iff in H as [H _]. exact (conds_ok_dirs_evaluable S D E H).
Qed.

(** ** the switchable predicates: [true] is the full predicate, and dropping the directive conjunct weakens *)
Lemma sel_conds_gen_true S E : forall s, sel_conds_gen S E true s = sel_conds_ok S E s.
Proof.
  intro s. induction s as [a n p d sub IH|n p d|tc p d sub IH] using selection_ind_dir;
    cbn [sel_conds_gen sel_conds_ok]; try reflexivity;
    (assert (Hl : forallb (sel_conds_gen S E true) sub = forallb (sel_conds_ok S E) sub);
     [induction IH as [|x r Hx _ IHr]; [reflexivity|cbn [forallb]; rewrite Hx, IHr; reflexivity]|rewrite Hl; reflexivity]).
Qed.

Lemma forallb_ext_eq {A} (f g : A -> bool) l : (forall x, f x = g x) -> forallb f l = forallb g l.
Proof. intro H. induction l as [|x r IH]; [reflexivity|]. cbn. rewrite H, IH. reflexivity. Qed.

Lemma conds_gen_true S D E : conds_gen S D E true = conds_ok S D E.
Proof.
  unfold conds_gen, conds_ok. f_equal.
  - apply forallb_ext_eq. apply sel_conds_gen_true.
  - apply forallb_ext_eq. intro f. f_equal. apply forallb_ext_eq. apply sel_conds_gen_true.
Qed.

Lemma sel_conds_gen_weaken S E : forall s, sel_conds_gen S E true s = true -> sel_conds_gen S E false s = true.
Proof.
  intro s. induction s as [a n p d sub IH|n p d|tc p d sub IH] using selection_ind_dir;
    cbn [sel_conds_gen]; intro H; apply andb_true_iff in H as [_ H]; cbn [andb]; try reflexivity.
  - rewrite forallb_forall in H |- *. rewrite Forall_forall in IH. intros x Hx. exact (IH x Hx (H x Hx)).
  - apply andb_true_iff in H as [Hc H]. rewrite Hc. cbn [andb].
    rewrite forallb_forall in H |- *. rewrite Forall_forall in IH. intros x Hx. exact (IH x Hx (H x Hx)).
Qed.

Lemma conds_gen_weaken S D E : conds_gen S D E true = true -> conds_gen S D E false = true.
Proof.
  unfold conds_gen. intro H. apply andb_true_iff in H as [H1 H2]. apply andb_true_iff. split.
  - rewrite forallb_forall in H1 |- *. intros x Hx. apply sel_conds_gen_weaken, H1, Hx.
  - rewrite forallb_forall in H2 |- *. intros f Hf. specialize (H2 f Hf). apply andb_true_iff in H2 as [Hc H2].
    rewrite Hc. cbn [andb]. rewrite forallb_forall in H2 |- *. intros x Hx. apply sel_conds_gen_weaken, H2, Hx.
Qed.

(** [doc_ok] implies [doc_ok_nodirs] *)
Lemma doc_ok_nodirs_of_doc_ok S D E fuel n : doc_ok S D E fuel n = true -> doc_ok_nodirs S D E fuel n = true.
Proof.
  unfold doc_ok, doc_ok_nodirs. intro H. apply andb_true_iff in H as [H1 H2]. rewrite H2.
  rewrite <- conds_gen_true in H1. rewrite (conds_gen_weaken S D E H1). reflexivity.
Qed.
