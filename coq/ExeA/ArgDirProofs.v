(** * ExeA/ArgDirProofs.v — directives whose condition cannot be evaluated (C01).
    collectFieldsImpl appends an error for each of them ([collect_errs]); when every condition of
    the document has a boolean value there is none, and collectFields leaves the state alone. *)
From Coq Require Import List NArith ZArith Bool.
From ApiFu Require Import Base.Sexp ExeA.ArgData ExeA.ArgArgs ExeA.ArgModel ExeA.ArgSpec ExeA.ArgHyps ExeA.ArgCollectProofs.
Import ListNotations.

Lemma add_errs_nil st : add_errs [] st = st.
Proof. destruct st as [e c]. unfold add_errs. cbn. rewrite app_nil_r. reflexivity. Qed.

Section DirErrs.
  Variables (S : schema) (D : document) (E : env).

  Lemma collect_errs_eq fuel ot sels visited :
    collect_errs S D E fuel ot sels visited =
    match sels with
    | [] => (visited, [])
    | s :: rest =>
        if skipped E (sel_dirs s) then
          let r := collect_errs S D E fuel ot rest visited in (fst r, dirs_errors E (sel_dirs s) ++ snd r)
        else
          let descend (sub : list selection) (visited' : list name) :=
            match fuel with
            | O => (visited', [])
            | Datatypes.S fuel' =>
                let r1 := collect_errs S D E fuel' ot sub visited' in
                let r2 := collect_errs S D E fuel ot rest (fst r1) in (fst r2, snd r1 ++ snd r2)
            end in
          match s with
          | SField _ _ _ _ _ => collect_errs S D E fuel ot rest visited
          | SSpread n _ _ =>
              if mem n visited then collect_errs S D E fuel ot rest visited
              else
                let visited' := n :: visited in
                match find_frag n (frags D) with
                | None => collect_errs S D E fuel ot rest visited'
                | Some f =>
                    match type_applies S ot (fr_cond f) with
                    | ApNo => collect_errs S D E fuel ot rest visited'
                    | ApPanic => (visited', [])
                    | ApYes => descend (fr_sels f) visited'
                    end
                end
          | SInline tc _ _ sub =>
              match tc with
              | None => descend sub visited
              | Some c =>
                  match type_applies S ot c with
                  | ApNo => collect_errs S D E fuel ot rest visited
                  | ApPanic => (visited, [])
                  | ApYes => descend sub visited
                  end
              end
          end
    end.
  Proof. destruct fuel; destruct sels; reflexivity. Qed.

  (** a directive with a boolean condition reports nothing *)
  Lemma dir_ok_no_error d : dir_ok E d = true -> dir_errors E d = [].
  Proof.
    destruct d as [c dp vp|c dp vp|]; cbn; [| |reflexivity];
      (destruct c as [b|v]; cbn; [reflexivity|];
       destruct (assoc v E) as [[b|]|]; [reflexivity|discriminate|discriminate]).
  Qed.

  Lemma dirs_ok_no_errors s : dirs_ok E s = true -> dirs_errors E (sel_dirs s) = [].
  Proof.
    unfold dirs_ok, dirs_errors. induction (sel_dirs s) as [|d ds IH]; [reflexivity|].
    cbn [forallb flat_map]. intro H. apply andb_true_iff in H as [H1 H2].
    rewrite (dir_ok_no_error d H1), (IH H2). reflexivity.
  Qed.

  (** [P]: an invariant of the selections the traversal meets *)
  Variable P : selection -> Prop.
  Hypothesis P_dirs : forall s, P s -> dirs_ok E s = true.
  Hypothesis P_inline : forall tc p d sub, P (SInline tc p d sub) -> Forall P sub.
  Hypothesis P_frag : forall f, In f (frags D) -> Forall P (fr_sels f).

  Lemma collect_errs_nil fuel : forall ot sels visited,
    Forall P sels -> snd (collect_errs S D E fuel ot sels visited) = [].
  Proof.
    induction fuel as [|fuel IHf]; intros ot sels;
      induction sels as [|s rest IH]; intros visited HP;
      rewrite collect_errs_eq; try reflexivity;
      inversion HP as [|s' rest' Hs Hrest]; subst;
      cbv zeta;
      (destruct (skipped E (sel_dirs s));
       [cbn [snd]; rewrite (dirs_ok_no_errors s (P_dirs s Hs)), (IH _ Hrest); reflexivity|]);
      destruct s as [a n p ds sub|n p ds|tc p ds sub].
    - apply IH; exact Hrest.
    - destruct (mem n visited); [apply IH; exact Hrest|].
      destruct (find_frag n (frags D)) as [f|]; [|apply IH; exact Hrest].
      destruct (type_applies S ot (fr_cond f)); [reflexivity|apply IH; exact Hrest|reflexivity].
    - destruct tc as [c|]; [|reflexivity].
      destruct (type_applies S ot c); [reflexivity|apply IH; exact Hrest|reflexivity].
    - apply IH; exact Hrest.
    - destruct (mem n visited); [apply IH; exact Hrest|].
      destruct (find_frag n (frags D)) as [f|] eqn:Ef; [|apply IH; exact Hrest].
      destruct (type_applies S ot (fr_cond f)); [|apply IH; exact Hrest|reflexivity].
      cbn [snd]. rewrite (IHf ot (fr_sels f) _ (P_frag f (find_frag_in _ _ _ Ef))), (IH _ Hrest). reflexivity.
    - assert (Hsub : Forall P sub) by (eapply P_inline; exact Hs).
      destruct tc as [c|].
      + destruct (type_applies S ot c); [|apply IH; exact Hrest|reflexivity].
        cbn [snd]. rewrite (IHf ot sub _ Hsub), (IH _ Hrest). reflexivity.
      + cbn [snd]. rewrite (IHf ot sub _ Hsub), (IH _ Hrest). reflexivity.
  Qed.
End DirErrs.

(** the instance used by the simulation: [conds_ok] (part of [doc_ok]) makes every condition of the
    document evaluable *)
Lemma collect_errs_nil_conds S D E :
  conds_ok S D E = true ->
  forall fuel ot sels visited,
    forallb (sel_conds_ok S E) sels = true ->
    snd (collect_errs S D E fuel ot sels visited) = [].
Proof.
  intros Hconds fuel ot sels visited Hsels.
  apply (collect_errs_nil S D E (fun s => sel_conds_ok S E s = true)).
  - intros s Hs. destruct s; cbn [sel_conds_ok] in Hs; apply andb_true_iff in Hs as [H _]; exact H.
  - intros tc p d sub Hs. cbn [sel_conds_ok] in Hs. apply andb_true_iff in Hs as [_ Hs].
    apply andb_true_iff in Hs as [_ Hs]. rewrite forallb_forall in Hs. rewrite Forall_forall. exact Hs.
  - intros f Hf. unfold conds_ok in Hconds. apply andb_true_iff in Hconds as [_ H2].
    rewrite forallb_forall in H2. specialize (H2 f Hf). apply andb_true_iff in H2 as [_ H2].
    rewrite forallb_forall in H2. rewrite Forall_forall. exact H2.
  - rewrite forallb_forall in Hsels. rewrite Forall_forall. exact Hsels.
Qed.

(** [conds_ok] (hence [doc_ok]) implies [dirs_evaluable] *)
Lemma selection_ind_dir (P : selection -> Prop) :
  (forall a n p d sub, Forall P sub -> P (SField a n p d sub)) ->
  (forall n p d, P (SSpread n p d)) ->
  (forall tc p d sub, Forall P sub -> P (SInline tc p d sub)) ->
  forall s, P s.
Proof.
  intros H1 H2 H3. fix IH 1. intro s. destruct s as [a n p d sub|n p d|tc p d sub].
  - apply H1. induction sub as [|x r IHr]; constructor; [apply IH|exact IHr].
  - apply H2.
  - apply H3. induction sub as [|x r IHr]; constructor; [apply IH|exact IHr].
Qed.

Lemma sel_conds_ok_sub S E : forall s, sel_conds_ok S E s = true -> forall t, In t (sub_sels s) -> dirs_ok E t = true.
Proof.
  assert (Hlist : forall sub t,
             Forall (fun s => sel_conds_ok S E s = true -> forall t, In t (sub_sels s) -> dirs_ok E t = true) sub ->
             forallb (sel_conds_ok S E) sub = true -> In t (flat_map sub_sels sub) -> dirs_ok E t = true).
  { intros sub t HF. induction HF as [|x r Hx _ IHr]; intros Hf Hin; [destruct Hin|].
    cbn [forallb] in Hf. apply andb_true_iff in Hf as [Hx' Hr].
    cbn [flat_map] in Hin. apply in_app_or in Hin as [Hin|Hin]; [exact (Hx Hx' t Hin)|exact (IHr Hr Hin)]. }
  intro s. induction s as [a n p d sub IH|n p d|tc p d sub IH] using selection_ind_dir;
    intros Hs t Ht; cbn [sel_conds_ok] in Hs; apply andb_true_iff in Hs as [Hd Hs];
    cbn [sub_sels] in Ht; destruct Ht as [Ht|Ht]; try (subst t; exact Hd).
  - exact (Hlist sub t IH Hs Ht).
  - destruct Ht.
  - apply andb_true_iff in Hs as [_ Hs]. exact (Hlist sub t IH Hs Ht).
Qed.

Lemma conds_ok_dirs_evaluable S D E : conds_ok S D E = true -> dirs_evaluable D E = true.
Proof.
  intro H. unfold conds_ok in H. apply andb_true_iff in H as [H1 H2].
  unfold dirs_evaluable, all_sels. rewrite forallb_forall. intros t Ht.
  apply in_app_or in Ht as [Ht|Ht]; apply in_flat_map in Ht as [x [Hx Ht]].
  - rewrite forallb_forall in H1. exact (sel_conds_ok_sub S E x (H1 x Hx) t Ht).
  - rewrite forallb_forall in H2. specialize (H2 x Hx). apply andb_true_iff in H2 as [_ H2].
    apply in_flat_map in Ht as [y [Hy Ht]]. rewrite forallb_forall in H2.
    exact (sel_conds_ok_sub S E y (H2 y Hy) t Ht).
Qed.

Lemma doc_ok_dirs_evaluable S D E fuel n : doc_ok S D E fuel n = true -> dirs_evaluable D E = true.
Proof.
  intro H. unfold doc_ok in H. apply andb_true_iff in H as [H _]. exact (conds_ok_dirs_evaluable S D E H).
Qed.
