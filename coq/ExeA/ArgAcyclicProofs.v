(** * ExeA/ArgAcyclicProofs.v — without fragment cycles the level count terminates and is below
    [default_fuel D] (C01).

    Pigeonhole: a path of the spread graph ([chain]) in a document where no fragment reaches itself
    has pairwise distinct, defined fragments, so it is at most [length (frags D)] long.  The
    expansion of [levels] spends one unit of fuel per step of such a path, so fuel
    [S (length (frags D))] never runs out; and every step adds at most [doc_depth D] levels. *)
From Coq Require Import List NArith ZArith Bool Lia.
From ApiFu Require Import Base.Sexp ExeA.ArgData ExeA.ArgArgs ExeA.ArgModel ExeA.ArgSpec ExeA.ArgHyps
     ExeA.ArgBaseProofs ExeA.ArgCollectProofs ExeA.ArgDirProofs ExeA.ArgFuelProofs ExeA.ArgLevelProofs.
Import ListNotations.

Section Acyclic.
  Variable D : document.

  (** *** spreads of sub-lists are spreads of the list *)
  Lemma spread_names_cons s r : spread_names (s :: r) =
    flat_map (fun t => match t with SSpread n _ _ => [n] | _ => [] end) (sub_sels s) ++ spread_names r.
  Proof. reflexivity. Qed.

  Lemma spread_names_field a f p d sub F : In F (spread_names sub) -> In F (spread_names [SField a f p d sub]).
  Proof.
    intro H. unfold spread_names in *. cbn [flat_map sub_sels]. rewrite app_nil_r. cbn [flat_map app].
    apply in_flat_map in H as [s [Hs H]]. apply in_flat_map in H as [t [Ht H]].
    apply in_flat_map. exists t. split; [|exact H]. apply in_flat_map. exists s. split; assumption.
  Qed.
  Lemma spread_names_inline tc p d sub F : In F (spread_names sub) -> In F (spread_names [SInline tc p d sub]).
  Proof.
    intro H. unfold spread_names in *. cbn [flat_map sub_sels]. rewrite app_nil_r. cbn [flat_map app].
    apply in_flat_map in H as [s [Hs H]]. apply in_flat_map in H as [t [Ht H]].
    apply in_flat_map. exists t. split; [|exact H]. apply in_flat_map. exists s. split; assumption.
  Qed.

  Lemma chain_incl sels sels' l :
    (forall F, In F (spread_names sels) -> In F (spread_names sels')) -> chain D sels l -> chain D sels' l.
  Proof.
    intros Hi H. inversion H as [|? F fr l' HF Hf Hc]; subst; [constructor|].
    econstructor; [apply Hi; exact HF|exact Hf|exact Hc].
  Qed.

  (** *** the pigeonhole *)
  Lemma s_fragment_in F fr : s_fragment D F = Some fr -> In F (map fr_name (frags D)).
  Proof.
    intro H. rewrite <- find_frag_eq in H. pose proof (find_frag_in _ _ _ H) as Hin.
    pose proof (find_frag_name _ _ _ H) as Hn. rewrite <- Hn. apply in_map. exact Hin.
  Qed.

  Lemma chain_nodup sels l : acyclic_frags D -> chain D sels l -> NoDup l /\ incl l (map fr_name (frags D)).
  Proof.
    intros Hac H. induction H as [sels|sels F fr l HF Hf Hc IH]; [split; [constructor|intros x []]|].
    destruct IH as [Hnd Hi]. split.
    - constructor; [exact (Hac F fr l Hf Hc)|exact Hnd].
    - intros x [<-|Hx]; [exact (s_fragment_in F fr Hf)|exact (Hi x Hx)].
  Qed.

  Lemma chain_short sels l : acyclic_frags D -> chain D sels l -> (length l <= length (frags D))%nat.
  Proof.
    intros Hac H. destruct (chain_nodup sels l Hac H) as [Hnd Hi].
    rewrite <- (map_length fr_name (frags D)). apply NoDup_incl_length; assumption.
  Qed.

  (** *** the level count terminates with fuel [S k] when all chains are at most [k] long, and
      every step of a chain adds at most [doc_depth D] levels *)
  Definition sel_def (k : nat) (s : selection) : Prop :=
    (forall l, chain D [s] l -> (length l <= k)%nat) ->
    exists n, levels_sel D (Datatypes.S k) s = Some n /\ (n <= sel_depth s + k * doc_depth D)%nat.
  Definition list_def (k : nat) (sels : list selection) : Prop :=
    (forall l, chain D sels l -> (length l <= k)%nat) ->
    exists n, levels D (Datatypes.S k) sels = Some n /\ (n <= sels_depth sels + k * doc_depth D)%nat.

  Lemma spread_names_head s r F : In F (spread_names [s]) -> In F (spread_names (s :: r)).
  Proof. rewrite !spread_names_cons. cbn [spread_names flat_map]. rewrite app_nil_r. intro H. apply in_or_app. left. exact H. Qed.
  Lemma spread_names_tail s r F : In F (spread_names r) -> In F (spread_names (s :: r)).
  Proof. rewrite spread_names_cons. intro H. apply in_or_app. right. exact H. Qed.

  Lemma list_of_sel k sels : Forall (sel_def k) sels -> list_def k sels.
  Proof.
    induction 1 as [|s r Hs _ IH]; intro Hch.
    - exists 0%nat. split; [reflexivity|lia].
    - destruct (Hs (fun l Hl => Hch l (chain_incl [s] (s :: r) l (spread_names_head s r) Hl))) as [x [Hx Hxb]].
      destruct (IH (fun l Hl => Hch l (chain_incl r (s :: r) l (spread_names_tail s r) Hl))) as [y [Hy Hyb]].
      exists (Nat.max x y). split.
      + unfold levels in *. cbn [fold_right]. rewrite Hx, Hy. reflexivity.
      + rewrite sels_depth_cons. lia.
  Qed.

  Lemma sel_of_prev k :
    (forall k', k = Datatypes.S k' -> forall sels, list_def k' sels) -> forall s, sel_def k s.
  Proof.
    intros Hprev s. induction s as [a f p d sub IH|f p d|tc p d sub IH] using selection_ind_dir; intro Hch;
      rewrite levels_sel_eq.
    - destruct (list_of_sel k sub IH
                  (fun l Hl => Hch l (chain_incl sub [SField a f p d sub] l (spread_names_field a f p d sub) Hl)))
        as [x [Hx Hxb]].
      rewrite Hx. exists (Datatypes.S x). split; [reflexivity|]. cbn [sel_depth]. fold (sels_depth sub). lia.
    - destruct (s_fragment D f) as [fr|] eqn:Ef; [|exists 0%nat; split; [reflexivity|lia]].
      assert (Hin : In f (spread_names [SSpread f p d])) by (left; reflexivity).
      destruct k as [|k'].
      + exfalso. specialize (Hch [f] (chain_cons D _ f fr [] Hin Ef (chain_nil D _))). cbn in Hch. lia.
      + destruct (Hprev k' eq_refl (fr_sels fr)
                    (fun l Hl => le_S_n _ _ (Hch (f :: l) (chain_cons D _ f fr l Hin Ef Hl)))) as [x [Hx Hxb]].
        exists x. split; [exact Hx|].
        assert (Hd : (sels_depth (fr_sels fr) <= doc_depth D)%nat).
        { apply frag_depth. rewrite <- find_frag_eq in Ef. exact (find_frag_in _ _ _ Ef). }
        cbn [sel_depth]. lia.
    - destruct (list_of_sel k sub IH
                  (fun l Hl => Hch l (chain_incl sub [SInline tc p d sub] l (spread_names_inline tc p d sub) Hl)))
        as [x [Hx Hxb]].
      exists x. split; [exact Hx|]. cbn [sel_depth]. fold (sels_depth sub). lia.
  Qed.

  Theorem levels_defined : forall k sels, list_def k sels.
  Proof.
    induction k as [|k IHk]; intro sels; apply list_of_sel; rewrite Forall_forall; intros s _;
      apply sel_of_prev; intros k' Hk; [discriminate|inversion Hk; subst k'; exact IHk].
  Qed.

  (** *** without fragment cycles: fuel [S (length (frags D))] suffices, and the number of levels of
      a selection list no deeper than the document is below [default_fuel D] *)
  Theorem acyclic_levels sels :
    acyclic_frags D -> (sels_depth sels <= doc_depth D)%nat ->
    exists n, levels D (Datatypes.S (length (frags D))) sels = Some n /\ (Datatypes.S n <= default_fuel D)%nat.
  Proof.
    intros Hac Hd.
    destruct (levels_defined (length (frags D)) sels (fun l Hl => chain_short sels l Hac Hl)) as [n [Hn Hb]].
    exists n. split; [exact Hn|]. unfold default_fuel. nia.
  Qed.
End Acyclic.

(** ** the whole document: with an acyclic spread graph [doc_ok] holds with the bound the check
    evaluates, given only [conds_ok], the root type and the n-free invariant [Q] *)
Theorem doc_ok_acyclic S D E fuel (Q : name -> list selection -> Prop) rt :
  acyclic_frags D ->
  conds_ok S D E = true ->
  s_root_type S (op_kind D) = Some rt ->
  (forall ot sels, Q ot sels ->
     exists groups, s_collect S D E fuel ot sels = Some groups /\ Forall (group_local S D Q ot) groups) ->
  Q rt (op_sels D) ->
  doc_ok S D E fuel (default_fuel D) = true.
Proof.
  intros Hac Hc Hrt Hstep HQ.
  assert (Hd : (sels_depth (op_sels D) <= doc_depth D)%nat) by (unfold doc_depth; lia).
  destruct (acyclic_levels D (op_sels D) Hac Hd) as [n [Hn Hb]].
  apply (doc_ok_mono S D E fuel (Datatypes.S n) (default_fuel D) Hb).
  exact (doc_ok_intro S D E fuel Q rt _ n Hc Hrt Hstep HQ Hn).
Qed.

(** the same for [doc_ok_nodirs] (the type conditions only: [conds_gen false]) *)
Theorem doc_ok_nodirs_acyclic S D E fuel (Q : name -> list selection -> Prop) rt :
  acyclic_frags D ->
  conds_gen S D E false = true ->
  s_root_type S (op_kind D) = Some rt ->
  (forall ot sels, Q ot sels ->
     exists groups, s_collect S D E fuel ot sels = Some groups /\ Forall (group_local S D Q ot) groups) ->
  Q rt (op_sels D) ->
  doc_ok_nodirs S D E fuel (default_fuel D) = true.
Proof.
  intros Hac Hc Hrt Hstep HQ.
  assert (Hd : (sels_depth (op_sels D) <= doc_depth D)%nat) by (unfold doc_depth; lia).
  destruct (acyclic_levels D (op_sels D) Hac Hd) as [n [Hn Hb]].
  unfold doc_ok_nodirs. rewrite Hc, Hrt. cbn [andb].
  apply (sels_ok_mono S D E fuel (Datatypes.S n) (default_fuel D) rt (op_sels D) Hb).
  apply (sels_ok_intro S D E fuel Q Hstep); [exact (levels_sound D _ _ _ Hn)|exact HQ].
Qed.
