(** * ExeA/ArgCacheProofs.v — GroupedFieldSetCache is transparent.

    The cache key is the object type name followed by (line, column) of every selection as
    little-endian uint32.  Under [pos_injective] (two selection nodes of the document at the same
    position are the same node), for type names without a zero byte and positions with
    line < 2^24, column < 2^32, the key determines (object type, selections), so a hit returns
    what collectFieldsImpl would compute. *)
From Coq Require Import List NArith ZArith Bool Lia ZifyN ZifyNat ZifyBool.
From ApiFu Require Import Base.Sexp ExeA.ArgData ExeA.ArgArgs ExeA.ArgModel ExeA.ArgHyps ExeA.ArgSpec ExeA.ArgBaseProofs ExeA.ArgCollectProofs ExeA.ArgDirProofs.
Import ListNotations.

(** ** the key is injective *)
Definition name_ok (n : name) : Prop := Forall (fun b => b <> 0%N) n.
Definition pos_small (s : selection) : Prop :=
  (line (sel_pos s) < 16777216)%N /\ (col (sel_pos s) < 4294967296)%N.

Definition enc_pos (s : selection) : bytes := le32 (line (sel_pos s)) ++ le32 (col (sel_pos s)).

Lemma cache_key_eq ot sels : cache_key ot sels = ot ++ flat_map enc_pos sels.
Proof. reflexivity. Qed.

Ltac Zify.zify_post_hook ::= Z.div_mod_to_equations.

Lemma le32_inj a b : (a < 4294967296)%N -> (b < 4294967296)%N -> le32 a = le32 b -> a = b.
Proof.
  intros Ha Hb H. unfold le32 in H.
  rewrite (N.mod_small a), (N.mod_small b) in H by assumption.
  inversion H as [[H0 H1 H2 H3]]. clear H.
  lia.
Qed.

Lemma le32_length n : length (le32 n) = 4%nat.
Proof. reflexivity. Qed.

Lemma enc_pos_length s : length (enc_pos s) = 8%nat.
Proof. reflexivity. Qed.

Lemma flat_enc_length sels : length (flat_map enc_pos sels) = (8 * length sels)%nat.
Proof. induction sels as [|s r IH]; [reflexivity|]. cbn [flat_map]. rewrite app_length, IH, enc_pos_length. cbn [length]. lia. Qed.

Lemma app_eq_len {A} (a c b d : list A) : length a = length c -> a ++ b = c ++ d -> a = c /\ b = d.
Proof.
  revert c. induction a as [|x a IH]; intros [|y c] Hl H; try discriminate.
  - split; [reflexivity|exact H].
  - cbn in H. inversion H; subst. cbn in Hl. destruct (IH c) as [-> ->]; [lia|assumption|]. split; reflexivity.
Qed.

(** the fourth byte of an encoded small line number is zero *)
Lemma enc_pos_byte3 s : pos_small s -> nth 3 (enc_pos s) 1%N = 0%N.
Proof.
  intros [Hl _]. unfold enc_pos, le32. cbn [nth app].
  rewrite (N.mod_small (line (sel_pos s))) by lia. apply N.div_small. exact Hl.
Qed.

Lemma enc_pos_inj a b : pos_small a -> pos_small b -> enc_pos a = enc_pos b -> sel_pos a = sel_pos b.
Proof.
  intros [Ha1 Ha2] [Hb1 Hb2] H. unfold enc_pos in H.
  assert (H1 : le32 (line (sel_pos a)) = le32 (line (sel_pos b)) /\ le32 (col (sel_pos a)) = le32 (col (sel_pos b))).
  { apply app_eq_len; [reflexivity|exact H]. }
  destruct H1 as [H1 H2]. apply le32_inj in H1; [|lia|lia]. apply le32_inj in H2; [|lia|lia].
  destruct (sel_pos a), (sel_pos b). cbn in *. congruence.
Qed.

Lemma flat_enc_inj a : forall b,
  Forall pos_small a -> Forall pos_small b ->
  flat_map enc_pos a = flat_map enc_pos b -> map sel_pos a = map sel_pos b.
Proof.
  induction a as [|x a IH]; intros [|y b] Ha Hb H.
  - reflexivity.
  - apply (f_equal (@length N)) in H. rewrite !flat_enc_length in H. cbn [length] in H. lia.
  - apply (f_equal (@length N)) in H. rewrite !flat_enc_length in H. cbn [length] in H. lia.
  - cbn [flat_map] in H. apply app_eq_len in H as [H1 H2]; [|reflexivity].
    inversion Ha; subst. inversion Hb; subst.
    cbn [map]. f_equal; [apply enc_pos_inj; assumption|apply IH; assumption].
Qed.

(** an encoded position list never starts with a non-empty name *)
Lemma enc_not_name l a b :
  name_ok l -> l <> [] -> Forall pos_small a -> flat_map enc_pos a = l ++ flat_map enc_pos b -> False.
Proof.
  intros Hl Hne Ha H.
  assert (Hlen : (8 * length a = length l + 8 * length b)%nat).
  { apply (f_equal (@length N)) in H. rewrite app_length, !flat_enc_length in H. exact H. }
  assert (Hl8 : (8 <= length l)%nat).
  { destruct l; [contradiction|]. cbn [length] in *. lia. }
  destruct a as [|s a]; [cbn [length] in Hlen; lia|].
  inversion Ha as [|? ? Hs Ha']; subst.
  assert (Hb3 : nth 3 (flat_map enc_pos (s :: a)) 1%N = 0%N).
  { cbn [flat_map]. rewrite app_nth1 by (rewrite enc_pos_length; lia). apply enc_pos_byte3. assumption. }
  rewrite H in Hb3. rewrite app_nth1 in Hb3 by lia.
  assert (Hin : In (nth 3 l 1%N) l) by (apply nth_In; lia).
  unfold name_ok in Hl. rewrite Forall_forall in Hl. apply (Hl _ Hin). exact Hb3.
Qed.

Lemma cache_key_inj ot : forall ot' a b,
  name_ok ot -> name_ok ot' -> Forall pos_small a -> Forall pos_small b ->
  cache_key ot a = cache_key ot' b -> ot = ot' /\ map sel_pos a = map sel_pos b.
Proof.
  induction ot as [|x ot IH]; intros [|y ot'] a b Ho Ho' Ha Hb H; rewrite !cache_key_eq in H.
  - split; [reflexivity|]. apply flat_enc_inj; assumption.
  - exfalso. cbn [app] in H. apply (enc_not_name (y :: ot') a b); try assumption. discriminate.
  - exfalso. cbn [app] in H. symmetry in H. apply (enc_not_name (x :: ot) b a); try assumption. discriminate.
  - cbn [app] in H. inversion H; subst. inversion Ho; subst. inversion Ho'; subst.
    destruct (IH ot' a b) as [-> Hm]; try assumption. split; [reflexivity|exact Hm].
Qed.

Lemma selection_ind' (P : selection -> Prop) :
  (forall a n p d sub, Forall P sub -> P (SField a n p d sub)) ->
  (forall n p d, P (SSpread n p d)) ->
  (forall tc p d sub, Forall P sub -> P (SInline tc p d sub)) ->
  forall s, P s.
Proof.
  intros H1 H2 H3. fix IH 1. intro s. destruct s as [a n p d sub|n p d|tc p d sub].
  - apply H1. induction sub as [|x r IHr]; constructor; [apply IH|exact IHr].
  - apply H2.
  - apply H3. induction sub as [|x r IHr]; constructor; [apply IH|exact IHr].
Qed.

(** ** selections of the document *)
(** two selection nodes at the same position are the same node (every parsed document: distinct
    nodes start at distinct tokens) *)
Definition pos_injective (D : document) : Prop :=
  forall s1 s2, In s1 (all_sels D) -> In s2 (all_sels D) -> sel_pos s1 = sel_pos s2 -> s1 = s2.
Definition positions_small (D : document) : Prop := Forall pos_small (all_sels D).

Section Occurs.
  Variable D : document.
  Definition occurs (s : selection) : Prop := In s (all_sels D).

  Lemma sub_sels_self s : In s (sub_sels s).
  Proof. destruct s; left; reflexivity. Qed.

  Lemma sub_sels_trans s t u : In t (sub_sels s) -> In u (sub_sels t) -> In u (sub_sels s).
  Proof.
    revert t u. induction s as [a n p d sub IH|n p d|tc p d sub IH] using selection_ind'; intros t u Ht Hu.
    - cbn [sub_sels] in Ht |- *. destruct Ht as [<-|Ht]; [exact Hu|].
      right. apply in_flat_map in Ht as [x [Hx Ht]]. apply in_flat_map. exists x. split; [exact Hx|].
      rewrite Forall_forall in IH. apply (IH x Hx t u); assumption.
    - cbn [sub_sels] in Ht. destruct Ht as [<-|[]]. exact Hu.
    - cbn [sub_sels] in Ht |- *. destruct Ht as [<-|Ht]; [exact Hu|].
      right. apply in_flat_map in Ht as [x [Hx Ht]]. apply in_flat_map. exists x. split; [exact Hx|].
      rewrite Forall_forall in IH. apply (IH x Hx t u); assumption.
  Qed.

  Lemma occurs_sub s t : occurs s -> In t (sub_sels s) -> occurs t.
  Proof.
    unfold occurs, all_sels. intros Hs Ht. apply in_app_or in Hs as [Hs|Hs]; apply in_or_app.
    - left. apply in_flat_map in Hs as [x [Hx Hs]]. apply in_flat_map. exists x. split; [exact Hx|].
      eapply sub_sels_trans; eassumption.
    - right. apply in_flat_map in Hs as [f [Hf Hs]]. apply in_flat_map. exists f. split; [exact Hf|].
      apply in_flat_map in Hs as [x [Hx Hs]]. apply in_flat_map. exists x. split; [exact Hx|].
      eapply sub_sels_trans; eassumption.
  Qed.

  Lemma occurs_children s :
    occurs s ->
    Forall occurs (match s with SField _ _ _ _ sub => sub | SInline _ _ _ sub => sub | SSpread _ _ _ => [] end).
  Proof.
    intro Hs. rewrite Forall_forall. intros t Ht. apply (occurs_sub s); [exact Hs|].
    destruct s as [a n p d sub|n p d|tc p d sub]; cbn [sub_sels]; [|destruct Ht|].
    - right. apply in_flat_map. exists t. split; [exact Ht|apply sub_sels_self].
    - right. apply in_flat_map. exists t. split; [exact Ht|apply sub_sels_self].
  Qed.

  Lemma occurs_op : Forall occurs (op_sels D).
  Proof.
    rewrite Forall_forall. intros s Hs. unfold occurs, all_sels. apply in_or_app. left.
    apply in_flat_map. exists s. split; [exact Hs|apply sub_sels_self].
  Qed.

  Lemma occurs_frag f : In f (frags D) -> Forall occurs (fr_sels f).
  Proof.
    intro Hf. rewrite Forall_forall. intros s Hs. unfold occurs, all_sels. apply in_or_app. right.
    apply in_flat_map. exists f. split; [exact Hf|].
    apply in_flat_map. exists s. split; [exact Hs|apply sub_sels_self].
  Qed.

  Lemma positions_determine a : forall b,
    pos_injective D -> Forall occurs a -> Forall occurs b -> map sel_pos a = map sel_pos b -> a = b.
  Proof.
    induction a as [|x a IH]; intros [|y b] Hinj Ha Hb H; try discriminate; [reflexivity|].
    cbn [map] in H. inversion H. inversion Ha; subst. inversion Hb; subst.
    f_equal; [apply Hinj; assumption|apply IH; assumption].
  Qed.
End Occurs.

(** ** the field nodes collectFieldsImpl returns carry sub-selections of the document *)
Section Nodes.
  Variables (S : schema) (D : document) (E : env).

  Definition node_ok (f : fnode) : Prop := Forall (occurs D) (fn_sub f).
  Definition nodes_ok (g : gfs) : Prop := Forall (fun x => Forall node_ok (g_fields x)) g.

  Lemma gfs_append_nodes k f g : node_ok f -> nodes_ok g -> nodes_ok (gfs_append k f g).
  Proof.
    intros Hf Hg. induction Hg as [|x r Hx Hr IH]; cbn [gfs_append].
    - constructor; [|constructor]. constructor; [exact Hf|constructor].
    - destruct (name_eqb k (g_key x)).
      + constructor; [|exact Hr]. unfold g_fields in *. cbn [g_first g_more].
        inversion Hx; subst. constructor; [assumption|]. apply Forall_app. split; [assumption|].
        constructor; [exact Hf|constructor].
      + constructor; assumption.
  Qed.

  Lemma collect_impl_nodes fuel : forall ot sels visited g v g',
    Forall (occurs D) sels -> nodes_ok g ->
    collect_impl S D E fuel ot sels visited g = COk v g' -> nodes_ok g'.
  Proof.
    induction fuel as [|fuel IHf]; intros ot sels; induction sels as [|s rest IH];
      intros visited g v g' Hocc Hg Hc; rewrite collect_impl_eq in Hc;
        try (inversion Hc; subst; exact Hg);
        inversion Hocc as [|? ? Hs Hrest]; subst; cbv zeta in Hc;
          (destruct (skipped E (sel_dirs s)); [eapply IH; eassumption|]);
          destruct s as [a n p ds sub|n p ds|tc p ds sub].
    - eapply IH; [exact Hrest| |exact Hc]. apply gfs_append_nodes; [|exact Hg].
      apply (occurs_children D _ Hs).
    - destruct (mem n visited); [eapply IH; eassumption|].
      destruct (find_frag n (frags D)) as [f|]; [|eapply IH; eassumption].
      destruct (type_applies S ot (fr_cond f)); [discriminate|eapply IH; eassumption|discriminate].
    - destruct tc as [c|]; [|discriminate].
      destruct (type_applies S ot c); [discriminate|eapply IH; eassumption|discriminate].
    - eapply IH; [exact Hrest| |exact Hc]. apply gfs_append_nodes; [|exact Hg].
      apply (occurs_children D _ Hs).
    - destruct (mem n visited); [eapply IH; eassumption|].
      destruct (find_frag n (frags D)) as [f|] eqn:Ef; [|eapply IH; eassumption].
      destruct (type_applies S ot (fr_cond f)); [|eapply IH; eassumption|discriminate].
      destruct (collect_impl S D E fuel ot (fr_sels f) (n :: visited) g) as [v1 g1| |] eqn:E1; try discriminate.
      eapply IH; [exact Hrest| |exact Hc]. eapply IHf; [|exact Hg|exact E1].
      apply occurs_frag. eapply find_frag_in. exact Ef.
    - assert (Hsub : Forall (occurs D) sub) by apply (occurs_children D _ Hs).
      assert (Hd : match collect_impl S D E fuel ot sub visited g with
                   | COk v' g'0 => collect_impl S D E (Datatypes.S fuel) ot rest v' g'0
                   | CPanic => CPanic
                   | COutOfFuel => COutOfFuel
                   end = COk v g' -> nodes_ok g').
      { intro Hc'. destruct (collect_impl S D E fuel ot sub visited g) as [v1 g1| |] eqn:E1; try discriminate.
        eapply IH; [exact Hrest| |exact Hc']. eapply IHf; [exact Hsub|exact Hg|exact E1]. }
      destruct tc as [c|]; [|exact (Hd Hc)].
      destruct (type_applies S ot c); [exact (Hd Hc)|eapply IH; eassumption|discriminate].
  Qed.
End Nodes.

(** ** memo and no memo compute the same *)
Definition type_names_ok (S : schema) : Prop :=
  Forall (fun p => name_ok (fst p) /\ match snd p with NUnion ms => Forall name_ok ms | _ => True end) (types S) /\
  name_ok (query S) /\
  match mutation S with Some m => name_ok m | None => True end /\
  match subscription S with Some m => name_ok m | None => True end.

Lemma assoc_in {A} k (l : list (name * A)) v : assoc k l = Some v -> In (k, v) l.
Proof.
  induction l as [|[k' v'] l IH]; cbn [assoc]; [discriminate|].
  destruct (name_eqb k k') eqn:Ek.
  - intro H. inversion H; subst. apply name_eqb_eq in Ek. subst. left. reflexivity.
  - intro H. right. apply IH, H.
Qed.

Lemma first_is_type_of_in tag l ot : first_is_type_of tag l = Some ot -> In ot l.
Proof.
  induction l as [|x r IH]; cbn [first_is_type_of]; [discriminate|].
  destruct tag as [t|].
  - destruct (name_eqb x t); [intro H; inversion H; left; reflexivity|intro H; right; apply IH, H].
  - intro H. right. apply IH, H.
Qed.

Section Transparent.
  Variables (M1 M2 : mode) (S : schema) (D : document) (E : env) (fuel : nat).
  Hypothesis Hf1 : fix1 M1 = fix1 M2.
  Hypothesis Hf7 : fix7 M1 = fix7 M2.
  Hypothesis Hm1 : memo M1 = true.
  Hypothesis Hm2 : memo M2 = false.
  Hypothesis Hinj : pos_injective D.
  Hypothesis Hsmall : positions_small D.
  Hypothesis Hnames : type_names_ok S.
  Hypothesis Hk1 : fullkey M1 = true.
  Hypothesis Hrp1 : report M1 = true.
  Hypothesis Hrp2 : report M2 = true.
  Hypothesis Hd1 : fixd M1 = true.
  Hypothesis Hd2 : fixd M2 = true.

  (** every cached grouped field set is what collectFieldsImpl computes, and the directive errors
      of that traversal are already reported *)
  Definition cache_inv (errs : list gerror) (C : list (bytes * gfs)) : Prop :=
    Forall (fun kg => forall ot sels, name_ok ot -> Forall (occurs D) sels -> cache_key ot sels = fst kg ->
                                      (exists v, collect_impl S D E fuel ot sels [] [] = COk v (snd kg)) /\
                                      incl (snd (collect_errs S D E fuel ot sels [])) errs) C.

  Lemma cache_inv_mono errs errs' C : incl errs errs' -> cache_inv errs C -> cache_inv errs' C.
  Proof.
    intros Hi H. unfold cache_inv in *. eapply Forall_impl; [|exact H].
    intros kg Hkg ot sels Hot Hocc Hk. destruct (Hkg ot sels Hot Hocc Hk) as [Hv Hin].
    split; [exact Hv|]. eapply incl_tran; eassumption.
  Qed.

  Definition mrel (st1 st2 : state) : Prop :=
    st_errs st1 = st_errs st2 /\ cache_inv (st_errs st1) (st_cache st1).
  Definition cres2 {A} (y1 y2 : res A * state) : Prop := fst y1 = fst y2 /\ mrel (snd y1) (snd y2).

  Definition csim (c1 c2 : completer) : Prop :=
    forall ty f0 more path st1 st2,
      Forall (occurs D) (merge_subs f0 more) -> mrel st1 st2 ->
      cres2 (c1 ty f0 more path st1) (c2 ty f0 more path st2).

  Lemma occurs_small sels : Forall (occurs D) sels -> Forall pos_small sels.
  Proof.
    intro H. eapply Forall_impl; [|exact H]. intros s Hs.
    unfold positions_small in Hsmall. rewrite Forall_forall in Hsmall. apply Hsmall, Hs.
  Qed.

  Lemma cres2_catch {A} (null : A) t y1 y2 :
    cres2 y1 y2 -> cres2 (catch_if_nullable null t y1) (catch_if_nullable null t y2).
  Proof.
    destruct y1 as [r1 s1], y2 as [r2 s2]. intros [Hr [He Hc]]. cbn [fst snd] in *. subst r2.
    destruct t; cbn [catch_if_nullable fst snd]; try (split; [reflexivity|split; assumption]);
      destruct r1; unfold cres2, mrel; cbn; try (split; [reflexivity|split; assumption]);
        (split; [reflexivity|]; split; [rewrite He; reflexivity|
                                        eapply cache_inv_mono; [|exact Hc]; apply incl_appl, incl_refl]).
  Qed.

  Lemma cres2_items t f0 more path items1 items2 :
    Forall2 csim items1 items2 -> Forall (occurs D) (merge_subs f0 more) ->
    forall i st1 st2, mrel st1 st2 ->
      cres2 (complete_items t f0 more path items1 i st1) (complete_items t f0 more path items2 i st2).
  Proof.
    intros H2 Hocc. induction H2 as [|c1 c2 items1 items2 Hc _ IH]; intros i st1 st2 Hrel.
    - cbn. split; [reflexivity|exact Hrel].
    - cbn [complete_items].
      pose proof (cres2_catch JNull t _ _ (Hc t f0 more (path ++ [PIdx i]) st1 st2 Hocc Hrel)) as H.
      destruct (catch_if_nullable JNull t (c1 t f0 more (path ++ [PIdx i]) st1)) as [r1 s1].
      destruct (catch_if_nullable JNull t (c2 t f0 more (path ++ [PIdx i]) st2)) as [r2 s2].
      destruct H as [Hr Hrel1]. cbn [fst snd] in Hr, Hrel1. subst r2.
      specialize (IH (i + 1)%N s1 s2 Hrel1).
      destruct r1; try (split; [reflexivity|exact Hrel1]);
        destruct (complete_items t f0 more path items1 (i + 1)%N s1) as [rr1 t1];
        destruct (complete_items t f0 more path items2 (i + 1)%N s2) as [rr2 t2];
        destruct IH as [Hrr Hrel2]; cbn [fst snd] in Hrr, Hrel2; subst rr2;
          (split; [reflexivity|exact Hrel2]).
  Qed.

  (** collectFields with and without the cache *)
  Lemma collect_fields_memo ot sels st1 st2 :
    name_ok ot -> Forall (occurs D) sels -> mrel st1 st2 ->
    fst (collect_fields M1 S D E fuel ot sels st1) = fst (collect_fields M2 S D E fuel ot sels st2) /\
    mrel (snd (collect_fields M1 S D E fuel ot sels st1)) (snd (collect_fields M2 S D E fuel ot sels st2)) /\
    (forall g, fst (collect_fields M2 S D E fuel ot sels st2) = CFOk g -> nodes_ok D g).
  Proof.
    intros Hot Hocc [He Hc]. unfold collect_fields. rewrite Hm1, Hm2, Hd1, Hd2, Hk1, Hrp1, Hrp2.
    set (es := snd (collect_errs S D E fuel ot sels [])).
    assert (Hnodes : forall v g, collect_impl S D E fuel ot sels [] [] = COk v g -> nodes_ok D g).
    { intros v g Hci. eapply collect_impl_nodes; [exact Hocc|constructor|exact Hci]. }
    destruct (assoc (cache_key ot sels) (st_cache st1)) as [g|] eqn:Ea.
    - (* hit: the traversal without the cache reports nothing new *)
      apply assoc_in in Ea. pose proof Hc as Hc'. unfold cache_inv in Hc'. rewrite Forall_forall in Hc'.
      destruct (Hc' _ Ea ot sels Hot Hocc eq_refl) as [[v Hci] Hin]. cbn [snd] in Hci. rewrite Hci. cbn [fst snd].
      fold es in Hin. rewrite (report_all_in es st2) by (rewrite <- He; exact Hin).
      split; [reflexivity|]. split; [split; [exact He|exact Hc]|].
      intros g' Hg'. inversion Hg'; subst. eapply Hnodes. exact Hci.
    - destruct (collect_impl S D E fuel ot sels [] []) as [v g| |] eqn:Eci; cbn [fst snd].
      + split; [reflexivity|]. split.
        * split; [cbn [st_errs]; apply report_errs_same; exact He|]. cbn [st_cache st_errs].
          rewrite report_cache. constructor.
          -- cbn [fst snd]. intros ot' sels' Hot' Hocc' Hk.
             destruct (cache_key_inj ot' ot sels' sels Hot' Hot (occurs_small _ Hocc') (occurs_small _ Hocc) Hk) as [-> Hp].
             rewrite (positions_determine D sels' sels Hinj Hocc' Hocc Hp). split; [exists v; exact Eci|].
             apply report_incl.
          -- eapply cache_inv_mono; [|exact Hc]. apply report_mono.
        * intros g' Hg'. inversion Hg'; subst. eapply Hnodes. reflexivity.
      + split; [reflexivity|]. split; [split; assumption|discriminate].
      + split; [reflexivity|]. split; [split; assumption|discriminate].
  Qed.

  Lemma nodes_merge x : Forall (node_ok D) (g_fields x) -> Forall (occurs D) (merge_subs (g_first x) (g_more x)).
  Proof.
    unfold g_fields, merge_subs. intro H. inversion H as [|? ? H0 Hm]; subst.
    apply Forall_app. split; [exact H0|].
    clear H H0. induction Hm as [|f r Hf _ IH]; [constructor|]. cbn [flat_map]. apply Forall_app. split; assumption.
  Qed.

  Lemma cres2_groups ch1 ch2 ot path :
    (forall k, csim (ch1 k) (ch2 k)) ->
    forall g st1 st2, nodes_ok D g -> mrel st1 st2 ->
      cres2 (exec_groups S ch1 ot path g st1) (exec_groups S ch2 ot path g st2).
  Proof.
    intros Hch g. induction g as [|x rest IH]; intros st1 st2 Hg Hrel.
    - cbn. split; [reflexivity|exact Hrel].
    - inversion Hg as [|? ? Hx Hrest]; subst. cbn [exec_groups].
      assert (Hcont : forall kv s1 s2, mrel s1 s2 ->
                 cres2 (let (rr, st2') := exec_groups S ch1 ot path rest s1 in
                        (match rr with ROk kvs => ROk (kv :: kvs) | _ => rr end, st2'))
                       (let (rr, st2') := exec_groups S ch2 ot path rest s2 in
                        (match rr with ROk kvs => ROk (kv :: kvs) | _ => rr end, st2'))).
      { intros kv s1 s2 Hr. specialize (IH s1 s2 Hrest Hr).
        destruct (exec_groups S ch1 ot path rest s1) as [rr1 t1].
        destruct (exec_groups S ch2 ot path rest s2) as [rr2 t2].
        destruct IH as [Hrr Hr2]. cbn [fst snd] in *. subst rr2. split; [reflexivity|exact Hr2]. }
      destruct (name_eqb (fn_name (g_first x)) n_typename); [apply Hcont; exact Hrel|].
      destruct (get_field S ot (fn_name (g_first x))) as [t| |]; try (apply Hcont; exact Hrel).
      pose proof (cres2_catch JNull t _ _
                    (Hch (fn_name (g_first x)) t (g_first x) (g_more x) (path ++ [PKey (g_key x)]) st1 st2
                         (nodes_merge x Hx) Hrel)) as H.
      destruct (catch_if_nullable JNull t (ch1 (fn_name (g_first x)) t (g_first x) (g_more x) (path ++ [PKey (g_key x)]) st1)) as [r1 s1].
      destruct (catch_if_nullable JNull t (ch2 (fn_name (g_first x)) t (g_first x) (g_more x) (path ++ [PKey (g_key x)]) st2)) as [r2 s2].
      destruct H as [Hr Hrel1]. cbn [fst snd] in Hr, Hrel1. subst r2.
      destruct r1; try (split; [reflexivity|exact Hrel1]). apply Hcont. exact Hrel1.
  Qed.

  Lemma csim_with_args ch1 ch2 ot :
    (forall k, csim (ch1 k) (ch2 k)) -> forall k, csim (with_args S D ch1 ot k) (with_args S D ch2 ot k).
  Proof.
    intros Hch k ty f0 more path st1 st2 Hocc Hrel. unfold with_args.
    destruct (coerce_field_args S D ot f0) as [A| |]; [apply Hch; assumption| |]; (split; [reflexivity|exact Hrel]).
  Qed.

  Lemma cres2_selections ch1 ch2 ot sels path st1 st2 :
    (forall k, csim (ch1 k) (ch2 k)) -> name_ok ot -> Forall (occurs D) sels -> mrel st1 st2 ->
    cres2 (exec_selections M1 S D E fuel ch1 ot sels path st1) (exec_selections M2 S D E fuel ch2 ot sels path st2).
  Proof.
    intros Hch0 Hot Hocc Hrel. unfold exec_selections.
    pose proof (csim_with_args ch1 ch2 ot Hch0) as Hch.
    revert Hch. generalize (with_args S D ch1 ot) (with_args S D ch2 ot). clear Hch0 ch1 ch2.
    intros ch1 ch2 Hch. unfold exec_selections_raw.
    destruct (collect_fields_memo ot sels st1 st2 Hot Hocc Hrel) as [Hr [Hrel1 Hn]].
    destruct (collect_fields M1 S D E fuel ot sels st1) as [r1 s1].
    destruct (collect_fields M2 S D E fuel ot sels st2) as [r2 s2].
    cbn [fst snd] in *. subst r2.
    destruct r1 as [g| |]; try (split; [reflexivity|exact Hrel1]).
    pose proof (cres2_groups ch1 ch2 ot path Hch g s1 s2 (Hn g eq_refl) Hrel1) as H.
    destruct (exec_groups S ch1 ot path g s1) as [rr1 t1].
    destruct (exec_groups S ch2 ot path g s2) as [rr2 t2].
    destruct H as [Hrr Hrel2]. cbn [fst snd] in *. subst rr2. split; [reflexivity|exact Hrel2].
  Qed.

  Lemma lookup_name_ok n d : lookup_type S n = Some d ->
    name_ok n /\ match d with NUnion ms => Forall name_ok ms | _ => True end.
  Proof.
    intro H. apply assoc_in in H. destruct Hnames as [Ht _]. rewrite Forall_forall in Ht.
    apply (Ht _ H).
  Qed.

  Lemma impls_name_ok i ot : In ot (impls_of S i) -> name_ok ot.
  Proof.
    unfold impls_of. intro H. apply in_flat_map in H as [[k d] [Hin H]]. cbn [fst snd] in H.
    destruct Hnames as [Ht _]. rewrite Forall_forall in Ht. specialize (Ht _ Hin). cbn [fst] in Ht.
    destruct d; try (destruct H; fail). destruct (mem i ifaces); [|destruct H].
    destruct H as [<-|[]]. apply Ht.
  Qed.

  Lemma complete_view_csim v1 v2 :
    ov_nil v1 = ov_nil v2 -> ov_leaf v1 = ov_leaf v2 -> ov_tag v1 = ov_tag v2 ->
    match ov_items v1, ov_items v2 with
    | Some l1, Some l2 => Forall2 csim l1 l2
    | None, None => True
    | _, _ => False
    end ->
    (forall k, csim (ov_field v1 k) (ov_field v2 k)) ->
    csim (complete_view M1 S D E fuel v1) (complete_view M2 S D E fuel v2).
  Proof.
    intros Hnil Hleaf Htag Hitems Hch ty.
    induction ty as [nm|t IH|t IH]; intros f0 more path st1 st2 Hocc Hrel.
    - cbn [complete_view]. rewrite Hnil. destruct (ov_nil v2); [split; [reflexivity|exact Hrel]|].
      destruct (lookup_type S nm) as [[k|vals|fs ifs|fs|ms|]|] eqn:El;
        try (split; [reflexivity|exact Hrel]).
      + rewrite Hf7, Hleaf. destruct (coerce_scalar (fix7 M2) k (ov_leaf v2)); split; try reflexivity; exact Hrel.
      + rewrite Hleaf. destruct (coerce_enum vals (ov_leaf v2)); split; try reflexivity; exact Hrel.
      + apply cres2_selections; try assumption. apply (lookup_name_ok _ _ El).
      + rewrite Htag. destruct (first_is_type_of (ov_tag v2) (impls_of S nm)) as [ot|] eqn:Ef;
          [|split; [reflexivity|exact Hrel]].
        apply cres2_selections; try assumption. apply (impls_name_ok nm). eapply first_is_type_of_in. exact Ef.
      + rewrite Htag. destruct (first_is_type_of (ov_tag v2) ms) as [ot|] eqn:Ef;
          [|split; [reflexivity|exact Hrel]].
        apply cres2_selections; try assumption.
        destruct (lookup_name_ok _ _ El) as [_ Hms]. rewrite Forall_forall in Hms. apply Hms.
        eapply first_is_type_of_in. exact Ef.
    - cbn [complete_view]. rewrite Hnil. destruct (ov_nil v2); [split; [reflexivity|exact Hrel]|].
      destruct (ov_items v1) as [l1|], (ov_items v2) as [l2|]; try (destruct Hitems; fail);
        [|split; [reflexivity|exact Hrel]].
      pose proof (cres2_items t f0 more path l1 l2 Hitems Hocc 0%N st1 st2 Hrel) as H.
      destruct (complete_items t f0 more path l1 0%N st1) as [r1 s1].
      destruct (complete_items t f0 more path l2 0%N st2) as [r2 s2].
      destruct H as [Hr Hrel1]. cbn [fst snd] in *. subst r2. split; [reflexivity|exact Hrel1].
    - cbn [complete_view]. fold (complete_view M1 S D E fuel v1). fold (complete_view M2 S D E fuel v2).
      specialize (IH f0 more path st1 st2 Hocc Hrel).
      destruct (complete_view M1 S D E fuel v1 t f0 more path st1) as [r1 s1].
      destruct (complete_view M2 S D E fuel v2 t f0 more path st2) as [r2 s2].
      destruct IH as [Hr Hrel1]. cbn [fst snd] in *. subst r2. rewrite Hf1.
      destruct r1 as [j|e| |]; try (split; [reflexivity|exact Hrel1]).
      + destruct j; split; try reflexivity; exact Hrel1.
      + destruct (fix1 M2); split; try reflexivity; exact Hrel1.
  Qed.

  Lemma csim_err : csim err_completer err_completer.
  Proof. intros ty f0 more path st1 st2 _ Hrel. split; [reflexivity|exact Hrel]. Qed.

  Lemma csim_field_of l1 l2 :
    Forall2 (fun a b => fst a = fst b /\ csim (snd a) (snd b)) l1 l2 ->
    forall k, csim (field_of l1 k) (field_of l2 k).
  Proof.
    intros H k. unfold field_of. induction H as [|[k1 c1] [k2 c2] l1 l2 [Hk Hc] _ IH]; cbn [assoc].
    - apply csim_err.
    - cbn [fst snd] in *. subst k2. destruct (name_eqb k k1); [exact Hc|exact IH].
  Qed.

  Lemma outcome_ind2 (P : outcome -> Prop) :
    P ONil -> P OTypedNil -> P OErr -> (forall g, P (OLeaf g)) ->
    (forall l, Forall P l -> P (OList l)) ->
    (forall t fs, Forall (fun nf => P (snd nf)) fs -> P (OObj t fs)) ->
    forall o, P o.
  Proof.
    intros H1 H2 H3 H4 H5 H6. fix IH 1. intro o. destruct o as [| | |g|l|t fs].
    - exact H1. - exact H2. - exact H3. - apply H4.
    - apply H5. induction l as [|x l IHl]; constructor; [apply IH|exact IHl].
    - apply H6. induction fs as [|[n x] fs IHfs]; constructor; [apply IH|exact IHfs].
  Qed.

  Lemma complete_csim o : csim (complete M1 S D E fuel o) (complete M2 S D E fuel o).
  Proof.
    induction o as [| | |g|l IH|t fs IH] using outcome_ind2;
      try (apply complete_view_csim; cbn; try reflexivity; try exact I; intro k; apply csim_err).
    - apply complete_view_csim; cbn [ov_nil ov_leaf ov_items ov_tag ov_field]; try reflexivity;
        try (intro k; apply csim_err).
      induction IH as [|x l Hx _ IHl]; cbn [map]; constructor; assumption.
    - apply complete_view_csim; cbn [ov_nil ov_leaf ov_items ov_tag ov_field]; try reflexivity; try exact I.
      apply csim_field_of. induction IH as [|[k o'] fs Ho _ IHfs]; cbn [map]; constructor; [|exact IHfs].
      cbn [fst snd] in *. split; [reflexivity|]. destruct o'; try exact Ho. apply csim_err.
  Qed.

  Lemma children_csim o k : csim (children_of M1 S D E fuel o k) (children_of M2 S D E fuel o k).
  Proof.
    destruct o as [| | |g|l|t fs]; cbn [children_of]; try apply csim_err.
    apply csim_field_of. induction fs as [|[k' o'] fs IH]; cbn [map]; constructor; [|exact IH].
    cbn [fst snd]. split; [reflexivity|]. destruct o'; try apply complete_csim. apply csim_err.
  Qed.

  (** GroupedFieldSetCache does not change any response *)
  Theorem run_memo_transparent W : run M1 S D E fuel W = run M2 S D E fuel W.
  Proof.
    unfold run. destruct (root_type S (op_kind D)) as [rt|] eqn:Er; [|reflexivity].
    assert (Hrt : name_ok rt).
    { destruct Hnames as [_ [Hq [Hmu Hsu]]]. unfold root_type in Er. destruct (op_kind D).
      - inversion Er; subst. exact Hq.
      - rewrite Er in Hmu. exact Hmu.
      - rewrite Er in Hsu. exact Hsu. }
    pose proof (cres2_selections (children_of M1 S D E fuel W) (children_of M2 S D E fuel W) rt (op_sels D) []
                                 init_state init_state (children_csim W) Hrt (occurs_op D)
                                 (conj eq_refl (Forall_nil _))) as H.
    destruct (exec_selections M1 S D E fuel (children_of M1 S D E fuel W) rt (op_sels D) [] init_state) as [r1 s1].
    destruct (exec_selections M2 S D E fuel (children_of M2 S D E fuel W) rt (op_sels D) [] init_state) as [r2 s2].
    destruct H as [Hr [He _]]. cbn [fst snd] in *. subst r2. rewrite He. reflexivity.
  Qed.
End Transparent.

(** ** the boolean side conditions imply the propositional ones *)
Lemma nodup_posb_inj {A} (f : A -> pos) (l : list A) :
  nodup_posb (map f l) = true -> forall x y, In x l -> In y l -> f x = f y -> x = y.
Proof.
  induction l as [|a l IH]; intros H x y Hx Hy Hf; [destruct Hx|].
  cbn [map nodup_posb] in H. apply andb_true_iff in H as [H1 H2]. apply negb_true_iff in H1.
  assert (Hno : forall z, In z l -> f a <> f z).
  { intros z Hz Heq. assert (existsb (pos_eqb (f a)) (map f l) = true); [|congruence].
    apply existsb_exists. exists (f z). split; [apply in_map; exact Hz|apply pos_eqb_eq; exact Heq]. }
  destruct Hx as [<-|Hx], Hy as [<-|Hy].
  - reflexivity.
  - exfalso. apply (Hno y Hy). exact Hf.
  - exfalso. apply (Hno x Hx). symmetry. exact Hf.
  - apply IH; assumption.
Qed.

Lemma doc_positions_okb_sound D :
  doc_positions_okb D = true -> pos_injective D /\ positions_small D.
Proof.
  unfold doc_positions_okb. intro H. apply andb_true_iff in H as [H1 H2]. split.
  - intros s1 s2 Hs1 Hs2 Hp. apply (nodup_posb_inj sel_pos (all_sels D) H1); assumption.
  - unfold positions_small. rewrite Forall_forall. intros s Hs. rewrite forallb_forall in H2.
    specialize (H2 s Hs). unfold pos_smallb in H2. apply andb_true_iff in H2 as [Ha Hb].
    apply N.ltb_lt in Ha. apply N.ltb_lt in Hb. split; assumption.
Qed.

Lemma name_okb_sound n : name_okb n = true -> name_ok n.
Proof.
  unfold name_okb, name_ok. intro H. rewrite Forall_forall. rewrite forallb_forall in H.
  intros b Hb Hz. specialize (H b Hb). subst b. discriminate.
Qed.

Lemma type_names_okb_sound S : type_names_okb S = true -> type_names_ok S.
Proof.
  unfold type_names_okb, type_names_ok. intro H.
  apply andb_true_iff in H as [H Hs]. apply andb_true_iff in H as [H Hm]. apply andb_true_iff in H as [Ht Hq].
  split; [|split; [apply name_okb_sound; exact Hq|split]].
  - rewrite Forall_forall. rewrite forallb_forall in Ht. intros p Hp. specialize (Ht p Hp).
    apply andb_true_iff in Ht as [Ha Hb]. split; [apply name_okb_sound; exact Ha|].
    destruct (snd p); try exact I. rewrite Forall_forall. rewrite forallb_forall in Hb.
    intros m Hm'. apply name_okb_sound. apply Hb. exact Hm'.
  - destruct (mutation S); [apply name_okb_sound; exact Hm|exact I].
  - destruct (subscription S); [apply name_okb_sound; exact Hs|exact I].
Qed.
