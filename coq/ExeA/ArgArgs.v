(** * ExeA/ArgArgs.v — field arguments and variables (C01 x C05).  Definitions only, shared by the
    executor model and the reference.

    Input coercion itself is C05's: [CoerceModel.coerce_argument_values] (validator.
    CoerceArgumentValues) and [CoerceModel.coerce_variable_values] (CoerceVariableValues), the
    transcriptions of the repaired tree ([all_fixed]); Properties/C05.v relates them to the
    reference coercion of the specification (C05_request_refines, C05_request_no_panic).

    A resolver's behaviour is a FUNCTION of (object value, field name, coerced argument map): the
    outcome tree stores, in an object value, the outcome of field [f] called with the argument
    map [A] under the key [field_key f A] ([f] itself when there are no arguments) — a finite
    table args -> outcome; no entry: the resolver fails. *)
From Coq Require Import List NArith ZArith Bool.
From ApiFu Require Import Base.Sexp ExeA.ArgData.
From ApiFu Require Val.Values Val.CoerceModel.
Import ListNotations.

Definition cargs := list (name * Values.gval).

(** ** a canonical text of a coerced value (the Go harness computes the same text from
    FieldContext.Arguments: a disagreement about a coerced value shows as a different key) *)
Definition enc_len (n : nat) : bytes := dec_of_Z (Z.of_nat n).
Fixpoint enc_gval (g : Values.gval) : bytes :=
  match g with
  | Values.GNil => [110]%N                                             (* n *)
  | Values.GBool true => [116]%N                                       (* t *)
  | Values.GBool false => [102]%N                                      (* f *)
  | Values.GInt z => 105%N :: dec_of_Z z ++ [59]%N                     (* i<z>; *)
  | Values.GInt64 z => 73%N :: dec_of_Z z ++ [59]%N                    (* I<z>; : int64 (LongInt) *)
  | Values.GFloat d => let d' := Values.f64_norm d in
                       100%N :: dec_of_Z (Values.fm d') ++ 101%N :: dec_of_Z (Values.fe d') ++ [59]%N   (* d<m>e<e>; *)
  | Values.GString s => 115%N :: enc_len (length s) ++ 58%N :: s       (* s<len>:<bytes> *)
  | Values.GTime c => 84%N :: enc_len (length c) ++ 58%N :: c          (* T<len>:<RFC3339Nano rendering> *)
  | Values.GList vs => 91%N :: flat_map enc_gval vs ++ [93]%N          (* [ ... ] *)
  | Values.GMap kvs =>
      123%N :: flat_map (fun kv => enc_len (length (fst kv)) ++ 58%N :: fst kv ++ 61%N :: enc_gval (snd kv)) kvs ++ [125]%N
  | _ => [63]%N                                                        (* ? : values the harness does not use *)
  end.
Definition enc_args (A : cargs) : bytes :=
  flat_map (fun kv => enc_len (length (fst kv)) ++ 58%N :: fst kv ++ 61%N :: enc_gval (snd kv)) A.

(** the key of the outcome table *)
Definition field_key (f : name) (A : cargs) : name :=
  match A with [] => f | _ => f ++ 0%N :: enc_args A end.

Fixpoint assoc_pos {A} (p : pos) (l : list (pos * A)) : option A :=
  match l with
  | [] => None
  | (q, v) :: r => if pos_eqb p q then Some v else assoc_pos p r
  end.

(** the parser oracle of apifu's DateTime scalar (C05's [dt] parameter), from the schema's table *)
Definition dt_oracle (S : schema) : bytes -> option bytes :=
  fun s => match Values.aget s (s_dt S) with Some o => o | None => None end.

Section Args.
  Variables (S : schema) (D : document).

  (** fieldDef.Arguments *)
  Definition argdefs_of (ot fname : name) : argdefs :=
    match assoc ot (s_argdefs S) with
    | Some fs => match assoc fname fs with Some ds => ds | None => [] end
    | None => []
    end.
  (** field.Arguments of the node *)
  Definition args_of (f : fnode) : list (name * Values.lit) :=
    match assoc_pos (fn_pos f) (d_args D) with Some l => l | None => [] end.

  (** coerceArgumentValues(field, fieldDef.Arguments, field.Arguments, e.VariableValues) in
      executeField, for the FIRST field node of the group *)
  Definition coerce_field_args (ot : name) (f : fnode) : Values.res cargs :=
    CoerceModel.coerce_argument_values CoerceModel.all_fixed (s_inputs S) (dt_oracle S)
      (argdefs_of ot (fn_name f)) (args_of f) (d_vars D).
End Args.

(** ** variables *)
(** what @skip/@include see of the coerced variables *)
Definition env_of_vars (vv : list (name * Values.gval)) : env :=
  flat_map (fun kv => match snd kv with
                      | Values.GBool b => [(fst kv, Some b)]
                      | Values.GNil => [(fst kv, None)]
                      | _ => [(fst kv, None)]
                      end) vv.

(** CoerceVariableValues runs over the definitions in order and returns the first error, located
    at the variable node of the definition that failed (for a validated operation the only
    failures left: a required variable without value, a value that does not coerce) *)
Fixpoint first_failing_var (S : schema) (defs : list (Values.vardef * pos)) (done : list Values.vardef)
         (raw : list (name * Values.jval)) : option pos :=
  match defs with
  | [] => None
  | (d, p) :: rest =>
      match CoerceModel.coerce_variable_values CoerceModel.all_fixed (s_inputs S) (dt_oracle S) (done ++ [d]) raw with
      | Values.Ok _ => first_failing_var S rest (done ++ [d]) raw
      | _ => Some p
      end
  end.
