(** * ExeA/ArgSimProofs.v — the executor model (without memo cache) refines the execution spec.

    For every outcome tree: same value; the errors the model appends are a subsequence of the
    errors the spec allows; every failure null the spec leaves visible is explained by exactly one
    appended error; a propagating model error is one of the spec's propagating errors; under the
    typing premise ([doc_ok]) the model neither panics nor runs out of fuel. *)
From Coq Require Import List NArith ZArith Bool Lia Permutation.
From ApiFu Require Import Base.Sexp ExeA.ArgData ExeA.ArgArgs ExeA.ArgModel ExeA.ArgSpec
     ExeA.ArgBaseProofs ExeA.ArgCollectProofs ExeA.ArgDirProofs ExeA.ArgSpecProofs.
Import ListNotations.

(** ** the refinement relation on one step *)
Definition simres_gen {A} (st : state) (r : res A) (st' : state)
           (okP : A -> Prop) (failed : Prop)
           (caught : list gerror) (nulls : list (rpath * list gerror)) (thrown : list gerror) : Prop :=
  st_cache st' = st_cache st /\
  exists new, st_errs st' = st_errs st ++ new /\ subseq new caught /\
    match r with
    | ROk a => okP a /\ Forall (fun pc => count_in (snd pc) new = 1%nat) nulls
    | RErr e => failed /\ In e thrown
    | RPanic | ROutOfFuel => False
    end.

Definition simres (st : state) (r : res json) (st' : state) (x : sout) : Prop :=
  simres_gen st r st' (fun j => so_val x = Some j) (so_val x = None)
             (so_caught x) (so_nulls x) (so_thrown x).

(** a nullable position absorbs the error *)
Lemma sim_position t p st (y : res json * state) x :
  swf p x -> simres st (fst y) (snd y) x ->
  simres st (fst (catch_if_nullable JNull t y)) (snd (catch_if_nullable JNull t y))
         (s_position t p x).
Proof.
  destruct y as [r st']. cbn [fst snd].
  intros Hw [Hc [new [He [Hs Hr]]]].
  assert (Hcatch : forall (Hnn : match t with StNonNull _ => False | _ => True end),
             simres st (fst (match r with RErr e => (ROk JNull, add_err e st') | _ => (r, st') end))
                    (snd (match r with RErr e => (ROk JNull, add_err e st') | _ => (r, st') end))
                    (s_catch p x)).
  { intros _. destruct r as [j|e| |]; cbn [fst snd].
    - destruct Hr as [Hv Hn]. unfold s_catch. rewrite Hv.
      split; [exact Hc|]. exists new. repeat split; assumption.
    - destruct Hr as [Hv Hin]. unfold s_catch. rewrite Hv.
      split; [exact Hc|]. exists (new ++ [e]). cbn [so_val so_caught so_nulls so_thrown add_err st_errs].
      split; [rewrite He, app_assoc; reflexivity|].
      split; [apply subseq_app; [exact Hs|apply subseq_single; exact Hin]|].
      split; [reflexivity|].
      constructor; [|constructor]. cbn [snd].
      rewrite count_in_app, (count_in_single _ _ Hin).
      rewrite count_in_zero; [reflexivity|].
      intros e' He' Hin'. pose proof (w_nodup _ _ Hw) as Hnd. unfold errs_of in Hnd. rewrite map_app in Hnd.
      apply (NoDup_app_disjoint _ _ (e_path e') Hnd); apply in_map; [apply (subseq_incl _ _ Hs); exact He'|exact Hin'].
    - destruct Hr.
    - destruct Hr. }
  destruct t as [n|t'|t']; cbn [catch_if_nullable s_position fst snd].
  - apply Hcatch. exact I.
  - apply Hcatch. exact I.
  - split; [exact Hc|]. exists new. repeat split; assumption.
Qed.

(** ** counting across siblings *)
Lemma incl_caught_errs xs : incl (flat_map so_caught xs) (flat_map errs_of xs).
Proof.
  induction xs as [|x xs IH]; [apply incl_refl|].
  cbn [flat_map]. unfold errs_of at 1. intros e He. apply in_app_or in He as [He|He].
  - apply in_or_app. left. apply in_or_app. left. exact He.
  - apply in_or_app. right. apply IH. exact He.
Qed.

Lemma count_cross_head x1 xs new2 :
  NoDup (map e_path (errs_of x1 ++ flat_map errs_of xs)) ->
  incl new2 (flat_map so_caught xs) ->
  forall pc : rpath * list gerror, incl (snd pc) (so_caught x1) -> count_in (snd pc) new2 = 0%nat.
Proof.
  intros Hnd Hin pc Hpc. apply count_in_zero. intros e He Hc.
  rewrite map_app in Hnd. apply (NoDup_app_disjoint _ _ (e_path e) Hnd); apply in_map.
  - unfold errs_of. apply in_or_app. left. apply Hpc. exact Hc.
  - apply incl_caught_errs. apply Hin. exact He.
Qed.

Lemma count_cross_tail x1 xs new1 :
  NoDup (map e_path (errs_of x1 ++ flat_map errs_of xs)) ->
  incl new1 (so_caught x1) ->
  forall pc : rpath * list gerror, incl (snd pc) (flat_map so_caught xs) -> count_in (snd pc) new1 = 0%nat.
Proof.
  intros Hnd Hin pc Hpc. apply count_in_zero. intros e He Hc.
  rewrite map_app in Hnd. apply (NoDup_app_disjoint _ _ (e_path e) Hnd); apply in_map.
  - unfold errs_of. apply in_or_app. left. apply Hin. exact He.
  - apply incl_caught_errs. apply Hpc. exact Hc.
Qed.

Lemma nulls_cands_incl xs :
  Forall (fun x => Forall (fun pc => incl (snd pc) (so_caught x)) (so_nulls x)) xs ->
  Forall (fun pc => incl (snd pc) (flat_map so_caught xs)) (flat_map so_nulls xs).
Proof.
  intro H. induction H as [|x xs Hx _ IH]; [constructor|].
  cbn [flat_map]. apply Forall_app. split.
  - eapply Forall_impl; [|exact Hx]. intros pc Hpc e He. apply in_or_app. left. apply Hpc, He.
  - eapply Forall_impl; [|exact IH]. intros pc Hpc e He. apply in_or_app. right. apply Hpc, He.
Qed.

(** the step shared by lists and selection sets: part 1 succeeded or failed with [new1], the
    rest with [new2] *)
Lemma nulls_count_combine x1 xs new1 new2 :
  NoDup (map e_path (errs_of x1 ++ flat_map errs_of xs)) ->
  Forall (fun pc => incl (snd pc) (so_caught x1)) (so_nulls x1) ->
  Forall (fun pc => incl (snd pc) (flat_map so_caught xs)) (flat_map so_nulls xs) ->
  subseq new1 (so_caught x1) -> subseq new2 (flat_map so_caught xs) ->
  Forall (fun pc => count_in (snd pc) new1 = 1%nat) (so_nulls x1) ->
  Forall (fun pc => count_in (snd pc) new2 = 1%nat) (flat_map so_nulls xs) ->
  Forall (fun pc => count_in (snd pc) (new1 ++ new2) = 1%nat) (so_nulls x1 ++ flat_map so_nulls xs).
Proof.
  intros Hnd Hc1 Hc2 Hs1 Hs2 Hn1 Hn2. apply Forall_app. split.
  - rewrite Forall_forall in *. intros pc Hpc. rewrite count_in_app, (Hn1 pc Hpc).
    rewrite (count_cross_head x1 xs new2 Hnd (subseq_incl _ _ Hs2) pc (Hc1 pc Hpc)). reflexivity.
  - rewrite Forall_forall in *. intros pc Hpc. rewrite count_in_app, (Hn2 pc Hpc).
    rewrite (count_cross_tail x1 xs new1 Hnd (subseq_incl _ _ Hs1) pc (Hc2 pc Hpc)). reflexivity.
Qed.

Lemma combine_fst_snd {A B} (l : list (A * B)) : combine (map fst l) (map snd l) = l.
Proof. induction l as [|[a b] l IH]; [reflexivity|]. cbn. rewrite IH. reflexivity. Qed.

Section Sim.
  Variables (M : mode) (S : schema) (D : document) (E : env) (fuel : nat).
  Hypothesis Hfix1 : fix1 M = true.
  Hypothesis Hfix7 : fix7 M = true.
  Hypothesis Hmemo : memo M = false.
  (** [wd]: with or without the directive conjunct.  A reporting executor needs it ([Hb]); a silent
      one ([report M = false]) does not *)
  Variable wd : bool.
  Hypothesis Hconds : conds_gen S D E wd = true.
  Hypothesis Hb : report M = true -> wd = true.

  (** [c] refines [s] wherever the document is fine for the type at hand *)
  Definition sim (c : completer) (s : scompleter) : Prop :=
    forall n ty f0 more path st,
      type_ok_with S (sels_ok S D E fuel n) ty (f0 :: more) = true ->
      forallb (sel_conds_gen S E wd) (merge_subs f0 more) = true ->
      simres st (fst (c ty f0 more path st)) (snd (c ty f0 more path st)) (s ty (f0 :: more) path).

  Lemma type_ok_list rec t fields : type_ok_with S rec (StList t) fields = type_ok_with S rec t fields.
  Proof. reflexivity. Qed.
  Lemma type_ok_nonnull rec t fields : type_ok_with S rec (StNonNull t) fields = type_ok_with S rec t fields.
  Proof. reflexivity. Qed.

  (** *** list items *)
  Lemma sim_items n t f0 more path :
    type_ok_with S (sels_ok S D E fuel n) t (f0 :: more) = true ->
    forallb (sel_conds_gen S E wd) (merge_subs f0 more) = true ->
    forall items sitems, Forall2 sim items sitems -> Forall wf_completer sitems ->
    forall i st,
      let y := complete_items t f0 more path items i st in
      let xs := s_items t (f0 :: more) path sitems i in
      NoDup (map e_path (flat_map errs_of xs)) ->
      simres_gen st (fst y) (snd y) (fun js => vals_of xs = Some js) (vals_of xs = None)
                 (flat_map so_caught xs) (flat_map so_nulls xs) (flat_map so_thrown xs).
  Proof.
    intros Hty Hcs items sitems H2. induction H2 as [|c s items sitems Hcs1 _ IH]; intros Hwf i st y xs Hnd.
    - subst y xs. cbn. split; [reflexivity|]. exists []. rewrite app_nil_r.
      repeat split; try constructor.
    - inversion Hwf as [|? ? Hws Hwf']; subst.
      cbn [s_items] in xs. cbn [complete_items] in y.
      set (p1 := path ++ [PIdx i]) in *.
      set (x1raw := s t (f0 :: more) p1) in *.
      set (x1 := s_position t p1 x1raw) in *.
      assert (Hw1 : swf p1 x1) by (apply swf_position, Hws).
      pose proof (sim_position t p1 st _ x1raw (proj1 (Hws t (f0 :: more) p1)) (Hcs1 n t f0 more p1 st Hty Hcs)) as H1.
      fold x1 in H1.
      destruct (catch_if_nullable JNull t (c t f0 more p1 st)) as [r1 st1] eqn:E1. cbn [fst snd] in H1.
      subst xs. cbn [flat_map] in Hnd |- *.
      set (xs := s_items t (f0 :: more) path sitems (i + 1)%N) in *.
      assert (Hnd2 : NoDup (map e_path (flat_map errs_of xs))).
      { rewrite map_app in Hnd. apply NoDup_app_r in Hnd. exact Hnd. }
      specialize (IH Hwf' (i + 1)%N st1 Hnd2). cbv zeta in IH. fold xs in IH.
      destruct H1 as [Hc1 [new1 [He1 [Hs1 Hr1]]]].
      destruct r1 as [j|e| |]; try (destruct Hr1; fail).
      + (* head completed *)
        subst y. destruct (complete_items t f0 more path items (i + 1)%N st1) as [rr st2] eqn:E2.
        cbn [fst snd] in IH |- *.
        destruct IH as [Hc2 [new2 [He2 [Hs2 Hr2]]]].
        split; [congruence|]. exists (new1 ++ new2).
        split; [rewrite He2, He1, app_assoc; reflexivity|].
        split; [apply subseq_app; assumption|].
        destruct Hr1 as [Hv1 Hn1].
        destruct rr as [js|e| |]; try (destruct Hr2; fail).
        * destruct Hr2 as [Hv2 Hn2]. split.
          -- cbn [vals_of]. rewrite Hv1, Hv2. reflexivity.
          -- apply (nulls_count_combine x1 xs); try assumption.
             ++ apply (w_cands _ _ Hw1).
             ++ apply nulls_cands_incl. subst xs. rewrite s_items_labels. rewrite Forall_map.
                clear - Hwf'. generalize (i + 1)%N as k. intro k. revert k Hwf'. induction sitems as [|s' r IHr]; intros k Hwf'; [constructor|].
                inversion Hwf'; subst. cbn [label_items]. constructor; [|apply IHr; assumption].
                cbn [snd]. apply (w_cands (path ++ [PIdx k])). apply swf_position. apply H1.
        * destruct Hr2 as [Hv2 Hin2]. split.
          -- cbn [vals_of]. rewrite Hv1, Hv2. reflexivity.
          -- apply in_or_app. right. exact Hin2.
      + (* head failed (its type is non-null): the other items are still completed *)
        subst y. destruct (complete_items t f0 more path items (i + 1)%N st1) as [rr st2] eqn:E2.
        cbn [fst snd] in IH |- *.
        destruct IH as [Hc2 [new2 [He2 [Hs2 Hr2]]]].
        destruct Hr1 as [Hv1 Hin1].
        destruct rr as [js|e'| |]; try (destruct Hr2; fail).
        * split; [congruence|]. exists (new1 ++ new2).
          split; [rewrite He2, He1, app_assoc; reflexivity|].
          split; [apply subseq_app; assumption|].
          split; [cbn [vals_of]; rewrite Hv1; reflexivity|apply in_or_app; left; exact Hin1].
        * split; [congruence|]. exists (new1 ++ new2).
          split; [rewrite He2, He1, app_assoc; reflexivity|].
          split; [apply subseq_app; assumption|].
          split; [cbn [vals_of]; rewrite Hv1; reflexivity|apply in_or_app; left; exact Hin1].
  Qed.

  (** *** the fields of a selection set *)
  Lemma field_kind_eq ot fname :
    s_field_kind S ot fname =
    if name_eqb fname n_typename then SFTypename
    else match get_field S ot fname with
         | FType t => SFType t | FMeta => SFMeta | FNone => SFUndefined
         end.
  Proof.
    unfold s_field_kind, get_field. destruct (name_eqb fname n_typename); [reflexivity|].
    destruct (lookup_type S ot) as [[k|vals|fs ifs|fs|ms|]|]; try reflexivity.
    destruct (assoc fname fs); [reflexivity|].
    destruct (name_eqb ot (query S) && (name_eqb fname n_schema || name_eqb fname n_type)); reflexivity.
  Qed.

  (** the same for the field executors of an object of type [ot]: the first field node's
      arguments must not make the coercion code panic *)
  Definition sim_at (ot : name) (c : completer) (s : scompleter) : Prop :=
    forall n ty f0 more path st,
      args_total S D ot f0 = true ->
      type_ok_with S (sels_ok S D E fuel n) ty (f0 :: more) = true ->
      forallb (sel_conds_gen S E wd) (merge_subs f0 more) = true ->
      simres st (fst (c ty f0 more path st)) (snd (c ty f0 more path st)) (s ty (f0 :: more) path).

  Lemma sim_groups n children schildren ot path :
    (forall k, sim_at ot (children k) (schildren k)) -> (forall k, wf_completer (schildren k)) ->
    forall g st,
      forallb (group_ok_with S D (sels_ok S D E fuel n) ot) (to_spec g) = true ->
      Forall (fun x => forallb (sel_conds_gen S E wd) (merge_subs (g_first x) (g_more x)) = true) g ->
      let y := exec_groups S children ot path g st in
      let entries := flat_map (s_entry S schildren ot path) (to_spec g) in
      NoDup (map e_path (flat_map errs_of (map snd entries))) ->
      simres_gen st (fst y) (snd y)
                 (fun kvs => vals_of (map snd entries) = Some (map snd kvs) /\ map fst kvs = map fst entries)
                 (vals_of (map snd entries) = None)
                 (flat_map so_caught (map snd entries)) (flat_map so_nulls (map snd entries))
                 (flat_map so_thrown (map snd entries)).
  Proof.
    intros Hch Hwf g. induction g as [|x rest IH]; intros st Hok Hcs; cbv zeta; intro Hnd.
    - cbn. split; [reflexivity|]. exists []. rewrite app_nil_r.
      repeat split; try constructor.
    - cbn [to_spec map] in Hok, Hnd |- *. fold (to_spec rest) in Hok, Hnd |- *.
      cbn [forallb] in Hok. apply andb_true_iff in Hok as [Hok1 Hok2].
      inversion Hcs as [|? ? Hcs1 Hcs2]; subst.
      cbn [flat_map] in Hnd |- *.
      set (erest := flat_map (s_entry S schildren ot path) (to_spec rest)) in *.
      unfold group_ok_with in Hok1. cbn [snd g_fields] in Hok1.
      rewrite field_kind_eq in Hok1.
      assert (Hhead : s_entry S schildren ot path (g_key x, g_fields x) =
                      if name_eqb (fn_name (g_first x)) n_typename then [(g_key x, s_ok (JStr ot))]
                      else match get_field S ot (fn_name (g_first x)) with
                           | FType t => [(g_key x, s_position t (path ++ [PKey (g_key x)])
                                                     (schildren (fn_name (g_first x)) t (g_first x :: g_more x)
                                                                (path ++ [PKey (g_key x)])))]
                           | FMeta => [(g_key x, s_ok JMeta)]
                           | FNone => []
                           end).
      { unfold s_entry. cbn [fst snd g_fields]. rewrite field_kind_eq.
        destruct (name_eqb (fn_name (g_first x)) n_typename); [reflexivity|].
        destruct (get_field S ot (fn_name (g_first x))); reflexivity. }
      rewrite Hhead in Hnd |- *. clear Hhead.
      cbn [exec_groups].
      (* an entry that is a constant *)
      assert (Hconst : forall j,
                 NoDup (map e_path (flat_map errs_of (map snd erest))) ->
                 let y' := (let (rr, st2) := exec_groups S children ot path rest st in
                            (match rr with ROk kvs => ROk ((g_key x, j) :: kvs) | _ => rr end, st2)) in
                 let entries' := (g_key x, s_ok j) :: erest in
                 simres_gen st (fst y') (snd y')
                            (fun kvs => vals_of (map snd entries') = Some (map snd kvs) /\ map fst kvs = map fst entries')
                            (vals_of (map snd entries') = None)
                            (flat_map so_caught (map snd entries')) (flat_map so_nulls (map snd entries'))
                            (flat_map so_thrown (map snd entries'))).
      { intros j Hnd' y' entries'. subst y' entries'.
        specialize (IH st Hok2 Hcs2 Hnd'). cbv zeta in IH. fold erest in IH.
        destruct (exec_groups S children ot path rest st) as [rr st2]. cbn [fst snd] in IH |- *.
        destruct IH as [Hc2 [new2 [He2 [Hs2 Hr2]]]].
        split; [exact Hc2|]. exists new2. split; [exact He2|]. cbn [map snd flat_map s_ok so_caught so_nulls so_thrown app].
        split; [exact Hs2|].
        destruct rr as [kvs|e| |]; try (destruct Hr2; fail).
        - destruct Hr2 as [[Hv Hk] Hn]. split; [|exact Hn].
          cbn [vals_of so_val map fst snd]. rewrite Hv, Hk. split; reflexivity.
        - destruct Hr2 as [Hv Hin]. split; [|exact Hin]. cbn [vals_of so_val]. rewrite Hv. reflexivity. }
      destruct (name_eqb (fn_name (g_first x)) n_typename).
      + cbn [app]. apply Hconst. cbn [app map snd flat_map] in Hnd. exact Hnd.
      + destruct (get_field S ot (fn_name (g_first x))) as [t| |] eqn:Eg.
        * (* a field with a resolver *)
          apply andb_true_iff in Hok1 as [Hargs Hok1].
          cbn [app map snd fst flat_map] in Hnd |- *.
          set (p1 := path ++ [PKey (g_key x)]) in *.
          set (x1raw := schildren (fn_name (g_first x)) t (g_first x :: g_more x) p1) in *.
          set (x1 := s_position t p1 x1raw) in *.
          assert (Hw1 : swf p1 x1) by (apply swf_position, Hwf).
          pose proof (sim_position t p1 st _ x1raw (proj1 (Hwf _ t (g_first x :: g_more x) p1))
                                   (Hch _ n t (g_first x) (g_more x) p1 st Hargs Hok1 Hcs1)) as H1.
          fold x1 in H1.
          destruct (catch_if_nullable JNull t (children (fn_name (g_first x)) t (g_first x) (g_more x) p1 st))
            as [r1 st1] eqn:E1.
          cbn [fst snd] in H1.
          assert (Hnd2 : NoDup (map e_path (flat_map errs_of (map snd erest)))).
          { rewrite map_app in Hnd. apply NoDup_app_r in Hnd. exact Hnd. }
          specialize (IH st1 Hok2 Hcs2 Hnd2). cbv zeta in IH. fold erest in IH.
          destruct H1 as [Hc1 [new1 [He1 [Hs1 Hr1]]]].
          destruct r1 as [j|e| |]; try (destruct Hr1; fail).
          -- destruct (exec_groups S children ot path rest st1) as [rr st2] eqn:E2.
             cbn [fst snd] in IH |- *.
             destruct IH as [Hc2 [new2 [He2 [Hs2 Hr2]]]].
             split; [congruence|]. exists (new1 ++ new2).
             split; [rewrite He2, He1, app_assoc; reflexivity|].
             split; [apply subseq_app; assumption|].
             destruct Hr1 as [Hv1 Hn1].
             destruct rr as [kvs|e| |]; try (destruct Hr2; fail).
             ++ destruct Hr2 as [[Hv2 Hk2] Hn2]. split.
                ** cbn [vals_of map fst snd]. rewrite Hv1, Hv2, Hk2. split; reflexivity.
                ** apply (nulls_count_combine x1 (map snd erest)); try assumption.
                   --- apply (w_cands _ _ Hw1).
                   --- apply nulls_cands_incl. rewrite Forall_map. rewrite Forall_forall. intros kx Hkx.
                       subst erest. apply in_flat_map in Hkx as [kf [_ Hkx]].
                       unfold s_entry in Hkx. destruct (snd kf) as [|f fs]; [destruct Hkx|].
                       destruct (s_field_kind S ot (fn_name f)); cbn in Hkx.
                       +++ destruct Hkx as [<-|[]]. constructor.
                       +++ destruct Hkx as [<-|[]]. constructor.
                       +++ destruct Hkx as [<-|[]]. cbn [snd].
                           apply (w_cands (path ++ [PKey (fst kf)])). apply swf_position. apply Hwf.
                       +++ destruct Hkx.
             ++ destruct Hr2 as [Hv2 Hin2]. split.
                ** cbn [vals_of]. rewrite Hv1, Hv2. reflexivity.
                ** apply in_or_app. right. exact Hin2.
          -- (* a non-null field failed: the remaining fields are not executed *)
             cbn [fst snd]. destruct Hr1 as [Hv1 Hin1].
             split; [exact Hc1|]. exists new1. split; [exact He1|].
             split; [apply subseq_app_r; exact Hs1|].
             split; [cbn [vals_of]; rewrite Hv1; reflexivity|apply in_or_app; left; exact Hin1].
        * cbn [app]. apply Hconst. cbn [app map snd flat_map] in Hnd. exact Hnd.
        * discriminate.
  Qed.

  (** *** a selection set *)
  Definition group_conds (x : group) : Prop :=
    forallb (sel_conds_gen S E wd) (merge_subs (g_first x) (g_more x)) = true.

  Lemma gfs_append_conds k f g :
    forallb (sel_conds_gen S E wd) (fn_sub f) = true -> Forall group_conds g -> Forall group_conds (gfs_append k f g).
  Proof.
    intros Hf Hg. induction Hg as [|x r Hx Hr IH]; cbn [gfs_append].
    - constructor; [|constructor]. unfold group_conds, merge_subs. cbn. rewrite app_nil_r. exact Hf.
    - destruct (name_eqb k (g_key x)).
      + constructor; [|assumption]. unfold group_conds, merge_subs in *. cbn [g_first g_more].
        rewrite flat_map_app, app_assoc, forallb_app, Hx. cbn. rewrite app_nil_r. exact Hf.
      + constructor; assumption.
  Qed.

  Lemma append_flat_conds flat g :
    subs_ok S E wd flat -> Forall group_conds g -> Forall group_conds (append_flat flat g).
  Proof.
    intro H. revert g. induction H as [|kf flat Hkf _ IH]; intros g Hg; [exact Hg|].
    unfold append_flat in *. cbn [fold_left]. apply IH. apply gfs_append_conds; assumption.
  Qed.

  Lemma simres_ok st j : simres st (ROk j) st (s_ok j).
  Proof.
    split; [reflexivity|]. exists []. rewrite app_nil_r. cbn.
    repeat split; constructor.
  Qed.

  Lemma simres_throw st e : simres st (RErr e) st (s_throw e).
  Proof.
    split; [reflexivity|]. exists []. rewrite app_nil_r. cbn.
    repeat split; try constructor. reflexivity.
  Qed.

  Lemma sim_with_args children schildren ot :
    (forall k, sim (children k) (schildren k)) ->
    forall k, sim_at ot (with_args S D children ot k) (s_with_args S D schildren ot k).
  Proof.
    intros Hch k n ty f0 more path st Hargs Hty Hcs. unfold with_args, s_with_args, args_total in *.
    destruct (coerce_field_args S D ot f0) as [A| |]; [exact (Hch _ n ty f0 more path st Hty Hcs)| |discriminate].
    cbn [fst snd]. apply simres_throw.
  Qed.

  Lemma sim_selections n children schildren ot sels path st :
    (forall k, sim (children k) (schildren k)) -> (forall k, wf_completer (schildren k)) ->
    sels_ok S D E fuel n ot sels = true -> forallb (sel_conds_gen S E wd) sels = true ->
    simres st (fst (exec_selections M S D E fuel children ot sels path st))
           (snd (exec_selections M S D E fuel children ot sels path st))
           (s_selection_set S D E fuel schildren ot sels path).
  Proof.
    intros Hch0 Hwf0 Hok Hcs.
    pose proof (sim_with_args children schildren ot Hch0) as Hch.
    pose proof (wf_with_args S D schildren ot Hwf0) as Hwf.
    unfold exec_selections, s_selection_set.
    revert Hch Hwf. generalize (with_args S D children ot) (s_with_args S D schildren ot).
    clear Hch0 Hwf0 children schildren. intros children schildren Hch Hwf.
    destruct n as [|n]; [discriminate|].
    cbn [sels_ok] in Hok. unfold s_selection_set_raw.
    destruct (s_collect S D E fuel ot sels) as [groups|] eqn:Ec; [|discriminate].
    unfold s_collect in Ec.
    destruct (s_collect_flat S D E fuel ot sels []) as [[v flat]|] eqn:Ef; [|discriminate].
    inversion Ec; subst groups. clear Ec.
    destruct (collect_sim S D E wd Hconds fuel ot sels [] [] v flat Hcs Ef) as [Hci Hsubs].
    unfold exec_selections_raw, collect_fields. rewrite Hmemo, Hci.
    assert (Hsilent : (if report M then snd (collect_errs S D E fuel ot sels []) else []) = []).
    { destruct (report M) eqn:Er; [|reflexivity]. pose proof (Hb eq_refl) as Hbt.
      pose proof Hconds as Hc'. pose proof Hcs as Hcs'. rewrite Hbt in Hc', Hcs'.
      rewrite conds_gen_true in Hc'.
      apply (collect_errs_nil_conds S D E Hc' fuel ot sels []).
      rewrite <- (forallb_ext_eq _ _ sels (sel_conds_gen_true S E)). exact Hcs'. }
    rewrite Hsilent, report_errs_nil.
    set (g := append_flat flat []) in *.
    assert (Hg : to_spec g = s_group flat) by apply to_spec_group.
    rewrite <- Hg in Hok |- *.
    assert (Hgc : Forall group_conds g) by (apply append_flat_conds; [exact Hsubs|constructor]).
    assert (Hnd : NoDup (map e_path (flat_map errs_of (map snd (flat_map (s_entry S schildren ot path) (to_spec g)))))).
    { apply entries_nodup; [exact Hwf|]. rewrite Hg. apply s_group_nodup. }
    pose proof (sim_groups n children schildren ot path Hch Hwf g st Hok Hgc Hnd) as H.
    cbv zeta in H |- *.
    set (entries := flat_map (s_entry S schildren ot path) (to_spec g)) in *.
    destruct (exec_groups S children ot path g st) as [r st2]. cbn [fst snd] in H |- *.
    destruct H as [Hc [new [He [Hs Hr]]]].
    split; [exact Hc|]. exists new. split; [exact He|].
    unfold s_all. destruct r as [kvs|e| |]; try (destruct Hr; fail).
    - destruct Hr as [[Hv Hk] Hn]. rewrite Hv. cbn [so_val so_caught so_nulls so_thrown].
      split; [exact Hs|]. split; [|exact Hn]. rewrite <- Hk, combine_fst_snd. reflexivity.
    - destruct Hr as [Hv Hin]. rewrite Hv. cbn [so_val so_caught so_nulls so_thrown].
      split; [exact Hs|]. split; [reflexivity|exact Hin].
  Qed.

  (** *** abstract types *)
  Lemma name_eqb_sym a b : name_eqb a b = name_eqb b a.
  Proof.
    destruct (name_eqb a b) eqn:E1.
    - apply name_eqb_eq in E1. subst. symmetry. apply name_eqb_refl.
    - destruct (name_eqb b a) eqn:E2; [|reflexivity]. apply name_eqb_eq in E2. subst.
      rewrite name_eqb_refl in E1. discriminate.
  Qed.

  Lemma first_is_type_of_spec tag l :
    first_is_type_of tag l = match tag with
                             | Some t => if mem t l then Some t else None
                             | None => None
                             end.
  Proof.
    induction l as [|x r IH]; cbn [first_is_type_of mem].
    - destruct tag; reflexivity.
    - destruct tag as [t|]; [|exact IH].
      rewrite (name_eqb_sym t x). destruct (name_eqb x t) eqn:Ex; cbn [orb].
      + apply name_eqb_eq in Ex. subst. reflexivity.
      + exact IH.
  Qed.

  Lemma impls_of_possible n fs : lookup_type S n = Some (NInterface fs) -> impls_of S n = s_possible S n.
  Proof.
    intro H. unfold s_possible, impls_of. rewrite H. induction (types S) as [|[k d] l IH]; [reflexivity|].
    cbn [flat_map filter fst snd]. destruct d as [?|?|fs' ifs|?|?|]; try exact IH.
    destruct (mem n ifs); cbn [app map fst]; rewrite IH; reflexivity.
  Qed.

  Lemma mem_in k l : mem k l = true -> In k l.
  Proof.
    induction l as [|x r IH]; cbn [mem]; [discriminate|].
    intro H. apply orb_true_iff in H as [H|H]; [left; symmetry; apply name_eqb_eq; exact H|right; apply IH, H].
  Qed.

  (** *** CompleteValue *)
  Lemma complete_view_sim v sv :
    ov_nil v = sv_null sv -> ov_leaf v = sv_leaf sv -> ov_tag v = sv_tag sv ->
    match ov_items v, sv_items sv with
    | Some l, Some l' => Forall2 sim l l' /\ Forall wf_completer l'
    | None, None => True
    | _, _ => False
    end ->
    (forall k, sim (ov_field v k) (sv_field sv k)) -> (forall k, wf_completer (sv_field sv k)) ->
    sim (complete_view M S D E fuel v) (s_complete_view S D E fuel sv).
  Proof.
    intros Hnil Hleaf Htag Hitems Hch Hwf n ty.
    induction ty as [nm|t IH|t IH]; intros f0 more path st Hty Hcs.
    - (* named *)
      cbn [complete_view s_complete_view]. rewrite Hnil. destruct (sv_null sv); [apply simres_ok|].
      unfold type_ok_with in Hty. cbn [sty_base] in Hty.
      assert (Hobj : forall ot, In ot (s_possible S nm) ->
                 forallb (fun ot' => sels_ok S D E fuel n ot' (s_merge_selection_sets (f0 :: more))) (s_possible S nm) = true ->
                 simres st (fst (exec_selections M S D E fuel (ov_field v) ot (merge_subs f0 more) path st))
                        (snd (exec_selections M S D E fuel (ov_field v) ot (merge_subs f0 more) path st))
                        (s_selection_set S D E fuel (sv_field sv) ot (s_merge_selection_sets (f0 :: more)) path)).
      { intros ot Hin Hall. rewrite forallb_forall in Hall. specialize (Hall ot Hin).
        apply (sim_selections n); assumption. }
      destruct (lookup_type S nm) as [[k|vals|fs ifs|fs|ms|]|] eqn:El; try discriminate.
      + rewrite Hfix7, Hleaf. destruct (coerce_scalar true k (sv_leaf sv)); [apply simres_ok|apply simres_throw].
      + rewrite Hleaf. destruct (coerce_enum vals (sv_leaf sv)); [apply simres_ok|apply simres_throw].
      + apply Hobj; [|exact Hty]. unfold s_possible. rewrite El. left. reflexivity.
      + rewrite first_is_type_of_spec, (impls_of_possible _ _ El), Htag. unfold s_resolve_abstract.
        destruct (sv_tag sv) as [tg|]; [|apply simres_throw].
        destruct (mem tg (s_possible S nm)) eqn:Em; [|apply simres_throw].
        apply Hobj; [apply mem_in; exact Em|exact Hty].
      + rewrite first_is_type_of_spec, Htag. unfold s_resolve_abstract.
        assert (Hp : s_possible S nm = ms) by (unfold s_possible; rewrite El; reflexivity).
        rewrite Hp in *.
        destruct (sv_tag sv) as [tg|]; [|apply simres_throw].
        destruct (mem tg ms) eqn:Em; [|apply simres_throw].
        apply Hobj; [apply mem_in; exact Em|exact Hty].
    - (* list *)
      cbn [complete_view s_complete_view]. rewrite Hnil. destruct (sv_null sv); [apply simres_ok|].
      destruct (ov_items v) as [items|], (sv_items sv) as [sitems|]; try (destruct Hitems; fail); [|apply simres_throw].
      destruct Hitems as [H2 Hwfi]. rewrite type_ok_list in Hty.
      pose proof (sim_items n t f0 more path Hty Hcs items sitems H2 Hwfi 0%N st
                            (items_nodup t (f0 :: more) path sitems 0%N Hwfi)) as H.
      cbv zeta in H.
      destruct (complete_items t f0 more path items 0%N st) as [r st']. cbn [fst snd] in H |- *.
      destruct H as [Hc [new [He [Hs Hr]]]].
      split; [exact Hc|]. exists new. split; [exact He|].
      unfold s_all. destruct r as [js|e| |]; try (destruct Hr; fail).
      + destruct Hr as [Hv Hn]. rewrite Hv. cbn [so_val so_caught so_nulls so_thrown].
        split; [exact Hs|]. split; [reflexivity|exact Hn].
      + destruct Hr as [Hv Hin]. rewrite Hv. cbn [so_val so_caught so_nulls so_thrown].
        split; [exact Hs|]. split; [reflexivity|exact Hin].
    - (* non-null *)
      cbn [complete_view s_complete_view].
      fold (complete_view M S D E fuel v). fold (s_complete_view S D E fuel sv).
      rewrite type_ok_nonnull in Hty. specialize (IH f0 more path st Hty Hcs).
      destruct (complete_view M S D E fuel v t f0 more path st) as [r st']. cbn [fst snd] in IH |- *.
      destruct IH as [Hc [new [He [Hs Hr]]]].
      set (x := s_complete_view S D E fuel sv t (f0 :: more) path) in *.
      destruct r as [j|e| |]; try (destruct Hr; fail).
      + destruct Hr as [Hv Hn]. rewrite Hv.
        destruct j; cbn [fst snd];
          try (split; [exact Hc|]; exists new; split; [exact He|]; split; [exact Hs|]; split; [exact Hv|exact Hn]).
        (* null under a non-null type *)
        split; [exact Hc|]. exists new. split; [exact He|]. cbn [so_val so_caught so_nulls so_thrown].
        split; [exact Hs|]. split; [reflexivity|]. left. reflexivity.
      + destruct Hr as [Hv Hin]. rewrite Hv, Hfix1. cbn [fst snd].
        split; [exact Hc|]. exists new. split; [exact He|]. split; [exact Hs|]. split; [exact Hv|exact Hin].
  Qed.

  (** *** the whole outcome tree *)
  Lemma sim_err_completer : sim err_completer s_resolver_error.
  Proof. intros n ty f0 more path st _ _. apply simres_throw. Qed.

  Lemma sim_field_of l l' :
    Forall2 (fun a b => fst a = fst b /\ sim (snd a) (snd b)) l l' ->
    forall k, sim (field_of l k) (s_field_of l' k).
  Proof.
    intros H k. unfold field_of, s_field_of. induction H as [|[k1 c] [k2 s] l l' [Hk Hs] _ IH]; cbn [assoc].
    - apply sim_err_completer.
    - cbn [fst snd] in *. subst k2. destruct (name_eqb k k1); [exact Hs|exact IH].
  Qed.

  Lemma complete_unfold o :
    complete M S D E fuel o =
    complete_view M S D E fuel
      {| ov_nil := is_nil o;
         ov_leaf := leaf_of o;
         ov_items := match o with OList l => Some (map (complete M S D E fuel) l) | _ => None end;
         ov_tag := match o with OObj t _ => Some t | _ => None end;
         ov_field := match o with
                     | OObj _ fs => field_of (map (fun p => (fst p, resolve M S D E fuel (snd p))) fs)
                     | _ => fun _ => err_completer
                     end |}.
  Proof.
    destruct o as [| | |g|l|t fs]; try reflexivity.
    cbn [complete]. do 3 f_equal. apply map_ext. intros [n o']. reflexivity.
  Qed.

  Lemma s_complete_unfold o :
    s_complete S D E fuel o =
    s_complete_view S D E fuel
      {| sv_null := is_nil o;
         sv_leaf := leaf_of o;
         sv_items := match o with OList l => Some (map (s_complete S D E fuel) l) | _ => None end;
         sv_tag := match o with OObj t _ => Some t | _ => None end;
         sv_field := match o with
                     | OObj _ fs => s_field_of (map (fun p => (fst p, s_resolve S D E fuel (snd p))) fs)
                     | _ => fun _ => s_resolver_error
                     end |}.
  Proof.
    destruct o as [| | |g|l|t fs]; try reflexivity.
    cbn [s_complete]. do 3 f_equal. apply map_ext. intros [n o']. reflexivity.
  Qed.

  Lemma complete_sim o : sim (complete M S D E fuel o) (s_complete S D E fuel o).
  Proof.
    induction o as [| | |g|l IH|t fs IH] using outcome_ind';
      rewrite complete_unfold, s_complete_unfold; apply complete_view_sim;
        cbn [ov_nil ov_leaf ov_items ov_tag ov_field sv_null sv_leaf sv_items sv_tag sv_field];
        try reflexivity; try exact I;
        try (intro k; apply sim_err_completer); try (intro k; apply wf_resolver_error).
    - split.
      + induction IH as [|x l Hx _ IHl]; cbn [map]; constructor; assumption.
      + rewrite Forall_map. rewrite Forall_forall. intros x _. apply wf_s_complete.
    - apply sim_field_of. induction IH as [|[k o'] fs Ho _ IHfs]; cbn [map]; constructor; [|exact IHfs].
      cbn [fst snd] in *. split; [reflexivity|]. destruct o'; try exact Ho. apply sim_err_completer.
    - apply wf_field_of. rewrite Forall_map. rewrite Forall_forall. intros [k o'] _. cbn [snd].
      apply wf_s_resolve.
  Qed.

  Lemma resolve_sim o : sim (resolve M S D E fuel o) (s_resolve S D E fuel o).
  Proof. destruct o; try apply complete_sim. apply sim_err_completer. Qed.

  Lemma children_sim o k : sim (children_of M S D E fuel o k) (s_children_of S D E fuel o k).
  Proof.
    destruct o as [| | |g|l|t fs]; cbn [children_of s_children_of]; try apply sim_err_completer.
    apply sim_field_of. induction fs as [|[k' o'] fs IH]; cbn [map]; constructor; [|exact IH].
    cbn [fst snd]. split; [reflexivity|apply resolve_sim].
  Qed.
End Sim.
