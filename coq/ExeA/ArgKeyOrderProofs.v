(** * ExeA/ArgKeyOrderProofs.v — the data of the reference (hence of the executor) is well-ordered at
    every depth: [ordered_obj] of ExeA/ArgKeyOrder.v (C01). *)
From Coq Require Import List NArith ZArith Bool Lia.
From ApiFu Require Import Base.Sexp ExeA.ArgData ExeA.ArgArgs ExeA.ArgModel ExeA.ArgSpec ExeA.ArgHyps ExeA.ArgKeyOrder
     ExeA.ArgBaseProofs ExeA.ArgCollectProofs ExeA.ArgSpecProofs ExeA.ArgSimProofs ExeA.ArgCacheProofs
     ExeA.ArgProofs ExeA.ArgOrderProofs ExeA.ArgShapeProofs.
Import ListNotations.

Lemma position_val t p x j :
  so_val (s_position t p x) = Some j -> so_val x = Some j \/ j = JNull.
Proof.
  assert (Hc : so_val (s_catch p x) = Some j -> so_val x = Some j \/ j = JNull).
  { unfold s_catch. destruct (so_val x) as [v|] eqn:Ev.
    - intro H. left. rewrite <- Ev. exact H.
    - cbn. intro H. right. inversion H. reflexivity. }
  destruct t; cbn [s_position]; [exact Hc|exact Hc|intro H; left; exact H].
Qed.

Lemma type_ok_with_list S rec t fields : type_ok_with S rec (StList t) fields = type_ok_with S rec t fields.
Proof. reflexivity. Qed.
Lemma type_ok_with_nonnull S rec t fields : type_ok_with S rec (StNonNull t) fields = type_ok_with S rec t fields.
Proof. reflexivity. Qed.

Section KeyOrderProofs.
  Variables (S : schema) (D : document) (E : env) (fuel : nat).

  Local Notation ordered := (ordered S D E fuel).
  Local Notation ordered_obj := (ordered_obj S D E fuel).
  Local Notation ordered_entry := (ordered_entry S D E fuel).

  (** a completer all of whose values are well-ordered, for fields that are typed *)
  Definition ord_completer (c : scompleter) : Prop :=
    forall n t fields path j,
      type_ok_with S (sels_ok S D E fuel n) t fields = true ->
      so_val (c t fields path) = Some j -> ordered t fields j.

  Lemma ord_resolver_error : ord_completer s_resolver_error.
  Proof. intros n t fields path j _ H. discriminate H. Qed.

  Lemma s_entry_eq children ot path k f fs :
    s_entry S children ot path (k, f :: fs) =
    match s_field_kind S ot (fn_name f) with
    | SFTypename => [(k, s_ok (JStr ot))]
    | SFMeta => [(k, s_ok JMeta)]
    | SFUndefined => []
    | SFType t => [(k, s_position t (path ++ [PKey k]) (children (fn_name f) t (f :: fs) (path ++ [PKey k])))]
    end.
  Proof. reflexivity. Qed.

  Lemma entries_ordered n children ot path :
    (forall k, ord_completer (children k)) ->
    forall groups vs,
      forallb (group_ok_with S D (sels_ok S D E fuel n) ot) groups = true ->
      vals_of (map snd (flat_map (s_entry S children ot path) groups)) = Some vs ->
      Forall2 (ordered_entry ot) groups
              (combine (map fst (flat_map (s_entry S children ot path) groups)) vs).
  Proof.
    intros Hch groups. induction groups as [|[k fields] groups IH]; intros vs Hok Hv.
    - cbn in Hv. inversion Hv. constructor.
    - cbn [forallb] in Hok. apply andb_true_iff in Hok as [H1 H2].
      cbn [flat_map] in Hv |- *. unfold group_ok_with in H1. cbn [snd fst] in H1.
      destruct fields as [|f fs]; [discriminate|].
      rewrite s_entry_eq in Hv |- *.
      destruct (s_field_kind S ot (fn_name f)) as [| |t|] eqn:Ek; try discriminate.
      + cbn [app map snd fst vals_of so_val s_ok] in Hv |- *.
        destruct (vals_of (map snd (flat_map (s_entry S children ot path) groups))) as [vs'|] eqn:Ev; [|discriminate].
        inversion Hv; subst vs. cbn [combine]. constructor; [|apply IH; [exact H2|reflexivity]].
        apply OrdTypename. exact Ek.
      + cbn [app map snd fst vals_of so_val s_ok] in Hv |- *.
        destruct (vals_of (map snd (flat_map (s_entry S children ot path) groups))) as [vs'|] eqn:Ev; [|discriminate].
        inversion Hv; subst vs. cbn [combine]. constructor; [|apply IH; [exact H2|reflexivity]].
        apply OrdMeta. exact Ek.
      + cbn [app map snd fst vals_of] in Hv |- *.
        destruct (so_val (s_position t (path ++ [PKey k]) (children (fn_name f) t (f :: fs) (path ++ [PKey k])))) as [v|] eqn:Ex;
          [|discriminate].
        destruct (vals_of (map snd (flat_map (s_entry S children ot path) groups))) as [vs'|] eqn:Ev; [|discriminate].
        inversion Hv; subst vs. cbn [combine]. constructor; [|apply IH; [exact H2|reflexivity]].
        apply (OrdField S D E fuel ot k f fs t v Ek).
        apply position_val in Ex as [Ex| ->]; [|constructor].
        apply andb_true_iff in H1 as [_ H1].
        exact (Hch (fn_name f) n t (f :: fs) _ v H1 Ex).
  Qed.

  Lemma ord_with_args children ot :
    (forall k, ord_completer (children k)) -> forall k, ord_completer (s_with_args S D children ot k).
  Proof.
    intros Hch k n t fields path j Hty Hv. unfold s_with_args in Hv.
    destruct fields as [|f fs]; [discriminate|].
    destruct (coerce_field_args S D ot f); [exact (Hch _ n t _ path j Hty Hv)|discriminate|discriminate].
  Qed.

  (** ExecuteSelectionSet *)
  Lemma ord_selection_set n children ot sels path j :
    (forall k, ord_completer (children k)) ->
    sels_ok S D E fuel n ot sels = true ->
    so_val (s_selection_set S D E fuel children ot sels path) = Some j ->
    exists kvs, j = JObj kvs /\ ordered_obj ot sels kvs.
  Proof.
    intros Hch0 Hok Hv. destruct n as [|n]; [discriminate|]. cbn [sels_ok] in Hok.
    unfold s_selection_set in Hv. pose proof (ord_with_args children ot Hch0) as Hch.
    revert Hch Hv. generalize (s_with_args S D children ot). clear Hch0 children. intros children Hch Hv.
    unfold s_selection_set_raw in Hv. unfold s_collect in *.
    destruct (s_collect_flat S D E fuel ot sels []) as [[visited flat]|] eqn:Ec; [|discriminate].
    cbv zeta in Hv. unfold s_all in Hv.
    destruct (vals_of (map snd (flat_map (s_entry S children ot path) (s_group flat)))) as [vs|] eqn:Ev; [|discriminate].
    cbn [so_val] in Hv. inversion Hv; subst j.
    eexists. split; [reflexivity|].
    apply (OrdSel S D E fuel ot sels visited flat _ Ec).
    apply (entries_ordered n children ot path Hch _ _ Hok Ev).
  Qed.

  Lemma items_ordered n t fields path items :
    Forall ord_completer items ->
    type_ok_with S (sels_ok S D E fuel n) t fields = true ->
    forall i vs, vals_of (s_items t fields path items i) = Some vs -> Forall (ordered t fields) vs.
  Proof.
    intros Hit Hty. induction Hit as [|c items Hc _ IH]; intros i vs Hv.
    - cbn in Hv. inversion Hv. constructor.
    - cbn [s_items vals_of] in Hv.
      destruct (so_val (s_position t (path ++ [PIdx i]) (c t fields (path ++ [PIdx i])))) as [v|] eqn:Ex; [|discriminate].
      destruct (vals_of (s_items t fields path items (i + 1)%N)) as [vs'|] eqn:Ev; [|discriminate].
      inversion Hv; subst vs. constructor; [|exact (IH _ _ Ev)].
      apply position_val in Ex as [Ex| ->]; [|constructor].
      exact (Hc n t fields _ v Hty Ex).
  Qed.

  (** CompleteValue *)
  Lemma ord_view sv :
    match sv_items sv with Some items => Forall ord_completer items | None => True end ->
    (forall k, ord_completer (sv_field sv k)) ->
    ord_completer (s_complete_view S D E fuel sv).
  Proof.
    intros Hitems Hch n ty. induction ty as [nm|t IH|t IH]; intros fields path j Hty Hv.
    - (* named *)
      cbn [s_complete_view] in Hv. destruct (sv_null sv); [inversion Hv; constructor|].
      assert (Hobj : forall ot, In ot (s_possible S nm) ->
                 so_val (s_selection_set S D E fuel (sv_field sv) ot (s_merge_selection_sets fields) path) = Some j ->
                 ordered (StNamed nm) fields j).
      { intros ot Hin Hs.
        assert (Hok : sels_ok S D E fuel n ot (s_merge_selection_sets fields) = true).
        { unfold type_ok_with in Hty. cbn [sty_base] in Hty.
          destruct (lookup_type S nm) as [[k|vals|fs ifs|fs|ms|]|] eqn:El; try discriminate Hty;
            try (exfalso; unfold s_possible in Hin; rewrite El in Hin; exact Hin);
            (rewrite forallb_forall in Hty; apply Hty; exact Hin). }
        destruct (ord_selection_set n _ ot _ path j Hch Hok Hs) as [kvs [-> Hkvs]].
        exact (OrdObj S D E fuel nm fields ot kvs Hin Hkvs). }
      destruct (lookup_type S nm) as [[k|vals|fs ifs|fs|ms|]|] eqn:El; try discriminate.
      + destruct (coerce_scalar true k (sv_leaf sv)); [|discriminate].
        apply OrdLeaf. unfold is_leaf_type. rewrite El. exact I.
      + destruct (coerce_enum vals (sv_leaf sv)); [|discriminate].
        apply OrdLeaf. unfold is_leaf_type. rewrite El. exact I.
      + apply (Hobj nm); [unfold s_possible; rewrite El; left; reflexivity|exact Hv].
      + destruct (s_resolve_abstract S nm (sv_tag sv)) as [ot|] eqn:Er; [|discriminate].
        apply (Hobj ot); [|exact Hv].
        unfold s_resolve_abstract in Er. destruct (sv_tag sv) as [tg|]; [|discriminate].
        destruct (mem tg (s_possible S nm)) eqn:Em; [|discriminate]. inversion Er; subst ot.
        apply mem_in. exact Em.
      + destruct (s_resolve_abstract S nm (sv_tag sv)) as [ot|] eqn:Er; [|discriminate].
        apply (Hobj ot); [|exact Hv].
        unfold s_resolve_abstract in Er. destruct (sv_tag sv) as [tg|]; [|discriminate].
        destruct (mem tg (s_possible S nm)) eqn:Em; [|discriminate]. inversion Er; subst ot.
        apply mem_in. exact Em.
    - (* list *)
      cbn [s_complete_view] in Hv. destruct (sv_null sv); [inversion Hv; constructor|].
      destruct (sv_items sv) as [items|]; [|discriminate].
      unfold s_all in Hv. destruct (vals_of (s_items t fields path items 0%N)) as [vs|] eqn:Ev; [|discriminate].
      cbn [so_val] in Hv. inversion Hv; subst j. constructor.
      rewrite type_ok_with_list in Hty. exact (items_ordered n t fields path items Hitems Hty _ _ Ev).
    - (* non-null *)
      cbn [s_complete_view] in Hv. fold (s_complete_view S D E fuel sv) in Hv.
      rewrite type_ok_with_nonnull in Hty. constructor.
      destruct (so_val (s_complete_view S D E fuel sv t fields path)) as [[| | | | | | |]|] eqn:Ex;
        try discriminate; apply (IH fields path _ Hty); rewrite <- Hv; try exact Ex; try reflexivity.
  Qed.

  Lemma ord_field_of fs :
    Forall (fun nf => ord_completer (s_complete S D E fuel (snd nf))) fs ->
    forall k, ord_completer (s_field_of (map (fun p => (fst p, s_resolve S D E fuel (snd p))) fs) k).
  Proof.
    intros H k. unfold s_field_of. induction H as [|[k' o'] fs Ho _ IH]; cbn [map assoc fst snd].
    - apply ord_resolver_error.
    - destruct (name_eqb k k'); [|exact IH]. cbn [snd] in Ho.
      destruct o'; cbn [s_resolve]; try exact Ho. apply ord_resolver_error.
  Qed.

  Lemma ord_s_complete o : ord_completer (s_complete S D E fuel o).
  Proof.
    induction o as [| | |g|l IH|t fs IH] using outcome_ind'; rewrite s_complete_unfold'; apply ord_view;
      cbn [sv_items sv_field]; try exact I; try (intro k; apply ord_resolver_error).
    - induction IH as [|x l Hx _ IHl]; cbn [map]; constructor; assumption.
    - apply ord_field_of. exact IH.
  Qed.

  Lemma ord_children W k : ord_completer (s_children_of S D E fuel W k).
  Proof.
    destruct W as [| | |g|l|t fs]; cbn [s_children_of]; try apply ord_resolver_error.
    apply ord_field_of. rewrite Forall_forall. intros x _. apply ord_s_complete.
  Qed.

  (** the data of the reference is well-ordered at every depth *)
  Theorem spec_data_ordered n W j :
    doc_ok S D E fuel n = true -> data (exec_spec S D E fuel W) = Some j ->
    exists rt kvs, s_root_type S (op_kind D) = Some rt /\ j = JObj kvs /\ ordered_obj rt (op_sels D) kvs.
  Proof.
    intros Hd Hdata. unfold doc_ok in Hd. apply andb_true_iff in Hd as [_ Hroot].
    unfold exec_spec in Hdata. destruct (s_root_type S (op_kind D)) as [rt|]; [|discriminate].
    destruct (so_val (s_selection_set S D E fuel (s_children_of S D E fuel W) rt (op_sels D) [])) as [j'|] eqn:Ev;
      cbn [data] in Hdata; [|discriminate].
    inversion Hdata; subst j'.
    destruct (ord_selection_set n _ rt _ [] j (ord_children W) Hroot Ev) as [kvs [-> Hk]].
    exists rt, kvs. repeat split. exact Hk.
  Qed.

  (** ... which says in particular, of the keys of any well-ordered object: *)
  Theorem ordered_obj_keys ot sels kvs :
    ordered_obj ot sels kvs -> keys_in_document_order S D E fuel ot sels kvs.
  Proof.
    intro H. inversion H as [ot' sels' visited flat kvs' Hc HF]; subst.
    exists visited, flat. split; [exact Hc|].
    rewrite <- s_group_keys.
    clear Hc H. induction HF as [|kf kv gs kvs' Hx _ IH]; [reflexivity|].
    cbn [map]. rewrite IH. f_equal. inversion Hx; reflexivity.
  Qed.
End KeyOrderProofs.

(** the executor's data *)
Theorem exec_data_ordered S D E fuel n W j errs :
  type_names_okb S = true -> doc_positions_okb D = true -> doc_ok S D E fuel n = true ->
  run fixed S D E fuel W = Done (Some j) errs ->
  exists rt kvs, s_root_type S (op_kind D) = Some rt /\ j = JObj kvs /\
                 ordered_obj S D E fuel rt (op_sels D) kvs.
Proof.
  intros Hn Hp Hd Hr. pose proof (exec_data_eq S D E fuel Hn Hp n Hd W _ _ Hr) as Hdata.
  apply (spec_data_ordered S D E fuel n W j Hd). symmetry. exact Hdata.
Qed.
