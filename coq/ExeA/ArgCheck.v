(** * ExeA/ArgCheck.v — C01 correspondence: decode a case, run model (and spec oracle), compare
    with what the implementation did.  Executable only. *)
From Coq Require Import List NArith ZArith Bool String.
From ApiFu Require Val.Values.
From ApiFu Require Import Base.Sexp ExeA.ArgData ExeA.ArgArgs ExeA.ArgModel ExeA.ArgSpec ExeA.ArgHyps ExeA.ArgDecode.
Import ListNotations.
Open Scope string_scope.

Definition of_pathc (c : pathc) : sexp := match c with PKey k => SStr k | PIdx i => of_N i end.
Definition of_pos (p : pos) : sexp := SL [of_N (line p); of_N (col p)].
Definition of_error (e : gerror) : sexp := SL [of_list of_pathc (e_path e); of_list of_pos (e_locs e)].

Fixpoint of_json (j : json) : sexp :=
  match j with
  | JNull => SSym "null" | JMeta => SSym "meta"
  | JBool b => of_bool b
  | JInt z => tag "int" [SZ z]
  | JFloat (Fin m e) => tag "num" [SZ m; SZ e]
  | JFloat _ => SSym "nonfinite"
  | JStr s => tag "s" [SStr s]
  | JArr xs => tag "a" (map of_json xs)
  | JObj kvs => tag "o" (map (fun kv => SL [SStr (fst kv); of_json (snd kv)]) kvs)
  end.

Definition of_run (r : run_result) : sexp :=
  match r with
  | Done d es => tag "done" [of_option of_json (option_map canon d); of_list of_error es]
  | Panic => SSym "panic"
  | OutOfFuel => SSym "out-of-fuel"
  end.

(** model vs implementation: data exactly (ordered), errors as multisets keyed by (path, locations) *)
Definition agrees (m : run_result) (o : observed) : bool :=
  match m, o with
  | Panic, ObsPanic => true
  | Done d es, ObsMarshalError => match d with Some j => negb (marshals j) | None => false end
  | Done d es, ObsDone d' es' =>
      match d, d' with
      | None, None => multiset_eqb es es'
      | Some j, Some j' => marshals j && json_eqb (canon j) (canon (mask_meta j j')) && multiset_eqb es es'
      | _, _ => false
      end
  | _, _ => false
  end.

(** ** the Spec oracle on the implementation's output *)
Definition count_in (cands errs : list gerror) : nat :=
  List.length (filter (fun e => existsb (gerror_eqb e) cands) errs).

Definition data_agrees (ref obs : option json) : bool :=
  match ref, obs with
  | None, None => true
  | Some j, Some j' => json_eqb (canon j) (canon (mask_meta j j'))
  | _, _ => false
  end.

(** [None] = accepted; [Some key] = the stable class of the violation *)
Definition oracle (sp : response) (o : observed) : option string :=
  match o with
  | ObsPanic => Some "panic-on-valid-document"
  | ObsMarshalError => Some "response-not-marshalable"
  | ObsRejected => Some "valid-document-rejected"
  | ObsDone d es =>
      if negb (data_agrees (data sp) d) then
        Some (match data sp, d with
              | None, Some _ => "data-not-null-although-root-failed"
              | Some _, None => "data-null-without-root-failure"
              | _, _ => "data-differs-from-reference"
              end)
      else if negb (sub_multiset es (all_errors sp)) then Some "error-not-among-all-errors"
      else if existsb (fun pc => Nat.eqb (count_in (snd pc) es) 0) (failure_nulls sp) then
        Some "failure-null-without-error"
      else if negb (forallb (fun pc => Nat.eqb (count_in (snd pc) es) 1) (failure_nulls sp)) then
        Some "failure-null-explained-more-than-once"
      else None
  end.

(** ** evidence classes *)
Fixpoint sel_has (f : selection -> bool) (s : selection) : bool :=
  f s || match s with
         | SField _ _ _ _ sub => existsb (sel_has f) sub
         | SInline _ _ _ sub => existsb (sel_has f) sub
         | SSpread _ _ _ => false
         end.
Definition doc_has (f : selection -> bool) (D : document) : bool :=
  existsb (sel_has f) (op_sels D) || existsb (fun fr => existsb (sel_has f) (fr_sels fr)) (frags D).

Definition ends_in_index (p : rpath) : bool :=
  match rev p with PIdx _ :: _ => true | _ => false end.

Definition classes (Sc : schema) (D : document) (E : env) (sp : response) (m_errs : list gerror) (flags : list sexp)
  : list string :=
  let errs := negb (Nat.eqb (List.length (all_errors sp)) 0) in
  let propagated := existsb (fun pc => existsb (fun e => Nat.ltb (List.length (fst pc)) (List.length (e_path e)))
                                               (snd pc)) (failure_nulls sp) in
  let short := Nat.ltb (List.length m_errs) (List.length (all_errors sp)) in
  let multi := existsb (fun e => Nat.ltb 1 (List.length (e_locs e))) m_errs in
  let item := existsb (fun e => ends_in_index (e_path e)) m_errs in
  let is_abstract c := match lookup_type Sc c with Some (NInterface _) | Some (NUnion _) => true | _ => false end in
  let abstract_frag :=
    doc_has (fun s => match s with SInline (Some c) _ _ _ => is_abstract c | _ => false end) D
    || existsb (fun fr => is_abstract (fr_cond fr)) (frags D) in
  let merged_root :=
    match s_root_type Sc (op_kind D) with
    | Some rt => match s_collect Sc D E (default_fuel D) rt (op_sels D) with
                 | Some gs => existsb (fun kf => Nat.ltb 1 (List.length (snd kf))) gs
                 | None => false
                 end
    | None => false
    end in
  let repeated_spread :=
    doc_has (fun s => match s with
                      | SField _ _ _ _ sub | SInline _ _ _ sub =>
                          let names := flat_map (fun x => match x with SSpread n _ _ => [n] | _ => [] end) sub in
                          negb (Nat.eqb (List.length names) (List.length (first_occurrences names [])))
                      | SSpread _ _ _ => false
                      end) D in
  (if errs then ["errors"] else ["no-error"]) ++
  (if merged_root then ["merged-field-nodes-at-root"] else []) ++
  (if repeated_spread then ["repeated-spread"] else []) ++
  (if propagated then ["propagated"] else []) ++
  (match data sp with None => ["data-null"] | Some _ => [] end) ++
  (if short then ["short-circuit"] else []) ++
  (if multi then ["multi-location-error"] else []) ++
  (if item then ["list-item-error"] else []) ++
  (if doc_has (fun s => match s with SSpread _ _ _ => true | _ => false end) D then ["named-fragments"] else []) ++
  (if abstract_frag then ["abstract-type-condition"] else []) ++
  (if doc_has (fun s => negb (Nat.eqb (List.length (sel_dirs s)) 0)) D then ["skip-include"] else []) ++
  (if existsb (is_sym "c04-cycle-bypass") flags then ["c04-cycle-bypass"] else []) ++
  (if existsb (is_sym "unvalidated") flags then ["unvalidated-but-doc-ok"] else []) ++
  (if existsb (is_sym "exhaustive") flags then ["exhaustive-family"] else []) ++
  (if existsb (is_sym "leaf-family") flags then ["leaf-coercion-family"] else []) ++
  (if errs && (propagated || multi || short) then ["nontrivial"] else []).

(** one case: the operation the reference selects is judged by the oracle and the executor model
    ([run_request]: GetOperation included) is compared; when the reference determines no operation
    the response must be "no data, exactly one error" *)
Definition check_selected (Sc : schema) (R : request_doc) (opname : name) (raw : list (name * Values.jval))
           (D : document) (E : env) (W : outcome) (obs : observed) (flags : list sexp) : sexp :=
  let fuel := default_fuel D in
  let model := run_request fixed Sc R opname raw fuel W in
  let multi := Nat.ltb 1 (List.length (r_ops R)) in
  if negb (type_names_okb Sc) then v_bad "type-name-with-zero-byte"
  else if negb (doc_positions_okb D) then v_oracle_fail "parser-positions-not-distinct" []
  else if negb (dirs_evaluable D E) then
    (* outside the property: a @skip/@include condition without a boolean value (a
       variable without value in an unvalidated document; an explicit null for a
       nullable variable with a default in a validated one).  The executor model —
       error for the directive, selection left out, once per cache miss — is compared *)
    (* ... and when the document is fine apart from that ([doc_ok_nodirs]) the DATA is still the
       reference's (C01_exec_data_eq_nodirs): judged by the oracle *)
    let data_bad :=
      if doc_ok_nodirs Sc D E fuel fuel then
        match obs with
        | ObsDone d _ => negb (data_agrees (data (exec_spec Sc D E fuel W)) d)
        | _ => true
        end
      else false in
    if data_bad then v_oracle_fail "data-differs-from-reference-with-unevaluable-directive" []
    else
    match model with
    | OutOfFuel => v_bad "out-of-fuel"
    | m => if agrees m obs then v_ok ("directive-not-evaluable" :: if doc_ok_nodirs Sc D E fuel fuel then ["doc-ok-nodirs"] else [])
           else v_mismatch "response-directive-not-evaluable" [tag "model" [of_run m]]
    end
  else if negb (doc_ok Sc D E fuel fuel) then
    (* outside the property: only a document handed over without validation may get
       here; the executor model is still compared (blank keys, panics) *)
    if existsb (is_sym "unvalidated") flags then
      match model with
      | OutOfFuel => v_bad "out-of-fuel"
      | m => if agrees m obs then v_ok ["unvalidated-not-doc-ok"]
             else v_mismatch "response-unvalidated" [tag "model" [of_run m]]
      end
    else v_oracle_fail "validated-document-not-doc-ok" []
  else
    let sp := exec_spec Sc D E fuel W in
    match oracle sp obs with
    | Some key => v_oracle_fail key [tag "reference" [of_option of_json (option_map canon (data sp));
                                                      of_list of_error (all_errors sp)]]
    | None =>
        match model with
        | OutOfFuel => v_bad "out-of-fuel"
        | Panic => v_mismatch "response" [tag "model" [of_run model]]
        | Done _ m_errs =>
            if agrees model obs then
              v_ok (classes Sc D E sp m_errs flags ++ (if multi then ["several-operations"] else [])
                    ++ (match op_kind D with
                        | OpSubscription => ["subscription-operation"]
                        | OpMutation => ["mutation-operation"]
                        | OpQuery => []
                        end)
                    ++ (match levels D (Datatypes.S (List.length (frags D))) (op_sels D) with
                        | None => ["levels-undefined"]            (* expected never for a doc_ok document *)
                        | Some n => if Nat.ltb (default_fuel D) (Datatypes.S n) then ["levels-exceed-default-fuel"] else []
                        end)
                    ++ (match d_args D with [] => [] | _ => ["field-arguments"] end)
                    ++ (if existsb (fun pa => existsb (fun a => match snd a with Values.LVar _ => true | _ => false end) (snd pa)) (d_args D)
                        then ["argument-from-variable"] else [])
                    ++ (if existsb (fun kv => match snd kv with Values.GBool _ | Values.GNil => false | _ => true end) (d_vars D)
                        then ["non-boolean-variable"] else []))
            else v_mismatch "response" [tag "model" [of_run model]]
        end
    end.

Definition check_refused (Sc : schema) (R : request_doc) (opname : name) (raw : list (name * Values.jval))
           (W : outcome) (obs : observed) : sexp :=
  match obs with
  | ObsDone None [e] =>
      if agrees (run_request fixed Sc R opname raw 0 W) obs then
        v_ok ["operation-refused"; match opname with [] => "no-operation-name" | _ => "operation-name-without-match-or-ambiguous" end]
      else v_mismatch "response-refused" [tag "model" [of_run (run_request fixed Sc R opname raw 0 W)]]
  | _ => v_oracle_fail "undetermined-operation-not-refused" []
  end.

Definition check (c : sexp) : sexp :=
  match tagged "case" c with
  | Some [s; d; e; w; o; SL flags] =>
      match dec_schema s, dec_request d, dec_raw e, dec_outcome w, dec_obs o with
      | Some Sc, Some (R, opname), Some raw, Some W, Some obs =>
          match obs with
          | ObsRejected => v_oracle_fail "valid-document-rejected" []
          | _ =>
              match s_get_operation R (opname_of opname) with
              | Some op =>
                  match coerce_request_vars Sc op raw with
                  | Values.Ok vv => check_selected Sc R opname raw (doc_of R op vv) (env_of_vars vv) W obs flags
                  | Values.Err =>
                      (* CoerceVariableValues raises: the request is refused, no data and one error *)
                      match obs with
                      | ObsDone None [e] =>
                          if agrees (run_request fixed Sc R opname raw 0 W) obs then v_ok ["variables-refused"]
                          else v_mismatch "response-variables-refused" [tag "model" [of_run (run_request fixed Sc R opname raw 0 W)]]
                      | _ => v_oracle_fail "uncoercible-variables-not-refused" []
                      end
                  | Values.Panic =>
                      if agrees Panic obs then v_ok ["variable-coercion-panic"] else v_mismatch "response-variable-panic" []
                  end
              | None => check_refused Sc R opname raw W obs
              end
          end
      | None, _, _, _, _ => v_bad "schema"
      | _, None, _, _, _ => v_bad "doc"
      | _, _, None, _, _ => v_bad "vars"
      | _, _, _, None, _ => v_bad "outcome"
      | _, _, _, _, None => v_bad "observed"
      end
  | _ => v_bad "shape"
  end.
