(** * ExeA/ArgOrderProofs.v — response keys follow document order after fragment expansion,
    merging and @skip/@include (C01, exec_order) *)
From Coq Require Import List NArith ZArith Bool Lia.
From ApiFu Require Import Base.Sexp ExeA.ArgData ExeA.ArgArgs ExeA.ArgModel ExeA.ArgSpec ExeA.ArgHyps
     ExeA.ArgBaseProofs ExeA.ArgCollectProofs ExeA.ArgSpecProofs ExeA.ArgSimProofs ExeA.ArgCacheProofs ExeA.ArgProofs.
Import ListNotations.

Lemma existsb_mem k l : existsb (name_eqb k) l = mem k l.
Proof. induction l as [|x r IH]; [reflexivity|]. cbn. rewrite IH. reflexivity. Qed.

Lemma group_keys flat : forall g,
  map fst (fold_left (fun acc kf => sg_add (fst kf) (snd kf) acc) flat g) =
  map fst g ++ first_occurrences (map fst flat) (map fst g).
Proof.
  induction flat as [|[k f] flat IH]; intro g; cbn [fold_left map fst snd first_occurrences].
  - rewrite app_nil_r. reflexivity.
  - rewrite IH, sg_add_keys, existsb_mem. destruct (mem k (map fst g)); [reflexivity|].
    rewrite <- app_assoc. reflexivity.
Qed.

Lemma s_group_keys flat : map fst (s_group flat) = first_occurrences (map fst flat) [].
Proof. unfold s_group. rewrite group_keys. reflexivity. Qed.

Lemma combine_keys {A B} (l : list A) (l' : list B) : length l = length l' -> map fst (combine l l') = l.
Proof.
  revert l'. induction l as [|x l IH]; intros [|y l'] H; try discriminate; [reflexivity|].
  cbn. f_equal. apply IH. cbn in H. lia.
Qed.

Section Order.
  Variables (S : schema) (D : document) (E : env) (fuel : nat).

  Lemma entries_keys_all rec children ot path groups :
    forallb (group_ok_with S D rec ot) groups = true ->
    map fst (flat_map (s_entry S children ot path) groups) = map fst groups.
  Proof.
    induction groups as [|kf groups IH]; intro H; [reflexivity|].
    cbn [forallb] in H. apply andb_true_iff in H as [H1 H2].
    cbn [flat_map map]. rewrite map_app, (IH H2).
    unfold group_ok_with in H1. unfold s_entry. destruct (snd kf) as [|f fs]; [discriminate|].
    destruct (s_field_kind S ot (fn_name f)); try discriminate; reflexivity.
  Qed.

  (** every selection set the reference executes: its value is an object whose keys are the
      response keys of the collected field nodes, in order of first appearance *)
  Theorem selection_set_order n children ot sels path j :
    sels_ok S D E fuel n ot sels = true ->
    so_val (s_selection_set S D E fuel children ot sels path) = Some j ->
    exists visited flat kvs,
      s_collect_flat S D E fuel ot sels [] = Some (visited, flat) /\
      j = JObj kvs /\ map fst kvs = first_occurrences (map fst flat) [].
  Proof.
    intros Hok Hv. destruct n as [|n]; [discriminate|]. cbn [sels_ok] in Hok.
    unfold s_selection_set in Hv. revert Hv. generalize (s_with_args S D children ot). clear children.
    intros children Hv. unfold s_selection_set_raw in Hv. unfold s_collect in *.
    destruct (s_collect_flat S D E fuel ot sels []) as [[visited flat]|]; [|discriminate].
    cbv zeta in Hv. set (entries := flat_map (s_entry S children ot path) (s_group flat)) in *.
    unfold s_all in Hv. destruct (vals_of (map snd entries)) as [vs|] eqn:Ev; [|discriminate].
    cbn [so_val] in Hv. inversion Hv; subst j.
    exists visited, flat, (combine (map fst entries) vs). split; [reflexivity|]. split; [reflexivity|].
    rewrite combine_keys.
    - unfold entries. rewrite (entries_keys_all _ _ _ _ _ Hok). apply s_group_keys.
    - apply vals_of_length in Ev. rewrite Ev, !map_length. reflexivity.
  Qed.

  (** the executor's data: the keys of the root object *)
  Theorem exec_order n W j errs :
    type_names_okb S = true -> doc_positions_okb D = true -> doc_ok S D E fuel n = true ->
    run fixed S D E fuel W = Done (Some j) errs ->
    exists rt visited flat kvs,
      s_root_type S (op_kind D) = Some rt /\
      s_collect_flat S D E fuel rt (op_sels D) [] = Some (visited, flat) /\
      j = JObj kvs /\ map fst kvs = first_occurrences (map fst flat) [].
  Proof.
    intros Hn Hp Hd Hr. pose proof (exec_data_eq S D E fuel Hn Hp n Hd W _ _ Hr) as Hdata.
    unfold doc_ok in Hd. apply andb_true_iff in Hd as [_ Hroot].
    unfold exec_spec in Hdata. destruct (s_root_type S (op_kind D)) as [rt|]; [|discriminate].
    destruct (so_val (s_selection_set S D E fuel (s_children_of S D E fuel W) rt (op_sels D) [])) as [j'|] eqn:Ev;
      cbn [data] in Hdata; [|discriminate].
    inversion Hdata; subst j'.
    destruct (selection_set_order n _ _ _ _ _ Hroot Ev) as [visited [flat [kvs [H1 [H2 H3]]]]].
    exists rt, visited, flat, kvs. repeat split; assumption.
  Qed.
End Order.
