(** * ExeA/ArgSpec.v — reference semantics of query execution (C01), written from the GraphQL
    specification of June 2018, section 6 ("Execution"): ExecuteSelectionSet (6.3), CollectFields
    (6.3.2), ExecuteField (6.4), CompleteValue / ResolveAbstractType / MergeSelectionSets (6.4.3),
    "Errors and Non-Nullability" (6.4.4).  Independent of the executor model: no state, no
    short-circuit (every field and every list item is evaluated, whatever its siblings did), an
    exception-style result.  Executable: it is also the oracle.  No proofs in this file.

    A completed value is described by [sout]:
      [so_val]     the value, [None] when a field error propagates out of it (an exception);
      [so_thrown]  the errors that propagate out (each of them alone would have made it fail);
      [so_caught]  the errors raised inside and absorbed at a nullable position inside;
      [so_nulls]   the nulls visible in [so_val] that a failure caused, each with the errors that
                   explain it (the ones that propagated to exactly that position).
    Of the whole response: [data], [allErrors] = caught + thrown, [failure nulls]. *)
From Coq Require Import List NArith ZArith Bool.
From ApiFu Require Import Base.Sexp ExeA.ArgData ExeA.ArgArgs.
From ApiFu Require Val.Values.
Import ListNotations.

Record sout := { so_val : option json;
                 so_thrown : list gerror;
                 so_caught : list gerror;
                 so_nulls : list (rpath * list gerror) }.

Definition s_ok (j : json) : sout :=
  {| so_val := Some j; so_thrown := []; so_caught := []; so_nulls := [] |}.
Definition s_throw (e : gerror) : sout :=
  {| so_val := None; so_thrown := [e]; so_caught := []; so_nulls := [] |}.

(** 6.4.4: a field error at a nullable position [p]: the position becomes null, the error is
    recorded, nothing propagates *)
Definition s_catch (p : rpath) (x : sout) : sout :=
  match so_val x with
  | Some _ => x
  | None => {| so_val := Some JNull; so_thrown := [];
               so_caught := so_caught x ++ so_thrown x;
               so_nulls := [(p, so_thrown x)] |}
  end.
Definition s_position (t : sty) (p : rpath) (x : sout) : sout :=
  match t with StNonNull _ => x | _ => s_catch p x end.

Fixpoint vals_of (xs : list sout) : option (list json) :=
  match xs with
  | [] => Some []
  | x :: r => match so_val x, vals_of r with
              | Some j, Some js => Some (j :: js)
              | _, _ => None
              end
  end.

(** a list / a selection set: all parts are evaluated; it fails iff a part fails *)
Definition s_all (xs : list sout) (mk : list json -> json) : sout :=
  match vals_of xs with
  | Some vs => {| so_val := Some (mk vs); so_thrown := [];
                  so_caught := flat_map so_caught xs; so_nulls := flat_map so_nulls xs |}
  | None => {| so_val := None; so_thrown := flat_map so_thrown xs;
               so_caught := flat_map so_caught xs; so_nulls := [] |}
  end.

(** ** CollectFields (6.3.2)

    The specification fills an ordered map "ordered by which fields appear first in the query".
    Said without the map: the selected field nodes in document order after fragment expansion and
    @skip/@include ([s_collect_flat]), grouped by response key in order of first appearance
    ([s_group]). *)
Definition sgroups := list (name * list fnode).        (* ordered map: response key -> fields *)

Fixpoint sg_add (k : name) (f : fnode) (g : sgroups) : sgroups :=
  match g with
  | [] => [(k, [f])]
  | (k', fs) :: r => if name_eqb k k' then (k', fs ++ [f]) :: r else (k', fs) :: sg_add k f r
  end.
Definition s_group (flat : list (name * fnode)) : sgroups :=
  fold_left (fun acc kf => sg_add (fst kf) (snd kf) acc) flat [].

Definition s_cond (E : env) (c : cond) : option bool :=
  match c with
  | CLit b => Some b
  | CVar v => match assoc v E with Some (Some b) => Some b | _ => None end
  end.
(** @skip(if: true) and @include(if: false) exclude the selection.  The algorithm does not say what
    a directive means whose condition has no boolean value (a variable without value, or holding
    null); the theorems exclude that case ([dirs_ok] inside [doc_ok]); the definition is totalised
    the way the implementation behaves (the selection is left out). *)
Definition s_excluded (E : env) (ds : list directive) : bool :=
  existsb (fun d => match d with
                    | DSkip c _ _ => match s_cond E c with Some false => false | _ => true end
                    | DInclude c _ _ => match s_cond E c with Some true => false | _ => true end
                    | DOther => false
                    end) ds.

(** DoesFragmentTypeApply *)
Definition s_applies (S : schema) (ot c : name) : bool :=
  match lookup_type S c with
  | Some (NObject _ _) => name_eqb ot c
  | Some (NInterface _) => match lookup_type S ot with
                           | Some (NObject _ ifs) => mem c ifs
                           | _ => false
                           end
  | Some (NUnion ms) => mem ot ms
  | _ => false
  end.

(** "the Fragment in the current Document whose name is fragmentSpreadName" (names are unique in a
    valid document; the last one otherwise, as the executor's map does) *)
Definition s_fragment (D : document) (n : name) : option fragdef :=
  fold_left (fun acc f => if name_eqb n (fr_name f) then Some f else acc) (frags D) None.

Section SpecCollect.
  Variables (S : schema) (D : document) (E : env).

  (** the field nodes [sels] selects for an object of type [ot], with their response keys, in
      document order; visitedFragments is threaded as in the specification.  [None]: out of fuel *)
  Fixpoint s_collect_flat (fuel : nat) (ot : name) {struct fuel}
    : list selection -> list name -> option (list name * list (name * fnode)) :=
    fix go (sels : list selection) (visited : list name) {struct sels}
      : option (list name * list (name * fnode)) :=
      match sels with
      | [] => Some (visited, [])
      | s :: rest =>
          let then_rest (visited' : list name) (here : list (name * fnode)) :=
            match go rest visited' with
            | Some (v, l) => Some (v, here ++ l)
            | None => None
            end in
          let fragment (sub : list selection) (visited' : list name) :=
            match fuel with
            | O => None
            | Datatypes.S fuel' =>
                match s_collect_flat fuel' ot sub visited' with
                | Some (v, l) => then_rest v l
                | None => None
                end
            end in
          if s_excluded E (sel_dirs s) then go rest visited
          else match s with
               | SField a n p _ sub =>
                   then_rest visited [(match a with Some k => k | None => n end,
                                       {| fn_name := n; fn_pos := p; fn_sub := sub |})]
               | SSpread n _ _ =>
                   if mem n visited then go rest visited
                   else match s_fragment D n with
                        | None => go rest (n :: visited)
                        | Some f => if s_applies S ot (fr_cond f) then fragment (fr_sels f) (n :: visited)
                                    else go rest (n :: visited)
                        end
               | SInline None _ _ sub => fragment sub visited
               | SInline (Some c) _ _ sub =>
                   if s_applies S ot c then fragment sub visited else go rest visited
               end
      end.

  Definition s_collect (fuel : nat) (ot : name) (sels : list selection) : option sgroups :=
    match s_collect_flat fuel ot sels [] with
    | Some (_, flat) => Some (s_group flat)
    | None => None
    end.
End SpecCollect.

(** ** completed values *)
Definition scompleter := sty -> list fnode -> rpath -> sout.

(** what the algorithms ask of an internal value *)
Record sview := { sv_null : bool;                          (* "result is null" *)
                  sv_leaf : gval;                          (* the value a scalar / enum coerces *)
                  sv_items : option (list scompleter);     (* Some: "a collection of values" *)
                  sv_tag : option name;                    (* the object type it is an instance of *)
                  sv_field : name -> scompleter }.         (* ExecuteField on it *)

Definition first_loc (fields : list fnode) : list pos :=
  match fields with f :: _ => [fn_pos f] | [] => [] end.
Definition field_error (path : rpath) (fields : list fnode) : gerror :=
  {| e_path := path; e_locs := first_loc fields |}.
(** ResolveFieldValue raised: located at every field node of the group *)
Definition s_resolver_error : scompleter :=
  fun _ fields path => s_throw {| e_path := path; e_locs := map fn_pos fields |}.

(** MergeSelectionSets *)
Definition s_merge_selection_sets (fields : list fnode) : list selection := flat_map fn_sub fields.

(** ResolveAbstractType: the object type the value is an instance of, if it is a possible type *)
Definition s_possible (S : schema) (n : name) : list name :=
  match lookup_type S n with
  | Some (NObject _ _) => [n]
  | Some (NUnion ms) => ms
  | Some (NInterface _) =>
      map fst (filter (fun p => match snd p with NObject _ ifs => mem n ifs | _ => false end) (types S))
  | _ => []
  end.
Definition s_resolve_abstract (S : schema) (n : name) (tag : option name) : option name :=
  match tag with
  | Some t => if mem t (s_possible S n) then Some t else None
  | None => None
  end.

Inductive s_fieldkind := SFTypename | SFMeta | SFType (t : sty) | SFUndefined.

Section SpecExec.
  Variables (S : schema) (D : document) (E : env) (fuel : nat).

  Definition s_field_kind (ot fname : name) : s_fieldkind :=
    if name_eqb fname n_typename then SFTypename
    else match lookup_type S ot with
         | Some (NObject fs _) =>
             match assoc fname fs with
             | Some t => SFType t
             | None => if name_eqb ot (query S) && (name_eqb fname n_schema || name_eqb fname n_type)
                       then SFMeta else SFUndefined
             end
         | _ => SFUndefined
         end.

  (** ExecuteSelectionSet: one entry per group whose field is defined, in group order *)
  Definition s_entry (children : name -> scompleter) (ot : name) (path : rpath)
             (kf : name * list fnode) : list (name * sout) :=
    let key := fst kf in
    match snd kf with
    | [] => []
    | f :: _ =>
        match s_field_kind ot (fn_name f) with
        | SFTypename => [(key, s_ok (JStr ot))]
        | SFMeta => [(key, s_ok JMeta)]
        | SFUndefined => []                          (* "if fieldType is null: continue" *)
        | SFType t =>
            let p := path ++ [PKey key] in
            [(key, s_position t p (children (fn_name f) t (snd kf) p))]
        end
    end.

  (** ExecuteField, step 2-3: CoerceArgumentValues(objectType, field, variableValues) for the first
      field node; if it raises, that is a field error of this field; otherwise
      ResolveFieldValue(objectType, objectValue, fieldName, argumentValues): the entry
      [field_key fieldName argumentValues] of the object value's outcome table.  The coercion
      function is C05's ([coerce_field_args]); its relation to the specification's
      CoerceArgumentValues is C05's theorems. *)
  Definition s_with_args (children : name -> scompleter) (ot : name) : name -> scompleter :=
    fun fname t fields path =>
      match fields with
      | [] => s_throw (field_error path fields)
      | f :: _ =>
          match coerce_field_args S D ot f with
          | Values.Ok A => children (field_key fname A) t fields path
          | _ => s_throw (field_error path fields)
          end
      end.

  (** ExecuteSelectionSet over given field executors *)
  Definition s_selection_set_raw (children : name -> scompleter) (ot : name) (sels : list selection)
             (path : rpath) : sout :=
    match s_collect S D E fuel ot sels with
    | None => {| so_val := None; so_thrown := []; so_caught := []; so_nulls := [] |}   (* out of fuel *)
    | Some groups =>
        let entries := flat_map (s_entry children ot path) groups in
        s_all (map snd entries) (fun vs => JObj (combine (map fst entries) vs))
    end.
  (** ExecuteSelectionSet on an object value whose outcome table is [children] *)
  Definition s_selection_set (children : name -> scompleter) (ot : name) (sels : list selection)
             (path : rpath) : sout :=
    s_selection_set_raw (s_with_args children ot) ot sels path.

  Fixpoint s_items (t : sty) (fields : list fnode) (path : rpath) (items : list scompleter) (i : N)
    : list sout :=
    match items with
    | [] => []
    | c :: r => let p := path ++ [PIdx i] in
                s_position t p (c t fields p) :: s_items t fields path r (i + 1)%N
    end.

  (** CompleteValue *)
  Definition s_complete_view (v : sview) : scompleter :=
    fix cty (ty : sty) (fields : list fnode) (path : rpath) {struct ty} : sout :=
      match ty with
      | StNonNull t =>
          let x := cty t fields path in
          match so_val x with
          | Some JNull => {| so_val := None; so_thrown := [field_error path fields];
                             so_caught := so_caught x; so_nulls := [] |}
          | _ => x
          end
      | StList t =>
          if sv_null v then s_ok JNull
          else match sv_items v with
               | None => s_throw (field_error path fields)
               | Some items => s_all (s_items t fields path items 0%N) JArr
               end
      | StNamed n =>
          if sv_null v then s_ok JNull
          else
            let object (ot : name) :=
              s_selection_set (sv_field v) ot (s_merge_selection_sets fields) path in
            match lookup_type S n with
            | Some (NScalar k) =>
                match coerce_scalar true k (sv_leaf v) with
                | Some j => s_ok j
                | None => s_throw (field_error path fields)
                end
            | Some (NEnum vals) =>
                match coerce_enum vals (sv_leaf v) with
                | Some j => s_ok j
                | None => s_throw (field_error path fields)
                end
            | Some (NObject _ _) => object n
            | Some (NInterface _) | Some (NUnion _) =>
                match s_resolve_abstract S n (sv_tag v) with
                | Some ot => object ot
                | None => s_throw (field_error path fields)
                end
            | Some NInput | None => s_throw (field_error path fields)   (* not an output type *)
            end
      end.

  Definition s_field_of (l : list (name * scompleter)) (n : name) : scompleter :=
    match assoc n l with Some c => c | None => s_resolver_error end.

  Fixpoint s_complete (o : outcome) : scompleter :=
    s_complete_view
      {| sv_null := is_nil o;
         sv_leaf := leaf_of o;
         sv_items := match o with OList l => Some (map s_complete l) | _ => None end;
         sv_tag := match o with OObj t _ => Some t | _ => None end;
         sv_field := match o with
                     | OObj _ fs =>
                         s_field_of (map (fun p => match p with
                                                   | (n, o') => (n, match o' with
                                                                    | OErr => s_resolver_error
                                                                    | _ => s_complete o'
                                                                    end)
                                                   end) fs)
                     | _ => fun _ => s_resolver_error
                     end |}.

  Definition s_resolve (o : outcome) : scompleter :=
    match o with OErr => s_resolver_error | _ => s_complete o end.
  Definition s_children_of (o : outcome) : name -> scompleter :=
    match o with
    | OObj _ fs => s_field_of (map (fun p => (fst p, s_resolve (snd p))) fs)
    | _ => fun _ => s_resolver_error
    end.

  (** the response *)
  Record response := { data : option json;                          (* None: "data": null *)
                       all_errors : list gerror;
                       failure_nulls : list (rpath * list gerror) }.

  Definition s_root_type (k : opkind) : option name :=
    match k with
    | OpQuery => Some (query S) | OpMutation => mutation S | OpSubscription => subscription S
    end.

  (** ExecuteRequest / ExecuteQuery: the root selection set on the initial value; a field error
      that reaches the root makes data null *)
  Definition exec_spec (W : outcome) : response :=
    match s_root_type (op_kind D) with
    | None => let e := {| e_path := []; e_locs := [op_pos D] |} in
              {| data := None; all_errors := [e]; failure_nulls := [([], [e])] |}
    | Some rt =>
        let x := s_selection_set (s_children_of W) rt (op_sels D) [] in
        match so_val x with
        | Some j => {| data := Some j; all_errors := so_caught x; failure_nulls := so_nulls x |}
        | None => {| data := None; all_errors := so_caught x ++ so_thrown x;
                     failure_nulls := [([], so_thrown x)] |}
        end
    end.
End SpecExec.

(** ** the documents the property speaks about

    [doc_ok]: what validation guarantees of a document, as far as execution needs it, phrased as an
    execution over types instead of values (every object type a value could have is tried):
    whatever object type is reached, every collected field is defined on it (or is __typename, or
    a meta-field on the query root), field types are output types, and the fuel suffices.
    Plus: type conditions never name a leaf or input type.  Decidable; evaluated on every case. *)
Fixpoint sty_base (t : sty) : name :=
  match t with StNamed n => n | StList t' => sty_base t' | StNonNull t' => sty_base t' end.

Section DocOk.
  Variables (S : schema) (D : document) (E : env) (fuel : nat).

  (** a field of type [t] selected by [fields]: [t] is an output type, and if it is composite the
      merged sub-selections are fine for every object type its values can have *)
  Definition type_ok_with (rec : name -> list selection -> bool) (t : sty) (fields : list fnode) : bool :=
    match lookup_type S (sty_base t) with
    | Some (NScalar _) | Some (NEnum _) => true
    | Some (NObject _ _) | Some (NInterface _) | Some (NUnion _) =>
        forallb (fun ot' => rec ot' (s_merge_selection_sets fields)) (s_possible S (sty_base t))
    | Some NInput | None => false
    end.

  (** argument coercion does not hit the "unsupported type" panic of the coercion code (C05:
      C05_request_no_panic, for every input type environment that is closed) *)
  Definition args_total (ot : name) (f : fnode) : bool :=
    match coerce_field_args S D ot f with Values.Panic => false | _ => true end.

  Definition group_ok_with (rec : name -> list selection -> bool) (ot : name) (kf : name * list fnode) : bool :=
    match snd kf with
    | [] => false
    | f :: _ =>
        match s_field_kind S ot (fn_name f) with
        | SFTypename | SFMeta => true
        | SFUndefined => false
        | SFType t => args_total ot f && type_ok_with rec t (snd kf)
        end
    end.

  Fixpoint sels_ok (n : nat) (ot : name) (sels : list selection) {struct n} : bool :=
    match n with
    | O => false
    | Datatypes.S n' =>
        match s_collect S D E fuel ot sels with
        | None => false
        | Some groups => forallb (group_ok_with (sels_ok n') ot) groups
        end
    end.

  Definition cond_ok (c : name) : bool :=
    match lookup_type S c with
    | Some (NScalar _) | Some (NEnum _) | Some NInput => false
    | _ => true
    end.
  (** every @skip/@include condition has a boolean value: a literal, or a variable whose coerced
      value is a boolean (variable coercion guarantees that except for a nullable variable with a
      default that is explicitly given null) *)
  Definition dir_ok (d : directive) : bool :=
    match d with
    | DSkip c _ _ => match s_cond E c with Some _ => true | None => false end
    | DInclude c _ _ => match s_cond E c with Some _ => true | None => false end
    | DOther => true
    end.
  Definition dirs_ok (s : selection) : bool := forallb dir_ok (sel_dirs s).
  Fixpoint sel_conds_ok (s : selection) : bool :=
    dirs_ok s &&
    match s with
    | SField _ _ _ _ sub => forallb sel_conds_ok sub
    | SSpread _ _ _ => true
    | SInline tc _ _ sub =>
        match tc with Some c => cond_ok c | None => true end && forallb sel_conds_ok sub
    end.
  Definition conds_ok : bool :=
    forallb sel_conds_ok (op_sels D) &&
    forallb (fun f => cond_ok (fr_cond f) && forallb sel_conds_ok (fr_sels f)) (frags D).

  (** the same with the directive conjunct switchable: [sel_conds_gen true] is [sel_conds_ok],
      [sel_conds_gen false] keeps only the type conditions.  [doc_ok_nodirs] is [doc_ok] without
      the requirement that every @skip/@include condition be evaluable: the totality and
      finiteness statements hold under it (the executor handles such directives: the selection is
      left out, an error is reported); the statements about the errors do not. *)
  Fixpoint sel_conds_gen (b : bool) (s : selection) : bool :=
    (if b then dirs_ok s else true) &&
    match s with
    | SField _ _ _ _ sub => forallb (sel_conds_gen b) sub
    | SSpread _ _ _ => true
    | SInline tc _ _ sub =>
        match tc with Some c => cond_ok c | None => true end && forallb (sel_conds_gen b) sub
    end.
  Definition conds_gen (b : bool) : bool :=
    forallb (sel_conds_gen b) (op_sels D) &&
    forallb (fun f => cond_ok (fr_cond f) && forallb (sel_conds_gen b) (fr_sels f)) (frags D).
  Definition doc_ok_nodirs (n : nat) : bool :=
    conds_gen false &&
    match s_root_type S (op_kind D) with
    | Some rt => sels_ok n rt (op_sels D)
    | None => false
    end.

  Definition doc_ok (n : nat) : bool :=
    conds_ok &&
    match s_root_type S (op_kind D) with
    | Some rt => sels_ok n rt (op_sels D)
    | None => false
    end.
End DocOk.

(** ** response key order: the keys of the selected fields in order of first appearance *)
Fixpoint first_occurrences (l : list name) (seen : list name) : list name :=
  match l with
  | [] => []
  | k :: r => if mem k seen then first_occurrences r seen else k :: first_occurrences r (seen ++ [k])
  end.

(** ** the statements made about an implementation's response *)

(** an error list as a multiset keyed by (path, locations) *)
Definition count (e : gerror) (l : list gerror) : nat :=
  length (filter (gerror_eqb e) l).
Definition sub_multiset_of (a b : list gerror) : Prop := forall e, (count e a <= count e b)%nat.

(** [explained errs (p, cands)]: exactly one reported error explains the failure null at [p] *)
Definition explained (errs : list gerror) (pc : rpath * list gerror) : Prop :=
  length (filter (fun e => existsb (gerror_eqb e) (snd pc)) errs) = 1%nat.

(** the value at a response path *)
Fixpoint json_at (j : json) (p : rpath) : option json :=
  match p with
  | [] => Some j
  | PKey k :: r => match j with
                   | JObj kvs => match assoc k kvs with Some v => json_at v r | None => None end
                   | _ => None
                   end
  | PIdx i :: r => match j with
                   | JArr xs => match nth_error xs (N.to_nat i) with Some v => json_at v r | None => None end
                   | _ => None
                   end
  end.

(** ** where errors come from: the shape of an error

    [field_instance ot w sels prefix p fields]: executing the selections [sels] on the object value
    [w] of type [ot] located at response path [prefix] executes, there or further below, a field
    at response path [p] that was selected by exactly the field nodes [fields]. *)
Definition outcome_field (w : outcome) (fname : name) : option outcome :=
  match w with OObj _ fs => assoc fname fs | _ => None end.

(** the values inside a field's value, through list items *)
Inductive reaches : outcome -> list N -> outcome -> Prop :=
| reaches_here o : reaches o [] o
| reaches_item l i o idxs o' :
    nth_error l (N.to_nat i) = Some o -> reaches o idxs o' -> reaches (OList l) (i :: idxs) o'.

(** the object type CompleteValue executes the sub-selections with *)
Definition s_object_type (S : schema) (n : name) (o : outcome) : option name :=
  match lookup_type S n with
  | Some (NObject _ _) => Some n
  | Some (NInterface _) | Some (NUnion _) =>
      s_resolve_abstract S n (match o with OObj t _ => Some t | _ => None end)
  | _ => None
  end.

Section Shape.
  Variables (S : schema) (D : document) (E : env) (fuel : nat).

  (** the entry of the object value's outcome table the resolver of field node [f] answers with *)
  Definition resolver_key (ot : name) (f : fnode) : name :=
    match coerce_field_args S D ot f with
    | Values.Ok A => field_key (fn_name f) A
    | _ => fn_name f
    end.

  Inductive field_instance : name -> outcome -> list selection -> rpath -> rpath -> list fnode -> Prop :=
  | fi_here ot w sels prefix groups key fields :
      s_collect S D E fuel ot sels = Some groups -> In (key, fields) groups ->
      field_instance ot w sels prefix (prefix ++ [PKey key]) fields
  | fi_below ot w sels prefix groups key f more t o idxs o' ot' p fields' :
      s_collect S D E fuel ot sels = Some groups -> In (key, f :: more) groups ->
      s_field_kind S ot (fn_name f) = SFType t ->
      outcome_field w (resolver_key ot f) = Some o -> reaches o idxs o' ->
      s_object_type S (sty_base t) o' = Some ot' ->
      field_instance ot' o' (s_merge_selection_sets (f :: more)) (prefix ++ PKey key :: map PIdx idxs) p fields' ->
      field_instance ot w sels prefix p fields'.

  (** the error belongs to the field at [p] selected by [fields]: its path is [p], possibly
      continued by list indices; its locations are the position of the first field node, or of
      all field nodes when the resolver itself failed *)
  Definition error_shaped (e : gerror) (p : rpath) (fields : list fnode) : Prop :=
    exists idxs, e_path e = p ++ map PIdx idxs /\
                 (e_locs e = first_loc fields \/ (idxs = [] /\ e_locs e = map fn_pos fields)).
End Shape.

(** ** GetOperation (June 2018, 6.1): without an operation name the document must contain exactly
    one operation; with a name, the operation of that name (names are unique in a valid document;
    a document in which they are not determines no operation). *)
Definition s_named (n : name) (o : operation) : bool :=
  match o_name o with Some m => name_eqb m n | None => false end.
Definition s_get_operation (R : request_doc) (opname : option name) : option operation :=
  match opname with
  | None => match r_ops R with [o] => Some o | _ => None end
  | Some n => match filter (s_named n) (r_ops R) with [o] => Some o | _ => None end
  end.
(** Request.OperationName: the empty string is "no name" *)
Definition opname_of (n : name) : option name := match n with [] => None | _ => Some n end.
