(** * ExeA/ArgModel.v — hand transcription of the synchronous executor (C01).

    graphql/executor/executor.go: collectFields / collectFieldsImpl (with the memo cache),
    doesFragmentTypeApply, mergeSelectionSets, executeSelections, executeField, completeValue,
    catchErrorIfNullable, the Errors accumulator, executeQuery/Mutation/SubscriptionEvent epilogue;
    grouped_field_set.go (Append), ordered_map.go (index-filled map), path.go, error.go.
    Resolvers answer directly (no promises: that is C02).  Same control flow, same short-circuits.
    No proofs in this file.

    The structural-recursion argument of the executor is the resolver-outcome tree [W]; fragment
    expansion recurses on explicit fuel (an [OutOfFuel] result, excluded by the theorems).

    [mode]: [fix1]/[fix7] = false give the code before the repairs of defects 1 and 7 (kept for
    the refutation witnesses); [memo] = false removes GroupedFieldSetCache (the stage-1 executor;
    [collect_cache_transparent] shows it computes the same result). *)
From Coq Require Import List NArith ZArith Bool.
From ApiFu Require Import Base.Sexp ExeA.ArgData ExeA.ArgArgs.
From ApiFu Require Val.Values Val.CoerceModel.
Import ListNotations.

Record mode := { fix1 : bool; fix7 : bool; memo : bool;
                 fixd : bool;      (* a directive's coercion error is reported once per operation *)
                 fullkey : bool;   (* the memo key of collectFields is the code's: EVERY selection's position *)
                 report : bool }.  (* collectFields reports the directives it cannot evaluate (the code does;
                                      [false] only as a proof device: the same executor, silent about them) *)
Definition fixed : mode :=
  {| fix1 := true; fix7 := true; memo := true; fixd := true; fullkey := true; report := true |}.
Definition fixed_nomemo : mode :=
  {| fix1 := true; fix7 := true; memo := false; fixd := true; fullkey := true; report := true |}.
Definition silent_nomemo : mode :=
  {| fix1 := true; fix7 := true; memo := false; fixd := true; fullkey := true; report := false |}.

(** ** grouped_field_set.go *)
Record group := { g_key : name; g_first : fnode; g_more : list fnode }.          (* Fields is never empty *)
Definition g_fields (g : group) : list fnode := g_first g :: g_more g.
Definition gfs := list group.

Fixpoint gfs_append (k : name) (f : fnode) (g : gfs) : gfs :=
  match g with
  | [] => [ {| g_key := k; g_first := f; g_more := [] |} ]
  | x :: r =>
      if name_eqb k (g_key x)
      then {| g_key := g_key x; g_first := g_first x; g_more := g_more x ++ [f] |} :: r
      else x :: gfs_append k f r
  end.

(** ** @skip / @include (collectFieldsImpl lines 494-504, builtins.go FieldCollectionFilter) *)
Definition eval_cond (E : env) (c : cond) : option bool :=
  match c with
  | CLit b => Some b
  | CVar v => match assoc v E with Some (Some b) => Some b | _ => None end
  end.

(** a directive whose arguments do not coerce (coerceArgumentValues fails: the variable has no
    value, or holds null for the Boolean! argument) leaves the selection out ... *)
Definition dir_skips (E : env) (d : directive) : bool :=
  match d with
  | DSkip c _ _ => match eval_cond E c with Some b => b | None => true end
  | DInclude c _ _ => match eval_cond E c with Some b => negb b | None => true end
  | DOther => false
  end.
Definition skipped (E : env) (ds : list directive) : bool := existsb (dir_skips E) ds.

(** ... and its error is appended to e.Errors: no path; located at the directive when the argument
    has no value ("The if argument is required.", validator/coerce.go:65), at the variable when it
    holds null ("The if argument cannot be null.", coerce.go:73).  The loop over the directives
    has no early exit: every failing directive of the selection reports. *)
Definition cond_error (E : env) (c : cond) (dp vp : pos) : list gerror :=
  match c with
  | CLit _ => []
  | CVar v => match assoc v E with
              | Some (Some _) => []
              | Some None => [{| e_path := []; e_locs := [vp] |}]
              | None => [{| e_path := []; e_locs := [dp] |}]
              end
  end.
Definition dir_errors (E : env) (d : directive) : list gerror :=
  match d with
  | DSkip c dp vp => cond_error E c dp vp
  | DInclude c dp vp => cond_error E c dp vp
  | DOther => []
  end.
Definition dirs_errors (E : env) (ds : list directive) : list gerror := flat_map (dir_errors E) ds.

(** ** doesFragmentTypeApply (after schemaType) *)
Inductive applies_res := ApYes | ApNo | ApPanic.
Definition type_applies (S : schema) (ot : name) (c : name) : applies_res :=
  match lookup_type S c with
  | None => ApNo                                             (* schemaType(...) == nil: continue *)
  | Some (NObject _ _) => if name_eqb ot c then ApYes else ApNo
  | Some (NInterface _) =>
      match lookup_type S ot with
      | Some (NObject _ ifs) => if mem c ifs then ApYes else ApNo
      | _ => ApNo
      end
  | Some (NUnion ms) => if mem ot ms then ApYes else ApNo
  | Some _ => ApPanic                                        (* "unexpected fragment type" *)
  end.

(** e.FragmentDefinitions is a map filled in document order: the last definition of a name wins *)
Fixpoint find_frag (n : name) (l : list fragdef) : option fragdef :=
  match l with
  | [] => None
  | f :: r => match find_frag n r with
              | Some x => Some x
              | None => if name_eqb n (fr_name f) then Some f else None
              end
  end.

Definition response_key (alias : option name) (n : name) : name :=
  match alias with Some k => k | None => n end.

Inductive cres := COk (visited : list name) (g : gfs) | CPanic | COutOfFuel.

Section Collect.
  Variables (S : schema) (D : document) (E : env).

  (** collectFieldsImpl; [visited] and the grouped field set are the two mutable objects the Go
      function threads through its recursion.  Fuel is spent on every descent into a fragment
      (named or inline). *)
  Fixpoint collect_impl (fuel : nat) (ot : name) {struct fuel}
    : list selection -> list name -> gfs -> cres :=
    fix go (sels : list selection) (visited : list name) (g : gfs) {struct sels} : cres :=
      match sels with
      | [] => COk visited g
      | s :: rest =>
          if skipped E (sel_dirs s) then go rest visited g
          else
            let descend (sub : list selection) (visited' : list name) :=
              match fuel with
              | O => COutOfFuel
              | Datatypes.S fuel' =>
                  match collect_impl fuel' ot sub visited' g with
                  | COk v' g' => go rest v' g'
                  | r => r
                  end
              end in
            match s with
            | SField a n p _ sub =>
                go rest visited
                   (gfs_append (response_key a n) {| fn_name := n; fn_pos := p; fn_sub := sub |} g)
            | SSpread n _ _ =>
                if mem n visited then go rest visited g
                else
                  let visited' := n :: visited in
                  match find_frag n (frags D) with
                  | None => go rest visited' g
                  | Some f =>
                      match type_applies S ot (fr_cond f) with
                      | ApNo => go rest visited' g
                      | ApPanic => CPanic
                      | ApYes => descend (fr_sels f) visited'
                      end
                  end
            | SInline tc _ _ sub =>
                match tc with
                | None => descend sub visited
                | Some c =>
                    match type_applies S ot c with
                    | ApNo => go rest visited g
                    | ApPanic => CPanic
                    | ApYes => descend sub visited
                    end
                end
            end
      end.

  (** the errors collectFieldsImpl appends to e.Errors during that same traversal (directives whose
      arguments do not coerce).  Kept apart from [collect_impl] — same recursion, same visited
      set — so that the grouped field set keeps its shape.  A selection with a failing directive
      is always skipped, so only skipped selections contribute. *)
  Fixpoint collect_errs (fuel : nat) (ot : name) {struct fuel}
    : list selection -> list name -> list name * list gerror :=
    fix go (sels : list selection) (visited : list name) {struct sels} : list name * list gerror :=
      match sels with
      | [] => (visited, [])
      | s :: rest =>
          if skipped E (sel_dirs s) then
            let r := go rest visited in (fst r, dirs_errors E (sel_dirs s) ++ snd r)
          else
            let descend (sub : list selection) (visited' : list name) :=
              match fuel with
              | O => (visited', [])
              | Datatypes.S fuel' =>
                  let r1 := collect_errs fuel' ot sub visited' in
                  let r2 := go rest (fst r1) in (fst r2, snd r1 ++ snd r2)
              end in
            match s with
            | SField _ _ _ _ _ => go rest visited
            | SSpread n _ _ =>
                if mem n visited then go rest visited
                else
                  let visited' := n :: visited in
                  match find_frag n (frags D) with
                  | None => go rest visited'
                  | Some f =>
                      match type_applies S ot (fr_cond f) with
                      | ApNo => go rest visited'
                      | ApPanic => (visited', [])
                      | ApYes => descend (fr_sels f) visited'
                      end
                  end
            | SInline tc _ _ sub =>
                match tc with
                | None => descend sub visited
                | Some c =>
                    match type_applies S ot c with
                    | ApNo => go rest visited
                    | ApPanic => (visited, [])
                    | ApYes => descend sub visited
                    end
                end
            end
      end.
End Collect.

(** ** executor state: the Errors accumulator and GroupedFieldSetCache *)
Record state := { st_errs : list gerror; st_cache : list (bytes * gfs) }.
Definition init_state : state := {| st_errs := []; st_cache := [] |}.
Definition add_err (e : gerror) (st : state) : state :=
  {| st_errs := st_errs st ++ [e]; st_cache := st_cache st |}.
Definition add_errs (es : list gerror) (st : state) : state :=
  {| st_errs := st_errs st ++ es; st_cache := st_cache st |}.
(** the errors of the directives met by one traversal of collectFieldsImpl: with the repair
    ([once]) a directive node that is already reported (executor.reportedDirectives; here: its
    error — no path, the node's own location — is already in Errors) is not reported again *)
Definition report_errs (once : bool) (es : list gerror) (st : state) : state :=
  fold_left (fun s e => if once && existsb (gerror_eqb e) (st_errs s) then s else add_err e s) es st.

Inductive res (A : Type) := ROk (a : A) | RErr (e : gerror) | RPanic | ROutOfFuel.
Arguments ROk {A} a.
Arguments RErr {A} e.
Arguments RPanic {A}.
Arguments ROutOfFuel {A}.

(** completeValue(fieldType, fields, <a fixed result>, path) with the executor state threaded *)
Definition completer := sty -> fnode -> list fnode -> rpath -> state -> res json * state.

(** ** THE MEMO KEY of collectFields (executor.go, collectFields):

      cacheKeyBytes := make([]byte, len(objectType.Name) + 8*len(selections))
      copy(cacheKeyBytes, objectType.Name)
      for i, sel := range selections {
          PutUint32(cacheKeyBytes[nameLen+i*8:],   uint32(sel.Position().Line))
          PutUint32(cacheKeyBytes[nameLen+i*8+4:], uint32(sel.Position().Column)) }

    i.e. the object type's name followed by line and column of EVERY selection of the list, in
    order ([cache_key]).  collectFields is called with the selection list of an operation, or with
    the MERGED sub-selections of a group of field nodes (mergeSelectionSets: a concatenation, so
    the same node can occur in many different lists).  The cache is sound because the key
    determines (object type, list of selection nodes):
      - [cache_key_inj] (ArgCacheProofs): the key determines the type name and the list of
        positions — needs type names without zero byte and lines < 2^24, columns < 2^32;
      - [positions_determine]: inside one document equal position lists are equal selection
        lists — needs pairwise distinct positions ([doc_positions_okb]).
    Every component matters.  A key that keeps less — say (type, position of the FIRST selection,
    number of selections): [coarse_key] — is not injective on the lists the executor produces:
    a fragment's field node that merges with different sibling nodes at two spread sites yields
    two lists with the same type, the same first node and the same length.  The model has such a
    key behind the flag [fullkey = false] only to exhibit that
    ([collect_cache_transparent_refuted_coarse_key]); the code, and [fixed], use [cache_key]. *)
Definition le32 (n : N) : bytes :=
  let m := N.modulo n 4294967296 in
  [N.modulo m 256; N.modulo (N.div m 256) 256; N.modulo (N.div m 65536) 256; N.div m 16777216]%N.
Definition cache_key (ot : name) (sels : list selection) : bytes :=
  ot ++ flat_map (fun s => le32 (line (sel_pos s)) ++ le32 (col (sel_pos s))) sels.

Definition coarse_key (ot : name) (sels : list selection) : bytes :=
  ot ++ match sels with
        | [] => []
        | s :: _ => le32 (line (sel_pos s)) ++ le32 (col (sel_pos s))
        end ++ le32 (N.of_nat (length sels)).

Definition mk_err (path : rpath) (locs : list pos) : gerror := {| e_path := path; e_locs := locs |}.

(** newFieldResolveError: the locations of ALL field nodes of the group *)
Definition err_completer : completer :=
  fun _ f0 more path st => (RErr (mk_err path (map fn_pos (f0 :: more))), st).

Inductive fdef := FType (t : sty) | FMeta | FNone.
Inductive cfres := CFOk (g : gfs) | CFPanic | CFOutOfFuel.

(** what completeValue inspects of a Go value, with the completion of its parts closed over *)
Record oview := { ov_nil : bool;                           (* isNil(result) *)
                  ov_leaf : gval;                          (* what a scalar/enum coercer sees *)
                  ov_items : option (list completer);      (* Some = reflect.Slice *)
                  ov_tag : option name;                    (* the type whose IsTypeOf accepts it *)
                  ov_field : name -> completer }.          (* executeField on it, per field name *)

Inductive run_result := Done (data : option json) (errs : list gerror) | Panic | OutOfFuel.

Section Exec.
  Variables (M : mode) (S : schema) (D : document) (E : env) (fuel : nat).

  (** collectFields *)
  Definition collect_fields (ot : name) (sels : list selection) (st : state) : cfres * state :=
    if memo M then
      let key := if fullkey M then cache_key ot sels else coarse_key ot sels in
      match assoc key (st_cache st) with
      | Some g => (CFOk g, st)
      | None =>
          match collect_impl S D E fuel ot sels [] [] with
          | COk _ g =>
              let st' := report_errs (fixd M) (if report M then snd (collect_errs S D E fuel ot sels []) else []) st in
              (CFOk g, {| st_errs := st_errs st'; st_cache := (key, g) :: st_cache st' |})
          | CPanic => (CFPanic, st)
          | COutOfFuel => (CFOutOfFuel, st)
          end
      end
    else
      match collect_impl S D E fuel ot sels [] [] with
      | COk _ g => (CFOk g, report_errs (fixd M) (if report M then snd (collect_errs S D E fuel ot sels []) else []) st)
      | CPanic => (CFPanic, st)
      | COutOfFuel => (CFOutOfFuel, st)
      end.

  (** mergeSelectionSets *)
  Definition merge_subs (f0 : fnode) (more : list fnode) : list selection :=
    fn_sub f0 ++ flat_map fn_sub more.

  (** objectType.GetField, then introspection.MetaFields on the query type *)
  Definition get_field (ot fname : name) : fdef :=
    match lookup_type S ot with
    | Some (NObject fs _) =>
        match assoc fname fs with
        | Some t => FType t
        | None => if name_eqb ot (query S) && (name_eqb fname n_schema || name_eqb fname n_type)
                  then FMeta else FNone
        end
    | _ => FNone
    end.

  (** catchErrorIfNullable *)
  Definition catch_if_nullable {A} (null : A) (t : sty) (x : res A * state) : res A * state :=
    match t with
    | StNonNull _ => x
    | _ => match fst x with
           | RErr e => (ROk null, add_err e (snd x))
           | _ => x
           end
    end.

  (** the loop of executeSelections over groupedFieldSet.Items(); [children] is executeField on
      the current object value *)
  Fixpoint exec_groups (children : name -> completer) (ot : name) (path : rpath) (gs : gfs)
           (st : state) : res (list (name * json)) * state :=
    match gs with
    | [] => (ROk [], st)
    | g :: rest =>
        let f0 := g_first g in
        let continue_with (kv : name * json) (st' : state) :=
          let (rr, st2) := exec_groups children ot path rest st' in
          (match rr with ROk kvs => ROk (kv :: kvs) | x => x end, st2) in
        if name_eqb (fn_name f0) n_typename then continue_with (g_key g, JStr ot) st
        else
          match get_field ot (fn_name f0) with
          | FNone => continue_with ([], JNull) st      (* slot i of the pre-sized map is never set *)
          | FMeta => continue_with (g_key g, JMeta) st
          | FType t =>
              let (r1, st1) :=
                catch_if_nullable JNull t
                  (children (fn_name f0) t f0 (g_more g) (path ++ [PKey (g_key g)]) st) in
              match r1 with
              | ROk j => continue_with (g_key g, j) st1
              | RErr e => (RErr e, st1)                (* return future.Err: later fields not run *)
              | RPanic => (RPanic, st1)
              | ROutOfFuel => (ROutOfFuel, st1)
              end
          end
    end.

  (** the head of executeField: coerceArgumentValues for the FIRST field node, then Resolve with
      the coerced arguments.  [children k] is "resolve the entry [k] of the object value's outcome
      table and complete it": the resolver called with the argument map [A] answers with the
      entry [field_key fname A].  A coercion error is a field error at the field (path and the
      first node's location: the repair of stage C, before it the error had no path and was
      located at the argument value); the panic of the coercion code ("unsupported ... type")
      is a panic of the executor. *)
  Definition with_args (children : name -> completer) (ot : name) : name -> completer :=
    fun fname t f0 more path st =>
      match coerce_field_args S D ot f0 with
      | Values.Ok A => children (field_key fname A) t f0 more path st
      | Values.Err => (RErr (mk_err path [fn_pos f0]), st)
      | Values.Panic => (RPanic, st)
      end.

  (** executeSelections over given field executors *)
  Definition exec_selections_raw (children : name -> completer) (ot : name) (sels : list selection)
             (path : rpath) (st : state) : res json * state :=
    match collect_fields ot sels st with
    | (CFOk g, st1) =>
        let (r, st2) := exec_groups children ot path g st1 in
        (match r with
         | ROk kvs => ROk (JObj kvs) | RErr e => RErr e | RPanic => RPanic | ROutOfFuel => ROutOfFuel
         end, st2)
    | (CFPanic, st1) => (RPanic, st1)
    | (CFOutOfFuel, st1) => (ROutOfFuel, st1)
    end.
  (** executeSelections on an object value whose outcome table is [children] *)
  Definition exec_selections (children : name -> completer) (ot : name) (sels : list selection)
             (path : rpath) (st : state) : res json * state :=
    exec_selections_raw (with_args children ot) ot sels path st.

  (** the list branch of completeValue: every item is completed (the loop has no early exit),
      then future.Join yields the first error in index order *)
  Fixpoint complete_items (t : sty) (f0 : fnode) (more : list fnode) (path : rpath)
           (items : list completer) (i : N) (st : state) : res (list json) * state :=
    match items with
    | [] => (ROk [], st)
    | c :: rest =>
        let (r1, st1) := catch_if_nullable JNull t (c t f0 more (path ++ [PIdx i]) st) in
        match r1 with
        | RPanic => (RPanic, st1)
        | ROutOfFuel => (ROutOfFuel, st1)
        | _ =>
            let (rr, st2) := complete_items t f0 more path rest (i + 1)%N st1 in
            (match rr with
             | RPanic => RPanic
             | ROutOfFuel => ROutOfFuel
             | _ => match r1 with
                    | ROk j => match rr with ROk js => ROk (j :: js) | x => x end
                    | RErr e => RErr e
                    | RPanic => RPanic
                    | ROutOfFuel => ROutOfFuel
                    end
             end, st2)
        end
    end.

  (** abstract type resolution: the first possible type whose IsTypeOf accepts the value *)
  Fixpoint first_is_type_of (tag : option name) (possible : list name) : option name :=
    match possible with
    | [] => None
    | t :: r => match tag with
                | Some x => if name_eqb t x then Some t else first_is_type_of tag r
                | None => first_is_type_of tag r
                end
    end.

  (** completeValue on a fixed Go value *)
  Definition complete_view (v : oview) : completer :=
    fix cty (ty : sty) (f0 : fnode) (more : list fnode) (path : rpath) (st : state) {struct ty}
      : res json * state :=
      let one_err := mk_err path [fn_pos f0] in       (* newErrorWithPath(fields[0], pathIn, ...) *)
      match ty with
      | StNonNull t =>
          let (r, st') := cty t f0 more path st in
          match r with
          | ROk JNull => (RErr one_err, st')                     (* "Null result for non-null field." *)
          | ROk j => (ROk j, st')
          | RErr e => if fix1 M then (RErr e, st')               (* return fut *)
                      else (ROk JNull, st')                      (* before: future.Ok(r.Value), r.Value == nil *)
          | RPanic => (RPanic, st')
          | ROutOfFuel => (ROutOfFuel, st')
          end
      | StList t =>
          if ov_nil v then (ROk JNull, st)
          else match ov_items v with
               | None => (RErr one_err, st)                      (* "Result is not a list." *)
               | Some items =>
                   let (r, st') := complete_items t f0 more path items 0%N st in
                   (match r with
                    | ROk js => ROk (JArr js) | RErr e => RErr e
                    | RPanic => RPanic | ROutOfFuel => ROutOfFuel
                    end, st')
               end
      | StNamed n =>
          if ov_nil v then (ROk JNull, st)
          else
            let as_object (ot : name) :=
              exec_selections (ov_field v) ot (merge_subs f0 more) path st in
            match lookup_type S n with
            | Some (NScalar k) =>
                match coerce_scalar (fix7 M) k (ov_leaf v) with
                | Some j => (ROk j, st)
                | None => (RErr one_err, st)                     (* "Unexpected result: ..." *)
                end
            | Some (NEnum vals) =>
                match coerce_enum vals (ov_leaf v) with
                | Some j => (ROk j, st)
                | None => (RErr one_err, st)
                end
            | Some (NObject _ _) => as_object n
            | Some (NInterface _) =>
                match first_is_type_of (ov_tag v) (impls_of S n) with
                | Some ot => as_object ot
                | None => (RErr one_err, st)                     (* "Unable to determine object type." *)
                end
            | Some (NUnion ms) =>
                match first_is_type_of (ov_tag v) ms with
                | Some ot => as_object ot
                | None => (RErr one_err, st)
                end
            | Some NInput | None => (RPanic, st)                 (* "unexpected field type" *)
            end
      end.

  Definition field_of (l : list (name * completer)) (n : name) : completer :=
    match assoc n l with Some c => c | None => err_completer end.

  (** executeField (resolver error or completeValue) over the whole outcome tree *)
  Fixpoint complete (o : outcome) : completer :=
    complete_view
      {| ov_nil := is_nil o;
         ov_leaf := leaf_of o;
         ov_items := match o with OList l => Some (map complete l) | _ => None end;
         ov_tag := match o with OObj t _ => Some t | _ => None end;
         ov_field := match o with
                     | OObj _ fs =>
                         field_of (map (fun p => match p with
                                                 | (n, o') => (n, match o' with
                                                                  | OErr => err_completer
                                                                  | _ => complete o'
                                                                  end)
                                                 end) fs)
                     | _ => fun _ => err_completer
                     end |}.

  (** executeField for the field whose resolver outcome is [o] *)
  Definition resolve (o : outcome) : completer :=
    match o with OErr => err_completer | _ => complete o end.

  (** executeField on the object value [o], per field name *)
  Definition children_of (o : outcome) : name -> completer :=
    match o with
    | OObj _ fs => field_of (map (fun p => (fst p, resolve (snd p))) fs)
    | _ => fun _ => err_completer
    end.

  Definition root_type (k : opkind) : option name :=
    match k with
    | OpQuery => Some (query S) | OpMutation => mutation S | OpSubscription => subscription S
    end.

  (** ExecuteRequest for the (single) operation of [D] with InitialValue [W] *)
  Definition run (W : outcome) : run_result :=
    match root_type (op_kind D) with
    | None => Done None [mk_err [] [op_pos D]]        (* "This schema cannot perform ..." *)
    | Some rt =>
        let (r, st) := exec_selections (children_of W) rt (op_sels D) [] init_state in
        match r with
        | ROk data => Done (Some data) (st_errs st)
        | RErr e => Done None (st_errs st ++ [e])
        | RPanic => Panic
        | ROutOfFuel => OutOfFuel
        end
    end.
End Exec.


(** ** the fuel handed to fragment expansion: (number of fragment definitions + 1) * (nesting depth
    of the document + 1); [collect_fuel_sufficient] (ExecProofs) shows it is never exhausted. *)
Fixpoint sel_depth (s : selection) : nat :=
  match s with
  | SField _ _ _ _ sub => Datatypes.S (fold_right (fun x acc => Nat.max (sel_depth x) acc) O sub)
  | SSpread _ _ _ => 1%nat
  | SInline _ _ _ sub => Datatypes.S (fold_right (fun x acc => Nat.max (sel_depth x) acc) O sub)
  end.
Definition sels_depth (l : list selection) : nat :=
  fold_right (fun x acc => Nat.max (sel_depth x) acc) O l.
Definition doc_depth (D : document) : nat :=
  Nat.max (sels_depth (op_sels D))
          (fold_right (fun f acc => Nat.max (sels_depth (fr_sels f)) acc) O (frags D)).
Definition default_fuel (D : document) : nat :=
  ((length (frags D) + 1) * (doc_depth D + 1))%nat.

(** ** GetOperation (executor.go) and the head of ExecuteRequest / newExecutor.
    [opname] is Request.OperationName; the empty string stands for "none given".  The loop runs
    over the definitions in document order, keeps the first match and fails at the second. *)
Inductive gop := GOp (o : operation) | GMultiple (p : pos) | GNoMatch.

Definition op_matches (opname : name) (o : operation) : bool :=
  match opname with
  | [] => true
  | _ => match o_name o with Some n => name_eqb n opname | None => false end
  end.

Fixpoint get_operation_loop (ops : list operation) (opname : name) (ret : option operation) : gop :=
  match ops with
  | [] => match ret with Some o => GOp o | None => GNoMatch end
  | o :: rest =>
      if op_matches opname o then
        match ret with
        | Some _ => GMultiple (o_pos o)            (* newError(def, "Multiple matching operations.") *)
        | None => get_operation_loop rest opname (Some o)
        end
      else get_operation_loop rest opname ret
  end.
Definition get_operation (R : request_doc) (opname : name) : gop := get_operation_loop (r_ops R) opname None.

(** ExecuteRequest / newExecutor: a GetOperation error is the whole response (no data, that one
    error; "No matching operations." has no node, hence no location); then CoerceVariableValues
    (C05's transcription) on the selected operation's variable definitions and the raw
    Request.VariableValues [raw]: its error, located at the variable node of the first definition
    that fails, is the whole response as well; otherwise the operation is executed with the
    coerced variables. *)
Definition coerce_request_vars (S : schema) (o : operation) (raw : list (name * Values.jval))
  : Values.res (list (name * Values.gval)) :=
  CoerceModel.coerce_variable_values CoerceModel.all_fixed (s_inputs S) (dt_oracle S) (map fst (o_vardefs o)) raw.

Definition run_request (M : mode) (S : schema) (R : request_doc) (opname : name)
           (raw : list (name * Values.jval)) (fuel : nat) (W : outcome) : run_result :=
  match get_operation R opname with
  | GOp o =>
      match coerce_request_vars S o raw with
      | Values.Ok vv => run M S (doc_of R o vv) (env_of_vars vv) fuel W
      | Values.Err => Done None [mk_err [] (match first_failing_var S (o_vardefs o) [] raw with
                                            | Some p => [p] | None => [] end)]
      | Values.Panic => Panic
      end
  | GMultiple p => Done None [mk_err [] [p]]
  | GNoMatch => Done None [mk_err [] []]
  end.
