(** * ExeA/ArgFuelProofs.v — the fuel [default_fuel D] = (fragment definitions + 1) * (nesting
    depth + 1) is never exhausted by fragment expansion on selections of the document. *)
From Coq Require Import List NArith ZArith Bool Lia.
From ApiFu Require Import Base.Sexp ExeA.ArgData ExeA.ArgArgs ExeA.ArgModel ExeA.ArgSpec ExeA.ArgHyps
     ExeA.ArgBaseProofs ExeA.ArgCollectProofs ExeA.ArgCacheProofs.
Import ListNotations.

Lemma sel_depth_pos s : (1 <= sel_depth s)%nat.
Proof. destruct s; cbn [sel_depth]; lia. Qed.

Lemma sels_depth_cons s r : sels_depth (s :: r) = Nat.max (sel_depth s) (sels_depth r).
Proof. reflexivity. Qed.

Lemma sels_depth_in s l : In s l -> (sel_depth s <= sels_depth l)%nat.
Proof.
  induction l as [|x r IH]; intro H; [destruct H|]. rewrite sels_depth_cons.
  destruct H as [->|H]; [lia|]. specialize (IH H). lia.
Qed.

Lemma sels_depth_le l k : (forall s, In s l -> (sel_depth s <= k)%nat) -> (sels_depth l <= k)%nat.
Proof.
  induction l as [|x r IH]; intro H; [cbn; lia|]. rewrite sels_depth_cons.
  assert (sel_depth x <= k)%nat by (apply H; left; reflexivity).
  assert (sels_depth r <= k)%nat by (apply IH; intros s Hs; apply H; right; exact Hs). lia.
Qed.

Lemma sel_depth_children s :
  (Datatypes.S (sels_depth (match s with SField _ _ _ _ sub => sub | SInline _ _ _ sub => sub | SSpread _ _ _ => [] end))
   <= sel_depth s)%nat.
Proof. destruct s; cbn [sel_depth]; fold (sels_depth sub) || idtac; cbn; lia. Qed.

Lemma sub_sels_depth s : forall t, In t (sub_sels s) -> (sel_depth t <= sel_depth s)%nat.
Proof.
  induction s as [a n p d sub IH|n p d|tc p d sub IH] using selection_ind'; intros t Ht; cbn [sub_sels] in Ht.
  - destruct Ht as [<-|Ht]; [lia|]. apply in_flat_map in Ht as [x [Hx Ht]].
    rewrite Forall_forall in IH. specialize (IH x Hx t Ht).
    pose proof (sels_depth_in x sub Hx). pose proof (sel_depth_children (SField a n p d sub)). cbn beta iota in H0. lia.
  - destruct Ht as [<-|[]]. lia.
  - destruct Ht as [<-|Ht]; [lia|]. apply in_flat_map in Ht as [x [Hx Ht]].
    rewrite Forall_forall in IH. specialize (IH x Hx t Ht).
    pose proof (sels_depth_in x sub Hx). pose proof (sel_depth_children (SInline tc p d sub)). cbn beta iota in H0. lia.
Qed.

Section Fuel.
  Variables (S : schema) (D : document) (E : env).

  Lemma frag_depth f : In f (frags D) -> (sels_depth (fr_sels f) <= doc_depth D)%nat.
  Proof.
    unfold doc_depth. intro H.
    assert (sels_depth (fr_sels f) <= fold_right (fun f acc => Nat.max (sels_depth (fr_sels f)) acc) O (frags D))%nat; [|lia].
    induction (frags D) as [|x r IH]; [destruct H|]. cbn [fold_right].
    destruct H as [->|H]; [lia|]. specialize (IH H). lia.
  Qed.

  Lemma occurs_depth s : occurs D s -> (sel_depth s <= doc_depth D)%nat.
  Proof.
    unfold occurs, all_sels. intro H. apply in_app_or in H as [H|H].
    - apply in_flat_map in H as [x [Hx H]]. apply sub_sels_depth in H.
      pose proof (sels_depth_in x _ Hx). unfold doc_depth. lia.
    - apply in_flat_map in H as [f [Hf H]]. apply in_flat_map in H as [x [Hx H]]. apply sub_sels_depth in H.
      pose proof (sels_depth_in x _ Hx). pose proof (frag_depth f Hf). lia.
  Qed.

  Lemma occurs_list_depth sels : Forall (occurs D) sels -> (sels_depth sels <= doc_depth D)%nat.
  Proof.
    intro H. apply sels_depth_le. intros s Hs. apply occurs_depth. rewrite Forall_forall in H. apply H, Hs.
  Qed.

  (** fragment definitions whose name has not been visited *)
  Definition unvisited (visited : list name) : list fragdef :=
    filter (fun f => negb (mem (fr_name f) visited)) (frags D).

  Lemma filter_length_le {A} (p q : A -> bool) l :
    (forall x, q x = true -> p x = true) -> (length (filter q l) <= length (filter p l))%nat.
  Proof.
    intro H. induction l as [|x l IH]; [cbn; lia|]. cbn [filter].
    destruct (q x) eqn:Eq; [rewrite (H x Eq); cbn [length]; lia|]. destruct (p x); cbn [length]; lia.
  Qed.

  Lemma filter_length_lt {A} (p q : A -> bool) l y :
    (forall x, q x = true -> p x = true) -> In y l -> p y = true -> q y = false ->
    (length (filter q l) < length (filter p l))%nat.
  Proof.
    intros H Hin Hp Hq. induction l as [|x l IH]; [destruct Hin|]. cbn [filter].
    destruct Hin as [->|Hin].
    - rewrite Hp, Hq. cbn [length]. pose proof (filter_length_le p q l H). lia.
    - specialize (IH Hin). destruct (q x) eqn:Eq; [rewrite (H x Eq); cbn [length]; lia|].
      destruct (p x); cbn [length]; lia.
  Qed.

  Definition extends (v v' : list name) : Prop := forall x, mem x v = true -> mem x v' = true.

  Lemma unvisited_mono v v' : extends v v' -> (length (unvisited v') <= length (unvisited v))%nat.
  Proof.
    intro H. unfold unvisited. apply filter_length_le. intros f Hf.
    apply negb_true_iff in Hf. apply negb_true_iff.
    destruct (mem (fr_name f) v) eqn:Em; [|reflexivity]. rewrite (H _ Em) in Hf. discriminate.
  Qed.

  Lemma find_frag_name n l f : find_frag n l = Some f -> fr_name f = n.
  Proof.
    induction l as [|x l IH]; cbn [find_frag]; [discriminate|].
    destruct (find_frag n l); [intro H; inversion H; subst; apply IH; reflexivity|].
    destruct (name_eqb n (fr_name x)) eqn:En; [|discriminate].
    intro H; inversion H; subst. apply name_eqb_eq in En. symmetry. exact En.
  Qed.

  Lemma unvisited_enter n visited f :
    find_frag n (frags D) = Some f -> mem n visited = false ->
    (length (unvisited (n :: visited)) < length (unvisited visited))%nat.
  Proof.
    intros Hf Hm. unfold unvisited. apply (filter_length_lt _ _ _ f).
    - intros x Hx. apply negb_true_iff in Hx. apply negb_true_iff. cbn [mem] in Hx.
      apply orb_false_iff in Hx as [_ Hx]. exact Hx.
    - eapply find_frag_in. exact Hf.
    - rewrite (find_frag_name _ _ _ Hf), Hm. reflexivity.
    - rewrite (find_frag_name _ _ _ Hf). cbn [mem]. rewrite name_eqb_refl. reflexivity.
  Qed.

  Lemma extends_refl v : extends v v.
  Proof. intros x H. exact H. Qed.
  Lemma extends_trans a b c : extends a b -> extends b c -> extends a c.
  Proof. intros H1 H2 x H. apply H2, H1, H. Qed.
  Lemma extends_cons n v : extends v (n :: v).
  Proof. intros x H. cbn [mem]. rewrite H. apply orb_true_r. Qed.

  (** the measure: (depth + 1) * unvisited fragments + depth of the list at hand *)
  Lemma collect_flat_fuel fuel : forall ot sels visited,
    ((doc_depth D + 1) * length (unvisited visited) + sels_depth sels <= fuel)%nat ->
    exists v flat, s_collect_flat S D E fuel ot sels visited = Some (v, flat) /\ extends visited v.
  Proof.
    induction fuel as [fuel IHf] using lt_wf_ind. intros ot sels.
    induction sels as [|s rest IH]; intros visited Hm.
    - rewrite s_collect_flat_eq. exists visited, []. split; [reflexivity|apply extends_refl].
    - rewrite s_collect_flat_eq. cbv zeta. rewrite sels_depth_cons in Hm.
      pose proof (sel_depth_pos s) as Hpos.
      assert (Hrest : forall v', extends visited v' ->
                 exists v flat, s_collect_flat S D E fuel ot rest v' = Some (v, flat) /\ extends visited v).
      { intros v' Hext. destruct (IH v') as [v [flat [H1 H2]]].
        - pose proof (unvisited_mono _ _ Hext). nia.
        - exists v, flat. split; [exact H1|]. eapply extends_trans; eassumption. }
      destruct (s_excluded E (sel_dirs s)); [apply Hrest, extends_refl|].
      (* descending into a fragment body *)
      assert (Hfrag : forall sub v0, extends visited v0 ->
                 ((doc_depth D + 1) * length (unvisited v0) + sels_depth sub < fuel)%nat ->
                 exists v flat,
                   match fuel with
                   | O => None
                   | Datatypes.S fuel' =>
                       match s_collect_flat S D E fuel' ot sub v0 with
                       | Some (v1, l) => match s_collect_flat S D E fuel ot rest v1 with
                                         | Some (v2, l0) => Some (v2, l ++ l0)
                                         | None => None
                                         end
                       | None => None
                       end
                   end = Some (v, flat) /\ extends visited v).
      { intros sub v0 Hext Hlt. destruct fuel as [|fuel']; [lia|].
        destruct (IHf fuel' (Nat.lt_succ_diag_r _) ot sub v0) as [v1 [l [H1 H2]]]; [lia|].
        rewrite H1. destruct (Hrest v1 (extends_trans _ _ _ Hext H2)) as [v2 [l0 [H3 H4]]].
        rewrite H3. exists v2, (l ++ l0). split; [reflexivity|exact H4]. }
      destruct s as [a n p ds sub|n p ds|tc p ds sub].
      + destruct (Hrest visited (extends_refl _)) as [v [flat [H1 H2]]]. rewrite H1.
        eexists _, _. split; [reflexivity|exact H2].
      + destruct (mem n visited) eqn:Emem; [apply Hrest, extends_refl|].
        rewrite <- find_frag_eq. destruct (find_frag n (frags D)) as [f|] eqn:Ef; [|apply Hrest, extends_cons].
        destruct (s_applies S ot (fr_cond f)); [|apply Hrest, extends_cons].
        apply Hfrag; [apply extends_cons|].
        pose proof (unvisited_enter n visited f Ef Emem).
        pose proof (frag_depth f (find_frag_in _ _ _ Ef)). nia.
      + pose proof (sel_depth_children (SInline tc p ds sub)) as Hc. cbn beta iota in Hc.
        destruct tc as [c|].
        * destruct (s_applies S ot c); [|apply Hrest, extends_refl].
          apply Hfrag; [apply extends_refl|lia].
        * apply Hfrag; [apply extends_refl|lia].
  Qed.

  (** CollectFields with [default_fuel D] never runs out of fuel on a selection list of the
      document (a list of nodes of [D]: the operation's selections, a fragment body, the merged
      sub-selections of collected fields) *)
  Theorem collect_fuel_sufficient ot sels visited :
    (sels_depth sels <= doc_depth D)%nat ->
    s_collect_flat S D E (default_fuel D) ot sels visited <> None.
  Proof.
    intro Hd. destruct (collect_flat_fuel (default_fuel D) ot sels visited) as [v [flat [H _]]]; [|congruence].
    unfold default_fuel.
    assert (length (unvisited visited) <= length (frags D))%nat.
    { unfold unvisited. clear. induction (frags D) as [|x l IH]; [cbn; lia|]. cbn [filter].
      destruct (negb (mem (fr_name x) visited)); cbn [length]; lia. }
    nia.
  Qed.

  Corollary collect_fuel_sufficient_occurs ot sels visited :
    Forall (occurs D) sels -> s_collect_flat S D E (default_fuel D) ot sels visited <> None.
  Proof. intro H. apply collect_fuel_sufficient. apply occurs_list_depth. exact H. Qed.
End Fuel.

(** ** the bound [n] of [sels_ok] / [doc_ok] (levels of field nesting after merging) is monotone:
    a document that is fine with [n] levels is fine with any larger bound, so "exists n" is all a
    discharging lemma has to provide, and the value the check evaluates ([default_fuel D]) is a
    harmless choice.  (A bound of [doc_depth D + 1] would be WRONG: the nesting continues through
    fragment spreads — { a { ...F } }  F: { b { ...G } }  G: { c { d } } has four levels and depth
    two; for documents without fragment cycles the levels are bounded by the sum of the depths,
    hence by [default_fuel D]; with a cycle such as  F on O { o { ...F } }  no bound works and
    [doc_ok] is false for every [n].) *)
Section Mono.
  Variables (S : schema) (D : document) (E : env) (fuel : nat).

  Lemma type_ok_with_mono (r1 r2 : name -> list selection -> bool) t fields :
    (forall ot sels, r1 ot sels = true -> r2 ot sels = true) ->
    type_ok_with S r1 t fields = true -> type_ok_with S r2 t fields = true.
  Proof.
    intros Hr. unfold type_ok_with. destruct (lookup_type S (sty_base t)) as [[k|vals|fs ifs|fs|ms|]|]; try (intro H; exact H);
      (intro H; rewrite forallb_forall in H |- *; intros ot Hot; apply Hr, H, Hot).
  Qed.

  Lemma group_ok_with_mono (r1 r2 : name -> list selection -> bool) ot kf :
    (forall ot sels, r1 ot sels = true -> r2 ot sels = true) ->
    group_ok_with S D r1 ot kf = true -> group_ok_with S D r2 ot kf = true.
  Proof.
    intros Hr. unfold group_ok_with. destruct (snd kf) as [|f fs]; [intro H; exact H|].
    destruct (s_field_kind S ot (fn_name f)); try (intro H; exact H).
    intro H. apply andb_true_iff in H as [H1 H2]. apply andb_true_iff. split; [exact H1|].
    eapply type_ok_with_mono; eassumption.
  Qed.

  Lemma sels_ok_mono : forall n m ot sels,
    (n <= m)%nat -> sels_ok S D E fuel n ot sels = true -> sels_ok S D E fuel m ot sels = true.
  Proof.
    induction n as [|n IH]; intros m ot sels Hle H; [discriminate|].
    destruct m as [|m]; [inversion Hle|]. cbn [sels_ok] in H |- *.
    destruct (s_collect S D E fuel ot sels) as [groups|]; [|discriminate].
    rewrite forallb_forall in H |- *. intros kf Hkf.
    eapply group_ok_with_mono; [|exact (H kf Hkf)].
    intros ot' sels' H'. apply (IH m); [apply le_S_n; exact Hle|exact H'].
  Qed.

  Theorem doc_ok_mono n m : (n <= m)%nat -> doc_ok S D E fuel n = true -> doc_ok S D E fuel m = true.
  Proof.
    intros Hle H. unfold doc_ok in *. apply andb_true_iff in H as [H1 H2]. apply andb_true_iff. split; [exact H1|].
    destruct (s_root_type S (op_kind D)) as [rt|]; [|discriminate]. eapply sels_ok_mono; eassumption.
  Qed.
End Mono.
