(** * ExeA/ArgSpecProofs.v — well-formedness of what the execution spec returns: every error sits
    under the path of the value it was raised in, no two errors share a path, the errors that
    explain a failure null were caught, a failed value shows no nulls. *)
From Coq Require Import List NArith ZArith Bool Lia Permutation.
From ApiFu Require Import Base.Sexp ExeA.ArgData ExeA.ArgArgs ExeA.ArgSpec ExeA.ArgBaseProofs.
Import ListNotations.

Definition errs_of (x : sout) : list gerror := so_caught x ++ so_thrown x.

Record swf (p : rpath) (x : sout) : Prop := {
  w_nulls_none : so_val x = None -> so_nulls x = [];
  w_thrown_some : so_val x <> None -> so_thrown x = [];
  w_under : Forall (under p) (errs_of x);
  w_nodup : NoDup (map e_path (errs_of x));
  w_cands : Forall (fun pc => incl (snd pc) (so_caught x)) (so_nulls x) }.

(** the result of CompleteValue itself (before the position decides about catching): a null value
    carries no errors *)
Definition swf_c (p : rpath) (x : sout) : Prop :=
  swf p x /\ (so_val x = Some JNull -> so_caught x = []).

Definition wf_completer (s : scompleter) : Prop := forall ty fields path, swf_c path (s ty fields path).

Lemma swf_ok p j : swf p (s_ok j).
Proof. constructor; cbn; try constructor; try reflexivity; try discriminate. Qed.

Lemma swf_c_ok p j : swf_c p (s_ok j).
Proof. split; [apply swf_ok|reflexivity]. Qed.

Lemma swf_throw p l : swf p (s_throw {| e_path := p; e_locs := l |}).
Proof.
  constructor; cbn; try reflexivity; try constructor; try constructor.
  - intro H. contradiction.
  - apply under_refl_path.
  - intros [].
Qed.

Lemma swf_c_throw p l : swf_c p (s_throw {| e_path := p; e_locs := l |}).
Proof. split; [apply swf_throw|discriminate]. Qed.

Lemma swf_catch p x : swf p x -> swf p (s_catch p x).
Proof.
  intros [H1 H2 H3 H4 H5]. unfold s_catch. destruct (so_val x) eqn:Ev.
  - constructor; rewrite ?Ev; assumption.
  - constructor; cbn [so_val so_thrown so_caught so_nulls]; unfold errs_of; cbn [so_caught so_thrown].
    + discriminate.
    + reflexivity.
    + rewrite app_nil_r. exact H3.
    + rewrite app_nil_r. exact H4.
    + constructor; [|constructor]. cbn. apply incl_appr, incl_refl.
Qed.

Lemma swf_position t p x : swf p x -> swf p (s_position t p x).
Proof. intro H. destruct t; cbn [s_position]; try apply swf_catch; assumption. Qed.

(** ** all parts of a list / a selection set *)
Lemma vals_of_some xs vs : vals_of xs = Some vs -> Forall (fun x => so_val x <> None) xs.
Proof.
  revert vs. induction xs as [|x xs IH]; intros vs H; [constructor|].
  cbn [vals_of] in H. destruct (so_val x) eqn:Ex; [|discriminate].
  destruct (vals_of xs) eqn:Er; [|discriminate]. constructor; [congruence|eapply IH; reflexivity].
Qed.

Lemma vals_of_none xs : vals_of xs = None -> exists x, In x xs /\ so_val x = None.
Proof.
  induction xs as [|x xs IH]; intro H; [discriminate|].
  cbn [vals_of] in H. destruct (so_val x) eqn:Ex.
  - destruct (vals_of xs) eqn:Er; [discriminate|]. destruct (IH eq_refl) as [y [Hy1 Hy2]].
    exists y. split; [right; exact Hy1|exact Hy2].
  - exists x. split; [left; reflexivity|exact Ex].
Qed.

Lemma flat_map_perm {A B} (f g : A -> list B) l :
  Permutation (flat_map (fun x => f x ++ g x) l) (flat_map f l ++ flat_map g l).
Proof.
  induction l as [|x l IH]; [constructor|].
  cbn [flat_map]. rewrite <- !app_assoc. apply Permutation_app_head.
  eapply Permutation_trans; [apply Permutation_app_head, IH|].
  apply Permutation_app_swap_app.
Qed.

Section All.
  Variable p : rpath.

  Lemma all_under (lxs : list (pathc * sout)) :
    Forall (fun lx => swf (p ++ [fst lx]) (snd lx)) lxs ->
    Forall (under p) (flat_map errs_of (map snd lxs)).
  Proof.
    intro H. induction H as [|lx lxs Hx _ IH]; [constructor|].
    cbn [map flat_map]. apply Forall_app. split; [|exact IH].
    eapply Forall_impl; [|apply (w_under _ _ Hx)]. intros e He. eapply under_weaken. exact He.
  Qed.

  Lemma all_under_label (lxs : list (pathc * sout)) :
    Forall (fun lx => swf (p ++ [fst lx]) (snd lx)) lxs ->
    forall e, In e (flat_map errs_of (map snd lxs)) ->
              exists lx, In lx lxs /\ In e (errs_of (snd lx)) /\ under (p ++ [fst lx]) e.
  Proof.
    intro H. induction H as [|lx lxs Hx _ IH]; intros e He; [destruct He|].
    cbn [map flat_map] in He. apply in_app_or in He as [He|He].
    - exists lx. split; [left; reflexivity|]. split; [exact He|].
      pose proof (w_under _ _ Hx) as Hu. rewrite Forall_forall in Hu. apply Hu, He.
    - destruct (IH e He) as [ly [H1 [H2 H3]]]. exists ly. split; [right; exact H1|]. split; assumption.
  Qed.

  Lemma all_nodup (lxs : list (pathc * sout)) :
    NoDup (map fst lxs) ->
    Forall (fun lx => swf (p ++ [fst lx]) (snd lx)) lxs ->
    NoDup (map e_path (flat_map errs_of (map snd lxs))).
  Proof.
    intros Hnd H. induction H as [|lx lxs Hx Hrest IH]; [constructor|].
    cbn [map] in Hnd. inversion Hnd as [|? ? Hnotin Hnd']; subst.
    cbn [map flat_map]. rewrite map_app. apply NoDup_app_intro.
    - apply (w_nodup _ _ Hx).
    - apply IH. exact Hnd'.
    - intros q Hq1 Hq2. apply in_map_iff in Hq1 as [e1 [He1 Hin1]]. apply in_map_iff in Hq2 as [e2 [He2 Hin2]].
      pose proof (w_under _ _ Hx) as Hu. rewrite Forall_forall in Hu. specialize (Hu e1 Hin1).
      destruct (all_under_label lxs Hrest e2 Hin2) as [ly [Hly [_ Hu2]]].
      assert (Hne : fst lx <> fst ly).
      { intro Heq. apply Hnotin. rewrite Heq. apply in_map. exact Hly. }
      apply (siblings_paths_differ p (fst lx) (fst ly) e1 e2 Hne Hu Hu2). congruence.
  Qed.

  Lemma swf_all (lxs : list (pathc * sout)) mk :
    NoDup (map fst lxs) ->
    Forall (fun lx => swf (p ++ [fst lx]) (snd lx)) lxs ->
    (forall vs, mk vs <> JNull) ->
    swf_c p (s_all (map snd lxs) mk).
  Proof.
    intros Hnd H Hmk.
    pose proof (all_under lxs H) as Hu. pose proof (all_nodup lxs Hnd H) as Hn.
    set (xs := map snd lxs) in *.
    assert (Hperm : Permutation (flat_map errs_of xs) (flat_map so_caught xs ++ flat_map so_thrown xs)).
    { apply flat_map_perm. }
    assert (Hu' : Forall (under p) (flat_map so_caught xs ++ flat_map so_thrown xs)).
    { rewrite Forall_forall in *. intros e He. apply Hu. eapply Permutation_in; [apply Permutation_sym, Hperm|exact He]. }
    assert (Hn' : NoDup (map e_path (flat_map so_caught xs ++ flat_map so_thrown xs))).
    { eapply Permutation_NoDup; [apply Permutation_map, Hperm|exact Hn]. }
    unfold s_all. destruct (vals_of xs) as [vs|] eqn:Ev.
    - split.
      + constructor; cbn [so_val so_thrown so_caught so_nulls]; unfold errs_of; cbn [so_caught so_thrown].
        * discriminate.
        * reflexivity.
        * rewrite app_nil_r. apply Forall_app in Hu' as [Hc _]. exact Hc.
        * rewrite app_nil_r. rewrite map_app in Hn'. apply NoDup_app_l in Hn'. exact Hn'.
        * rewrite Forall_forall. intros pc Hpc. apply in_flat_map in Hpc as [x [Hx Hpc]].
          subst xs. apply in_map_iff in Hx as [lx [<- Hlx]].
          rewrite Forall_forall in H. specialize (H lx Hlx).
          pose proof (w_cands _ _ H) as Hc. rewrite Forall_forall in Hc. specialize (Hc pc Hpc).
          intros e He. apply in_flat_map. exists (snd lx). split; [apply in_map; exact Hlx|apply Hc, He].
      + cbn [so_val]. intro Hj. inversion Hj as [Hj']. exfalso. apply (Hmk vs). exact Hj'.
    - split.
      + constructor; cbn [so_val so_thrown so_caught so_nulls]; unfold errs_of; cbn [so_caught so_thrown].
        * reflexivity.
        * intro Hc. contradiction.
        * exact Hu'.
        * exact Hn'.
        * constructor.
      + cbn [so_val]. discriminate.
  Qed.
End All.

(** ** keys of a grouped field set are distinct *)
Lemma sg_add_keys k f g :
  map fst (sg_add k f g) = if existsb (name_eqb k) (map fst g) then map fst g else map fst g ++ [k].
Proof.
  induction g as [|[k' fs] r IH]; [reflexivity|].
  cbn [sg_add map fst existsb]. destruct (name_eqb k k') eqn:Ek; cbn [orb].
  - reflexivity.
  - cbn [map fst]. rewrite IH. destruct (existsb (name_eqb k) (map fst r)); reflexivity.
Qed.

Lemma sg_add_nodup k f g : NoDup (map fst g) -> NoDup (map fst (sg_add k f g)).
Proof.
  intro H. rewrite sg_add_keys. destruct (existsb (name_eqb k) (map fst g)) eqn:Ex; [exact H|].
  apply NoDup_app_intro; [exact H|constructor; [intros []|constructor]|].
  intros x Hx [Hk|[]]. subst x.
  assert (existsb (name_eqb k) (map fst g) = true); [|congruence].
  apply existsb_exists. exists k. split; [exact Hx|apply bytes_eqb_refl].
Qed.

Lemma s_group_nodup flat : NoDup (map fst (s_group flat)).
Proof.
  unfold s_group.
  assert (H : forall g, NoDup (map fst g) ->
                        NoDup (map fst (fold_left (fun acc kf => sg_add (fst kf) (snd kf) acc) flat g))).
  { induction flat as [|kf flat IH]; intros g Hg; [exact Hg|].
    cbn [fold_left]. apply IH. apply sg_add_nodup. exact Hg. }
  apply H. constructor.
Qed.

(** ** the completion functions are well-formed *)
Section Wf.
  Variables (S : schema) (D : document) (E : env) (fuel : nat).

  Lemma s_entry_keys children ot path kf :
    map fst (s_entry S children ot path kf) = [] \/ map fst (s_entry S children ot path kf) = [fst kf].
  Proof.
    unfold s_entry. destruct (snd kf) as [|f fs]; [left; reflexivity|].
    destruct (s_field_kind S ot (fn_name f)); cbn; auto.
  Qed.

  Lemma entries_keys_nodup children ot path groups :
    NoDup (map fst groups) ->
    NoDup (map fst (flat_map (s_entry S children ot path) groups)).
  Proof.
    induction groups as [|kf groups IH]; intro H; [constructor|].
    cbn [map] in H. inversion H as [|? ? Hnotin Hnd]; subst.
    cbn [flat_map]. rewrite map_app.
    assert (Hsub : forall k, In k (map fst (flat_map (s_entry S children ot path) groups)) -> In k (map fst groups)).
    { clear. induction groups as [|kf groups IH]; intros k Hk; [destruct Hk|].
      cbn [flat_map] in Hk. rewrite map_app in Hk. apply in_app_or in Hk as [Hk|Hk].
      - destruct (s_entry_keys children ot path kf) as [He|He]; rewrite He in Hk; [destruct Hk|].
        destruct Hk as [<-|[]]. left. reflexivity.
      - right. apply IH. exact Hk. }
    destruct (s_entry_keys children ot path kf) as [He|He]; rewrite He.
    - cbn. apply IH. exact Hnd.
    - cbn. constructor; [|apply IH; exact Hnd]. intro Hin. apply Hnotin. apply Hsub. exact Hin.
  Qed.

  Lemma wf_with_args children ot :
    (forall n, wf_completer (children n)) -> forall n, wf_completer (s_with_args S D children ot n).
  Proof.
    intros Hch n ty fields path. unfold s_with_args, field_error.
    destruct fields as [|f fs]; [apply swf_c_throw|].
    destruct (coerce_field_args S D ot f); [apply Hch|apply swf_c_throw|apply swf_c_throw].
  Qed.

  Lemma swf_selection_set children ot sels path :
    (forall n, wf_completer (children n)) ->
    swf_c path (s_selection_set S D E fuel children ot sels path).
  Proof.
    intro Hch0. unfold s_selection_set. pose proof (wf_with_args children ot Hch0) as Hch.
    revert Hch. generalize (s_with_args S D children ot). clear Hch0 children. intros children Hch.
    unfold s_selection_set_raw. destruct (s_collect S D E fuel ot sels) as [groups|] eqn:Ec.
    - cbv zeta.
      set (entries := flat_map (s_entry S children ot path) groups).
      assert (Hnd : NoDup (map fst entries)).
      { apply entries_keys_nodup. unfold s_collect in Ec.
        destruct (s_collect_flat S D E fuel ot sels []) as [[v flat]|]; [|discriminate].
        inversion Ec; subst. apply s_group_nodup. }
      set (lxs := map (fun kx => (PKey (fst kx), snd kx)) entries).
      assert (Hsnd : map snd lxs = map snd entries).
      { unfold lxs. rewrite map_map. reflexivity. }
      rewrite <- Hsnd. apply swf_all.
      + unfold lxs. rewrite map_map. cbn [fst].
        rewrite <- (map_map fst PKey). apply FinFun.Injective_map_NoDup; [|exact Hnd].
        intros a b Hab. inversion Hab. reflexivity.
      + unfold lxs. rewrite Forall_map. cbn [fst snd]. rewrite Forall_forall. intros kx Hkx.
        unfold entries in Hkx. apply in_flat_map in Hkx as [kf [_ Hkx]].
        unfold s_entry in Hkx. destruct (snd kf) as [|f fs]; [destruct Hkx|].
        destruct (s_field_kind S ot (fn_name f)); cbn in Hkx.
        * destruct Hkx as [<-|[]]. apply swf_ok.
        * destruct Hkx as [<-|[]]. apply swf_ok.
        * destruct Hkx as [<-|[]]. cbn [fst snd]. apply swf_position. apply Hch.
        * destruct Hkx.
      + discriminate.
    - split; [|discriminate]. constructor; cbn; try constructor; try reflexivity; try (intro H; contradiction).
  Qed.

  (** list items carry increasing indices *)
  Fixpoint label_items (t : sty) (fields : list fnode) (path : rpath) (items : list scompleter) (i : N)
    : list (pathc * sout) :=
    match items with
    | [] => []
    | c :: r => (PIdx i, s_position t (path ++ [PIdx i]) (c t fields (path ++ [PIdx i])))
                  :: label_items t fields path r (i + 1)%N
    end.

  Lemma s_items_labels t fields path items i :
    s_items t fields path items i = map snd (label_items t fields path items i).
  Proof.
    revert i. induction items as [|c r IH]; intro i; [reflexivity|].
    cbn [s_items label_items map snd]. rewrite IH. reflexivity.
  Qed.

  Lemma label_items_ge t fields path items i :
    forall l, In l (map fst (label_items t fields path items i)) -> exists j, l = PIdx j /\ (i <= j)%N.
  Proof.
    revert i. induction items as [|c r IH]; intros i l Hl; [destruct Hl|].
    cbn [label_items map fst] in Hl. destruct Hl as [<-|Hl].
    - exists i. split; [reflexivity|lia].
    - destruct (IH _ _ Hl) as [j [-> Hj]]. exists j. split; [reflexivity|lia].
  Qed.

  Lemma label_items_nodup t fields path items i :
    NoDup (map fst (label_items t fields path items i)).
  Proof.
    revert i. induction items as [|c r IH]; intro i; [constructor|].
    cbn [label_items map fst]. constructor; [|apply IH].
    intro Hin. destruct (label_items_ge _ _ _ _ _ _ Hin) as [j [Hj1 Hj2]]. inversion Hj1. lia.
  Qed.

  Lemma entries_nodup children ot path groups :
    (forall n, wf_completer (children n)) ->
    NoDup (map fst groups) ->
    NoDup (map e_path (flat_map errs_of (map snd (flat_map (s_entry S children ot path) groups)))).
  Proof.
    intros Hch Hg.
    set (entries := flat_map (s_entry S children ot path) groups).
    assert (Hnd : NoDup (map fst entries)) by (apply entries_keys_nodup; exact Hg).
    set (lxs := map (fun kx => (PKey (fst kx), snd kx)) entries).
    assert (Hsnd : map snd lxs = map snd entries).
    { unfold lxs. rewrite map_map. reflexivity. }
    rewrite <- Hsnd. apply (all_nodup path).
    - unfold lxs. rewrite map_map. cbn [fst].
      rewrite <- (map_map fst PKey). apply FinFun.Injective_map_NoDup; [|exact Hnd].
      intros a b Hab. inversion Hab. reflexivity.
    - unfold lxs. rewrite Forall_map. cbn [fst snd]. rewrite Forall_forall. intros kx Hkx.
      unfold entries in Hkx. apply in_flat_map in Hkx as [kf [_ Hkx]].
      unfold s_entry in Hkx. destruct (snd kf) as [|f fs]; [destruct Hkx|].
      destruct (s_field_kind S ot (fn_name f)); cbn in Hkx.
      + destruct Hkx as [<-|[]]. apply swf_ok.
      + destruct Hkx as [<-|[]]. apply swf_ok.
      + destruct Hkx as [<-|[]]. cbn [fst snd]. apply swf_position. apply Hch.
      + destruct Hkx.
  Qed.

  Lemma items_nodup t fields path items i :
    Forall wf_completer items ->
    NoDup (map e_path (flat_map errs_of (s_items t fields path items i))).
  Proof.
    intro Hitems. rewrite s_items_labels. apply (all_nodup path).
    - apply label_items_nodup.
    - revert i. induction items as [|c r IHr]; intro i; [constructor|].
      inversion Hitems as [|? ? Hc Hr]; subst.
      cbn [label_items]. constructor; [|apply IHr; exact Hr].
      cbn [fst snd]. apply swf_position. apply Hc.
  Qed.

  Lemma swf_view (v : sview) :
    match sv_items v with Some items => Forall wf_completer items | None => True end ->
    (forall n, wf_completer (sv_field v n)) ->
    wf_completer (s_complete_view S D E fuel v).
  Proof.
    intros Hitems Hfields ty. induction ty as [n|t IH|t IH]; intros fields path.
    - (* named *)
      cbn [s_complete_view]. destruct (sv_null v); [apply swf_c_ok|].
      destruct (lookup_type S n) as [[k|vals|fs ifs|fs|ms|]|].
      + destruct (coerce_scalar true k (sv_leaf v)); [apply swf_c_ok|apply swf_c_throw].
      + destruct (coerce_enum vals (sv_leaf v)); [apply swf_c_ok|apply swf_c_throw].
      + apply swf_selection_set. exact Hfields.
      + destruct (s_resolve_abstract S n (sv_tag v)); [apply swf_selection_set; exact Hfields|apply swf_c_throw].
      + destruct (s_resolve_abstract S n (sv_tag v)); [apply swf_selection_set; exact Hfields|apply swf_c_throw].
      + apply swf_c_throw.
      + apply swf_c_throw.
    - (* list *)
      cbn [s_complete_view]. destruct (sv_null v); [apply swf_c_ok|].
      destruct (sv_items v) as [items|]; [|apply swf_c_throw].
      rewrite s_items_labels. apply swf_all.
      + apply label_items_nodup.
      + clear IH. generalize 0%N as i. induction items as [|c r IHr]; intro i; [constructor|].
        inversion Hitems as [|? ? Hc Hr]; subst.
        cbn [label_items]. constructor; [|apply IHr; exact Hr].
        cbn [fst snd]. apply swf_position. apply Hc.
      + discriminate.
    - (* non-null *)
      cbn [s_complete_view]. fold (s_complete_view S D E fuel v).
      specialize (IH fields path). destruct IH as [Hw Hnull].
      destruct (so_val (s_complete_view S D E fuel v t fields path)) as [[| | | | | | |]|] eqn:Ev;
        try (split; [exact Hw|rewrite Ev; discriminate]).
      + (* null inside a non-null type *)
        specialize (Hnull eq_refl).
        split; [|discriminate].
        constructor; cbn [so_val so_thrown so_caught so_nulls]; unfold errs_of; cbn [so_caught so_thrown].
        * reflexivity.
        * intro H; contradiction.
        * rewrite Hnull. cbn. constructor; [apply under_refl_path|constructor].
        * rewrite Hnull. cbn. constructor; [intros []|constructor].
        * constructor.
  Qed.

  Lemma wf_resolver_error : wf_completer s_resolver_error.
  Proof. intros ty fields path. apply swf_c_throw. Qed.

  Lemma wf_field_of l : Forall (fun nc => wf_completer (snd nc)) l -> forall n, wf_completer (s_field_of l n).
  Proof.
    intros H n. unfold s_field_of. induction H as [|[k c] l Hc _ IH]; cbn [assoc]; [apply wf_resolver_error|].
    destruct (name_eqb n k); [exact Hc|exact IH].
  Qed.

  Lemma outcome_ind' (P : outcome -> Prop) :
    P ONil -> P OTypedNil -> P OErr -> (forall g, P (OLeaf g)) ->
    (forall l, Forall P l -> P (OList l)) ->
    (forall t fs, Forall (fun nf => P (snd nf)) fs -> P (OObj t fs)) ->
    forall o, P o.
  Proof.
    intros H1 H2 H3 H4 H5 H6. fix IH 1. intro o. destruct o as [| | |g|l|t fs].
    - exact H1. - exact H2. - exact H3. - apply H4.
    - apply H5. induction l as [|x l IHl]; constructor; [apply IH|exact IHl].
    - apply H6. induction fs as [|[n x] fs IHfs]; constructor; [apply IH|exact IHfs].
  Qed.

  Lemma wf_s_complete o : wf_completer (s_complete S D E fuel o).
  Proof.
    induction o as [| | |g|l IH|t fs IH] using outcome_ind';
      try (apply swf_view; cbn; [exact I|intro n; apply wf_resolver_error]).
    - apply swf_view; cbn; [|intro n; apply wf_resolver_error].
      rewrite Forall_map. exact IH.
    - apply swf_view; cbn; [exact I|].
      apply wf_field_of. rewrite Forall_map. eapply Forall_impl; [|exact IH].
      intros [n o'] Ho. cbn [snd] in *. destruct o'; try exact Ho. apply wf_resolver_error.
  Qed.

  Lemma wf_s_resolve o : wf_completer (s_resolve S D E fuel o).
  Proof. destruct o; try apply wf_s_complete. apply wf_resolver_error. Qed.

  Lemma wf_s_children_of o n : wf_completer (s_children_of S D E fuel o n).
  Proof.
    destruct o; cbn [s_children_of]; try apply wf_resolver_error.
    apply wf_field_of. rewrite Forall_map. rewrite Forall_forall. intros x _. apply wf_s_resolve.
  Qed.
End Wf.

(** ** response values are finite; Int results are 32-bit *)
Lemma coerce_int_range g z : gval_wf g -> coerce_int g = Some z -> in_int32 z = true.
Proof.
  unfold coerce_int, in_int32. destruct g as [b|k z'|d|d|s|]; intros Hw H; try discriminate.
  - inversion H; subst. destruct b; reflexivity.
  - cbn [gval_wf] in Hw. unfold min_int32, max_int32 in *.
    destruct k; cbn [ikind_range fst snd] in Hw; unfold min_int32, max_int32, max_int64 in *;
      try (inversion H; subst; lia);
      try (destruct (Z.leb z' 2147483647) eqn:El; [|discriminate]; inversion H; subst; lia);
      try (destruct (Z.leb (-2147483648) z' && Z.leb z' 2147483647) eqn:El; [|discriminate]; inversion H; subst; exact El).
  - unfold dy_to_int32, in_int32 in H. destruct d as [m e| | |]; try discriminate.
    destruct (Z.eqb m 0); [inversion H; subst; reflexivity|].
    destruct (Z.leb 0 e).
    + destruct (Z.ltb 40 e); [discriminate|].
      destruct (Z.leb min_int32 (Z.shiftl m e) && Z.leb (Z.shiftl m e) max_int32) eqn:El; [|discriminate].
      inversion H; subst. exact El.
    + destruct (Z.eqb (Z.land m (Z.ones (- e))) 0); [|discriminate].
      destruct (Z.leb min_int32 (Z.shiftr m (- e)) && Z.leb (Z.shiftr m (- e)) max_int32) eqn:El; [|discriminate].
      inversion H; subst. exact El.
  - unfold dy_to_int32, in_int32 in H. destruct d as [m e| | |]; try discriminate.
    destruct (Z.eqb m 0); [inversion H; subst; reflexivity|].
    destruct (Z.leb 0 e).
    + destruct (Z.ltb 40 e); [discriminate|].
      destruct (Z.leb min_int32 (Z.shiftl m e) && Z.leb (Z.shiftl m e) max_int32) eqn:El; [|discriminate].
      inversion H; subst. exact El.
    + destruct (Z.eqb (Z.land m (Z.ones (- e))) 0); [|discriminate].
      destruct (Z.leb min_int32 (Z.shiftr m (- e)) && Z.leb (Z.shiftr m (- e)) max_int32) eqn:El; [|discriminate].
      inversion H; subst. exact El.
Qed.

Lemma coerce_float_finite g d : coerce_float true g = Some d -> dy_finite d = true.
Proof.
  unfold coerce_float. destruct g as [b|k z|d'|d'|s|]; intro H; try discriminate.
  - inversion H; subst. reflexivity.
  - inversion H; subst. unfold round_f64. destruct (Z.ltb (Z.abs z) 9007199254740992); reflexivity.
  - destruct (dy_finite d') eqn:Ed; [|discriminate]. inversion H; subst. exact Ed.
  - destruct (dy_finite d') eqn:Ed; [|discriminate]. inversion H; subst. exact Ed.
Qed.

Lemma coerce_scalar_finite k g j : coerce_scalar true k g = Some j -> json_finite j = true.
Proof.
  unfold coerce_scalar. destruct k.
  - destruct (coerce_int g); cbn; [intro H; inversion H; reflexivity|discriminate].
  - destruct (coerce_float true g) as [d|] eqn:Ef; cbn; [|discriminate].
    intro H; inversion H; subst. cbn. apply coerce_float_finite in Ef. destruct d; try discriminate. reflexivity.
  - destruct g; try discriminate. intro H; inversion H; reflexivity.
  - destruct g; try discriminate. intro H; inversion H; reflexivity.
  - destruct (coerce_id g); cbn; [intro H; inversion H; reflexivity|discriminate].
Qed.

Lemma coerce_enum_finite vals g j : coerce_enum vals g = Some j -> json_finite j = true.
Proof.
  induction vals as [|[n v] r IH]; cbn [coerce_enum]; [discriminate|].
  destruct (gval_eqb v g); [intro H; inversion H; reflexivity|exact IH].
Qed.

Definition fin_out (x : sout) : Prop := forall j, so_val x = Some j -> json_finite j = true.
Definition fin_completer (s : scompleter) : Prop := forall ty fields path, fin_out (s ty fields path).

Lemma fin_catch p x : fin_out x -> fin_out (s_catch p x).
Proof.
  intros H j. unfold s_catch. destruct (so_val x) eqn:Ev; [apply H|].
  cbn. intro Hj. inversion Hj. reflexivity.
Qed.
Lemma fin_position t p x : fin_out x -> fin_out (s_position t p x).
Proof. intro H. destruct t; cbn [s_position]; try apply fin_catch; exact H. Qed.

Lemma vals_of_finite xs vs : Forall fin_out xs -> vals_of xs = Some vs -> forallb json_finite vs = true.
Proof.
  intro H. revert vs. induction H as [|x xs Hx _ IH]; intros vs Hv.
  - inversion Hv. reflexivity.
  - cbn [vals_of] in Hv. destruct (so_val x) eqn:Ex; [|discriminate].
    destruct (vals_of xs) eqn:Er; [|discriminate]. inversion Hv; subst.
    cbn [forallb]. rewrite (Hx _ Ex), (IH _ eq_refl). reflexivity.
Qed.

Lemma vals_of_length xs vs : vals_of xs = Some vs -> length vs = length xs.
Proof.
  revert vs. induction xs as [|x xs IH]; intros vs H.
  - inversion H. reflexivity.
  - cbn [vals_of] in H. destruct (so_val x); [|discriminate]. destruct (vals_of xs) eqn:Er; [|discriminate].
    inversion H; subst. cbn [length]. rewrite (IH _ eq_refl). reflexivity.
Qed.

Lemma forallb_combine_snd (keys : list name) vs :
  forallb json_finite vs = true -> forallb (fun kv : name * json => json_finite (snd kv)) (combine keys vs) = true.
Proof.
  revert vs. induction keys as [|k keys IH]; intros [|v vs] H; try reflexivity.
  cbn [forallb] in H. apply andb_true_iff in H as [H1 H2]. cbn [combine forallb snd]. rewrite H1, (IH _ H2). reflexivity.
Qed.

Section Fin.
  Variables (S : schema) (D : document) (E : env) (fuel : nat).

  Lemma fin_with_args children ot :
    (forall n, fin_completer (children n)) -> forall n, fin_completer (s_with_args S D children ot n).
  Proof.
    intros Hch n ty fields path j. unfold s_with_args.
    destruct fields as [|f fs]; [discriminate|].
    destruct (coerce_field_args S D ot f); [apply Hch|discriminate|discriminate].
  Qed.

  Lemma fin_selection_set children ot sels path :
    (forall n, fin_completer (children n)) -> fin_out (s_selection_set S D E fuel children ot sels path).
  Proof.
    intros Hch0. pose proof (fin_with_args children ot Hch0) as Hch. unfold s_selection_set.
    revert Hch. generalize (s_with_args S D children ot). clear Hch0 children. intros children Hch j.
    unfold s_selection_set_raw. destruct (s_collect S D E fuel ot sels) as [groups|]; [|discriminate].
    cbv zeta. set (entries := flat_map (s_entry S children ot path) groups).
    unfold s_all. destruct (vals_of (map snd entries)) as [vs|] eqn:Ev; [|discriminate].
    cbn [so_val]. intro Hj. inversion Hj; subst. cbn [json_finite].
    apply forallb_combine_snd. eapply vals_of_finite; [|exact Ev].
    rewrite Forall_map. rewrite Forall_forall. intros kx Hkx.
    unfold entries in Hkx. apply in_flat_map in Hkx as [kf [_ Hkx]].
    unfold s_entry in Hkx. destruct (snd kf) as [|f fs]; [destruct Hkx|].
    destruct (s_field_kind S ot (fn_name f)); cbn in Hkx; try (destruct Hkx; fail).
    - destruct Hkx as [<-|[]]. intros j' Hj'. inversion Hj'. reflexivity.
    - destruct Hkx as [<-|[]]. intros j' Hj'. inversion Hj'. reflexivity.
    - destruct Hkx as [<-|[]]. cbn [snd]. apply fin_position. apply Hch.
  Qed.

  Lemma fin_view (v : sview) :
    match sv_items v with Some items => Forall fin_completer items | None => True end ->
    (forall n, fin_completer (sv_field v n)) ->
    fin_completer (s_complete_view S D E fuel v).
  Proof.
    intros Hitems Hfields ty. induction ty as [n|t IH|t IH]; intros fields path.
    - cbn [s_complete_view]. destruct (sv_null v); [intros j Hj; inversion Hj; reflexivity|].
      destruct (lookup_type S n) as [[k|vals|fs ifs|fs|ms|]|]; try (intros j Hj; discriminate).
      + destruct (coerce_scalar true k (sv_leaf v)) eqn:Ec; [|intros j Hj; discriminate].
        intros j' Hj'. inversion Hj'; subst. eapply coerce_scalar_finite. exact Ec.
      + destruct (coerce_enum vals (sv_leaf v)) eqn:Ec; [|intros j Hj; discriminate].
        intros j' Hj'. inversion Hj'; subst. eapply coerce_enum_finite. exact Ec.
      + apply fin_selection_set. exact Hfields.
      + destruct (s_resolve_abstract S n (sv_tag v)); [apply fin_selection_set; exact Hfields|intros j Hj; discriminate].
      + destruct (s_resolve_abstract S n (sv_tag v)); [apply fin_selection_set; exact Hfields|intros j Hj; discriminate].
    - cbn [s_complete_view]. destruct (sv_null v); [intros j Hj; inversion Hj; reflexivity|].
      destruct (sv_items v) as [items|]; [|intros j Hj; discriminate].
      intros j. unfold s_all. destruct (vals_of (s_items t fields path items 0%N)) as [vs|] eqn:Ev; [|discriminate].
      cbn [so_val]. intro Hj. inversion Hj; subst. cbn [json_finite]. eapply vals_of_finite; [|exact Ev].
      clear Ev. generalize 0%N as i. induction items as [|c r IHr]; intro i; [constructor|].
      inversion Hitems; subst. cbn [s_items]. constructor; [apply fin_position; apply H1|apply IHr; assumption].
    - cbn [s_complete_view]. fold (s_complete_view S D E fuel v). specialize (IH fields path).
      destruct (so_val (s_complete_view S D E fuel v t fields path)) as [[| | | | | | |]|] eqn:Ev;
        try (intros j Hj; apply IH; congruence).
      intros j Hj. discriminate.
  Qed.

  Lemma fin_resolver_error : fin_completer s_resolver_error.
  Proof. intros ty fields path j Hj. discriminate. Qed.

  Lemma fin_field_of l : Forall (fun nc => fin_completer (snd nc)) l -> forall n, fin_completer (s_field_of l n).
  Proof.
    intros H n. unfold s_field_of. induction H as [|[k c] l Hc _ IH]; cbn [assoc]; [apply fin_resolver_error|].
    destruct (name_eqb n k); [exact Hc|exact IH].
  Qed.

  Lemma fin_s_complete o : fin_completer (s_complete S D E fuel o).
  Proof.
    induction o as [| | |g|l IH|t fs IH] using outcome_ind';
      try (apply fin_view; cbn; [exact I|intro n; apply fin_resolver_error]).
    - apply fin_view; cbn; [|intro n; apply fin_resolver_error]. rewrite Forall_map. exact IH.
    - apply fin_view; cbn; [exact I|].
      apply fin_field_of. rewrite Forall_map. eapply Forall_impl; [|exact IH].
      intros [n o'] Ho. cbn [snd] in *. destruct o'; try exact Ho. apply fin_resolver_error.
  Qed.

  Lemma fin_s_children_of o n : fin_completer (s_children_of S D E fuel o n).
  Proof.
    destruct o; cbn [s_children_of]; try apply fin_resolver_error.
    apply fin_field_of. rewrite Forall_map. rewrite Forall_forall. intros [k o'] _. cbn [snd].
    destruct o'; try apply fin_s_complete. apply fin_resolver_error.
  Qed.

  Theorem spec_data_finite W j : data (exec_spec S D E fuel W) = Some j -> json_finite j = true.
  Proof.
    unfold exec_spec. destruct (s_root_type S (op_kind D)) as [rt|]; [|discriminate].
    pose proof (fin_selection_set (s_children_of S D E fuel W) rt (op_sels D) [] (fin_s_children_of W)) as H.
    destruct (so_val (s_selection_set S D E fuel (s_children_of S D E fuel W) rt (op_sels D) [])) eqn:Ev; [|discriminate].
    cbn [data]. intro Hj. inversion Hj; subst. apply H. exact Ev.
  Qed.
End Fin.
