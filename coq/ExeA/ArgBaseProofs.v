(** * ExeA/ArgBaseProofs.v — list lemmas used by the C01 proofs: subsequences, counting errors,
    decidable equalities, response paths. *)
From Coq Require Import List NArith ZArith Bool Lia Permutation.
From ApiFu Require Import Base.Sexp ExeA.ArgData ExeA.ArgArgs ExeA.ArgSpec.
Import ListNotations.

(** ** decidable equalities *)
Lemma list_eqb_eq {A} (f : A -> A -> bool) :
  (forall a b, f a b = true <-> a = b) -> forall a b, list_eqb f a b = true <-> a = b.
Proof.
  intros Hf a. induction a as [|x a IH]; intros [|y b]; cbn [list_eqb]; split; intro H;
    try reflexivity; try discriminate.
  - apply andb_true_iff in H as [H1 H2]. apply Hf in H1. apply IH in H2. congruence.
  - inversion H; subst. apply andb_true_iff. split; [apply Hf; reflexivity|apply IH; reflexivity].
Qed.

Lemma pathc_eqb_eq a b : pathc_eqb a b = true <-> a = b.
Proof.
  destruct a as [x|x], b as [y|y]; cbn [pathc_eqb]; split; intro H; try discriminate.
  - apply bytes_eqb_eq in H. congruence.
  - inversion H; subst. apply bytes_eqb_refl.
  - apply N.eqb_eq in H. congruence.
  - inversion H; subst. apply N.eqb_refl.
Qed.

Lemma pos_eqb_eq a b : pos_eqb a b = true <-> a = b.
Proof.
  destruct a as [l1 c1], b as [l2 c2]. unfold pos_eqb. cbn [line col]. split; intro H.
  - apply andb_true_iff in H as [H1 H2]. apply N.eqb_eq in H1. apply N.eqb_eq in H2. congruence.
  - inversion H; subst. rewrite !N.eqb_refl. reflexivity.
Qed.

Lemma gerror_eqb_eq a b : gerror_eqb a b = true <-> a = b.
Proof.
  destruct a as [p1 l1], b as [p2 l2]. unfold gerror_eqb. cbn [e_path e_locs]. split; intro H.
  - apply andb_true_iff in H as [H1 H2].
    apply (list_eqb_eq pathc_eqb pathc_eqb_eq) in H1. apply (list_eqb_eq pos_eqb pos_eqb_eq) in H2. congruence.
  - inversion H; subst. apply andb_true_iff. split.
    + apply (list_eqb_eq pathc_eqb pathc_eqb_eq). reflexivity.
    + apply (list_eqb_eq pos_eqb pos_eqb_eq). reflexivity.
Qed.

Lemma existsb_gerror e l : existsb (gerror_eqb e) l = true <-> In e l.
Proof.
  rewrite existsb_exists. split.
  - intros [x [Hin Heq]]. apply gerror_eqb_eq in Heq. subst. exact Hin.
  - intro H. exists e. split; [exact H|apply gerror_eqb_eq; reflexivity].
Qed.

(** ** subsequences *)
Inductive subseq {A} : list A -> list A -> Prop :=
| subseq_nil : subseq [] []
| subseq_skip x a b : subseq a b -> subseq a (x :: b)
| subseq_take x a b : subseq a b -> subseq (x :: a) (x :: b).

Lemma subseq_nil_l {A} (l : list A) : subseq [] l.
Proof. induction l; constructor; assumption. Qed.

Lemma subseq_refl {A} (l : list A) : subseq l l.
Proof. induction l; constructor; assumption. Qed.

Lemma subseq_app {A} (a1 b1 a2 b2 : list A) :
  subseq a1 b1 -> subseq a2 b2 -> subseq (a1 ++ a2) (b1 ++ b2).
Proof. intros H1 H2. induction H1; cbn; try constructor; assumption. Qed.

Lemma subseq_app_l {A} (a b c : list A) : subseq a c -> subseq a (b ++ c).
Proof. intro H. induction b; cbn; [assumption|constructor; assumption]. Qed.

Lemma subseq_app_r {A} (a b c : list A) : subseq a b -> subseq a (b ++ c).
Proof.
  intro H. rewrite <- (app_nil_r a). apply subseq_app; [assumption|apply subseq_nil_l].
Qed.

Lemma subseq_single {A} (x : A) l : In x l -> subseq [x] l.
Proof.
  induction l as [|y l IH]; intro H; [destruct H|].
  destruct H as [->|H]; [apply subseq_take, subseq_nil_l|apply subseq_skip, IH, H].
Qed.

Lemma subseq_incl {A} (a b : list A) : subseq a b -> incl a b.
Proof.
  intro H. induction H; intros y Hy.
  - destruct Hy.
  - right. apply IHsubseq, Hy.
  - destruct Hy as [->|Hy]; [left; reflexivity|right; apply IHsubseq, Hy].
Qed.

Lemma subseq_filter_length {A} (f : A -> bool) a b :
  subseq a b -> (length (filter f a) <= length (filter f b))%nat.
Proof.
  intro H. induction H; cbn [filter]; try lia.
  - destruct (f x); cbn [length]; lia.
  - destruct (f x); cbn [length]; lia.
Qed.

Lemma subseq_trans {A} (a b c : list A) : subseq a b -> subseq b c -> subseq a c.
Proof.
  intros H1 H2. revert a H1. induction H2; intros a' H1.
  - exact H1.
  - constructor. apply IHsubseq, H1.
  - inversion H1; subst.
    + constructor. apply IHsubseq. assumption.
    + apply subseq_take. apply IHsubseq. assumption.
Qed.

Lemma subseq_map {A B} (f : A -> B) a b : subseq a b -> subseq (map f a) (map f b).
Proof. intro H. induction H; cbn; constructor; assumption. Qed.

Lemma subseq_NoDup {A} (a b : list A) : subseq a b -> NoDup b -> NoDup a.
Proof.
  intro H. induction H; intro Hb.
  - constructor.
  - inversion Hb; subst. apply IHsubseq. assumption.
  - inversion Hb; subst. constructor; [|apply IHsubseq; assumption].
    intro Hin. apply H2. apply (subseq_incl _ _ H). exact Hin.
Qed.

(** ** counting the errors that belong to a candidate set *)
Definition count_in (cands errs : list gerror) : nat :=
  length (filter (fun e => existsb (gerror_eqb e) cands) errs).

Lemma count_in_app c a b : count_in c (a ++ b) = (count_in c a + count_in c b)%nat.
Proof. unfold count_in. rewrite filter_app, app_length. reflexivity. Qed.

Lemma count_in_nil c : count_in c [] = 0%nat.
Proof. reflexivity. Qed.

Lemma count_in_zero c l : (forall e, In e l -> ~ In e c) -> count_in c l = 0%nat.
Proof.
  intro H. unfold count_in. induction l as [|x l IH]; [reflexivity|].
  cbn [filter]. destruct (existsb (gerror_eqb x) c) eqn:Ex.
  - apply existsb_gerror in Ex. exfalso. apply (H x); [left; reflexivity|exact Ex].
  - apply IH. intros e He. apply H. right. exact He.
Qed.

Lemma count_in_single c e : In e c -> count_in c [e] = 1%nat.
Proof.
  intro H. unfold count_in. cbn [filter]. apply existsb_gerror in H. rewrite H. reflexivity.
Qed.

(** ** response paths *)
Definition under (p : rpath) (e : gerror) : Prop := exists r, e_path e = p ++ r.

Lemma under_refl_path p l : under p {| e_path := p; e_locs := l |}.
Proof. exists []. cbn. rewrite app_nil_r. reflexivity. Qed.

Lemma under_weaken p c e : under (p ++ [c]) e -> under p e.
Proof. intros [r H]. exists (c :: r). rewrite H, <- app_assoc. reflexivity. Qed.

Lemma siblings_disjoint p a b e : a <> b -> under (p ++ [a]) e -> under (p ++ [b]) e -> False.
Proof.
  intros Hab [r1 H1] [r2 H2]. rewrite H1 in H2. rewrite <- !app_assoc in H2.
  apply app_inv_head in H2. cbn in H2. inversion H2. contradiction.
Qed.

(** errors under two different children of [p] are different, even as paths *)
Lemma siblings_paths_differ p a b e1 e2 :
  a <> b -> under (p ++ [a]) e1 -> under (p ++ [b]) e2 -> e_path e1 <> e_path e2.
Proof.
  intros Hab H1 [r2 H2] Heq. apply (siblings_disjoint p a b e1 Hab H1). exists r2. rewrite Heq. exact H2.
Qed.

Lemma NoDup_app_intro {A} (a b : list A) :
  NoDup a -> NoDup b -> (forall x, In x a -> In x b -> False) -> NoDup (a ++ b).
Proof.
  intros Ha Hb Hd. induction Ha as [|x a Hx Ha IH]; [exact Hb|].
  cbn. constructor.
  - intro Hin. apply in_app_or in Hin as [Hin|Hin]; [contradiction|]. apply (Hd x); [left; reflexivity|exact Hin].
  - apply IH. intros y Hy1 Hy2. apply (Hd y); [right; exact Hy1|exact Hy2].
Qed.

Lemma NoDup_app_l {A} (a b : list A) : NoDup (a ++ b) -> NoDup a.
Proof. intro H. apply (subseq_NoDup a (a ++ b)); [apply subseq_app_r, subseq_refl|exact H]. Qed.
Lemma NoDup_app_r {A} (a b : list A) : NoDup (a ++ b) -> NoDup b.
Proof. intro H. apply (subseq_NoDup b (a ++ b)); [apply subseq_app_l, subseq_refl|exact H]. Qed.
Lemma NoDup_app_disjoint {A} (a b : list A) x : NoDup (a ++ b) -> In x a -> In x b -> False.
Proof.
  induction a as [|y a IH]; intros H Ha Hb; [destruct Ha|].
  cbn in H. inversion H; subst. destruct Ha as [->|Ha].
  - apply H2. apply in_or_app. right. exact Hb.
  - apply IH; assumption.
Qed.
