(** * ExeA/ArgCollectProofs.v — collectFieldsImpl (model) computes CollectFields (spec) *)
From Coq Require Import List NArith ZArith Bool Lia.
From ApiFu Require Import Base.Sexp ExeA.ArgData ExeA.ArgArgs ExeA.ArgModel ExeA.ArgSpec.
Import ListNotations.

Lemma name_eqb_eq a b : name_eqb a b = true <-> a = b.
Proof. apply bytes_eqb_eq. Qed.
Lemma name_eqb_refl a : name_eqb a a = true.
Proof. apply bytes_eqb_refl. Qed.
Lemma name_eqb_neq a b : name_eqb a b = false <-> a <> b.
Proof.
  split; intro H.
  - intro Heq. apply name_eqb_eq in Heq. congruence.
  - destruct (name_eqb a b) eqn:Eq; [|reflexivity]. apply name_eqb_eq in Eq. contradiction.
Qed.

(** ** one-step unfoldings of the two nested fixpoints *)
Section Unfold.
  Variables (S : schema) (D : document) (E : env).

  Lemma collect_impl_eq fuel ot sels visited g :
    collect_impl S D E fuel ot sels visited g =
    match sels with
    | [] => COk visited g
    | s :: rest =>
        if skipped E (sel_dirs s) then collect_impl S D E fuel ot rest visited g
        else
          let descend (sub : list selection) (visited' : list name) :=
            match fuel with
            | O => COutOfFuel
            | Datatypes.S fuel' =>
                match collect_impl S D E fuel' ot sub visited' g with
                | COk v' g' => collect_impl S D E fuel ot rest v' g'
                | r => r
                end
            end in
          match s with
          | SField a n p _ sub =>
              collect_impl S D E fuel ot rest visited
                (gfs_append (response_key a n) {| fn_name := n; fn_pos := p; fn_sub := sub |} g)
          | SSpread n _ _ =>
              if mem n visited then collect_impl S D E fuel ot rest visited g
              else
                let visited' := n :: visited in
                match find_frag n (frags D) with
                | None => collect_impl S D E fuel ot rest visited' g
                | Some f =>
                    match type_applies S ot (fr_cond f) with
                    | ApNo => collect_impl S D E fuel ot rest visited' g
                    | ApPanic => CPanic
                    | ApYes => descend (fr_sels f) visited'
                    end
                end
          | SInline tc _ _ sub =>
              match tc with
              | None => descend sub visited
              | Some c =>
                  match type_applies S ot c with
                  | ApNo => collect_impl S D E fuel ot rest visited g
                  | ApPanic => CPanic
                  | ApYes => descend sub visited
                  end
              end
          end
    end.
  Proof. destruct fuel; destruct sels; reflexivity. Qed.

  Lemma s_collect_flat_eq fuel ot sels visited :
    s_collect_flat S D E fuel ot sels visited =
    match sels with
    | [] => Some (visited, [])
    | s :: rest =>
        let then_rest (visited' : list name) (here : list (name * fnode)) :=
          match s_collect_flat S D E fuel ot rest visited' with
          | Some (v, l) => Some (v, here ++ l)
          | None => None
          end in
        let fragment (sub : list selection) (visited' : list name) :=
          match fuel with
          | O => None
          | Datatypes.S fuel' =>
              match s_collect_flat S D E fuel' ot sub visited' with
              | Some (v, l) => then_rest v l
              | None => None
              end
          end in
        if s_excluded E (sel_dirs s) then s_collect_flat S D E fuel ot rest visited
        else match s with
             | SField a n p _ sub =>
                 then_rest visited [(match a with Some k => k | None => n end,
                                     {| fn_name := n; fn_pos := p; fn_sub := sub |})]
             | SSpread n _ _ =>
                 if mem n visited then s_collect_flat S D E fuel ot rest visited
                 else match s_fragment D n with
                      | None => s_collect_flat S D E fuel ot rest (n :: visited)
                      | Some f => if s_applies S ot (fr_cond f) then fragment (fr_sels f) (n :: visited)
                                  else s_collect_flat S D E fuel ot rest (n :: visited)
                      end
             | SInline None _ _ sub => fragment sub visited
             | SInline (Some c) _ _ sub =>
                 if s_applies S ot c then fragment sub visited
                 else s_collect_flat S D E fuel ot rest visited
             end
    end.
  Proof. destruct fuel; destruct sels; reflexivity. Qed.
End Unfold.

(** ** the small correspondences *)
Lemma skipped_eq E ds : skipped E ds = s_excluded E ds.
Proof.
  unfold skipped, s_excluded. induction ds as [|d ds IH]; [reflexivity|].
  cbn [existsb]. rewrite IH. f_equal.
  destruct d as [c dp vp|c dp vp|]; cbn; [| |reflexivity].
  - change (eval_cond E c) with (s_cond E c). destruct (s_cond E c) as [[|]|]; reflexivity.
  - change (eval_cond E c) with (s_cond E c). destruct (s_cond E c) as [[|]|]; reflexivity.
Qed.

Lemma find_frag_fold n l acc :
  fold_left (fun a f => if name_eqb n (fr_name f) then Some f else a) l acc =
  match find_frag n l with Some x => Some x | None => acc end.
Proof.
  revert acc. induction l as [|f l IH]; intro acc; [reflexivity|].
  cbn [fold_left find_frag]. rewrite IH.
  destruct (find_frag n l); [reflexivity|]. destruct (name_eqb n (fr_name f)); reflexivity.
Qed.

Lemma find_frag_eq D n : find_frag n (frags D) = s_fragment D n.
Proof.
  unfold s_fragment. rewrite find_frag_fold. destruct (find_frag n (frags D)); reflexivity.
Qed.

Lemma find_frag_in n l f : find_frag n l = Some f -> In f l.
Proof.
  induction l as [|x l IH]; cbn [find_frag]; [discriminate|].
  destruct (find_frag n l) as [y|].
  - intro H. inversion H; subst. right. apply IH. reflexivity.
  - destruct (name_eqb n (fr_name x)); [|discriminate]. intro H; inversion H; subst. left. reflexivity.
Qed.

(** when the type condition is not a leaf or input type, the model's three-way answer is the
    spec's boolean *)
Lemma type_applies_eq S ot c :
  cond_ok S c = true ->
  type_applies S ot c = if s_applies S ot c then ApYes else ApNo.
Proof.
  unfold cond_ok, type_applies, s_applies.
  destruct (lookup_type S c) as [[k|vals|fs ifs|fs|ms|]|]; intro H; try discriminate; try reflexivity.
  destruct (lookup_type S ot) as [[k|vals|fs' ifs|fs'|ms|]|]; reflexivity.
Qed.

(** ** grouping *)
Definition to_spec (g : gfs) : sgroups := map (fun x => (g_key x, g_fields x)) g.
Definition append_flat (flat : list (name * fnode)) (g : gfs) : gfs :=
  fold_left (fun acc kf => gfs_append (fst kf) (snd kf) acc) flat g.

Lemma to_spec_append k f g : to_spec (gfs_append k f g) = sg_add k f (to_spec g).
Proof.
  induction g as [|x r IH]; [reflexivity|].
  cbn [gfs_append to_spec map sg_add]. fold (to_spec r).
  destruct (name_eqb k (g_key x)) eqn:Ek.
  - cbn [map]. unfold g_fields. cbn. reflexivity.
  - cbn [map]. fold (to_spec (gfs_append k f r)). rewrite IH. reflexivity.
Qed.

Lemma to_spec_append_flat flat g :
  to_spec (append_flat flat g) = fold_left (fun acc kf => sg_add (fst kf) (snd kf) acc) flat (to_spec g).
Proof.
  revert g. induction flat as [|kf flat IH]; intro g; [reflexivity|].
  unfold append_flat in *. cbn [fold_left]. rewrite IH. rewrite to_spec_append. reflexivity.
Qed.

Lemma to_spec_group flat : to_spec (append_flat flat []) = s_group flat.
Proof. apply to_spec_append_flat. Qed.

Lemma append_flat_app a b g : append_flat (a ++ b) g = append_flat b (append_flat a g).
Proof. unfold append_flat. apply fold_left_app. Qed.

(** ** the simulation *)
Section Sim.
  Variables (S : schema) (D : document) (E : env).
  Variable b : bool.   (* with or without the directive conjunct: the collection does not care *)
  Hypothesis Hconds : conds_gen S D E b = true.

  Definition subs_ok (flat : list (name * fnode)) : Prop :=
    Forall (fun kf => forallb (sel_conds_gen S E b) (fn_sub (snd kf)) = true) flat.

  Lemma frag_conds_ok n f :
    find_frag n (frags D) = Some f ->
    cond_ok S (fr_cond f) = true /\ forallb (sel_conds_gen S E b) (fr_sels f) = true.
  Proof.
    intro Hf. apply find_frag_in in Hf.
    unfold conds_gen in Hconds. apply andb_true_iff in Hconds as [_ H2].
    rewrite forallb_forall in H2. specialize (H2 f Hf). apply andb_true_iff in H2. exact H2.
  Qed.

  Lemma collect_sim fuel : forall ot sels visited g v flat,
    forallb (sel_conds_gen S E b) sels = true ->
    s_collect_flat S D E fuel ot sels visited = Some (v, flat) ->
    collect_impl S D E fuel ot sels visited g = COk v (append_flat flat g) /\ subs_ok flat.
  Proof.
    induction fuel as [|fuel IHf].
    - (* no fuel: fragments cannot be entered *)
      intros ot sels. induction sels as [|s rest IH]; intros visited g v flat Hok Hs.
      + rewrite s_collect_flat_eq in Hs. inversion Hs; subst. rewrite collect_impl_eq. split; [reflexivity|constructor].
      + rewrite s_collect_flat_eq in Hs. rewrite collect_impl_eq. rewrite skipped_eq.
        cbn [forallb] in Hok. apply andb_true_iff in Hok as [Hs1 Hrest].
        cbv zeta in Hs |- *.
        destruct (s_excluded E (sel_dirs s)); [apply IH; assumption|].
        destruct s as [a n p ds sub|n p ds|tc p ds sub];
          (cbn [sel_conds_gen] in Hs1; apply andb_true_iff in Hs1 as [Hdirs Hs1]).
        * destruct (s_collect_flat S D E 0 ot rest visited) as [[v' l]|] eqn:Er; [|discriminate].
          inversion Hs; subst. destruct (IH visited (gfs_append (response_key a n) {| fn_name := n; fn_pos := p; fn_sub := sub |} g) _ _ Hrest Er) as [H1 H2].
          rewrite H1. split; [reflexivity|]. constructor; [exact Hs1|exact H2].
        * destruct (mem n visited); [apply IH; assumption|].
          rewrite find_frag_eq. destruct (s_fragment D n) as [f|] eqn:Ef; [|apply IH; assumption].
          rewrite <- find_frag_eq in Ef. destruct (frag_conds_ok _ _ Ef) as [Hc _].
          rewrite (type_applies_eq _ _ _ Hc).
          destruct (s_applies S ot (fr_cond f)); [discriminate|apply IH; assumption].
        * destruct tc as [c|]; [|discriminate].
          cbn [sel_conds_gen] in Hs1. apply andb_true_iff in Hs1 as [Hc _].
          rewrite (type_applies_eq _ _ _ Hc).
          destruct (s_applies S ot c); [discriminate|apply IH; assumption].
    - intros ot sels. induction sels as [|s rest IH]; intros visited g v flat Hok Hs.
      + rewrite s_collect_flat_eq in Hs. inversion Hs; subst. rewrite collect_impl_eq. split; [reflexivity|constructor].
      + rewrite s_collect_flat_eq in Hs. rewrite collect_impl_eq. rewrite skipped_eq.
        cbn [forallb] in Hok. apply andb_true_iff in Hok as [Hs1 Hrest].
        cbv zeta in Hs |- *.
        destruct (s_excluded E (sel_dirs s)); [apply IH; assumption|].
        assert (Hfrag : forall sub visited',
                   forallb (sel_conds_gen S E b) sub = true ->
                   match s_collect_flat S D E fuel ot sub visited' with
                   | Some (v0, l) => match s_collect_flat S D E (Datatypes.S fuel) ot rest v0 with
                                     | Some (v1, l0) => Some (v1, l ++ l0)
                                     | None => None
                                     end
                   | None => None
                   end = Some (v, flat) ->
                   match collect_impl S D E fuel ot sub visited' g with
                   | COk v' g' => collect_impl S D E (Datatypes.S fuel) ot rest v' g'
                   | CPanic => CPanic
                   | COutOfFuel => COutOfFuel
                   end = COk v (append_flat flat g) /\ subs_ok flat).
        { intros sub visited' Hsub Hm.
          destruct (s_collect_flat S D E fuel ot sub visited') as [[v0 l]|] eqn:Esub; [|discriminate].
          destruct (s_collect_flat S D E (Datatypes.S fuel) ot rest v0) as [[v1 l0]|] eqn:Er; [|discriminate].
          inversion Hm; subst.
          destruct (IHf ot sub visited' g _ _ Hsub Esub) as [H1 H2]. rewrite H1.
          destruct (IH v0 (append_flat l g) _ _ Hrest Er) as [H3 H4]. rewrite H3.
          rewrite append_flat_app. split; [reflexivity|]. apply Forall_app. split; assumption. }
        destruct s as [a n p ds sub|n p ds|tc p ds sub];
          (cbn [sel_conds_gen] in Hs1; apply andb_true_iff in Hs1 as [Hdirs Hs1]).
        * destruct (s_collect_flat S D E (Datatypes.S fuel) ot rest visited) as [[v' l]|] eqn:Er; [|discriminate].
          inversion Hs; subst. destruct (IH visited (gfs_append (response_key a n) {| fn_name := n; fn_pos := p; fn_sub := sub |} g) _ _ Hrest Er) as [H1 H2].
          rewrite H1. split; [reflexivity|]. constructor; [exact Hs1|exact H2].
        * destruct (mem n visited); [apply IH; assumption|].
          rewrite find_frag_eq. destruct (s_fragment D n) as [f|] eqn:Ef; [|apply IH; assumption].
          rewrite <- find_frag_eq in Ef. destruct (frag_conds_ok _ _ Ef) as [Hc Hfs].
          rewrite (type_applies_eq _ _ _ Hc).
          destruct (s_applies S ot (fr_cond f)); [|apply IH; assumption].
          apply Hfrag; assumption.
        * cbn [sel_conds_gen] in Hs1. apply andb_true_iff in Hs1 as [Hc Hsub].
          destruct tc as [c|].
          -- rewrite (type_applies_eq _ _ _ Hc).
             destruct (s_applies S ot c); [|apply IH; assumption].
             apply Hfrag; assumption.
          -- apply Hfrag; assumption.
  Qed.
End Sim.
