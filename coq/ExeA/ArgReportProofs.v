(** * ExeA/ArgReportProofs.v — what the executor RETURNS does not depend on what it has reported.

    Without the memo cache the executor's state is only the list of errors reported so far; no
    function of the executor reads it.  Hence two executors that differ only in how they report
    the directives they cannot evaluate ([report], [fixd]) finish the same way with the same data:
    in particular the silent executor [silent_nomemo], for which the simulation against the
    reference needs no hypothesis about directives, and the real one. *)
From Coq Require Import List NArith ZArith Bool.
From ApiFu Require Import Base.Sexp ExeA.ArgData ExeA.ArgArgs ExeA.ArgModel ExeA.ArgCacheProofs.
Import ListNotations.

Section Report.
  Variables (M1 M2 : mode) (S : schema) (D : document) (E : env) (fuel : nat).
  Hypothesis Hf1 : fix1 M1 = fix1 M2.
  Hypothesis Hf7 : fix7 M1 = fix7 M2.
  Hypothesis Hm1 : memo M1 = false.
  Hypothesis Hm2 : memo M2 = false.

  (** same result, whatever the two states *)
  Definition rsim (c1 c2 : completer) : Prop :=
    forall ty f0 more path st1 st2, fst (c1 ty f0 more path st1) = fst (c2 ty f0 more path st2).

  Lemma r_catch {A} (null : A) t (y1 y2 : res A * state) :
    fst y1 = fst y2 -> fst (catch_if_nullable null t y1) = fst (catch_if_nullable null t y2).
  Proof.
    destruct y1 as [r1 s1], y2 as [r2 s2]. cbn [fst]. intros <-.
    destruct t; cbn [catch_if_nullable fst]; try reflexivity; destruct r1; reflexivity.
  Qed.

  Lemma r_items t f0 more path items1 items2 :
    Forall2 rsim items1 items2 ->
    forall i st1 st2, fst (complete_items t f0 more path items1 i st1) = fst (complete_items t f0 more path items2 i st2).
  Proof.
    intro H2. induction H2 as [|c1 c2 items1 items2 Hc _ IH]; intros i st1 st2; [reflexivity|].
    cbn [complete_items].
    pose proof (r_catch JNull t _ _ (Hc t f0 more (path ++ [PIdx i]) st1 st2)) as H.
    destruct (catch_if_nullable JNull t (c1 t f0 more (path ++ [PIdx i]) st1)) as [r1 s1].
    destruct (catch_if_nullable JNull t (c2 t f0 more (path ++ [PIdx i]) st2)) as [r2 s2].
    cbn [fst] in H. subst r2. specialize (IH (i + 1)%N s1 s2).
    destruct r1; try reflexivity;
      destruct (complete_items t f0 more path items1 (i + 1)%N s1) as [rr1 t1];
      destruct (complete_items t f0 more path items2 (i + 1)%N s2) as [rr2 t2];
      cbn [fst] in IH; subst rr2; reflexivity.
  Qed.

  Lemma r_collect ot sels st1 st2 :
    fst (collect_fields M1 S D E fuel ot sels st1) = fst (collect_fields M2 S D E fuel ot sels st2).
  Proof.
    unfold collect_fields. rewrite Hm1, Hm2.
    destruct (collect_impl S D E fuel ot sels [] []); reflexivity.
  Qed.

  Lemma r_groups ch1 ch2 ot path :
    (forall k, rsim (ch1 k) (ch2 k)) ->
    forall g st1 st2, fst (exec_groups S ch1 ot path g st1) = fst (exec_groups S ch2 ot path g st2).
  Proof.
    intros Hch g. induction g as [|x rest IH]; intros st1 st2; [reflexivity|]. cbn [exec_groups].
    assert (Hcont : forall kv s1 s2,
               fst (let (rr, st2') := exec_groups S ch1 ot path rest s1 in
                    (match rr with ROk kvs => ROk (kv :: kvs) | _ => rr end, st2')) =
               fst (let (rr, st2') := exec_groups S ch2 ot path rest s2 in
                    (match rr with ROk kvs => ROk (kv :: kvs) | _ => rr end, st2'))).
    { intros kv s1 s2. specialize (IH s1 s2).
      destruct (exec_groups S ch1 ot path rest s1) as [rr1 t1].
      destruct (exec_groups S ch2 ot path rest s2) as [rr2 t2]. cbn [fst] in *. subst rr2. reflexivity. }
    destruct (name_eqb (fn_name (g_first x)) n_typename); [apply Hcont|].
    destruct (get_field S ot (fn_name (g_first x))) as [t| |]; try apply Hcont.
    pose proof (r_catch JNull t _ _
                  (Hch (fn_name (g_first x)) t (g_first x) (g_more x) (path ++ [PKey (g_key x)]) st1 st2)) as H.
    destruct (catch_if_nullable JNull t (ch1 (fn_name (g_first x)) t (g_first x) (g_more x) (path ++ [PKey (g_key x)]) st1)) as [r1 s1].
    destruct (catch_if_nullable JNull t (ch2 (fn_name (g_first x)) t (g_first x) (g_more x) (path ++ [PKey (g_key x)]) st2)) as [r2 s2].
    cbn [fst] in H. subst r2. destruct r1; try reflexivity. apply Hcont.
  Qed.

  Lemma rsim_with_args ch1 ch2 ot :
    (forall k, rsim (ch1 k) (ch2 k)) -> forall k, rsim (with_args S D ch1 ot k) (with_args S D ch2 ot k).
  Proof.
    intros Hch k ty f0 more path st1 st2. unfold with_args.
    destruct (coerce_field_args S D ot f0); [apply Hch|reflexivity|reflexivity].
  Qed.

  Lemma r_selections ch1 ch2 ot sels path st1 st2 :
    (forall k, rsim (ch1 k) (ch2 k)) ->
    fst (exec_selections M1 S D E fuel ch1 ot sels path st1) = fst (exec_selections M2 S D E fuel ch2 ot sels path st2).
  Proof.
    intro Hch0. unfold exec_selections, exec_selections_raw.
    pose proof (rsim_with_args ch1 ch2 ot Hch0) as Hch.
    pose proof (r_collect ot sels st1 st2) as Hc.
    destruct (collect_fields M1 S D E fuel ot sels st1) as [r1 s1].
    destruct (collect_fields M2 S D E fuel ot sels st2) as [r2 s2].
    cbn [fst] in Hc. subst r2. destruct r1 as [g| |]; try reflexivity.
    pose proof (r_groups _ _ ot path Hch g s1 s2) as H.
    destruct (exec_groups S (with_args S D ch1 ot) ot path g s1) as [rr1 t1].
    destruct (exec_groups S (with_args S D ch2 ot) ot path g s2) as [rr2 t2].
    cbn [fst] in *. subst rr2. reflexivity.
  Qed.

  Lemma complete_view_rsim v1 v2 :
    ov_nil v1 = ov_nil v2 -> ov_leaf v1 = ov_leaf v2 -> ov_tag v1 = ov_tag v2 ->
    match ov_items v1, ov_items v2 with
    | Some l1, Some l2 => Forall2 rsim l1 l2
    | None, None => True
    | _, _ => False
    end ->
    (forall k, rsim (ov_field v1 k) (ov_field v2 k)) ->
    rsim (complete_view M1 S D E fuel v1) (complete_view M2 S D E fuel v2).
  Proof.
    intros Hnil Hleaf Htag Hitems Hch ty.
    induction ty as [nm|t IH|t IH]; intros f0 more path st1 st2.
    - cbn [complete_view]. rewrite Hnil. destruct (ov_nil v2); [reflexivity|].
      destruct (lookup_type S nm) as [[k|vals|fs ifs|fs|ms|]|] eqn:El; try reflexivity.
      + rewrite Hf7, Hleaf. destruct (coerce_scalar (fix7 M2) k (ov_leaf v2)); reflexivity.
      + rewrite Hleaf. destruct (coerce_enum vals (ov_leaf v2)); reflexivity.
      + apply r_selections; assumption.
      + rewrite Htag. destruct (first_is_type_of (ov_tag v2) (impls_of S nm)); [|reflexivity].
        apply r_selections; assumption.
      + rewrite Htag. destruct (first_is_type_of (ov_tag v2) ms); [|reflexivity].
        apply r_selections; assumption.
    - cbn [complete_view]. rewrite Hnil. destruct (ov_nil v2); [reflexivity|].
      destruct (ov_items v1) as [l1|], (ov_items v2) as [l2|]; try (destruct Hitems; fail); [|reflexivity].
      pose proof (r_items t f0 more path l1 l2 Hitems 0%N st1 st2) as H.
      destruct (complete_items t f0 more path l1 0%N st1) as [r1 s1].
      destruct (complete_items t f0 more path l2 0%N st2) as [r2 s2].
      cbn [fst] in *. subst r2. reflexivity.
    - cbn [complete_view]. fold (complete_view M1 S D E fuel v1). fold (complete_view M2 S D E fuel v2).
      specialize (IH f0 more path st1 st2).
      destruct (complete_view M1 S D E fuel v1 t f0 more path st1) as [r1 s1].
      destruct (complete_view M2 S D E fuel v2 t f0 more path st2) as [r2 s2].
      cbn [fst] in *. subst r2. rewrite Hf1.
      destruct r1 as [j|e| |]; try reflexivity.
      + destruct j; reflexivity.
      + destruct (fix1 M2); reflexivity.
  Qed.

  Lemma rsim_err : rsim err_completer err_completer.
  Proof. intros ty f0 more path st1 st2. reflexivity. Qed.

  Lemma rsim_field_of l1 l2 :
    Forall2 (fun a b => fst a = fst b /\ rsim (snd a) (snd b)) l1 l2 ->
    forall k, rsim (field_of l1 k) (field_of l2 k).
  Proof.
    intros H k. unfold field_of. induction H as [|[k1 c1] [k2 c2] l1 l2 [Hk Hc] _ IH]; cbn [assoc].
    - apply rsim_err.
    - cbn [fst snd] in *. subst k2. destruct (name_eqb k k1); [exact Hc|exact IH].
  Qed.

  Lemma complete_rsim o : rsim (complete M1 S D E fuel o) (complete M2 S D E fuel o).
  Proof.
    induction o as [| | |g|l IH|t fs IH] using outcome_ind2;
      try (apply complete_view_rsim; cbn; try reflexivity; try exact I; intro k; apply rsim_err).
    - apply complete_view_rsim; cbn [ov_nil ov_leaf ov_items ov_tag ov_field]; try reflexivity;
        try (intro k; apply rsim_err).
      induction IH as [|x l Hx _ IHl]; cbn [map]; constructor; assumption.
    - apply complete_view_rsim; cbn [ov_nil ov_leaf ov_items ov_tag ov_field]; try reflexivity; try exact I.
      apply rsim_field_of. induction IH as [|[k o'] fs Ho _ IHfs]; cbn [map]; constructor; [|exact IHfs].
      cbn [fst snd] in *. split; [reflexivity|]. destruct o'; try exact Ho. apply rsim_err.
  Qed.

  Lemma children_rsim o k : rsim (children_of M1 S D E fuel o k) (children_of M2 S D E fuel o k).
  Proof.
    destruct o as [| | |g|l|t fs]; cbn [children_of]; try apply rsim_err.
    apply rsim_field_of. induction fs as [|[k' o'] fs IH]; cbn [map]; constructor; [|exact IH].
    cbn [fst snd]. split; [reflexivity|]. destruct o'; try apply complete_rsim. apply rsim_err.
  Qed.

  (** the two executors finish the same way, with the same data *)
  Definition same_outcome (r1 r2 : run_result) : Prop :=
    match r1, r2 with
    | Done d1 _, Done d2 _ => d1 = d2
    | Panic, Panic => True
    | OutOfFuel, OutOfFuel => True
    | _, _ => False
    end.

  Theorem run_report_independent W : same_outcome (run M1 S D E fuel W) (run M2 S D E fuel W).
  Proof.
    unfold run. destruct (root_type S (op_kind D)) as [rt|]; [|reflexivity].
    pose proof (r_selections (children_of M1 S D E fuel W) (children_of M2 S D E fuel W) rt (op_sels D) []
                             init_state init_state (children_rsim W)) as H.
    destruct (exec_selections M1 S D E fuel (children_of M1 S D E fuel W) rt (op_sels D) [] init_state) as [r1 s1].
    destruct (exec_selections M2 S D E fuel (children_of M2 S D E fuel W) rt (op_sels D) [] init_state) as [r2 s2].
    cbn [fst] in H. subst r2. destruct r1; cbn; try reflexivity; exact I.
  Qed.
End Report.
