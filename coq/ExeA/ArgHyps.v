(** * ExeA/ArgHyps.v — the side conditions of the C01 theorems as boolean predicates (evaluated on
    every generated case by ExecCheck).  Definitions only. *)
From Coq Require Import List NArith ZArith Bool.
From ApiFu Require Import Base.Sexp ExeA.ArgData ExeA.ArgSpec.
Import ListNotations.

(** every selection node of the document, at any depth, operation and fragment definitions *)
Fixpoint sub_sels (s : selection) : list selection :=
  s :: match s with
       | SField _ _ _ _ sub => flat_map sub_sels sub
       | SInline _ _ _ sub => flat_map sub_sels sub
       | SSpread _ _ _ => []
       end.
Definition all_sels (D : document) : list selection :=
  flat_map sub_sels (op_sels D) ++ flat_map (fun f => flat_map sub_sels (fr_sels f)) (frags D).

(** no two selection nodes share a position (parsed documents: distinct nodes start at distinct
    tokens; C06), lines below 2^24 and columns below 2^32 (the cache key stores uint32) *)
Fixpoint nodup_posb (l : list pos) : bool :=
  match l with
  | [] => true
  | p :: r => negb (existsb (pos_eqb p) r) && nodup_posb r
  end.
Definition pos_smallb (s : selection) : bool :=
  N.ltb (line (sel_pos s)) 16777216 && N.ltb (col (sel_pos s)) 4294967296.
Definition doc_positions_okb (D : document) : bool :=
  nodup_posb (map sel_pos (all_sels D)) && forallb pos_smallb (all_sels D).

(** type names contain no zero byte (schema.New only accepts names made of letters, digits, underscore) *)
Definition name_okb (n : name) : bool := forallb (fun b => negb (N.eqb b 0)) n.
Definition type_names_okb (S : schema) : bool :=
  forallb (fun p => name_okb (fst p) &&
                    match snd p with NUnion ms => forallb name_okb ms | _ => true end) (types S)
  && name_okb (query S)
  && match mutation S with Some m => name_okb m | None => true end
  && match subscription S with Some m => name_okb m | None => true end.

(** every @skip/@include condition of the document has a boolean value: a literal, or a variable
    whose coerced value is a boolean.  CoerceVariableValues guarantees it for every variable of a
    validated operation except a nullable variable with a default that is explicitly given null
    (and then collectFields reports an error for the directive and leaves the selection out). *)
Definition dirs_evaluable (D : document) (E : env) : bool := forallb (dirs_ok E) (all_sels D).

(** ** levels of field nesting, fragment spreads expanded (ArgLevelProofs.v; Properties/C01.v,
    C01_doc_ok_intro).  [lv D sels n]: at most [n] levels; a derivation exists only when the
    expansion terminates.  [levels D k sels] computes the number with [k] as fuel of the
    expansion ([None]: the fuel ran out). *)
Section LevelDefs.
  Variable D : document.
  Inductive lv : list selection -> nat -> Prop :=
  | lv_nil n : lv [] n
  | lv_field a f p d sub r n : lv sub n -> lv r (Datatypes.S n) -> lv (SField a f p d sub :: r) (Datatypes.S n)
  | lv_inline tc p d sub r n : lv sub n -> lv r n -> lv (SInline tc p d sub :: r) n
  | lv_spread_unknown f p d r n : s_fragment D f = None -> lv r n -> lv (SSpread f p d :: r) n
  | lv_spread f p d fr r n : s_fragment D f = Some fr -> lv (fr_sels fr) n -> lv r n -> lv (SSpread f p d :: r) n.

End LevelDefs.

Definition omax (a b : option nat) : option nat :=
  match a, b with Some x, Some y => Some (Nat.max x y) | _, _ => None end.

Section LevelCompute.
  Variable D : document.
  Fixpoint levels_sel (k : nat) : selection -> option nat :=
    fix ls (s : selection) : option nat :=
      match s with
      | SField _ _ _ _ sub => option_map Datatypes.S (fold_right (fun x acc => omax (ls x) acc) (Some 0%nat) sub)
      | SInline _ _ _ sub => fold_right (fun x acc => omax (ls x) acc) (Some 0%nat) sub
      | SSpread f _ _ =>
          match k with
          | O => None
          | Datatypes.S k' =>
              match s_fragment D f with
              | Some fr => fold_right (fun x acc => omax (levels_sel k' x) acc) (Some 0%nat) (fr_sels fr)
              | None => Some 0%nat
              end
          end
      end.
  Definition levels (k : nat) (sels : list selection) : option nat :=
    fold_right (fun x acc => omax (levels_sel k x) acc) (Some 0%nat) sels.

End LevelCompute.

Section GroupLocal.
  Variables (S : schema) (D : document).
  (** what a group needs apart from the recursion: it is not empty, its field is __typename, a
      meta-field, or defined with an output type, and its arguments do not make the coercion code
      panic; [Q] is required again of the merged sub-selections, for every possible object type *)
  Definition group_local (Q : name -> list selection -> Prop) (ot : name) (kf : name * list fnode) : Prop :=
    match snd kf with
    | [] => False
    | f :: _ =>
        match s_field_kind S ot (fn_name f) with
        | SFTypename | SFMeta => True
        | SFUndefined => False
        | SFType t =>
            args_total S D ot f = true /\
            match lookup_type S (sty_base t) with
            | Some (NScalar _) | Some (NEnum _) => True
            | Some (NObject _ _) | Some (NInterface _) | Some (NUnion _) =>
                forall ot', In ot' (s_possible S (sty_base t)) -> Q ot' (s_merge_selection_sets (snd kf))
            | Some NInput | None => False
            end
        end
    end.

End GroupLocal.

(** ** no fragment reaches itself (the form in which C01 uses C04_spreads_silent_acyclic).
    [spread_names sels]: the names of all fragment spreads occurring in [sels] at any depth (inside
    fields and inline fragments).  [chain D sels l]: [l = F1 :: F2 :: ...] is a path of the
    spread graph that starts in [sels]: F1 is spread in [sels], F2 in the body of F1, ...; every
    fragment of it is defined.  [acyclic_frags D]: no defined fragment occurs in a chain that
    starts in its own body. *)
Definition spread_names (sels : list selection) : list name :=
  flat_map (fun s => flat_map (fun t => match t with SSpread n _ _ => [n] | _ => [] end) (sub_sels s)) sels.

Inductive chain (D : document) : list selection -> list name -> Prop :=
| chain_nil sels : chain D sels []
| chain_cons sels F fr l :
    In F (spread_names sels) -> s_fragment D F = Some fr -> chain D (fr_sels fr) l -> chain D sels (F :: l).

Definition acyclic_frags (D : document) : Prop :=
  forall F fr l, s_fragment D F = Some fr -> chain D (fr_sels fr) l -> ~ In F l.
