(** * ExeA/ArgHyps.v — the side conditions of the C01 theorems as boolean predicates (evaluated on
    every generated case by ExecCheck).  Definitions only. *)
From Coq Require Import List NArith ZArith Bool.
From ApiFu Require Import Base.Sexp ExeA.ArgData ExeA.ArgSpec.
Import ListNotations.

(** every selection node of the document, at any depth, operation and fragment definitions *)
Fixpoint sub_sels (s : selection) : list selection :=
  s :: match s with
       | SField _ _ _ _ sub => flat_map sub_sels sub
       | SInline _ _ _ sub => flat_map sub_sels sub
       | SSpread _ _ _ => []
       end.
Definition all_sels (D : document) : list selection :=
  flat_map sub_sels (op_sels D) ++ flat_map (fun f => flat_map sub_sels (fr_sels f)) (frags D).

(** no two selection nodes share a position (parsed documents: distinct nodes start at distinct
    tokens; C06), lines below 2^24 and columns below 2^32 (the cache key stores uint32) *)
Fixpoint nodup_posb (l : list pos) : bool :=
  match l with
  | [] => true
  | p :: r => negb (existsb (pos_eqb p) r) && nodup_posb r
  end.
Definition pos_smallb (s : selection) : bool :=
  N.ltb (line (sel_pos s)) 16777216 && N.ltb (col (sel_pos s)) 4294967296.
Definition doc_positions_okb (D : document) : bool :=
  nodup_posb (map sel_pos (all_sels D)) && forallb pos_smallb (all_sels D).

(** type names contain no zero byte (schema.New only accepts names made of letters, digits, underscore) *)
Definition name_okb (n : name) : bool := forallb (fun b => negb (N.eqb b 0)) n.
Definition type_names_okb (S : schema) : bool :=
  forallb (fun p => name_okb (fst p) &&
                    match snd p with NUnion ms => forallb name_okb ms | _ => true end) (types S)
  && name_okb (query S)
  && match mutation S with Some m => name_okb m | None => true end
  && match subscription S with Some m => name_okb m | None => true end.

(** every @skip/@include condition of the document has a boolean value: a literal, or a variable
    whose coerced value is a boolean.  CoerceVariableValues guarantees it for every variable of a
    validated operation except a nullable variable with a default that is explicitly given null
    (and then collectFields reports an error for the directive and leaves the selection out). *)
Definition dirs_evaluable (D : document) (E : env) : bool := forallb (dirs_ok E) (all_sels D).
